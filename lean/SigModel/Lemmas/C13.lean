/-
Helper lemmas for C13 (tenant / index isolation): the derivative matcher on the regular expressions that
arise from metacharacter-free wildcard elements, membership characterisations of `expand`, and the
invariants of the rotated-segment metadata.
-/
import SigModel.Model.Tenant

namespace SigModel.Lemmas.C13
open SigModel.Tenant

/-! ### smart constructors -/

theorem mkCat_empty_left (b : Re) : mkCat .empty b = .empty := by simp [mkCat]

theorem mkCat_eps_left (b : Re) : mkCat .eps b = b := by
  unfold mkCat
  by_cases h : b = .empty <;> simp [h]

theorem mkAlt_empty_left (b : Re) : mkAlt .empty b = b := by simp [mkAlt]

theorem mkAlt_empty_right (a : Re) : mkAlt a .empty = a := by
  unfold mkAlt
  by_cases h : a = .empty <;> simp [h]

theorem prefixMatch_empty (s : Name) (st : Bool) : prefixMatch .empty s st = false := by
  induction s generalizing st with
  | nil => simp [prefixMatch, nullable]
  | cons c s ih => simp [prefixMatch, nullable, deriv, ih]

theorem prefixMatch_alt_mkAlt (s : Name) :
    (∀ a b st, prefixMatch (.alt a b) s st = (prefixMatch a s st || prefixMatch b s st)) ∧
    (∀ a b st, prefixMatch (mkAlt a b) s st = (prefixMatch a s st || prefixMatch b s st)) := by
  induction s with
  | nil =>
    have h1 : ∀ a b st, prefixMatch (.alt a b) [] st = (prefixMatch a [] st || prefixMatch b [] st) := by
      intro a b st; simp [prefixMatch, nullable]
    refine ⟨h1, ?_⟩
    intro a b st
    unfold mkAlt
    split
    · next h => subst h; simp [prefixMatch_empty]
    · split
      · next h => subst h; simp [prefixMatch_empty]
      · split
        · next h => subst h; simp
        · exact h1 a b st
  | cons c s ih =>
    have h1 : ∀ a b st, prefixMatch (.alt a b) (c :: s) st = (prefixMatch a (c :: s) st || prefixMatch b (c :: s) st) := by
      intro a b st
      simp only [prefixMatch, nullable, deriv, ih.2]
      cases nullable st false a <;> cases nullable st false b <;> simp
    refine ⟨h1, ?_⟩
    intro a b st
    unfold mkAlt
    split
    · next h => subst h; simp [prefixMatch_empty]
    · split
      · next h => subst h; simp [prefixMatch_empty]
      · split
        · next h => subst h; simp
        · exact h1 a b st

theorem prefixMatch_mkAlt (a b : Re) (s : Name) (st : Bool) :
    prefixMatch (mkAlt a b) s st = (prefixMatch a s st || prefixMatch b s st) := (prefixMatch_alt_mkAlt s).2 a b st

/-! ### lexing and parsing the source built from a metacharacter-free element -/

def itemOf (c : Char) : Re := if c = '*' then .star .anyNotNL else .chr c

def tk (c : Char) : List Tok := if c = '*' then [.raw '.', .raw '*'] else [.raw c]

theorem lex_raw (l : List Char) (h : ∀ c ∈ l, c ≠ '\\') : lex l = some (l.map .raw) := by
  induction l with
  | nil => simp [lex]
  | cons c r ih =>
    have hc : c ≠ '\\' := h c (by simp)
    have hr : ∀ d ∈ r, d ≠ '\\' := fun d hd => h d (by simp [hd])
    unfold lex
    simp [hc, ih hr]

theorem plain_of_mem {elem : Name} (h : plainElem elem = true) {c : Char} (hc : c ∈ elem) : c = '*' ∨ isMeta c = false := by
  simp [plainElem, List.all_eq_true] at h
  exact h c hc

theorem replaceStar_map_raw (elem : Name) : (replaceStar elem).map Tok.raw = elem.flatMap tk := by
  induction elem with
  | nil => simp [replaceStar]
  | cons c r ih =>
    by_cases hc : c = '*'
    · simp [replaceStar, hc, tk, ih]
    · simp [replaceStar, hc, tk, ih]

theorem replaceStar_no_backslash (elem : Name) (h : plainElem elem = true) : ∀ c ∈ replaceStar elem, c ≠ '\\' := by
  induction elem with
  | nil => simp [replaceStar]
  | cons d r ih =>
    have hr : plainElem r = true := by
      simp [plainElem, List.all_eq_true] at h ⊢
      exact h.2
    intro c hc
    by_cases hd : d = '*'
    · simp [replaceStar, hd] at hc
      rcases hc with rfl | rfl | hc
      · decide
      · decide
      · exact ih hr c hc
    · simp [replaceStar, hd] at hc
      rcases hc with rfl | hc
      · have := plain_of_mem h (c := c) (by simp)
        rcases this with h1 | h1
        · exact absurd h1 hd
        · intro hb; subst hb; simp [isMeta] at h1
      · exact ih hr c hc

theorem lex_regexSrc (elem : Name) (h : plainElem elem = true) :
    lex (regexSrc elem) = some (.raw '^' :: (elem.flatMap tk ++ [.raw '$'])) := by
  have hb : ∀ c ∈ regexSrc elem, c ≠ '\\' := by
    intro c hc
    simp [regexSrc] at hc
    rcases hc with rfl | hc | rfl
    · decide
    · exact replaceStar_no_backslash elem h c hc
    · decide
  rw [lex_raw _ hb]
  simp [regexSrc, replaceStar_map_raw]

def pushItems (st : PState) (rs : List Re) : PState :=
  { st with cur := { st.cur with items := rs.reverse ++ st.cur.items }, lastRep := false }

def pushStar (st : PState) : PState :=
  { st with cur := { st.cur with items := .star .anyNotNL :: st.cur.items }, lastRep := true }

theorem parseLoop_dollar (st : PState) : parseLoop [.raw '$'] .top st = some (st.push .eot) := by
  simp [parseLoop, isRep]

theorem parseLoop_plainChar (c : Char) (hc : isMeta c = false) (rest : List Tok) (st : PState) :
    parseLoop (.raw c :: rest) .top st = parseLoop rest .top (st.push (.chr c)) := by
  simp [isMeta] at hc
  simp [parseLoop, isRep, hc]

theorem parseLoop_dotStar (q : Tok) (hq : q ≠ .raw '?') (rest : List Tok) (st : PState) :
    parseLoop (.raw '.' :: .raw '*' :: q :: rest) .top st = parseLoop (q :: rest) .top (pushStar st) := by
  simp [parseLoop, isRep, PState.rep, PState.push, hq, pushStar]

theorem head_flatMap_tk (r : Name) (h : plainElem r = true) :
    ∃ q rest, r.flatMap tk ++ [.raw '$'] = q :: rest ∧ q ≠ .raw '?' := by
  cases r with
  | nil => exact ⟨.raw '$', [], by simp, by decide⟩
  | cons d r' =>
    by_cases hd : d = '*'
    · exact ⟨.raw '.', .raw '*' :: (r'.flatMap tk ++ [.raw '$']), by simp [tk, hd], by decide⟩
    · refine ⟨.raw d, r'.flatMap tk ++ [.raw '$'], by simp [tk, hd], ?_⟩
      have := plain_of_mem h (c := d) (by simp)
      rcases this with h1 | h1
      · exact absurd h1 hd
      · intro hq
        injection hq with hq
        subst hq
        simp [isMeta] at h1

theorem plainElem_tail {c : Char} {r : Name} (h : plainElem (c :: r) = true) : plainElem r = true := by
  simp [plainElem, List.all_eq_true] at h ⊢
  exact h.2

theorem parseLoop_plain (elem : Name) (h : plainElem elem = true) (st : PState) :
    parseLoop (elem.flatMap tk ++ [.raw '$']) .top st = some (pushItems st (elem.map itemOf ++ [.eot])) := by
  induction elem generalizing st with
  | nil => simp [parseLoop_dollar, pushItems, PState.push]
  | cons c r ih =>
    have hr := plainElem_tail h
    by_cases hc : c = '*'
    · obtain ⟨q, rest, hq, hne⟩ := head_flatMap_tk r hr
      have : (c :: r).flatMap tk ++ [.raw '$'] = .raw '.' :: .raw '*' :: q :: rest := by
        simp [tk, hc, ← hq]
      rw [this, parseLoop_dotStar q hne, ← hq, ih hr]
      simp [pushItems, pushStar, itemOf, hc]
    · have hm : isMeta c = false := by
        rcases plain_of_mem h (c := c) (by simp) with h1 | h1
        · exact absurd h1 hc
        · exact h1
      have : (c :: r).flatMap tk ++ [.raw '$'] = .raw c :: (r.flatMap tk ++ [.raw '$']) := by
        simp [tk, hc]
      rw [this, parseLoop_plainChar c hm, ih hr]
      simp [pushItems, PState.push, itemOf, hc]

theorem compile_plain (elem : Name) (h : plainElem elem = true) :
    compile (regexSrc elem) = some (.cat .bot (catList (elem.map itemOf ++ [.eot]))) := by
  have h1 : parseLoop (.raw '^' :: (elem.flatMap tk ++ [.raw '$'])) .top {} =
      parseLoop (elem.flatMap tk ++ [.raw '$']) .top (({} : PState).push .bot) := by
    simp [parseLoop, isRep]
  simp only [compile, lex_regexSrc elem h, h1, parseLoop_plain elem h]
  have hne : elem.map itemOf ++ [Re.eot] ≠ [] := by simp
  cases hl : elem.map itemOf ++ [Re.eot] with
  | nil => exact absurd hl hne
  | cons x xs => simp [pushItems, PState.push, Frame.close, altList, catList]

/-! ### the matcher on `^ items $` -/

theorem prefixMatch_bot_true (R : Re) (s : Name) : prefixMatch (.cat .bot R) s true = prefixMatch R s true := by
  cases s with
  | nil => simp [prefixMatch, nullable]
  | cons c s => simp [prefixMatch, nullable, deriv, mkCat_empty_left, mkAlt_empty_left]

theorem prefixMatch_bot_false (R : Re) (s : Name) : prefixMatch (.cat .bot R) s false = false := by
  cases s with
  | nil => simp [prefixMatch, nullable]
  | cons c s => simp [prefixMatch, nullable, deriv, mkCat_empty_left, mkAlt_empty_left, prefixMatch_empty]

theorem searchFrom_bot_false (R : Re) (s : Name) : searchFrom (.cat .bot R) s false = false := by
  induction s with
  | nil => simp [searchFrom, prefixMatch_bot_false]
  | cons c s ih => simp [searchFrom, prefixMatch_bot_false, ih]

theorem search_bot (R : Re) (s : Name) : search (.cat .bot R) s = prefixMatch R s true := by
  cases s with
  | nil => simp [search, searchFrom, prefixMatch_bot_true]
  | cons c s => simp [search, searchFrom, prefixMatch_bot_true, searchFrom_bot_false]

theorem catList_cons_ne_nil (x : Re) (xs : List Re) (h : xs ≠ []) : catList (x :: xs) = .cat x (catList xs) := by
  cases xs with
  | nil => exact absurd rfl h
  | cons y ys => simp [catList]

theorem catList_items_ne_empty (r : Name) : catList (r.map itemOf ++ [.eot]) ≠ .empty := by
  cases r with
  | nil => simp [catList]
  | cons c r => rw [List.map_cons, List.cons_append, catList_cons_ne_nil _ _ (by simp)]; simp

/-- the heart of `implMatch_eq_glob`: on `items $` the derivative matcher computes the glob match -/
theorem prefixMatch_items (elem : Name) (s : Name) (hs : ∀ c ∈ s, c ≠ '\n') (st : Bool) :
    prefixMatch (catList (elem.map itemOf ++ [.eot])) s st = globMatch elem s := by
  induction elem generalizing s st with
  | nil =>
    cases s with
    | nil => simp [catList, prefixMatch, nullable, globMatch]
    | cons c s => simp [catList, prefixMatch, nullable, deriv, prefixMatch_empty, globMatch]
  | cons g r ih =>
    rw [List.map_cons, List.cons_append, catList_cons_ne_nil _ _ (by simp)]
    by_cases hg : g = '*'
    · -- `.*` followed by the rest
      simp only [itemOf, hg, if_true, globMatch]
      induction s generalizing st with
      | nil =>
        have := ih [] (by simp) st
        simp [prefixMatch, nullable, globStar] at this ⊢
        exact this
      | cons d s ihs =>
        have hd : d ≠ '\n' := hs d (by simp)
        have hs' : ∀ c ∈ s, c ≠ '\n' := fun c hc => hs c (by simp [hc])
        have hR := ih (d :: s) hs st
        have hQ := ihs hs' false
        have hne := catList_items_ne_empty r
        simp only [prefixMatch] at hR
        simp only [prefixMatch, nullable, deriv, hd, if_false, mkCat_eps_left, Bool.true_and, if_true,
          prefixMatch_mkAlt, globStar]
        have hcat : mkCat (Re.star Re.anyNotNL) (catList (r.map itemOf ++ [Re.eot])) =
            .cat (.star .anyNotNL) (catList (r.map itemOf ++ [.eot])) := by
          simp [mkCat, hne]
        rw [hcat, hQ, ← hR]
        cases nullable st false (catList (r.map itemOf ++ [Re.eot])) <;>
          cases globStar (globMatch r) s <;> simp
    · -- an ordinary character
      simp only [itemOf, hg, if_false, globMatch]
      cases s with
      | nil => simp [prefixMatch, nullable]
      | cons d s =>
        have hs' : ∀ c ∈ s, c ≠ '\n' := fun c hc => hs c (by simp [hc])
        by_cases hdg : d = g
        · subst hdg
          simp [prefixMatch, nullable, deriv, mkCat_eps_left, mkAlt_empty_right, ih s hs' false]
        · have hgd : ¬ g = d := fun h => hdg h.symm
          simp [prefixMatch, nullable, deriv, hdg, hgd, mkCat_empty_left, mkAlt_empty_left, prefixMatch_empty]

/-- KEY LEMMA: for an element whose non-`*` characters are all ordinary characters, the regular
expression the code builds compiles and (although used unanchored) matches exactly the glob pattern -/
theorem implMatch_eq_glob (elem name : Name) (h : plainElem elem = true) (hn : ∀ c ∈ name, c ≠ '\n') :
    implMatch elem name = some (globMatch elem name) := by
  simp [implMatch, compile_plain elem h, search_bot, prefixMatch_items elem name hn]

/-! ### glob facts -/

theorem globStar_of_rest (rest : Name → Bool) (s : Name) (h : rest s = true) : globStar rest s = true := by
  cases s with
  | nil => simpa [globStar] using h
  | cons c s => simp [globStar, h]

theorem globMatch_self (p : Name) : globMatch p p = true := by
  induction p with
  | nil => simp [globMatch]
  | cons c p ih =>
    by_cases hc : c = '*'
    · simp only [globMatch, hc, if_true, globStar]
      simp [globStar_of_rest _ p ih]
    · simp [globMatch, hc, ih]

/-! ### membership in the result of `expand` -/

theorem mem_insertU (x y : Name) (l : List Name) : x ∈ insertU y l ↔ x = y ∨ x ∈ l := by
  induction l with
  | nil => simp [insertU]
  | cons z r ih =>
    unfold insertU
    split
    · next h => subst h; simp
    · split
      · simp
      · simp [ih]; constructor
        · rintro (h | h | h) <;> simp [h]
        · rintro (h | h | h) <;> simp [h]

theorem mem_sortU (x : Name) (l : List Name) : x ∈ sortU l ↔ x ∈ l := by
  induction l with
  | nil => simp [sortU]
  | cons y r ih =>
    have : sortU (y :: r) = insertU y (sortU r) := by simp [sortU]
    rw [this, mem_insertU, ih]; simp

theorem sortU_eq_nil (l : List Name) (h : sortU l = []) : l = [] := by
  cases l with
  | nil => rfl
  | cons y r =>
    have : y ∈ sortU (y :: r) := (mem_sortU y (y :: r)).2 (by simp)
    rw [h] at this; simp at this

theorem mem_collectElems (f : Name → Option (List Name)) (elems : List Name) (l : List Name)
    (h : collectElems f elems = some l) (x : Name) :
    x ∈ l ↔ ∃ e ∈ elems, ∃ le, f e = some le ∧ x ∈ le := by
  induction elems generalizing l with
  | nil => simp [collectElems] at h; subst h; simp
  | cons e r ih =>
    unfold collectElems at h
    cases hf : f e with
    | none => simp [hf] at h
    | some le =>
      cases hr : collectElems f r with
      | none => simp [hf, hr] at h
      | some l' =>
        simp [hf, hr] at h
        subst h
        simp [List.mem_append, ih l' hr, hf]

theorem mem_tablesOf (org : Org) (T : List (Org × Name)) (x : Name) : x ∈ tablesOf org T ↔ (org, x) ∈ T := by
  simp only [tablesOf, List.mem_filterMap]
  constructor
  · rintro ⟨⟨o, n⟩, hm, hp⟩
    by_cases ho : o = org
    · simp [ho] at hp; subst hp; subst ho; exact hm
    · simp [ho] at hp
  · intro h; exact ⟨(org, x), h, by simp⟩

theorem mem_aliasTargets (org : Org) (a : Name) (A : List AliasEntry) (x : Name) :
    x ∈ aliasTargets org a A ↔ ∃ e ∈ A, e.org = org ∧ e.alias = a ∧ x ∈ e.targets := by
  simp [aliasTargets, aliasesOf, List.mem_flatMap, List.mem_filter, and_assoc]
  constructor
  · rintro ⟨e, he, h1, h2, h3⟩; exact ⟨e, he, h2, h1, h3⟩
  · rintro ⟨e, he, h1, h2, h3⟩; exact ⟨e, he, h2, h1, h3⟩

/-- where a name produced by one element of the comma list comes from -/
theorem mem_expandElem (org : Org) (T : List (Org × Name)) (A : List AliasEntry) (elem : Name) (le : List Name)
    (h : expandElem org T A elem = some le) (x : Name) (hx : x ∈ le) :
    (containsStar elem = true ∧ ∃ re, compile (regexSrc elem) = some re ∧
        ((∃ e ∈ A, e.org = org ∧ search re e.alias = true ∧ x ∈ e.targets) ∨
         ((org, x) ∈ T ∧ search re x = true))) ∨
    (containsStar elem = false ∧ ∃ e ∈ A, e.org = org ∧ e.alias = elem ∧ x ∈ e.targets) ∨
    (containsStar elem = false ∧ aliasPresent org elem A = false ∧ x = elem) := by
  unfold expandElem at h
  by_cases hs : containsStar elem = true
  · simp only [hs, if_true] at h
    by_cases hex : isExcluded elem = true
    · simp [hex] at h; subst h; simp at hx
    · simp only [hex] at h
      cases hc : compile (regexSrc elem) with
      | none => simp [hc] at h
      | some re =>
        simp [hc] at h
        subst h
        left
        refine ⟨hs, re, rfl, ?_⟩
        simp only [List.mem_append, List.mem_flatMap, List.mem_filter, aliasesOf] at hx
        rcases hx with ⟨e, ⟨⟨he, ho⟩, hm⟩, hxe⟩ | ⟨hxt, hm⟩
        · left; exact ⟨e, he, by simpa using ho, hm, hxe⟩
        · right; exact ⟨(mem_tablesOf org T x).1 hxt, hm⟩
  · have hs' : containsStar elem = false := by simpa using hs
    simp only [hs', Bool.false_eq_true, if_false] at h
    by_cases hp : aliasPresent org elem A = true
    · simp [hp] at h; subst h
      right; left
      exact ⟨hs', (mem_aliasTargets org elem A x).1 hx⟩
    · have hp' : aliasPresent org elem A = false := by simpa using hp
      simp [hp'] at h; subst h
      right; right
      exact ⟨hs', hp', by simpa using hx⟩

/-- the two shapes of a non-empty answer of `expand` -/
theorem mem_expand (expr : Name) (org : Org) (es : Bool) (T : List (Org × Name)) (A : List AliasEntry) (x : Name)
    (hx : x ∈ expand expr org es T A) :
    ∃ l, collect (stripColon expr) org es T A = some l ∧
      ((l = [] ∧ x = stripColon expr ∧ isExcluded (stripColon expr) = false) ∨ x ∈ l) := by
  unfold expand at hx
  cases hc : collect (stripColon expr) org es T A with
  | none => simp [hc] at hx
  | some l =>
    simp only [hc] at hx
    refine ⟨l, rfl, ?_⟩
    by_cases hl : l.isEmpty = true
    · have : l = [] := by simpa using hl
      subst this
      by_cases hex : isExcluded (stripColon expr) = true
      · simp [hex] at hx
      · simp [hex] at hx
        left; exact ⟨rfl, hx, by simpa using hex⟩
    · simp [hl] at hx
      right; exact (mem_sortU x l).1 hx

theorem tablesOf_filter (o : Org) (q : Org × Name → Bool) (T : List (Org × Name))
    (h : ∀ p ∈ T, p.1 = o → q p = true) : tablesOf o (T.filter q) = tablesOf o T := by
  induction T with
  | nil => rfl
  | cons p r ih =>
    have ihr := ih (fun p hp => h p (by simp [hp]))
    by_cases hq : q p = true
    · simp only [tablesOf] at ihr ⊢
      rw [List.filter_cons_of_pos hq, List.filterMap_cons, List.filterMap_cons, ihr]
    · have hpo : ¬ p.1 = o := fun e => hq (h p (by simp) e)
      simp only [tablesOf] at ihr ⊢
      rw [List.filter_cons_of_neg hq, List.filterMap_cons, ihr]
      simp [hpo]

/-! ### the rotated-segment metadata -/

theorem lookupT_putT (n t : Name) (v : List Seg) (b : List (Name × List Seg)) :
    lookupT n (putT t v b) = if n = t then some v else lookupT n b := by
  induction b with
  | nil =>
    by_cases h : n = t
    · simp [putT, lookupT, h]
    · have : ¬ t = n := fun e => h e.symm
      simp [putT, lookupT, h, this]
  | cons p r ih =>
    obtain ⟨k, w⟩ := p
    by_cases hk : k = t
    · subst hk
      by_cases hn : n = k
      · subst hn; simp [putT, lookupT]
      · have : ¬ k = n := fun e => hn e.symm
        simp [putT, lookupT, hn, this]
    · by_cases hn : k = n
      · subst hn
        have : ¬ k = t := hk
        simp [putT, lookupT, hk]
      · simp [putT, lookupT, hk, hn, ih]

theorem lookupT_eraseT (n t : Name) (b : List (Name × List Seg)) :
    lookupT n (eraseT t b) = if n = t then none else lookupT n b := by
  induction b with
  | nil => simp [eraseT, lookupT]
  | cons p r ih =>
    obtain ⟨k, w⟩ := p
    by_cases hk : k = t
    · subst hk
      by_cases hn : n = k
      · subst hn; simp [eraseT, ih]
      · have : ¬ k = n := fun e => hn e.symm
        simp [eraseT, lookupT, ih, hn, this]
    · by_cases hn : k = n
      · subst hn; simp [eraseT, lookupT, hk]
      · simp [eraseT, lookupT, hk, hn, ih]

/-- distinct segment keys -/
def DistinctKeys (segs : List Seg) : Prop := segs.Pairwise (fun a b => a.key ≠ b.key)

theorem eq_of_key_eq {L : List Seg} (hd : DistinctKeys L) {a b : Seg} (ha : a ∈ L) (hb : b ∈ L) (hk : a.key = b.key) : a = b := by
  induction L with
  | nil => simp at ha
  | cons x r ih =>
    have hp := List.pairwise_cons.1 hd
    simp only [List.mem_cons] at ha hb
    rcases ha with rfl | ha <;> rcases hb with rfl | hb
    · rfl
    · exact absurd hk (hp.1 b hb)
    · exact absurd hk.symm (hp.1 a ha)
    · exact ih hp.2 ha hb

/-- the metadata holds exactly the segments of `L`, each table's list exactly the segments of that name -/
structure Inv (m : Meta) (L : List Seg) : Prop where
  all : ∀ s, s ∈ m.all ↔ s ∈ L
  tbl : ∀ n s, s ∈ (lookupT n m.byTable).getD [] ↔ s ∈ L ∧ s.table = n

theorem inv_empty : Inv {} [] := ⟨by simp, by simp [lookupT]⟩

theorem inv_add {m : Meta} {L : List Seg} (h : Inv m L) (s' : Seg) (hk : ∀ s ∈ L, s.key ≠ s'.key) :
    Inv (m.add s') (L ++ [s']) := by
  have hany : m.all.any (fun x => decide (x.key = s'.key)) = false := by
    simp only [List.any_eq_false, decide_eq_true_eq]
    intro x hx
    exact hk x ((h.all x).1 hx)
  constructor
  · intro s
    simp [Meta.add, hany, h.all]
  · intro n s
    simp only [Meta.add, hany, Bool.false_eq_true, if_false, lookupT_putT]
    by_cases hn : n = s'.table
    · subst hn
      simp only [if_true, Option.getD_some, List.mem_append, List.mem_singleton, h.tbl]
      constructor
      · rintro (⟨h1, h2⟩ | rfl)
        · exact ⟨Or.inl h1, h2⟩
        · exact ⟨Or.inr rfl, rfl⟩
      · rintro ⟨h1 | rfl, h2⟩
        · exact Or.inl ⟨h1, h2⟩
        · exact Or.inr rfl
    · simp only [hn, if_false, h.tbl, List.mem_append, List.mem_singleton]
      constructor
      · rintro ⟨h1, h2⟩; exact ⟨Or.inl h1, h2⟩
      · rintro ⟨h1 | rfl, h2⟩
        · exact ⟨h1, h2⟩
        · exact absurd h2.symm hn

theorem inv_foldl (segs : List Seg) : ∀ (m : Meta) (L : List Seg), Inv m L → DistinctKeys (L ++ segs) →
    Inv (segs.foldl Meta.add m) (L ++ segs) := by
  induction segs with
  | nil => intro m L h _; simpa using h
  | cons s' r ih =>
    intro m L h hd
    have hd' : DistinctKeys ((L ++ [s']) ++ r) := by simpa [DistinctKeys] using hd
    have hk : ∀ s ∈ L, s.key ≠ s'.key := by
      have := (List.pairwise_append.1 hd).2.2
      intro s hs
      exact this s hs s' (by simp)
    have := ih (m.add s') (L ++ [s']) (inv_add h s' hk) hd'
    simpa using this

theorem inv_ofList (segs : List Seg) (hd : DistinctKeys segs) : Inv (Meta.ofList segs) segs := by
  have := inv_foldl segs {} [] inv_empty (by simpa using hd)
  simpa [Meta.ofList] using this

theorem mem_selectRotated (qlo qhi : Int) (names : List Name) (org : Org) (m : Meta) (s : Seg) :
    s ∈ selectRotated qlo qhi names org m ↔
      ∃ n ∈ names, s ∈ (lookupT n m.byTable).getD [] ∧ overlaps qlo qhi s = true ∧ s.org = org := by
  simp [selectRotated, List.mem_flatMap, List.mem_filter]

/-- what `deleteSegmentKeyWithLock` preserves while the keys of ONE table `t` are deleted -/
theorem deleteKey_preserves {m0 : Meta} {L : List Seg} (hd : DistinctKeys L) (t : Name)
    (m : Meta) (hall : ∀ s ∈ m.all, s ∈ L) (k : Nat) (hk : ∃ s0 ∈ L, s0.key = k ∧ s0.table = t)
    (hb : ∀ n, n ≠ t → lookupT n m.byTable = lookupT n m0.byTable) :
    (∀ s ∈ (m.deleteKey k).all, s ∈ L) ∧ (∀ n, n ≠ t → lookupT n (m.deleteKey k).byTable = lookupT n m0.byTable) := by
  unfold Meta.deleteKey
  cases hf : m.all.find? (fun x => decide (x.key = k)) with
  | none => simp only []; exact ⟨hall, hb⟩
  | some s =>
    have hs_mem : s ∈ m.all := List.mem_of_find?_eq_some hf
    have hs_key : s.key = k := by simpa using List.find?_some hf
    obtain ⟨s0, hs0, hk0, ht0⟩ := hk
    have hst : s.table = t := by
      have := eq_of_key_eq hd (hall s hs_mem) hs0 (hs_key.trans hk0.symm)
      rw [this]; exact ht0
    have hall' : ∀ x ∈ m.all.filter (fun x => decide (x.key ≠ k)), x ∈ L := by
      intro x hx; exact hall x (List.mem_filter.1 hx).1
    simp only []
    split
    · exact ⟨hall', hb⟩
    · cases hl : lookupT s.table m.byTable with
      | none => simp only []; exact ⟨hall', hb⟩
      | some l =>
        simp only []
        refine ⟨hall', ?_⟩
        intro n hn
        rw [lookupT_putT, hst]
        simp [hn, hb n hn]

theorem foldl_deleteKey_preserves {m0 : Meta} {L : List Seg} (hd : DistinctKeys L) (t : Name) (keys : List Nat)
    (hkeys : ∀ k ∈ keys, ∃ s0 ∈ L, s0.key = k ∧ s0.table = t) :
    ∀ (m : Meta), (∀ s ∈ m.all, s ∈ L) → (∀ n, n ≠ t → lookupT n m.byTable = lookupT n m0.byTable) →
      ∀ n, n ≠ t → lookupT n (keys.foldl Meta.deleteKey m).byTable = lookupT n m0.byTable := by
  induction keys with
  | nil => intro m _ hb; simpa using hb
  | cons k r ih =>
    intro m hall hb
    have hp := deleteKey_preserves (m0 := m0) hd t m hall k (hkeys k (by simp)) hb
    simpa using ih (fun k' hk' => hkeys k' (by simp [hk'])) (m.deleteKey k) hp.1 hp.2

/-- the per-table lists after `deleteTable t o`: the WHOLE list of `t` is gone, every other list is untouched -/
theorem lookupT_deleteTable {m : Meta} {L : List Seg} (h : Inv m L) (hd : DistinctKeys L) (t : Name) (o : Org)
    (n : Name) (s : Seg) :
    s ∈ (lookupT n (m.deleteTable t o).byTable).getD [] ↔ n ≠ t ∧ s ∈ L ∧ s.table = n := by
  unfold Meta.deleteTable
  cases hl : lookupT t m.byTable with
  | none =>
    simp only []
    by_cases hn : n = t
    · subst hn; simp [hl]
    · simp [h.tbl, hn]
  | some l =>
    simp only []
    rw [lookupT_eraseT]
    by_cases hn : n = t
    · subst hn; simp
    · simp only [hn, if_false, ne_eq, not_false_eq_true, true_and]
      have hkeys : ∀ k ∈ (l.filter (fun x => decide (x.org = o))).map (·.key), ∃ s0 ∈ L, s0.key = k ∧ s0.table = t := by
        intro k hk
        simp only [List.mem_map, List.mem_filter] at hk
        obtain ⟨s0, ⟨hs0, _⟩, rfl⟩ := hk
        have : s0 ∈ (lookupT t m.byTable).getD [] := by simp [hl, hs0]
        have := (h.tbl t s0).1 this
        exact ⟨s0, this.1, rfl, this.2⟩
      have := foldl_deleteKey_preserves (m0 := m) hd t _ hkeys m (fun s hs => (h.all s).1 hs) (fun _ _ => rfl) n hn
      rw [this, h.tbl]

end SigModel.Lemmas.C13
