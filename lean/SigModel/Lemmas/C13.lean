/-
Helper lemmas for C13 (tenant / index isolation): the derivative matcher on the regular expressions that
arise from metacharacter-free wildcard elements, membership characterisations of `expand`, and the
invariants of the rotated-segment metadata.
-/
import SigModel.Model.Tenant

namespace SigModel.Lemmas.C13
open SigModel.Tenant

/-! ### smart constructors -/

theorem mkCat_empty_left (b : Re) : mkCat .empty b = .empty := by simp [mkCat]

theorem mkCat_eps_left (b : Re) : mkCat .eps b = b := by
  unfold mkCat
  by_cases h : b = .empty <;> simp [h]

theorem mkAlt_empty_left (b : Re) : mkAlt .empty b = b := by simp [mkAlt]

theorem mkAlt_empty_right (a : Re) : mkAlt a .empty = a := by
  unfold mkAlt
  by_cases h : a = .empty <;> simp [h]

theorem prefixMatch_empty (s : Name) (st : Bool) : prefixMatch .empty s st = false := by
  induction s generalizing st with
  | nil => simp [prefixMatch, nullable]
  | cons c s ih => simp [prefixMatch, nullable, deriv, ih]

theorem prefixMatch_alt_mkAlt (s : Name) :
    (∀ a b st, prefixMatch (.alt a b) s st = (prefixMatch a s st || prefixMatch b s st)) ∧
    (∀ a b st, prefixMatch (mkAlt a b) s st = (prefixMatch a s st || prefixMatch b s st)) := by
  induction s with
  | nil =>
    have h1 : ∀ a b st, prefixMatch (.alt a b) [] st = (prefixMatch a [] st || prefixMatch b [] st) := by
      intro a b st; simp [prefixMatch, nullable]
    refine ⟨h1, ?_⟩
    intro a b st
    unfold mkAlt
    split
    · next h => subst h; simp [prefixMatch_empty]
    · split
      · next h => subst h; simp [prefixMatch_empty]
      · split
        · next h => subst h; simp
        · exact h1 a b st
  | cons c s ih =>
    have h1 : ∀ a b st, prefixMatch (.alt a b) (c :: s) st = (prefixMatch a (c :: s) st || prefixMatch b (c :: s) st) := by
      intro a b st
      simp only [prefixMatch, nullable, deriv, ih.2]
      cases nullable st false a <;> cases nullable st false b <;> simp
    refine ⟨h1, ?_⟩
    intro a b st
    unfold mkAlt
    split
    · next h => subst h; simp [prefixMatch_empty]
    · split
      · next h => subst h; simp [prefixMatch_empty]
      · split
        · next h => subst h; simp
        · exact h1 a b st

theorem prefixMatch_mkAlt (a b : Re) (s : Name) (st : Bool) :
    prefixMatch (mkAlt a b) s st = (prefixMatch a s st || prefixMatch b s st) := (prefixMatch_alt_mkAlt s).2 a b st

/-! ### lexing and parsing the quoted source of a wildcard element -/

def itemOf (c : Char) : Re := if c = '*' then .star .anyNotNL else .chr c

def tk (c : Char) : List Tok := if c = '*' then [.raw '.', .raw '*'] else if isMeta c then [.esc c] else [.raw c]

theorem lex_cons_raw (c : Char) (hc : c ≠ '\\') (r : List Char) : lex (c :: r) = (lex r).map (Tok.raw c :: ·) := by
  conv => lhs; unfold lex
  simp [hc]

theorem lex_cons_esc (e : Char) (r : List Char) : lex ('\\' :: e :: r) = (lex r).map (Tok.esc e :: ·) := by
  rw [lex]
  simp

theorem lex_quoteStar (elem : Name) (rest : List Char) (toks : List Tok) (h : lex rest = some toks) :
    lex (quoteStar elem ++ rest) = some (elem.flatMap tk ++ toks) := by
  induction elem with
  | nil => simpa [quoteStar] using h
  | cons c r ih =>
    by_cases hc : c = '*'
    · subst hc
      have : quoteStar ('*' :: r) ++ rest = '.' :: '*' :: (quoteStar r ++ rest) := by simp [quoteStar]
      rw [this, lex_cons_raw '.' (by decide), lex_cons_raw '*' (by decide), ih]
      simp [tk]
    · by_cases hm : isMeta c = true
      · have : quoteStar (c :: r) ++ rest = '\\' :: c :: (quoteStar r ++ rest) := by simp [quoteStar, hc, hm]
        rw [this, lex_cons_esc, ih]
        simp [tk, hc, hm]
      · have hm' : isMeta c = false := by simpa using hm
        have hb : c ≠ '\\' := by intro hb; subst hb; simp [isMeta] at hm'
        have : quoteStar (c :: r) ++ rest = c :: (quoteStar r ++ rest) := by simp [quoteStar, hc, hm']
        rw [this, lex_cons_raw c hb, ih]
        simp [tk, hc, hm']

theorem lex_regexSrc (elem : Name) :
    lex (regexSrc elem) = some (.raw '^' :: (elem.flatMap tk ++ [.raw '$'])) := by
  have h1 : lex ['$'] = some [.raw '$'] := by decide
  rw [regexSrc, lex_cons_raw '^' (by decide), lex_quoteStar elem ['$'] _ h1]
  simp

def pushItems (st : PState) (rs : List Re) : PState :=
  { st with cur := { st.cur with items := rs.reverse ++ st.cur.items }, lastRep := false }

def pushStar (st : PState) : PState :=
  { st with cur := { st.cur with items := .star .anyNotNL :: st.cur.items }, lastRep := true }

theorem parseLoop_dollar (st : PState) : parseLoop [.raw '$'] .top st = some (st.push .eot) := by
  simp [parseLoop, isRep]

theorem parseLoop_plainChar (c : Char) (hc : isMeta c = false) (rest : List Tok) (st : PState) :
    parseLoop (.raw c :: rest) .top st = parseLoop rest .top (st.push (.chr c)) := by
  simp [isMeta] at hc
  simp [parseLoop, isRep, hc]

theorem parseLoop_esc (c : Char) (rest : List Tok) (st : PState) :
    parseLoop (.esc c :: rest) .top st = parseLoop rest .top (st.push (.chr c)) := by
  simp [parseLoop]

theorem parseLoop_dotStar (q : Tok) (hq : q ≠ .raw '?') (rest : List Tok) (st : PState) :
    parseLoop (.raw '.' :: .raw '*' :: q :: rest) .top st = parseLoop (q :: rest) .top (pushStar st) := by
  simp [parseLoop, isRep, PState.rep, PState.push, hq, pushStar]

theorem head_flatMap_tk (r : Name) :
    ∃ q rest, r.flatMap tk ++ [.raw '$'] = q :: rest ∧ q ≠ .raw '?' := by
  cases r with
  | nil => exact ⟨.raw '$', [], by simp, by decide⟩
  | cons d r' =>
    by_cases hd : d = '*'
    · exact ⟨.raw '.', .raw '*' :: (r'.flatMap tk ++ [.raw '$']), by simp [tk, hd], by decide⟩
    · by_cases hm : isMeta d = true
      · exact ⟨.esc d, r'.flatMap tk ++ [.raw '$'], by simp [tk, hd, hm], by simp⟩
      · have hm' : isMeta d = false := by simpa using hm
        refine ⟨.raw d, r'.flatMap tk ++ [.raw '$'], by simp [tk, hd, hm'], ?_⟩
        intro hq
        injection hq with hq
        subst hq
        simp [isMeta] at hm'

theorem parseLoop_quoted (elem : Name) (st : PState) :
    parseLoop (elem.flatMap tk ++ [.raw '$']) .top st = some (pushItems st (elem.map itemOf ++ [.eot])) := by
  induction elem generalizing st with
  | nil => simp [parseLoop_dollar, pushItems, PState.push]
  | cons c r ih =>
    by_cases hc : c = '*'
    · obtain ⟨q, rest, hq, hne⟩ := head_flatMap_tk r
      have : (c :: r).flatMap tk ++ [.raw '$'] = .raw '.' :: .raw '*' :: q :: rest := by
        simp [tk, hc, ← hq]
      rw [this, parseLoop_dotStar q hne, ← hq, ih]
      simp [pushItems, pushStar, itemOf, hc]
    · by_cases hm : isMeta c = true
      · have : (c :: r).flatMap tk ++ [.raw '$'] = .esc c :: (r.flatMap tk ++ [.raw '$']) := by
          simp [tk, hc, hm]
        rw [this, parseLoop_esc, ih]
        simp [pushItems, PState.push, itemOf, hc]
      · have hm' : isMeta c = false := by simpa using hm
        have : (c :: r).flatMap tk ++ [.raw '$'] = .raw c :: (r.flatMap tk ++ [.raw '$']) := by
          simp [tk, hc, hm']
        rw [this, parseLoop_plainChar c hm', ih]
        simp [pushItems, PState.push, itemOf, hc]

theorem compile_quoted (elem : Name) :
    compile (regexSrc elem) = some (.cat .bot (catList (elem.map itemOf ++ [.eot]))) := by
  have h1 : parseLoop (.raw '^' :: (elem.flatMap tk ++ [.raw '$'])) .top {} =
      parseLoop (elem.flatMap tk ++ [.raw '$']) .top (({} : PState).push .bot) := by
    simp [parseLoop, isRep]
  simp only [compile, lex_regexSrc elem, h1, parseLoop_quoted elem]
  have hne : elem.map itemOf ++ [Re.eot] ≠ [] := by simp
  cases hl : elem.map itemOf ++ [Re.eot] with
  | nil => exact absurd hl hne
  | cons x xs => simp [pushItems, PState.push, Frame.close, altList, catList]

/-! ### the matcher on `^ items $` -/

theorem prefixMatch_bot_true (R : Re) (s : Name) : prefixMatch (.cat .bot R) s true = prefixMatch R s true := by
  cases s with
  | nil => simp [prefixMatch, nullable]
  | cons c s => simp [prefixMatch, nullable, deriv, mkCat_empty_left, mkAlt_empty_left]

theorem prefixMatch_bot_false (R : Re) (s : Name) : prefixMatch (.cat .bot R) s false = false := by
  cases s with
  | nil => simp [prefixMatch, nullable]
  | cons c s => simp [prefixMatch, nullable, deriv, mkCat_empty_left, mkAlt_empty_left, prefixMatch_empty]

theorem searchFrom_bot_false (R : Re) (s : Name) : searchFrom (.cat .bot R) s false = false := by
  induction s with
  | nil => simp [searchFrom, prefixMatch_bot_false]
  | cons c s ih => simp [searchFrom, prefixMatch_bot_false, ih]

theorem search_bot (R : Re) (s : Name) : search (.cat .bot R) s = prefixMatch R s true := by
  cases s with
  | nil => simp [search, searchFrom, prefixMatch_bot_true]
  | cons c s => simp [search, searchFrom, prefixMatch_bot_true, searchFrom_bot_false]

theorem catList_cons_ne_nil (x : Re) (xs : List Re) (h : xs ≠ []) : catList (x :: xs) = .cat x (catList xs) := by
  cases xs with
  | nil => exact absurd rfl h
  | cons y ys => simp [catList]

theorem catList_items_ne_empty (r : Name) : catList (r.map itemOf ++ [.eot]) ≠ .empty := by
  cases r with
  | nil => simp [catList]
  | cons c r => rw [List.map_cons, List.cons_append, catList_cons_ne_nil _ _ (by simp)]; simp

/-- the heart of `implMatch_eq_glob`: on `items $` the derivative matcher computes the glob match -/
theorem prefixMatch_items (elem : Name) (s : Name) (hs : ∀ c ∈ s, c ≠ '\n') (st : Bool) :
    prefixMatch (catList (elem.map itemOf ++ [.eot])) s st = globMatch elem s := by
  induction elem generalizing s st with
  | nil =>
    cases s with
    | nil => simp [catList, prefixMatch, nullable, globMatch]
    | cons c s => simp [catList, prefixMatch, nullable, deriv, prefixMatch_empty, globMatch]
  | cons g r ih =>
    rw [List.map_cons, List.cons_append, catList_cons_ne_nil _ _ (by simp)]
    by_cases hg : g = '*'
    · -- `.*` followed by the rest
      simp only [itemOf, hg, if_true, globMatch]
      induction s generalizing st with
      | nil =>
        have := ih [] (by simp) st
        simp [prefixMatch, nullable, globStar] at this ⊢
        exact this
      | cons d s ihs =>
        have hd : d ≠ '\n' := hs d (by simp)
        have hs' : ∀ c ∈ s, c ≠ '\n' := fun c hc => hs c (by simp [hc])
        have hR := ih (d :: s) hs st
        have hQ := ihs hs' false
        have hne := catList_items_ne_empty r
        simp only [prefixMatch] at hR
        simp only [prefixMatch, nullable, deriv, hd, if_false, mkCat_eps_left, Bool.true_and, if_true,
          prefixMatch_mkAlt, globStar]
        have hcat : mkCat (Re.star Re.anyNotNL) (catList (r.map itemOf ++ [Re.eot])) =
            .cat (.star .anyNotNL) (catList (r.map itemOf ++ [.eot])) := by
          simp [mkCat, hne]
        rw [hcat, hQ, ← hR]
        cases nullable st false (catList (r.map itemOf ++ [Re.eot])) <;>
          cases globStar (globMatch r) s <;> simp
    · -- an ordinary character
      simp only [itemOf, hg, if_false, globMatch]
      cases s with
      | nil => simp [prefixMatch, nullable]
      | cons d s =>
        have hs' : ∀ c ∈ s, c ≠ '\n' := fun c hc => hs c (by simp [hc])
        by_cases hdg : d = g
        · subst hdg
          simp [prefixMatch, nullable, deriv, mkCat_eps_left, mkAlt_empty_right, ih s hs' false]
        · have hgd : ¬ g = d := fun h => hdg h.symm
          simp [prefixMatch, nullable, deriv, hdg, hgd, mkCat_empty_left, mkAlt_empty_left, prefixMatch_empty]

/-- KEY LEMMA: for EVERY wildcard element, the regular expression the code builds (literal parts quoted)
compiles and, although used unanchored, matches exactly the glob pattern -/
theorem implMatch_eq_glob (elem name : Name) (hn : ∀ c ∈ name, c ≠ '\n') :
    implMatch elem name = some (globMatch elem name) := by
  simp [implMatch, compile_quoted elem, search_bot, prefixMatch_items elem name hn]

/-! ### glob facts -/

theorem globStar_of_rest (rest : Name → Bool) (s : Name) (h : rest s = true) : globStar rest s = true := by
  cases s with
  | nil => simpa [globStar] using h
  | cons c s => simp [globStar, h]

theorem globMatch_self (p : Name) : globMatch p p = true := by
  induction p with
  | nil => simp [globMatch]
  | cons c p ih =>
    by_cases hc : c = '*'
    · simp only [globMatch, hc, if_true, globStar]
      simp [globStar_of_rest _ p ih]
    · simp [globMatch, hc, ih]

/-! ### membership in the result of `expand` -/

theorem mem_insertU (x y : Name) (l : List Name) : x ∈ insertU y l ↔ x = y ∨ x ∈ l := by
  induction l with
  | nil => simp [insertU]
  | cons z r ih =>
    unfold insertU
    split
    · next h => subst h; simp
    · split
      · simp
      · simp [ih]; constructor
        · rintro (h | h | h) <;> simp [h]
        · rintro (h | h | h) <;> simp [h]

theorem mem_sortU (x : Name) (l : List Name) : x ∈ sortU l ↔ x ∈ l := by
  induction l with
  | nil => simp [sortU]
  | cons y r ih =>
    have : sortU (y :: r) = insertU y (sortU r) := by simp [sortU]
    rw [this, mem_insertU, ih]; simp

theorem sortU_eq_nil (l : List Name) (h : sortU l = []) : l = [] := by
  cases l with
  | nil => rfl
  | cons y r =>
    have : y ∈ sortU (y :: r) := (mem_sortU y (y :: r)).2 (by simp)
    rw [h] at this; simp at this

theorem mem_collectElems (f : Name → Option (List Name)) (elems : List Name) (l : List Name)
    (h : collectElems f elems = some l) (x : Name) :
    x ∈ l ↔ ∃ e ∈ elems, ∃ le, f e = some le ∧ x ∈ le := by
  induction elems generalizing l with
  | nil => simp [collectElems] at h; subst h; simp
  | cons e r ih =>
    unfold collectElems at h
    cases hf : f e with
    | none => simp [hf] at h
    | some le =>
      cases hr : collectElems f r with
      | none => simp [hf, hr] at h
      | some l' =>
        simp [hf, hr] at h
        subst h
        simp [List.mem_append, ih l' hr, hf]

theorem mem_tablesOf (org : Org) (T : List (Org × Name)) (x : Name) : x ∈ tablesOf org T ↔ (org, x) ∈ T := by
  simp only [tablesOf, List.mem_filterMap]
  constructor
  · rintro ⟨⟨o, n⟩, hm, hp⟩
    by_cases ho : o = org
    · simp [ho] at hp; subst hp; subst ho; exact hm
    · simp [ho] at hp
  · intro h; exact ⟨(org, x), h, by simp⟩

theorem mem_aliasTargets (org : Org) (a : Name) (A : List AliasEntry) (x : Name) :
    x ∈ aliasTargets org a A ↔ ∃ e ∈ A, e.org = org ∧ e.alias = a ∧ x ∈ e.targets := by
  simp [aliasTargets, aliasesOf, List.mem_flatMap, List.mem_filter, and_assoc]
  constructor
  · rintro ⟨e, he, h1, h2, h3⟩; exact ⟨e, he, h2, h1, h3⟩
  · rintro ⟨e, he, h1, h2, h3⟩; exact ⟨e, he, h2, h1, h3⟩

/-- where a name produced by one element of the comma list comes from -/
theorem mem_expandElem (org : Org) (T : List (Org × Name)) (A : List AliasEntry) (elem : Name) (le : List Name)
    (h : expandElem org T A elem = some le) (x : Name) (hx : x ∈ le) :
    (containsStar elem = true ∧ ∃ re, compile (regexSrc elem) = some re ∧
        ((∃ e ∈ A, e.org = org ∧ search re e.alias = true ∧ x ∈ e.targets) ∨
         ((org, x) ∈ T ∧ search re x = true))) ∨
    (containsStar elem = false ∧ ∃ e ∈ A, e.org = org ∧ e.alias = elem ∧ x ∈ e.targets) ∨
    (containsStar elem = false ∧ aliasPresent org elem A = false ∧ x = elem) := by
  unfold expandElem at h
  by_cases hs : containsStar elem = true
  · simp only [hs, if_true] at h
    by_cases hex : isExcluded elem = true
    · simp [hex] at h; subst h; simp at hx
    · simp only [hex] at h
      cases hc : compile (regexSrc elem) with
      | none => simp [hc] at h
      | some re =>
        simp [hc] at h
        subst h
        left
        refine ⟨hs, re, rfl, ?_⟩
        simp only [List.mem_append, List.mem_flatMap, List.mem_filter, aliasesOf] at hx
        rcases hx with ⟨e, ⟨⟨he, ho⟩, hm⟩, hxe⟩ | ⟨hxt, hm⟩
        · left; exact ⟨e, he, by simpa using ho, hm, hxe⟩
        · right; exact ⟨(mem_tablesOf org T x).1 hxt, hm⟩
  · have hs' : containsStar elem = false := by simpa using hs
    simp only [hs', Bool.false_eq_true, if_false] at h
    by_cases hp : aliasPresent org elem A = true
    · simp [hp] at h; subst h
      right; left
      exact ⟨hs', (mem_aliasTargets org elem A x).1 hx⟩
    · have hp' : aliasPresent org elem A = false := by simpa using hp
      simp [hp'] at h; subst h
      right; right
      exact ⟨hs', hp', by simpa using hx⟩

/-- the two shapes of a non-empty answer of `expand` -/
theorem mem_expand (expr : Name) (org : Org) (es : Bool) (T : List (Org × Name)) (A : List AliasEntry) (x : Name)
    (hx : x ∈ expand expr org es T A) :
    ∃ l, collect (stripColon expr) org es T A = some l ∧
      ((l = [] ∧ x = stripColon expr ∧ isExcluded (stripColon expr) = false) ∨ x ∈ l) := by
  unfold expand at hx
  cases hc : collect (stripColon expr) org es T A with
  | none => simp [hc] at hx
  | some l =>
    simp only [hc] at hx
    refine ⟨l, rfl, ?_⟩
    by_cases hl : l.isEmpty = true
    · have : l = [] := by simpa using hl
      subst this
      by_cases hex : isExcluded (stripColon expr) = true
      · simp [hex] at hx
      · simp [hex] at hx
        left; exact ⟨rfl, hx, by simpa using hex⟩
    · simp [hl] at hx
      right; exact (mem_sortU x l).1 hx

theorem tablesOf_filter (o : Org) (q : Org × Name → Bool) (T : List (Org × Name))
    (h : ∀ p ∈ T, p.1 = o → q p = true) : tablesOf o (T.filter q) = tablesOf o T := by
  induction T with
  | nil => rfl
  | cons p r ih =>
    have ihr := ih (fun p hp => h p (by simp [hp]))
    by_cases hq : q p = true
    · simp only [tablesOf] at ihr ⊢
      rw [List.filter_cons_of_pos hq, List.filterMap_cons, List.filterMap_cons, ihr]
    · have hpo : ¬ p.1 = o := fun e => hq (h p (by simp) e)
      simp only [tablesOf] at ihr ⊢
      rw [List.filter_cons_of_neg hq, List.filterMap_cons, ihr]
      simp [hpo]

/-! ### the rotated-segment metadata -/

theorem lookupT_putT (n t : Name) (v : List Seg) (b : List (Name × List Seg)) :
    lookupT n (putT t v b) = if n = t then some v else lookupT n b := by
  induction b with
  | nil =>
    by_cases h : n = t
    · simp [putT, lookupT, h]
    · have : ¬ t = n := fun e => h e.symm
      simp [putT, lookupT, h, this]
  | cons p r ih =>
    obtain ⟨k, w⟩ := p
    by_cases hk : k = t
    · subst hk
      by_cases hn : n = k
      · subst hn; simp [putT, lookupT]
      · have : ¬ k = n := fun e => hn e.symm
        simp [putT, lookupT, hn, this]
    · by_cases hn : k = n
      · subst hn
        have : ¬ k = t := hk
        simp [putT, lookupT, hk]
      · simp [putT, lookupT, hk, hn, ih]

theorem lookupT_eraseT (n t : Name) (b : List (Name × List Seg)) :
    lookupT n (eraseT t b) = if n = t then none else lookupT n b := by
  induction b with
  | nil => simp [eraseT, lookupT]
  | cons p r ih =>
    obtain ⟨k, w⟩ := p
    by_cases hk : k = t
    · subst hk
      by_cases hn : n = k
      · subst hn; simp [eraseT, ih]
      · have : ¬ k = n := fun e => hn e.symm
        simp [eraseT, lookupT, ih, hn, this]
    · by_cases hn : k = n
      · subst hn; simp [eraseT, lookupT, hk]
      · simp [eraseT, lookupT, hk, hn, ih]

/-- distinct segment keys -/
def DistinctKeys (segs : List Seg) : Prop := segs.Pairwise (fun a b => a.key ≠ b.key)

theorem eq_of_key_eq {L : List Seg} (hd : DistinctKeys L) {a b : Seg} (ha : a ∈ L) (hb : b ∈ L) (hk : a.key = b.key) : a = b := by
  induction L with
  | nil => simp at ha
  | cons x r ih =>
    have hp := List.pairwise_cons.1 hd
    simp only [List.mem_cons] at ha hb
    rcases ha with rfl | ha <;> rcases hb with rfl | hb
    · rfl
    · exact absurd hk (hp.1 b hb)
    · exact absurd hk.symm (hp.1 a ha)
    · exact ih hp.2 ha hb

/-- the metadata holds exactly the segments satisfying `P`, each table's list exactly those of that name -/
structure Inv (m : Meta) (P : Seg → Prop) : Prop where
  all : ∀ s, s ∈ m.all ↔ P s
  tbl : ∀ n s, s ∈ (lookupT n m.byTable).getD [] ↔ P s ∧ s.table = n

/-- keys identify segments among those satisfying `P` -/
def KeyInj (P : Seg → Prop) : Prop := ∀ a b, P a → P b → a.key = b.key → a = b

theorem Inv.congr {m : Meta} {P Q : Seg → Prop} (h : Inv m P) (hpq : ∀ s, P s ↔ Q s) : Inv m Q :=
  ⟨fun s => (h.all s).trans (hpq s), fun n s => (h.tbl n s).trans (by rw [hpq s])⟩

theorem inv_empty : Inv {} (fun _ => False) := ⟨by simp, by simp [lookupT]⟩

theorem inv_add {m : Meta} {P : Seg → Prop} (h : Inv m P) (s' : Seg) (hk : ∀ s, P s → s.key ≠ s'.key) :
    Inv (m.add s') (fun s => P s ∨ s = s') := by
  have hany : m.all.any (fun x => decide (x.key = s'.key)) = false := by
    simp only [List.any_eq_false, decide_eq_true_eq]
    intro x hx
    exact hk x ((h.all x).1 hx)
  constructor
  · intro s
    simp [Meta.add, hany, h.all]
  · intro n s
    simp only [Meta.add, hany, Bool.false_eq_true, if_false, lookupT_putT]
    by_cases hn : n = s'.table
    · subst hn
      simp only [if_true, Option.getD_some, List.mem_append, List.mem_singleton, h.tbl]
      constructor
      · rintro (⟨h1, h2⟩ | rfl)
        · exact ⟨Or.inl h1, h2⟩
        · exact ⟨Or.inr rfl, rfl⟩
      · rintro ⟨h1 | rfl, h2⟩
        · exact Or.inl ⟨h1, h2⟩
        · exact Or.inr rfl
    · simp only [hn, if_false, h.tbl]
      constructor
      · rintro ⟨h1, h2⟩; exact ⟨Or.inl h1, h2⟩
      · rintro ⟨h1 | rfl, h2⟩
        · exact ⟨h1, h2⟩
        · exact absurd h2.symm hn

theorem inv_foldl (segs : List Seg) : ∀ (m : Meta) (L : List Seg), Inv m (· ∈ L) → DistinctKeys (L ++ segs) →
    Inv (segs.foldl Meta.add m) (· ∈ L ++ segs) := by
  induction segs with
  | nil => intro m L h _; simpa using h
  | cons s' r ih =>
    intro m L h hd
    have hd' : DistinctKeys ((L ++ [s']) ++ r) := by simpa [DistinctKeys] using hd
    have hk : ∀ s, s ∈ L → s.key ≠ s'.key := by
      have := (List.pairwise_append.1 hd).2.2
      intro s hs
      exact this s hs s' (by simp)
    have h' : Inv (m.add s') (· ∈ L ++ [s']) := (inv_add h s' hk).congr (by intro s; simp)
    have := ih (m.add s') (L ++ [s']) h' hd'
    simpa using this

theorem inv_ofList (segs : List Seg) (hd : DistinctKeys segs) : Inv (Meta.ofList segs) (· ∈ segs) := by
  have := inv_foldl segs {} [] (inv_empty.congr (by simp)) (by simpa using hd)
  simpa [Meta.ofList] using this

theorem keyInj_of_distinct {segs : List Seg} (hd : DistinctKeys segs) : KeyInj (· ∈ segs) :=
  fun _ _ ha hb hk => eq_of_key_eq hd ha hb hk

theorem mem_selectRotated (qlo qhi : Int) (names : List Name) (org : Org) (m : Meta) (s : Seg) :
    s ∈ selectRotated qlo qhi names org m ↔
      ∃ n ∈ names, s ∈ (lookupT n m.byTable).getD [] ∧ overlaps qlo qhi s = true ∧ s.org = org := by
  simp [selectRotated, List.mem_flatMap, List.mem_filter]

/-- selection on any metadata satisfying the invariant -/
theorem mem_selectRotated_inv {m : Meta} {P : Seg → Prop} (hi : Inv m P) (qlo qhi : Int) (names : List Name) (org : Org) (s : Seg) :
    s ∈ selectRotated qlo qhi names org m ↔ P s ∧ s.table ∈ names ∧ s.org = org ∧ overlaps qlo qhi s = true := by
  rw [mem_selectRotated]
  constructor
  · rintro ⟨n, hn, hs, hq, ho⟩
    have := (hi.tbl n s).1 hs
    exact ⟨this.1, by rw [this.2]; exact hn, ho, hq⟩
  · rintro ⟨h1, h2, h3, h4⟩
    exact ⟨s.table, h2, (hi.tbl s.table s).2 ⟨h1, rfl⟩, h4, h3⟩

/-- `deleteSegmentKeyWithLock` removes exactly the segment with that key (an empty table name is the code's
"not found" marker, hence the side condition) -/
theorem inv_deleteKey {m : Meta} {P : Seg → Prop} (h : Inv m P) (hinj : KeyInj P) (k : Nat)
    (hne : ∀ s, P s → s.key = k → s.table ≠ []) : Inv (m.deleteKey k) (fun s => P s ∧ s.key ≠ k) := by
  unfold Meta.deleteKey
  cases hf : m.all.find? (fun x => decide (x.key = k)) with
  | none =>
    simp only []
    have hno : ∀ s, P s → s.key ≠ k := by
      intro s hs hk
      have := List.find?_eq_none.1 hf s ((h.all s).2 hs)
      simp [hk] at this
    exact h.congr (fun s => ⟨fun hs => ⟨hs, hno s hs⟩, fun hs => hs.1⟩)
  | some s0 =>
    have hs0_mem : s0 ∈ m.all := List.mem_of_find?_eq_some hf
    have hs0_key : s0.key = k := by simpa using List.find?_some hf
    have hP0 : P s0 := (h.all s0).1 hs0_mem
    have ht0 : s0.table ≠ [] := hne s0 hP0 hs0_key
    have hin : s0 ∈ (lookupT s0.table m.byTable).getD [] := (h.tbl s0.table s0).2 ⟨hP0, rfl⟩
    simp only [ht0, if_false]
    cases hl : lookupT s0.table m.byTable with
    | none => simp [hl] at hin
    | some l =>
      simp only []
      constructor
      · intro s
        simp only [List.mem_filter, h.all, decide_eq_true_eq]
      · intro n s
        rw [lookupT_putT]
        by_cases hn : n = s0.table
        · subst hn
          have := h.tbl s0.table s
          simp only [hl, Option.getD_some] at this
          simp only [if_true, Option.getD_some, List.mem_filter, this, decide_eq_true_eq]
          constructor
          · rintro ⟨⟨h1, h2⟩, h3⟩; exact ⟨⟨h1, h3⟩, h2⟩
          · rintro ⟨⟨h1, h3⟩, h2⟩; exact ⟨⟨h1, h2⟩, h3⟩
        · simp only [hn, if_false, h.tbl]
          constructor
          · rintro ⟨h1, h2⟩
            refine ⟨⟨h1, fun hk => ?_⟩, h2⟩
            have := hinj s s0 h1 hP0 (hk.trans hs0_key.symm)
            subst this
            exact hn h2.symm
          · rintro ⟨⟨h1, _⟩, h2⟩; exact ⟨h1, h2⟩

theorem keyInj_sub {P Q : Seg → Prop} (h : KeyInj P) (hqp : ∀ s, Q s → P s) : KeyInj Q :=
  fun a b ha hb hk => h a b (hqp a ha) (hqp b hb) hk

theorem inv_foldl_deleteKey (keys : List Nat) : ∀ {m : Meta} {P : Seg → Prop}, Inv m P → KeyInj P →
    (∀ s, P s → s.key ∈ keys → s.table ≠ []) →
    Inv (keys.foldl Meta.deleteKey m) (fun s => P s ∧ s.key ∉ keys) := by
  induction keys with
  | nil => intro m P h _ _; exact h.congr (by simp)
  | cons k r ih =>
    intro m P h hinj hne
    have h1 := inv_deleteKey h hinj k (fun s hs hk => hne s hs (by simp [hk]))
    have h2 := ih h1 (keyInj_sub hinj (fun s hs => hs.1)) (fun s hs hk => hne s hs.1 (by simp [hk]))
    refine (by simpa using h2 : Inv (r.foldl Meta.deleteKey (m.deleteKey k)) _).congr ?_
    intro s
    simp only [List.mem_cons, not_or]
    constructor
    · rintro ⟨⟨h1, h2⟩, h3⟩; exact ⟨h1, h2, h3⟩
    · rintro ⟨h1, h2, h3⟩; exact ⟨⟨h1, h2⟩, h3⟩

/-- `deleteTable t o` (fixed code) removes exactly the segments of index `t` of organisation `o` -/
theorem inv_deleteTable {m : Meta} {P : Seg → Prop} (h : Inv m P) (hinj : KeyInj P) (t : Name) (ht : t ≠ []) (o : Org) :
    Inv (m.deleteTable t o) (fun s => P s ∧ ¬ (s.table = t ∧ s.org = o)) := by
  unfold Meta.deleteTable
  cases hl : lookupT t m.byTable with
  | none =>
    simp only []
    refine h.congr (fun s => ⟨fun hs => ⟨hs, fun hto => ?_⟩, fun hs => hs.1⟩)
    have := (h.tbl t s).2 ⟨hs, hto.1⟩
    simp [hl] at this
  | some l =>
    simp only []
    have hlmem : ∀ s, s ∈ l ↔ P s ∧ s.table = t := by
      intro s; have := h.tbl t s; simpa [hl] using this
    have hne : ∀ s, P s → s.key ∈ (l.filter (fun x => decide (x.org = o))).map (·.key) → s.table ≠ [] := by
      intro s hs hk
      simp only [List.mem_map, List.mem_filter] at hk
      obtain ⟨s1, ⟨hs1, _⟩, hk1⟩ := hk
      have := hinj s1 s ((hlmem s1).1 hs1).1 hs hk1
      subst this
      rw [((hlmem s1).1 hs1).2]; exact ht
    have hfold := inv_foldl_deleteKey ((l.filter (fun x => decide (x.org = o))).map (·.key)) h hinj hne
    have hchar : ∀ s, (P s ∧ s.key ∉ (l.filter (fun x => decide (x.org = o))).map (·.key)) ↔ (P s ∧ ¬ (s.table = t ∧ s.org = o)) := by
      intro s
      constructor
      · rintro ⟨hs, hk⟩
        refine ⟨hs, fun hto => hk ?_⟩
        simp only [List.mem_map, List.mem_filter, decide_eq_true_eq]
        exact ⟨s, ⟨(hlmem s).2 ⟨hs, hto.1⟩, hto.2⟩, rfl⟩
      · rintro ⟨hs, hto⟩
        refine ⟨hs, fun hk => hto ?_⟩
        simp only [List.mem_map, List.mem_filter, decide_eq_true_eq] at hk
        obtain ⟨s1, ⟨hs1, ho1⟩, hk1⟩ := hk
        have := hinj s1 s ((hlmem s1).1 hs1).1 hs hk1
        subst this
        exact ⟨((hlmem s1).1 hs1).2, ho1⟩
    have hI := hfold.congr hchar
    split
    · next hemp =>
      -- the entry is empty: dropping it changes no membership
      constructor
      · exact hI.all
      · intro n s
        rw [lookupT_eraseT]
        by_cases hn : n = t
        · subst hn
          have := hI.tbl n s
          have hemp' : (lookupT n (List.foldl Meta.deleteKey m ((l.filter (fun x => decide (x.org = o))).map (·.key))).byTable).getD [] = [] := by
            simpa using hemp
          rw [hemp'] at this
          simpa using this
        · simp only [hn, if_false]; exact hI.tbl n s
    · exact hI

/-! ### stream ids: decimal rendering is injective and dash-free, the id string parses uniquely -/

def digitVal (c : Char) : Nat :=
  if c = '0' then 0 else if c = '1' then 1 else if c = '2' then 2 else if c = '3' then 3 else if c = '4' then 4
  else if c = '5' then 5 else if c = '6' then 6 else if c = '7' then 7 else if c = '8' then 8 else 9

def valOf (l : List Char) : Nat := l.foldl (fun acc c => acc * 10 + digitVal c) 0

theorem digitVal_digitChar : ∀ d, d < 10 → digitVal (digitChar d) = d := by decide

theorem digitChar_ne_dash (d : Nat) : digitChar d ≠ '-' := by
  unfold digitChar
  split <;> decide

theorem valOf_snoc (l : List Char) (c : Char) : valOf (l ++ [c]) = valOf l * 10 + digitVal c := by
  simp [valOf, List.foldl_append]

theorem valOf_decNat (n : Nat) : valOf (decNat n) = n := by
  induction n using Nat.strongRecOn with
  | _ n ih =>
    rw [decNat]
    split
    · next h => simp [valOf, digitVal_digitChar n h]
    · next h =>
      rw [valOf_snoc, ih (n / 10) (by omega), digitVal_digitChar (n % 10) (by omega)]
      omega

theorem decNat_injective {a b : Nat} (h : decNat a = decNat b) : a = b := by
  have := congrArg valOf h
  simpa [valOf_decNat] using this

theorem decNat_no_dash (n : Nat) : ∀ c ∈ decNat n, c ≠ '-' := by
  induction n using Nat.strongRecOn with
  | _ n ih =>
    rw [decNat]
    split
    · intro c hc; simp at hc; subst hc; exact digitChar_ne_dash n
    · intro c hc
      simp only [List.mem_append, List.mem_singleton] at hc
      rcases hc with hc | rfl
      · exact ih (n / 10) (by omega) c hc
      · exact digitChar_ne_dash _

theorem decNat_ne_nil (n : Nat) : decNat n ≠ [] := by
  rw [decNat]; split <;> simp

theorem decInt_injective {a b : Int} (h : decInt a = decInt b) : a = b := by
  unfold decInt at h
  by_cases ha : a < 0 <;> by_cases hb : b < 0
  · simp only [ha, hb, if_true, List.cons.injEq, true_and] at h
    have := decNat_injective h
    omega
  · simp only [ha, hb, if_true, if_false] at h
    have hm : '-' ∈ decNat b.toNat := by rw [← h]; simp
    exact absurd rfl (decNat_no_dash _ _ hm)
  · simp only [ha, hb, if_true, if_false] at h
    have hm : '-' ∈ decNat a.toNat := by rw [h]; simp
    exact absurd rfl (decNat_no_dash _ _ hm)
  · simp only [ha, hb, if_false] at h
    have := decNat_injective h
    omega

/-- a string is cut uniquely at its FIRST dash -/
theorem first_dash_unique : ∀ (A A' X X' : List Char), (∀ c ∈ A, c ≠ '-') → (∀ c ∈ A', c ≠ '-') →
    A ++ '-' :: X = A' ++ '-' :: X' → A = A' ∧ X = X' := by
  intro A
  induction A with
  | nil =>
    intro A' X X' _ hA' h
    cases A' with
    | nil => simpa using h
    | cons a r =>
      simp only [List.nil_append, List.cons_append, List.cons.injEq] at h
      exact absurd h.1.symm (hA' a (by simp))
  | cons a r ih =>
    intro A' X X' hA hA' h
    cases A' with
    | nil =>
      simp only [List.nil_append, List.cons_append, List.cons.injEq] at h
      exact absurd h.1 (hA a (by simp))
    | cons a' r' =>
      simp only [List.cons_append, List.cons.injEq] at h
      have := ih r' X X' (fun c hc => hA c (by simp [hc])) (fun c hc => hA' c (by simp [hc])) h.2
      exact ⟨by rw [h.1, this.1], this.2⟩

/-- … and at its LAST dash -/
theorem last_dash_unique (B B' C C' : List Char) (hC : ∀ c ∈ C, c ≠ '-') (hC' : ∀ c ∈ C', c ≠ '-')
    (h : B ++ '-' :: C = B' ++ '-' :: C') : B = B' ∧ C = C' := by
  have hr := congrArg List.reverse h
  simp only [List.reverse_append, List.reverse_cons, List.append_assoc, List.singleton_append] at hr
  have := first_dash_unique C.reverse C'.reverse B.reverse B'.reverse
    (fun c hc => hC c (by simpa using hc)) (fun c hc => hC' c (by simpa using hc)) hr
  exact ⟨List.reverse_inj.1 this.2, List.reverse_inj.1 this.1⟩

theorem streamId_parse (H : Name → Nat) (s s' : Nat) (o o' : Org) (i i' : Name)
    (h : streamId H s o i = streamId H s' o' i') : s = s' ∧ o = o' ∧ H i = H i' := by
  unfold streamId at h
  have h1 := first_dash_unique _ _ _ _ (decNat_no_dash s) (decNat_no_dash s') h
  have h2 := last_dash_unique _ _ _ _ (decNat_no_dash (H i)) (decNat_no_dash (H i')) h1.2
  exact ⟨decNat_injective h1.1, decInt_injective h2.1, decNat_injective h2.2⟩

end SigModel.Lemmas.C13
