import SigModel.Lemmas.C17b
/-!
The lifecycle invariant of the query tables (C17): every entry of the running table is stored under its own
qid, has its timeout armed, has a live timer unless it is already cancelled, and is an object distinct from
every queued one; queued objects are un-armed, un-cancelled and pairwise distinct.
`step_inv`: every operation preserves it.
-/
namespace SigModel.Lemmas.C17
open SigModel.QTable

/-- what holds of every entry (key, object) of the running table -/
def ROK (next : Nat) (W : List RQ) (x : Nat × RQ) : Prop :=
  x.2.qid = x.1 ∧ x.2.timeoutArmed = true ∧ (x.2.timerLive = true ∨ x.2.cancelled = true) ∧
  x.2.obj < next ∧ ∀ w ∈ W, x.2.obj ≠ w.obj

/-- what holds of every queued object -/
def WOK (next : Nat) (w : RQ) : Prop :=
  w.timeoutArmed = false ∧ w.timerLive = false ∧ w.cancelled = false ∧ w.obj < next

def Inv (s : St) : Prop :=
  (∀ x ∈ s.running, ROK s.next s.waiting x) ∧ (∀ w ∈ s.waiting, WOK s.next w) ∧
  (s.waiting.map (·.obj)).Nodup

theorem ROK.mono {next next' : Nat} {W W' : List RQ} {x : Nat × RQ} (h : ROK next W x)
    (hn : next ≤ next') (hW : ∀ w ∈ W', w ∈ W ∨ next ≤ w.obj) : ROK next' W' x := by
  obtain ⟨h1, h2, h3, h4, h5⟩ := h
  refine ⟨h1, h2, h3, by omega, ?_⟩
  intro w hw
  rcases hW w hw with h | h
  · exact h5 w h
  · omega

theorem WOK.mono {next next' : Nat} {w : RQ} (h : WOK next w) (hn : next ≤ next') : WOK next' w := by
  obtain ⟨h1, h2, h3, h4⟩ := h
  exact ⟨h1, h2, h3, by omega⟩

/-- `r'` is the same object as `r`, possibly with more messages / cancelled / its timer fired -/
def Same (r r' : RQ) : Prop :=
  r'.qid = r.qid ∧ r'.obj = r.obj ∧ r'.timeoutArmed = r.timeoutArmed ∧ (r'.timerLive = true ∨ r'.cancelled = true)

theorem removeFirstWaiting_sublist (q : Nat) (l : List RQ) : (removeFirstWaiting q l).Sublist l := by
  induction l with
  | nil => exact List.Sublist.refl _
  | cons a t ih =>
    simp only [removeFirstWaiting]
    split
    · exact List.sublist_cons_self a t
    · exact List.Sublist.cons_cons a ih

/-- operations that neither create nor move objects -/
theorem Inv.transfer {s s' : St} (h : Inv s) (hnext : s'.next = s.next)
    (hwait : s'.waiting = s.waiting ∨ ∃ q, s'.waiting = removeFirstWaiting q s.waiting)
    (hrun : ∀ x ∈ s'.running, x ∈ s.running ∨ ∃ r, lookup x.1 s.running = some r ∧ Same r x.2) : Inv s' := by
  obtain ⟨hr, hw, hnd⟩ := h
  have hsub : s'.waiting.Sublist s.waiting := by
    rcases hwait with e | ⟨q, e⟩
    · rw [e]; exact List.Sublist.refl _
    · rw [e]; exact removeFirstWaiting_sublist q _
  have hmem : ∀ w ∈ s'.waiting, w ∈ s.waiting := fun w hw' => hsub.subset hw'
  refine ⟨?_, ?_, ?_⟩
  · intro x hx
    rw [hnext]
    rcases hrun x hx with hx' | ⟨r, hl, hs⟩
    · exact (hr x hx').mono (Nat.le_refl _) (fun w hw' => Or.inl (hmem w hw'))
    · have hrk := hr _ (lookup_mem hl)
      obtain ⟨h1, h2, _, h4, h5⟩ := hrk
      obtain ⟨s1, s2, s3, s4⟩ := hs
      refine ⟨by rw [s1]; exact h1, by rw [s3]; exact h2, s4, by rw [s2]; exact h4, ?_⟩
      intro w hw'
      rw [s2]
      exact h5 w (hmem w hw')
  · intro w hw'
    rw [hnext]
    exact hw w (hmem w hw')
  · exact (hsub.map _).nodup hnd

theorem inv_bump {s : St} (h : Inv s) : Inv { s with next := s.next + 1 } := by
  obtain ⟨hr, hw, hnd⟩ := h
  exact ⟨fun x hx => (hr x hx).mono (Nat.le_succ _) (fun w hw' => Or.inl hw'),
    fun w hw' => (hw w hw').mono (Nat.le_succ _), hnd⟩

theorem inv_tail {s : St} {a : RQ} {rs : List RQ} (h : Inv s) (e : s.waiting = a :: rs) :
    Inv { s with waiting := rs } := by
  obtain ⟨hr, hw, hnd⟩ := h
  rw [e] at hr hw hnd
  refine ⟨fun x hx => (hr x hx).mono (Nat.le_refl _) (fun w hw' => Or.inl (List.mem_cons_of_mem _ hw')),
    fun w hw' => hw w (List.mem_cons_of_mem _ hw'), ?_⟩
  simp only [List.map_cons, List.nodup_cons] at hnd
  exact hnd.2

/-- a new object (its id is the creation counter) joins the queue -/
theorem inv_enqueue {s : St} (h : Inv s) (r : RQ) (ho : r.obj = s.next)
    (hf : r.timeoutArmed = false ∧ r.timerLive = false ∧ r.cancelled = false) :
    Inv { s with next := s.next + 1, waiting := s.waiting ++ [r] } := by
  obtain ⟨hr, hw, hnd⟩ := h
  refine ⟨?_, ?_, ?_⟩
  · intro x hx
    refine (hr x hx).mono (Nat.le_succ _) ?_
    intro w hw'
    simp only [List.mem_append, List.mem_singleton] at hw'
    rcases hw' with hw' | hw'
    · exact Or.inl hw'
    · subst hw'; exact Or.inr (by show s.next ≤ w.obj; omega)
  · intro w hw'
    simp only [List.mem_append, List.mem_singleton] at hw'
    rcases hw' with hw' | hw'
    · exact (hw w hw').mono (Nat.le_succ _)
    · subst hw'; exact ⟨hf.1, hf.2.1, hf.2.2, by show w.obj < s.next + 1; omega⟩
  · show ((s.waiting ++ [r]).map (·.obj)).Nodup
    simp only [List.map_append, List.map_cons, List.map_nil]
    rw [List.nodup_append]
    refine ⟨hnd, by simp, ?_⟩
    intro a ha b hb
    simp only [List.mem_singleton] at hb
    subst hb
    simp only [List.mem_map] at ha
    obtain ⟨w, hw', rfl⟩ := ha
    have := (hw w hw').2.2.2
    omega

theorem admitted_fields (r : RQ) :
    (admitted r).qid = r.qid ∧ (admitted r).obj = r.obj ∧ (admitted r).timeoutArmed = true ∧
    (admitted r).timerLive = true ∧ (admitted r).cancelled = r.cancelled ∧ (admitted r).coord = r.coord := by
  simp [admitted, arm]

/-- admission of an object that is distinct from everything queued -/
theorem inv_runQuery {s : St} {r : RQ} (h : Inv s) (ho : r.obj < s.next)
    (hne : ∀ w ∈ s.waiting, r.obj ≠ w.obj) : Inv (runQuery s r) := by
  obtain ⟨hr, hw, hnd⟩ := h
  refine ⟨?_, ?_, ?_⟩
  · rw [runQuery_running, runQuery_next, runQuery_waiting]
    split
    · exact hr
    · apply forall_put _ hr
      obtain ⟨a1, a2, a3, a4, _, _⟩ := admitted_fields r
      exact ⟨a1, a3, Or.inl a4, by rw [a2]; exact ho, by rw [a2]; exact hne⟩
  · rw [runQuery_next, runQuery_waiting]; exact hw
  · rw [runQuery_waiting]; exact hnd

theorem cancelQuery_inv {s : St} (q : Nat) (h : Inv s) : Inv (cancelQuery s q).1 := by
  refine h.transfer (cancelQuery_next s q) ?_ ?_
  · rcases cancelQuery_waiting s q with e | e
    · exact Or.inl e
    · exact Or.inr ⟨q, e⟩
  · intro x hx
    cases hl : lookup q s.running with
    | none => rw [cancelQuery_running_none hl] at hx; exact Or.inl hx
    | some r =>
      rw [cancelQuery_running_some hl] at hx
      rcases mem_put hx with e | e
      · subst e
        exact Or.inr ⟨r, hl, by simp [Same]⟩
      · exact Or.inl e.2

theorem fireTimeout_inv {s : St} (q : Nat) (h : Inv s) : Inv (fireTimeout s q).1 := by
  refine h.transfer (fireTimeout_next s q) ?_ ?_
  · rcases fireTimeout_waiting s q with e | e
    · exact Or.inl e
    · exact Or.inr ⟨q, e⟩
  · intro x hx
    rw [fireTimeout_running] at hx
    cases hl : lookup q s.running with
    | none => simp only [hl] at hx; exact Or.inl hx
    | some r =>
      simp only [hl] at hx
      split at hx
      · rcases mem_put hx with e | e
        · subst e
          exact Or.inr ⟨r, hl, by simp [Same, timedOut]⟩
        · exact Or.inl e.2
      · exact Or.inl hx

theorem selfSend_inv {s : St} (q msg : Nat) (h : Inv s) : Inv (selfSend s q msg).1 := by
  refine h.transfer (selfSend_next s q msg) (Or.inl (selfSend_waiting s q msg)) ?_
  intro x hx
  rw [selfSend_running] at hx
  cases hl : lookup q s.running with
  | none => simp only [hl] at hx; exact Or.inl hx
  | some r =>
    simp only [hl] at hx
    split at hx
    · rcases mem_put hx with e | e
      · subst e
        have hrk := h.1 _ (lookup_mem hl)
        exact Or.inr ⟨r, hl, by simp [Same]; exact hrk.2.2.1⟩
      · exact Or.inl e.2
    · exact Or.inl hx

theorem startQuery_inv {s : St} (q : Nat) (force coord : Bool) (h : Inv s) :
    Inv (startQuery s q force coord).1 := by
  simp only [startQuery]
  split
  · exact h
  · split
    · apply inv_runQuery (inv_bump h)
      · show s.next < s.next + 1; omega
      · intro w hw'
        have := (h.2.1 w hw').2.2.2
        show s.next ≠ w.obj
        omega
    · split
      · exact inv_bump h
      · exact inv_enqueue h _ rfl ⟨rfl, rfl, rfl⟩

theorem inv_erase {s : St} (q : Nat) (h : Inv s) : Inv { s with running := erase q s.running } :=
  h.transfer rfl (Or.inl rfl) (fun _ hx => Or.inl (mem_erase hx).2)

theorem restartQuery_inv {s : St} (q nq : Nat) (force : Bool) (h : Inv s) :
    Inv (restartQuery s q nq force).1 := by
  have he := inv_erase q h
  simp only [restartQuery]
  split
  · exact h
  · split
    · exact h
    · split
      · exact he
      · split
        · exact he
        · split
          · apply inv_runQuery (inv_bump he)
            · show s.next < s.next + 1; omega
            · intro w hw'
              have := (h.2.1 w hw').2.2.2
              show s.next ≠ w.obj
              omega
          · split
            · exact inv_bump he
            · exact inv_enqueue he _ rfl ⟨rfl, rfl, rfl⟩

/-- every operation preserves the lifecycle invariant -/
theorem step_inv (s : St) (op : Op) (h : Inv s) : Inv (step s op).1 := by
  cases op with
  | start q force => exact startQuery_inv q force false h
  | startc q force => exact startQuery_inv q force true h
  | pull =>
    simp only [step]
    split
    · split
      · exact h
      · rename_i a rs e
        have ht := inv_tail h e
        have hnd := h.2.2
        rw [e] at hnd
        simp only [List.map_cons, List.nodup_cons, List.mem_map, not_exists, not_and] at hnd
        apply inv_runQuery ht
        · exact (h.2.1 a (by rw [e]; exact List.mem_cons_self ..)).2.2.2
        · intro w hw' heq
          exact hnd.1 w hw' heq.symm
    · exact h
  | cancel q => exact cancelQuery_inv q h
  | delete q =>
    simp only [step]
    split
    · exact h
    · exact inv_erase q h
  | drain q =>
    simp only [step]
    split
    · exact h
    · rename_i r hl
      refine h.transfer rfl (Or.inl rfl) ?_
      intro x hx
      rcases mem_put hx with e | e
      · subst e
        have hrk := h.1 _ (lookup_mem hl)
        exact Or.inr ⟨r, hl, rfl, rfl, rfl, hrk.2.2.1⟩
      · exact Or.inl e.2
  | timeout q => exact fireTimeout_inv q h
  | restart q nq force => exact restartQuery_inv q nq force h
  | complete q => exact selfSend_inv q 4 h
  | error q => exact selfSend_inv q 7 h

theorem inv_init (m : Nat) : Inv { maxRunning := m } := by
  refine ⟨?_, ?_, ?_⟩ <;> simp

end SigModel.Lemmas.C17
