/-
Model of the time-unit logic of ingest (C16), mirroring — quirks included —

  pkg/utils/dateutils.go
      ExtractTimeStamp            (l.100-149)  JSON scalar under the timestamp key → epoch milliseconds,
                                               0 = "no usable time, caller substitutes the arrival time"
                                               (as repaired: ns → ms in the Number branch too; small
                                               non-negative floats are scaled by 1000 and rounded
                                               BEFORE the conversion to uint64)
      ConvertTimestampToMillis    (l.142-171)  string scalar: ParseUint, ns → ms, s → ms, then date layouts
      IsTimeInMilli / IsTimeInNano             REGENERATED: SigModel.Gen.IsTimeInMilli / IsTimeInNano
      normalizeIntToSeconds                    REGENERATED: SigModel.Gen.normalizeIntToSeconds
  pkg/integrations/splunk/splunk.go
      getPLE / getHecEventTime                 the HEC envelope's `time` (number or numeric string) as the
                                               event time when the envelope has no timestamp key
  pkg/segment/writer/metrics/metricssegment.go
      ExtractOTSDBPayload         (l.854-906)  "timestamp" number / string → uint32 seconds
      ExtractOTLPPayload          (l.996-1026) "timestamp" number → uint32 seconds (ns, ms, s)
  pkg/integrations/prometheus/ingest/putmetrics.go
      parseTimestamp                           REGENERATED: SigModel.Gen.parseTimestamp
  github.com/buger/jsonparser v1.1.1 bytes.go parseInt (hand-rolled decimal loop with its wrap test
      `b < v`), parser.go ParseInt / ParseFloat (= strconv.ParseFloat(.,64), any error → malformed)
  strconv.ParseFloat on the alphabet 0-9 . e E + -  (readFloat's syntax; the value is the correctly
      rounded IEEE-754 binary64 of the exact decimal, ErrRange when that is ≥ 2^1024)
  float64 → uint64 / uint32 conversions exactly as the gc compiler emits them on amd64
      (CVTTSD2SQ, "integer indefinite" 0x8000000000000000 when out of range; uint64 via the
      x ≥ 2^63 → (x − 2^63) | 2^63 sequence; uint32 = low 32 bits of the int64 conversion).

What is abstracted: the JSON document is reduced to the scalar found under the key (`Scalar`); the
result of trying the `time.Parse` layouts on a non-numeric string is an input of the model (`layout`,
computed on the Go side by `time.Parse` itself).  float64 values are exact dyadic rationals
(`F64`: sign, mantissa, binary exponent); Lean `Float` is never used.  Core Lean only.
-/
import SigModel.Model.MachInt
import SigModel.Gen.TimeUnit

namespace SigModel.TimeUnit
open SigModel.MachInt

/-! ## jsonparser.parseInt / ParseInt -/

def isDig (c : Char) : Bool := c.isDigit

def digVal (c : Char) : Int := ((c.toNat - 48 : Nat) : Int)

/-- state of the digit loop of `parseInt`: still running with accumulator `v`, left through the
`return 0, false, false` of a non-digit, or left through `break` with the wrapped value `b` -/
inductive PI where
  | run (v : Int)
  | bad
  | ovf (b : Int)
deriving Repr, DecidableEq

/-- one iteration: `b = 10*v + int64(c-'0')` (int64 wrap), overflow test `b < v` -/
def piStep : PI → Char → PI
  | .run v, c =>
    if isDig c then
      let b := wrapS64 (10 * v + digVal c)
      if b < v then .ovf b else .run b
    else .bad
  | .bad, _ => .bad
  | .ovf b, _ => .ovf b

def minInt64Digits : List Char := "9223372036854775808".toList

/-- `jsonparser.ParseInt`: `none` = any error (malformed or overflow) -/
def jpParseInt (t : List Char) : Option Int :=
  if t.isEmpty then none
  else
    let neg := t.head? == some '-'
    let ds := if neg then t.tail else t
    match ds.foldl piStep (.run 0) with
    | .run v => some (if neg then -v else v)
    | .bad => none
    | .ovf b => if neg && ds == minInt64Digits then some b else none

/-! ## strconv.ParseUint(s, 10, 64) and strconv.ParseInt(s, 10, 64) -/

/-- optional leading `+` / `-` -/
def stripSign (t : List Char) : Bool × List Char :=
  if t.head? == some '+' then (false, t.tail)
  else if t.head? == some '-' then (true, t.tail)
  else (false, t)

/-- longest prefix of decimal digits, and the rest -/
def takeDigits : List Char → List Char × List Char
  | [] => ([], [])
  | c :: r => if isDig c then ((c :: (takeDigits r).1), (takeDigits r).2) else ([], c :: r)

def allDigits (t : List Char) : Bool := t.all isDig

/-- `strconv.ParseUint(s, 10, 64)`: digits only, non-empty, value < 2^64; `none` = any error -/
def goParseUint (t : List Char) : Option Int :=
  if t.isEmpty || !allDigits t then none
  else
    let n := Nat.ofDigitChars 10 t 0
    if n < 18446744073709551616 then some (n : Int) else none

/-- `strconv.ParseInt(s, 10, 64)`: optional sign, digits, range of int64; `none` = any error -/
def goParseInt (t : List Char) : Option Int :=
  let neg := (stripSign t).1
  let ds := (stripSign t).2
  if ds.isEmpty || !allDigits ds then none
  else
    let n := Nat.ofDigitChars 10 ds 0
    if neg then (if n ≤ 9223372036854775808 then some (-(n : Int)) else none)
    else (if n < 9223372036854775808 then some (n : Int) else none)

/-! ## strconv.ParseFloat (decimal syntax) and binary64 rounding -/

/-- a finite binary64 value: (−1)^neg · q · 2^x  (q ≤ 2^53) -/
structure F64 where
  neg : Bool
  q : Nat
  x : Int
deriving Repr, DecidableEq

/-- `num/den ≥ 2^k` -/
def geTwoPow (num den : Nat) (k : Int) : Bool :=
  if k ≥ 0 then num ≥ den * 2 ^ k.toNat else num * 2 ^ (-k).toNat ≥ den

/-- binary exponent of the last mantissa bit of the binary64 nearest to the positive rational
`num/den`: with 2^k ≤ num/den < 2^(k+1) it is k − 52, but not below −1074 (gradual underflow) -/
def ulpExp (num den : Nat) : Int :=
  let lb : Int := (Nat.log2 num : Int) - (Nat.log2 den : Int)
  let k : Int := if geTwoPow num den lb then lb else lb - 1
  if k - 52 ≥ -1074 then k - 52 else -1074

/-- `num/den / 2^x` rounded to the nearest integer, ties to even -/
def roundAt (num den : Nat) (x : Int) : Nat :=
  let N : Nat := if x ≥ 0 then num else num * 2 ^ (-x).toNat
  let D : Nat := if x ≥ 0 then den * 2 ^ x.toNat else den
  let q0 := N / D
  let r := N % D
  if 2 * r > D || (2 * r = D && q0 % 2 = 1) then q0 + 1 else q0

/-- round the positive rational `num/den` to binary64 (nearest, ties to even, gradual underflow,
exponent unbounded above): mantissa and binary exponent of the result -/
def roundPos (num den : Nat) : Nat × Int :=
  (roundAt num den (ulpExp num den), ulpExp num den)

/-- `q · 2^x ≥ 2^1024` (the result would be ±Inf: strconv reports ErrRange) -/
def overflows (q : Nat) (x : Int) : Bool :=
  if x ≥ 0 then q * 2 ^ x.toNat ≥ 2 ^ 1024 else false

/-- exponent digits: `if e < 10000 { e = e*10 + digit }` -/
def expDigits (ds : List Char) : Nat :=
  ds.foldl (fun e c => if e < 10000 then e * 10 + (c.toNat - 48) else e) 0

/-- the syntax accepted by `readFloat` (base 10): sign? digits? ('.' digits?)? ([eE] sign? digits)?
with at least one mantissa digit; returns (negative, all mantissa digits as a number, number of
fraction digits, signed exponent).  `none` = ErrSyntax. -/
def parseDec (t : List Char) : Option (Bool × Nat × Nat × Int) :=
  let neg := (stripSign t).1
  let ip := (takeDigits (stripSign t).2).1
  let r1 := (takeDigits (stripSign t).2).2
  let hasDot := r1.head? == some '.'
  let fp := if hasDot then (takeDigits r1.tail).1 else []
  let r2 := if hasDot then (takeDigits r1.tail).2 else r1
  if (ip ++ fp).isEmpty then none
  else
    let m := Nat.ofDigitChars 10 (ip ++ fp) 0
    match r2 with
    | [] => some (neg, m, fp.length, 0)
    | c :: r3 =>
      if c = 'e' || c = 'E' then
        let eneg := (stripSign r3).1
        let ed := (stripSign r3).2
        if ed.isEmpty || !allDigits ed then none
        else
          let e : Int := (expDigits ed : Int)
          some (neg, m, fp.length, if eneg then -e else e)
      else none

/-- `jsonparser.ParseFloat`: `none` = any error (syntax, or range: the rounded value is infinite) -/
def jpParseFloat (t : List Char) : Option F64 :=
  match parseDec t with
  | none => none
  | some (neg, m, fl, e) =>
    if m = 0 then some ⟨neg, 0, 0⟩
    else
      let e10 : Int := e - (fl : Int)
      -- decimal magnitude shortcuts (strconv's own `d.dp > 310` / `d.dp < -330` tests)
      let nd : Int := ((Nat.toDigits 10 m).length : Int)
      if nd + e10 > 310 then none
      else if nd + e10 < -330 then some ⟨neg, 0, 0⟩
      else
        let num := if e10 ≥ 0 then m * 10 ^ e10.toNat else m
        let den := if e10 ≥ 0 then 1 else 10 ^ (-e10).toNat
        let (q, x) := roundPos num den
        if overflows q x then none else some ⟨neg, q, x⟩

/-- |f| truncated toward zero -/
def F64.truncMag (f : F64) : Nat :=
  if f.x ≥ 0 then f.q * 2 ^ f.x.toNat else f.q / 2 ^ (-f.x).toNat

/-- float64 division `f / d` for a positive integer constant `d` (correctly rounded) -/
def F64.divNat (f : F64) (d : Nat) : F64 :=
  if f.q = 0 then ⟨f.neg, 0, 0⟩
  else
    let num := if f.x ≥ 0 then f.q * 2 ^ f.x.toNat else f.q
    let den := if f.x ≥ 0 then d else d * 2 ^ (-f.x).toNat
    let (q, x) := roundPos num den
    ⟨f.neg, q, x⟩

/-- float64 multiplication `f * c` for a positive integer constant `c` (correctly rounded; the
products that occur stay far below the overflow threshold) -/
def F64.mulNat (f : F64) (c : Nat) : F64 :=
  if f.q = 0 then ⟨f.neg, 0, 0⟩
  else
    let num := if f.x ≥ 0 then f.q * c * 2 ^ f.x.toNat else f.q * c
    let den := if f.x ≥ 0 then 1 else 2 ^ (-f.x).toNat
    let (q, x) := roundPos num den
    ⟨f.neg, q, x⟩

/-- `math.Round`: nearest integer, halves away from zero (exact) -/
def F64.round (f : F64) : F64 :=
  if f.x ≥ 0 then f
  else ⟨f.neg, (2 * f.q + 2 ^ (-f.x).toNat) / (2 * 2 ^ (-f.x).toNat), 0⟩

/-- amd64 CVTTSD2SQ: truncation to int64, 0x8000000000000000 when out of range -/
def f64ToS64 (f : F64) : Int :=
  let m : Int := (f.truncMag : Int)
  let v : Int := if f.neg then -m else m
  if -9223372036854775808 ≤ v ∧ v < 9223372036854775808 then v else -9223372036854775808

/-- Go `uint64(f)` on amd64: x < 2^63 → uint64(int64(x)); else uint64(int64(x − 2^63)) | 2^63 -/
def f64ToU64 (f : F64) : Int :=
  let m : Int := (f.truncMag : Int)
  if f.neg then wrapU64 (f64ToS64 f)
  else if m < 18446744073709551616 then m      -- both code paths give the exact integer
  else 9223372036854775808

/-- Go `uint32(f)` on amd64: low 32 bits of the int64 conversion -/
def f64ToU32 (f : F64) : Int := wrapU32 (f64ToS64 f)

/-! ## ExtractTimeStamp -/

/-- what `jsonparser.Get(raw, key)` finds under the timestamp key -/
inductive Scalar where
  | absent                                        -- key not present / document unreadable: `err != nil`
  | other                                         -- boolean, null, object, array
  | num (text : List Char)                        -- jp.Number: the raw token
  | str (s : List Char) (layout : Option Int)     -- jp.String (unescaped); `layout` = result of the
                                                  -- first matching time.Parse layout as
                                                  -- `UnixNano()/1000000` (int64), none = no layout matches
  | strBadEscape                                  -- jp.String whose escapes `jp.ParseString` rejects
deriving Repr, DecidableEq

/-- result: epoch milliseconds (0 = caller substitutes arrival time) or "current time" -/
inductive Res where
  | ms (n : Int)
  | now
deriving Repr, DecidableEq

/-- the unit cascade shared by the Number branch and ConvertTimestampToMillis:
`if IsTimeInNano(v) { v /= 1000000 }; if !IsTimeInMilli(v) { v *= 1000 }` on uint64 -/
def scaleUnits (v : Int) : Int :=
  let v1 := if Gen.IsTimeInNano v then wrapU64 (Int.tdiv v 1000000) else v
  if !(Gen.IsTimeInMilli v1) then wrapU64 (v1 * 1000) else v1

/-- the `jp.Number` branch of ExtractTimeStamp -/
def extractNum (t : List Char) : Int :=
  match jpParseInt t with
  | some v => scaleUnits (wrapU64 v)                  -- ts_millis = uint64(val)
  | none =>
    match jpParseFloat t with
    | none => 0
    | some f =>
      -- `val >= 0 && !IsTimeInMilli(uint64(val))`: fractional seconds are scaled BEFORE the fraction
      -- is dropped: `return uint64(math.Round(val * 1000))`
      if (!f.neg || f.q == 0) && !(Gen.IsTimeInMilli (f64ToU64 f)) then f64ToU64 (f.mulNat 1000).round
      else scaleUnits (f64ToU64 f)                    -- ts_millis = uint64(val)

/-- `ConvertTimestampToMillis`: `none` = error -/
def convertTimestampToMillis (s : List Char) (layout : Option Int) : Option Int :=
  match goParseUint s with
  | some v => some (scaleUnits v)
  | none =>
    match layout with
    | some x => some (wrapU64 x)
    | none => none

def extractTimeStamp : Scalar → Res
  | .absent => .ms 0
  | .other => .ms 0
  | .strBadEscape => .ms 0
  | .num t => .ms (extractNum t)
  | .str s layout =>
    match convertTimestampToMillis s layout with
    | some v => .ms v
    | none => .now                                    -- ts_millis = GetCurrentTimeInMs()

/-- what `GetNewPLE` / `ProcessIndexRequestPle` store for an event that arrives at `tsNow`
(`if tsMillis == 0 { tsMillis = tsNow }`; "now" is the clock read inside ExtractTimeStamp) -/
def storedMillis (tsNow : Int) (sc : Scalar) : Res :=
  match extractTimeStamp sc with
  | .ms n => if n = 0 then .ms tsNow else .ms n
  | .now => .now

/-- the time an event ends up with after a protocol handler and `ProcessIndexRequestPle`
(pkg/es/writer/esBulkHandler.go, after the repair): the raw JSON's own timestamp wins; otherwise the
time the protocol handler already put on the event (`handlerMs`, 0 = none: GetNewPLE's arrival time;
OTLP logs: time_unix_nano / 10^6); otherwise the arrival time (rendered `.now`). -/
def ingestStored (handlerMs : Int) (sc : Scalar) : Res :=
  match extractTimeStamp sc with
  | .ms n => if n ≠ 0 then .ms n else if handlerMs ≠ 0 then .ms handlerMs else .now
  | .now => .now

/-! ## Splunk HEC: the envelope's `time` -/

/-- `getHecEventTime` (pkg/integrations/splunk/splunk.go, added by the repair): the envelope field
`time`, a JSON number or a JSON string holding a number (`t` = the characters of the number,
`none` = no such field / any other JSON type), in epoch milliseconds; 0 = "the envelope has no usable
time".  The Go code reads the value as a binary64 (encoding/json, resp. strconv.ParseFloat), requires
`epoch > 0`, renders it with strconv.AppendFloat(…, 'f', -1, 64) and hands `{"time":<that>}` to
ExtractTimeStamp.  ABSTRACTED: the re-rendered token is the shortest decimal that reads back as the
same binary64; the model applies `extractNum` to the ORIGINAL token (same binary64 on the float path;
for whole numbers the re-rendered token takes the integer path, which agrees with the float path on
the seconds window: `Props.C16.hec_whole_seconds_both_paths`). -/
def hecEventTime : Option (List Char) → Int
  | none => 0
  | some t =>
    match jpParseFloat t with
    | none => 0
    | some f => if f.neg || f.q == 0 then 0 else extractNum t

/-- what is stored for a HEC event (`getPLE` → `GetNewPLE` → `ProcessIndexRequestPle`): a timestamp
key at the envelope's root wins (behaviour kept), otherwise the envelope's `time`, otherwise the
arrival time. -/
def hecStored (time : Option (List Char)) (rootTs : Scalar) : Res :=
  ingestStored (hecEventTime time) rootTs

/-- before the repair `time` was never read -/
def hecStoredOld (_time : Option (List Char)) (rootTs : Scalar) : Res :=
  ingestStored 0 rootTs

/-! ## metrics: "timestamp" → uint32 seconds -/

/-- ExtractOTSDBPayload, jp.Number: `none` = the handler returns an error -/
def otsdbNum (t : List Char) : Option Int :=
  match jpParseInt t with
  | some i =>
    some (if Gen.IsTimeInMilli (wrapU64 i) then wrapU32 (Int.tdiv i 1000) else wrapU32 i)
  | none =>
    match jpParseFloat t with
    | none => none
    | some f =>
      some (if Gen.IsTimeInMilli (f64ToU64 f) then f64ToU32 (f.divNat 1000) else f64ToU32 f)

/-- ExtractOTSDBPayload, jp.String: `layoutSec` = `t.Unix()` of the first matching layout -/
def otsdbStr (s : List Char) (layoutSec : Option Int) : Option Int :=
  match goParseInt s with
  | some t =>
    some (if Gen.IsTimeInMilli (wrapU64 t) then wrapU32 (Int.tdiv t 1000) else wrapU32 t)
  | none =>
    match layoutSec with
    | some x => some (wrapU32 x)
    | none => none

/-- ExtractOTLPPayload, jp.Number -/
def otlpNum (t : List Char) : Option Int :=
  match jpParseInt t with
  | some i =>
    some (if Gen.IsTimeInNano (wrapU64 i) then wrapU32 (Int.tdiv i 1000000000)
          else if Gen.IsTimeInMilli (wrapU64 i) then wrapU32 (Int.tdiv i 1000)
          else wrapU32 i)
  | none =>
    match jpParseFloat t with
    | none => none
    | some f =>
      some (if Gen.IsTimeInNano (f64ToU64 f) then f64ToU32 (f.divNat 1000000000)
            else if Gen.IsTimeInMilli (f64ToU64 f) then f64ToU32 (f.divNat 1000)
            else f64ToU32 f)

/-- the timestamp scalar of a metrics JSON datapoint -/
inductive MScalar where
  | absent
  | other
  | num (text : List Char)
  | str (s : List Char) (layoutSec : Option Int)
deriving Repr, DecidableEq

/-- the extractor's final verdict: a datapoint is accepted only with `ts > 0` (`none` = error) -/
def finish : Option Int → Option Int
  | some ts => if ts > 0 then some ts else none
  | none => none

def otsdbTs : MScalar → Option Int
  | .absent => none
  | .other => none
  | .num t => finish (otsdbNum t)
  | .str s l => finish (otsdbStr s l)

def otlpTs : MScalar → Option Int
  | .absent => none
  | .other => none
  | .num t => finish (otlpNum t)
  | .str _ _ => none

end SigModel.TimeUnit
