/-
Model of the metrics write-ahead log framing (C10), mirroring
  pkg/segment/writer/metrics/wal/wal.go : NewWAL / writeBlockToFile / DPWalIterator.Next / decodeWALBlock
The CRC function and the payload codec (zstd) are parameters.  Core Lean only.
-/
namespace SigModel.Wal

abbrev Bytes := List Nat

def walVersion : Nat := 1

def le32 (n : Nat) : Bytes := [n % 256, n / 256 % 256, n / 65536 % 256, n / 16777216 % 256]
def le64 (n : Nat) : Bytes := le32 (n % 4294967296) ++ le32 (n / 4294967296)

def rd32 : Bytes → Option (Nat × Bytes)
  | a :: b :: c :: d :: r => some (a + 256 * b + 65536 * c + 16777216 * d, r)
  | _ => none

/-- `writeBlockToFile`: three writes: size (= payload + 4), checksum, payload -/
def frameWrites (crc : Bytes → Nat) (p : Bytes) : List Bytes := [le32 (p.length + 4), le32 (crc p), p]
def frame (crc : Bytes → Nat) (p : Bytes) : Bytes := le32 (p.length + 4) ++ le32 (crc p) ++ p

/-- the file after `NewWAL` and one `Append` per payload -/
def file (crc : Bytes → Nat) (ps : List Bytes) : Bytes := walVersion :: ps.flatMap (frame crc)

/-- the sequence of `write` system calls that produce the file (crash-point granularity) -/
def writes (crc : Bytes → Nat) (ps : List Bytes) : List Bytes := [walVersion] :: ps.flatMap (frameWrites crc)

inductive St where
  | clean   -- Next returned (nil, nil): end of file at a block boundary
  | err     -- Next returned an error (short/invalid block, checksum mismatch, undecodable payload)
deriving Repr, DecidableEq

/-- iterate `DPWalIterator.Next` over the bytes after the version byte. `ok p` = payload decodes. -/
def readBlocks (crc : Bytes → Nat) (ok : Bytes → Bool) : Nat → Bytes → List Bytes × St
  | 0, _ => ([], .err)
  | _+1, [] => ([], .clean)
  | fuel+1, bs =>
    match rd32 bs with
    | none => ([], .err)                      -- 1..3 bytes: io.ErrUnexpectedEOF
    | some (size, r1) =>
      if size < 4 then ([], .err)
      else match rd32 r1 with
        | none => ([], .err)
        | some (sum, r2) =>
          if r2.length < size - 4 then ([], .err)   -- io.ReadFull short
          else
            let p := r2.take (size - 4)
            if crc p ≠ sum then ([], .err)
            else if !ok p then ([], .err)
            else
              let (rest, st) := readBlocks crc ok fuel (r2.drop (size - 4))
              (p :: rest, st)

/-- `NewWALReader` + iterate; `none` = the file cannot be opened as a WAL (empty / wrong version) -/
def readFile (crc : Bytes → Nat) (ok : Bytes → Bool) (f : Bytes) : Option (List Bytes × St) :=
  match f with
  | [] => none
  | v :: r => if v = walVersion then some (readBlocks crc ok (r.length + 1) r) else none

/-! ### datapoint block (the zstd-compressed payload's plaintext) -/

structure Dp where
  ts : Nat    -- uint32
  val : Nat   -- float64 bits
  tsid : Nat  -- uint64
deriving Repr, DecidableEq

/-- `DataPointEncoder.PrepareEncode` before zstd: N, all timestamps, all values, all tsids -/
def encBlock (dps : List Dp) : Bytes :=
  le32 dps.length ++ dps.flatMap (fun d => le32 d.ts) ++ dps.flatMap (fun d => le64 d.val) ++ dps.flatMap (fun d => le64 d.tsid)

def rd64 (bs : Bytes) : Option (Nat × Bytes) :=
  match rd32 bs with
  | none => none
  | some (lo, r) => match rd32 r with
    | none => none
    | some (hi, r2) => some (lo + 4294967296 * hi, r2)

def rdMany (rd : Bytes → Option (Nat × Bytes)) : Nat → Bytes → Option (List Nat × Bytes)
  | 0, bs => some ([], bs)
  | n+1, bs => match rd bs with
    | none => none
    | some (x, r) => match rdMany rd n r with
      | none => none
      | some (xs, r2) => some (x :: xs, r2)

/-- `decodeWALBlock` after zstd -/
def decBlock (bs : Bytes) : Option (List Dp) :=
  match rd32 bs with
  | none => none
  | some (n, r) =>
    match rdMany rd32 n r with
    | none => none
    | some (tss, r1) => match rdMany rd64 n r1 with
      | none => none
      | some (vals, r2) => match rdMany rd64 n r2 with
        | none => none
        | some (ids, _) => some ((tss.zip (vals.zip ids)).map (fun (t, v, i) => { ts := t, val := v, tsid := i }))

/-! ### CRC-32 (IEEE), used by the Oracle to instantiate `crc`; theorems do not depend on it -/
def crcStep (c : Nat) : Nat := if c % 2 = 1 then (c / 2) ^^^ 0xEDB88320 else c / 2
def crcByte (c b : Nat) : Nat :=
  let c0 := c ^^^ b
  crcStep (crcStep (crcStep (crcStep (crcStep (crcStep (crcStep (crcStep c0)))))))
def crc32 (bs : Bytes) : Nat := (bs.foldl crcByte 0xFFFFFFFF) ^^^ 0xFFFFFFFF

end SigModel.Wal
