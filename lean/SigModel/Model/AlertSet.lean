/-
Model of the SET of alerts of one org and of the scheduler's jobs (C20): which requests store an alert, which
alerts have a cron job, and what a restart re-creates.  Mirrors — WITH patches c20-10 / c20-11 / c20-12 —
  pkg/alerts/alertsHandler/alertsHandler.go
    `ProcessCreateAlertRequest`  EvalInterval = 0 refused, EvalWindow < EvalInterval refused,
        `validateAlertTypeAndQuery` (alert type must be Logs or Metrics), THEN `CreateAlert` (row stored) and
        `AddCronJob` (one job tagged with the alert id)
    `ProcessUpdateAlertRequest`  the same three tests before `UpdateAlert`; then `RemoveCronJob` + `AddCronJob`
        (an id that is not stored ends in "does not exist": refused, nothing written)
    `ProcessDeleteAlertRequest`  `RemoveCronJob` + `DeleteAlert` (unknown id: refused)
    `InitAlertingService`        for every stored alert `AddCronJob`; an alert whose job cannot be created is
        skipped (`continue`) and the remaining alerts are still scheduled
  pkg/alerts/alertsHandler/cronJobHandler.go `AddCronJob` fails when the type is neither Logs nor Metrics and when
    EvalInterval is 0 (gocron refuses `Every(0)`).
The behaviour BEFORE the patches is kept as `stepOld` (the tests came after the row was stored / not at all, and
`InitAlertingService` returned at the first alert it could not schedule).  Rows that no request can produce any
more but an older version may have left in the database are reachable through the operations `legacyInterval`
/ `legacyType` (the harness rewrites the row directly).  Alerts are numbered by create ATTEMPT (1, 2, …).
Logs alerts and (`createMetrics`) Metrics alerts are created by the suite; core Lean only.
WITH patch c20-17 the create / update handlers also refuse an EvalInterval above `maxInterval` minutes (the
interval must fit the time.Duration the scheduler keeps); `cronSeconds` is `int(EvalInterval*60)` as `AddCronJob`
computes it (uint64 product, converted to a 64-bit int) and `schedulableOld` what gocron made of it before.
-/
namespace SigModel.AlertSet

structure Row where
  idx      : Nat   -- number of the create attempt that stored the row
  window   : Nat   -- eval_window
  interval : Nat   -- eval_interval
  type     : Nat   -- alert_type: 1 Logs, 2 Metrics, 3 Minion
deriving Repr, DecidableEq

structure St where
  next : Nat := 1          -- number of the next create attempt
  rows : List Row := []    -- all_alerts rows of the org, in insertion order
  jobs : List Nat := []    -- one entry per cron job: the alert it is tagged with
deriving Repr, DecidableEq

inductive Op where
  | create (window interval : Nat)        -- POST create, Logs alert
  | createMetrics (window interval : Nat) -- POST create, Metrics alert (alert_type 2 with a metrics query)
  | createTyped (type : Nat)              -- POST create with window 1, interval 1 and the given alert_type
  | edit (k window interval : Nat)        -- POST update of alert k (Logs)
  | delete (k : Nat)
  | legacyInterval (k : Nat)              -- the row of alert k is rewritten to window 0 / interval 0 behind the API
  | legacyType (k : Nat)                  -- … to alert_type 0
  | restart                               -- empty scheduler + InitAlertingService
deriving Repr, DecidableEq

inductive Ans where
  | ok | refused | none
deriving Repr, DecidableEq

/-- `AddCronJob` succeeds -/
def schedulable (r : Row) : Bool := r.interval != 0 && (r.type == 1 || r.type == 2)

/-- `math.MaxInt64 / int64(time.Minute)`: the longest EvalInterval (minutes) that fits a time.Duration -/
def maxInterval : Nat := 153722867

/-- `int(alertDataObj.EvalInterval * 60)` of `AddCronJob`: a uint64 product converted to a 64-bit int -/
def cronSeconds (interval : Nat) : Int :=
  let u : Nat := (interval * 60) % 2 ^ 64
  if u < 2 ^ 63 then Int.ofNat u else Int.ofNat u - Int.ofNat (2 ^ 64)

/-- the tests of the create / update handlers (patched): interval > 0, window ≥ interval, type Logs or Metrics,
and (c20-17) interval ≤ maxInterval -/
def accepted (window interval type : Nat) : Bool :=
  interval != 0 && !decide (window < interval) && (type == 1 || type == 2) && decide (interval ≤ maxInterval)

def hasRow (s : St) (k : Nat) : Bool := s.rows.any (fun r => r.idx == k)

def setRow (rows : List Row) (k : Nat) (f : Row → Row) : List Row :=
  rows.map (fun r => if r.idx == k then f r else r)

def createRow (s : St) (window interval type : Nat) : St × Ans :=
  if accepted window interval type then
    ({ next := s.next + 1, rows := s.rows ++ [{ idx := s.next, window := window, interval := interval, type := type }],
       jobs := s.jobs ++ [s.next] }, .ok)
  else ({ s with next := s.next + 1 }, .refused)

def step (s : St) : Op → St × Ans
  | .create w i => createRow s w i 1
  | .createMetrics w i => createRow s w i 2
  | .createTyped t => createRow s 1 1 t
  | .edit k w i =>
    if hasRow s k && accepted w i 1 then
      ({ s with rows := setRow s.rows k (fun r => { r with window := w, interval := i, type := 1 }),
                jobs := s.jobs.filter (fun j => j != k) ++ [k] }, .ok)
    else (s, .refused)
  | .delete k =>
    if hasRow s k then
      ({ s with rows := s.rows.filter (fun r => r.idx != k), jobs := s.jobs.filter (fun j => j != k) }, .ok)
    else (s, .refused)
  | .legacyInterval k => ({ s with rows := setRow s.rows k (fun r => { r with window := 0, interval := 0 }) }, .none)
  | .legacyType k => ({ s with rows := setRow s.rows k (fun r => { r with type := 0 }) }, .none)
  | .restart => ({ s with jobs := (s.rows.filter schedulable).map (·.idx) }, .none)

def run : St → List Op → St × List Ans
  | s, [] => (s, [])
  | s, op :: ops =>
    let r := step s op
    let r2 := run r.1 ops
    (r2.1, r.2 :: r2.2)

def init : St := {}

/-! ### the behaviour before patches c20-10 / c20-11 / c20-12 -/

/-- the only tests made BEFORE the row was written: window ≥ interval, and `validateAlertTypeAndQuery`, which
refused Minion alerts and let every unknown type pass -/
def acceptedOld (window interval type : Nat) : Bool := !decide (window < interval) && type != 3

/-- `AddCronJob` succeeded (before patch c20-17 nothing bounded the interval): the type is Logs or Metrics and gocron
accepts `Every(int(EvalInterval*60))`, i.e. the wrapped product is positive -/
def schedulableOld (r : Row) : Bool := decide (0 < cronSeconds r.interval) && (r.type == 1 || r.type == 2)

def createRowOld (s : St) (window interval type : Nat) : St × Ans :=
  if acceptedOld window interval type then
    let r : Row := { idx := s.next, window := window, interval := interval, type := type }
    -- the row is stored; the request is answered by what AddCronJob says
    if schedulableOld r then ({ next := s.next + 1, rows := s.rows ++ [r], jobs := s.jobs ++ [s.next] }, .ok)
    else ({ next := s.next + 1, rows := s.rows ++ [r], jobs := s.jobs }, .refused)
  else ({ s with next := s.next + 1 }, .refused)

def stepOld (s : St) : Op → St × Ans
  | .create w i => createRowOld s w i 1
  | .createMetrics w i => createRowOld s w i 2
  | .createTyped t => createRowOld s 1 1 t
  | .edit k w i =>
    if hasRow s k && acceptedOld w i 1 then
      let rows := setRow s.rows k (fun r => { r with window := w, interval := i, type := 1 })
      -- row saved, old job removed; the new job exists only when AddCronJob succeeds
      if decide (0 < cronSeconds i) then ({ s with rows := rows, jobs := s.jobs.filter (fun j => j != k) ++ [k] }, .ok)
      else ({ s with rows := rows, jobs := s.jobs.filter (fun j => j != k) }, .refused)
    else (s, .refused)
  | .restart => ({ s with jobs := (s.rows.takeWhile schedulable).map (·.idx) }, .none)
  | op => step s op

def runOld : St → List Op → St × List Ans
  | s, [] => (s, [])
  | s, op :: ops =>
    let r := stepOld s op
    let r2 := runOld r.1 ops
    (r2.1, r.2 :: r2.2)

end SigModel.AlertSet
