/- Hand-written primitives that the regenerated bin/aligntime kernel (SigModel/Gen/BinAlign.lean, produced by
   tools/go2lean from pkg/segment/query/processor/bincommand.go `getTimeBucketWithAlign`) refers to.  Core only.

   time.Time is an Int: nanoseconds since the Unix epoch (no wrap: the instants the bin command sees are
   time.UnixMilli(int64) values, all inside Go's representable range).
   - Time.UnixMilli()   = floor(ns / 10^6)                       (Go: sec*1e3 + nsec/1e6 with 0 ≤ nsec)
   - Time.Truncate(d)   = t for d ≤ 0, else t rounded DOWN to a multiple of d counted from Go's zero time
                          (January 1, year 1, 00:00:00 UTC = 62135596800 s before the epoch)
   - time.UnixMilli(ms) = ms * 10^6
   float64 → integer conversion: the fraction is discarded (truncation toward zero). -/
namespace SigModel.TimePrims

def zeroOffsetNs : Int := 62135596800 * 1000000000

def timeOfUnixMilli (ms : Int) : Int := ms * 1000000

def timeUnixMilli (t : Int) : Int := t / 1000000

def timeTruncate (t d : Int) : Int := if d ≤ 0 then t else t - (t + zeroOffsetNs) % d

def ratTrunc (q : Rat) : Int := if q < 0 then -((-q).floor) else q.floor

end SigModel.TimePrims
