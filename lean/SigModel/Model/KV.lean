/-
C20 (keyed-store half) — saved objects behave as a keyed store.

SPECIFICATION   `Spec T K V := T → K → Option V`  ((tenant, key) ↦ last written value) with the
documented operations create / put / update / rename / delete / get / list / restart.

IMPLEMENTATION-SHAPED MODELS, one per store, mirroring the Go code AS IT IS (quirks included):

* `Usq`   pkg/usersavedqueries/usqueries.go — `localUSQInfo` (org → name → query) mirrored to one JSON
          file per org (`getUsqFileName`), re-read lazily by `readSavedQueries` (:281-321) when the
          file's mtime (whole seconds) is newer than `usqLastReadTime[org]` (milliseconds: whether a
          re-read happens is a clock race, hence a free Boolean `b` per operation); `writeUsq` :86,
          `deleteUsq` :243, `getUsqOne` :123 (SUBSTRING search `strings.Index(k, qname) != -1`),
          `getUsqAll` :165, `InitUsq` :51 (reads org 0 only, forgets all read times).
* `Alias` pkg/virtualtable/virtualtable.go — one alias file per (org, index) holding the set of alias
          names (`GetAliases` :465, `writeAliasFile` :504, `removeAliasFile` :669) and the in-memory
          inverse `aliasToIndexNames[org][alias] = set of indexes` (`putAliasToIndexInMem` :570);
          `AddAliases` :395, `RemoveAliases` :629 (deletes the index from the alias' inner map but
          keeps the — possibly empty — inner map), `GetAllAliasesAsMapArray` :435, `IsAlias` :619,
          `initializeAliasToIndexMap` :531 (restart: walks the DIRECTORIES of the alias dir only — the
          files of org 0 lie at the top level and are not read).

Keys are byte strings (`List Nat`); values are opaque.  Core Lean only (linked into the oracle).
-/
namespace SigModel.KV

/-! ## association lists (Go maps / JSON objects; key order is irrelevant, printing sorts) -/

abbrev AL (K V : Type) := List (K × V)

namespace AL
variable {K V : Type} [DecidableEq K]

def get : AL K V → K → Option V
  | [], _ => none
  | (k', v) :: r, k => if k' = k then some v else get r k

def put : AL K V → K → V → AL K V
  | [], k, v => [(k, v)]
  | (k', v') :: r, k, v => if k' = k then (k, v) :: r else (k', v') :: put r k v

def del (l : AL K V) (k : K) : AL K V := l.filter (fun p => !decide (p.1 = k))

def keys (l : AL K V) : List K := l.map Prod.fst
end AL

/-- set insertion / removal on duplicate-free lists (Go `map[string]bool` used as a set) -/
def insSet {A : Type} [DecidableEq A] (l : List A) (x : A) : List A := if x ∈ l then l else l ++ [x]
def delSet {A : Type} [DecidableEq A] (l : List A) (x : A) : List A := l.filter (fun y => !decide (y = x))

/-- functional update -/
def upd {A B : Type} [DecidableEq A] (f : A → B) (a : A) (b : B) : A → B := fun x => if x = a then b else f x

/-! ## the specification -/

abbrev Spec (T K V : Type) := T → K → Option V

/-- result codes -/
inductive Res where
  | ok | exists_ | notFound | invalid
  deriving DecidableEq, Repr

namespace Spec
variable {T K V : Type} [DecidableEq T] [DecidableEq K]

def empty : Spec T K V := fun _ _ => none

def set (s : Spec T K V) (t : T) (k : K) (v : Option V) : Spec T K V :=
  fun t' k' => if t' = t ∧ k' = k then v else s t' k'

/-- upsert -/
def put (s : Spec T K V) (t : T) (k : K) (v : V) : Spec T K V × Res := (s.set t k (some v), .ok)

def create (s : Spec T K V) (t : T) (k : K) (v : V) : Spec T K V × Res :=
  match s t k with
  | none => (s.set t k (some v), .ok)
  | some _ => (s, .exists_)

def update (s : Spec T K V) (t : T) (k : K) (v : V) : Spec T K V × Res :=
  match s t k with
  | none => (s, .notFound)
  | some _ => (s.set t k (some v), .ok)

def delete (s : Spec T K V) (t : T) (k : K) : Spec T K V × Res :=
  match s t k with
  | none => (s, .notFound)
  | some _ => (s.set t k none, .ok)

def rename (s : Spec T K V) (t : T) (k k2 : K) : Spec T K V × Res :=
  match s t k with
  | none => (s, .notFound)
  | some v =>
    if k2 = k then (s, .ok) else
    match s t k2 with
    | some _ => (s, .exists_)
    | none => ((s.set t k none).set t k2 (some v), .ok)

/-- `l` is the documented answer of "list tenant t" (determined up to order) -/
def ListOk (s : Spec T K V) (t : T) (l : List (K × V)) : Prop :=
  (l.map Prod.fst).Nodup ∧ ∀ k v, (k, v) ∈ l ↔ s t k = some v

/-- `l` is the documented answer of "list the entries of tenant t whose key satisfies p" -/
def FilterOk (s : Spec T K V) (t : T) (p : K → Bool) (l : List (K × V)) : Prop :=
  (l.map Prod.fst).Nodup ∧ ∀ k v, (k, v) ∈ l ↔ (s t k = some v ∧ p k = true)

/-- the part of the store that belongs to the tenants other than `t` -/
def others (s : Spec T K V) (t : T) : Spec T K V := fun t' k => if t' = t then none else s t' k
end Spec

/-- names are byte strings -/
abbrev Key := List Nat

/-- Go `strings.Index(k, q) != -1` on byte strings -/
def isInfix (q : Key) : Key → Bool
  | [] => q.isEmpty
  | c :: r => q.isPrefixOf (c :: r) || isInfix q r

/-! ## saved queries (pkg/usersavedqueries/usqueries.go) -/
namespace Usq

structure St (V : Type) where
  /-- `localUSQInfo[org]`: none = no entry for the org -/
  mem : Nat → Option (AL Key V)
  /-- the org's file `usqinfo[-<org>].bin`: none = no file -/
  file : Nat → Option (AL Key V)
  /-- `usqLastReadTime[org]` is set -/
  read : Nat → Bool

inductive Op (V : Type) where
  | put (t : Nat) (k : Key) (v : V)   -- SaveUserQueries → writeUsq (upsert)
  | del (t : Nat) (k : Key)           -- DeleteUserSavedQuery → deleteUsq
  | search (t : Nat) (q : Key)        -- SearchUserSavedQuery → getUsqOne (substring search)
  | list (t : Nat)                    -- GetUserSavedQueriesAll → getUsqAll
  | restart                           -- new process + InitUsq

inductive Out (V : Type) where
  | res (r : Res)
  | entries (l : AL Key V)
  | restarted
  deriving DecidableEq

variable {V : Type}

def init : St V := { mem := fun _ => none, file := fun _ => none, read := fun _ => false }

/-- `readSavedQueries(org)`; `b` = "the file's mtime is newer than the last read" (clock race) -/
def readSaved (st : St V) (t : Nat) (b : Bool) : St V :=
  match st.file t with
  | none => st
  | some f => if st.read t = false ∨ b = true then { st with mem := upd st.mem t (some f), read := upd st.read t true } else st

def step (st : St V) (op : Op V) (b : Bool) : St V × Out V :=
  match op with
  | .put t k v =>
    if k = [] then (st, .res .invalid) else
    let st1 := readSaved st t b
    let m := ((st1.mem t).getD []).put k v
    ({ st1 with mem := upd st1.mem t (some m), file := upd st1.file t (some m) }, .res .ok)
  | .del t k =>
    let st1 := readSaved st t b
    match st1.mem t with
    | none => (st1, .res .notFound)
    | some m0 =>
      match m0.get k with
      | none => (st1, .res .notFound)
      | some _ =>
        let m := m0.del k
        ({ st1 with mem := upd st1.mem t (some m), file := upd st1.file t (some m) }, .res .ok)
  | .search t q =>
    let st1 := readSaved st t b
    (st1, .entries (((st1.mem t).getD []).filter (fun p => isInfix q p.1)))
  | .list t =>
    let st1 := readSaved st t b
    (st1, .entries ((st1.mem t).getD []))
  | .restart =>
    (readSaved { mem := fun _ => none, file := st.file, read := fun _ => false } 0 b, .restarted)

/-- what a read of tenant t sees (a read first runs `readSavedQueries` without the clock race) -/
def view (st : St V) (t : Nat) : Option (AL Key V) :=
  if st.read t = true then st.mem t else
  match st.file t with
  | some f => some f
  | none => st.mem t

def abs (st : St V) : Spec Nat Key V := fun t k => (view st t).bind (fun m => m.get k)

def specStep (s : Spec Nat Key V) : Op V → Spec Nat Key V
  | .put t k v => if k = [] then s else (s.put t k v).1
  | .del t k => (s.delete t k).1
  | _ => s

/-- `o` is the documented answer to `op` in the abstract state `s` -/
def OutOk (s : Spec Nat Key V) : Op V → Out V → Prop
  | .put _ k _, o => o = .res (if k = [] then .invalid else .ok)
  | .del t k, o => o = .res (s.delete t k).2
  | .search t q, .entries l => s.FilterOk t (isInfix q) l
  | .list t, .entries l => s.ListOk t l
  | .restart, o => o = .restarted
  | _, _ => False

def run (st : St V) : List (Op V × Bool) → St V × List (Out V)
  | [] => (st, [])
  | (op, b) :: r =>
    let (st1, o) := step st op b
    let (st2, os) := run st1 r
    (st2, o :: os)

/-- the tenant an operation addresses -/
def Op.tenant : Op V → Option Nat
  | .put t _ _ => some t | .del t _ => some t | .search t _ => some t | .list t => some t | .restart => none

/-- REFINEMENT along an operation sequence (each op with its clock-race bit): every answer is the
documented one for the abstract state, and `abs` commutes with every step -/
def Refines : Spec Nat Key V → St V → List (Op V × Bool) → Prop
  | _, _, [] => True
  | s, st, (op, b) :: r =>
    OutOk s op (step st op b).2 ∧ abs (step st op b).1 = specStep s op ∧ Refines (specStep s op) (step st op b).1 r

end Usq

/-! ## index aliases (pkg/virtualtable/virtualtable.go) -/
namespace Alias

/-- `utils.IsSimpleFileName` (pkg/utils/fileutils.go:32): not empty, not "." / "..", no '/' or '\' -/
def validIndex (i : Key) : Bool :=
  !(i = [] || i = [46] || i = [46, 46]) && !(i.any (fun c => c = 47 || c = 92))

structure St where
  /-- alias file of (org, index): the set of alias names; absent = no file -/
  files : AL (Nat × Key) (List Key)
  /-- `aliasToIndexNames[org][alias]`: set of index names (an EMPTY inner map can stay behind) -/
  mem : AL (Nat × Key) (List Key)

inductive Op where
  | add (t : Nat) (i a : Key)      -- AddAliases(index, [alias], org)
  | remove (t : Nat) (i a : Key)   -- RemoveAliases(index, [alias], org)
  | get (t : Nat) (i : Key)        -- GetAliases(index, org)
  | list (t : Nat)                 -- GetAllAliasesAsMapArray(org)
  | resolve (t : Nat) (a : Key)    -- IsAlias(alias, org)
  | restart                        -- new process + initializeAliasToIndexMap
  deriving DecidableEq

inductive Out where
  | res (r : Res)
  | names (l : List Key)                   -- get: alias names of the index
  | amap (l : List (Key × List Key))       -- list: alias ↦ indexes
  | target (l : List Key)                  -- resolve: [] = not an alias, else the candidate indexes (the code returns one of them)
  | restarted
  deriving DecidableEq

def init : St := { files := [], mem := [] }

/-- `putAliasToIndexInMem` -/
def putMem (m : AL (Nat × Key) (List Key)) (t : Nat) (a i : Key) : AL (Nat × Key) (List Key) :=
  if a = [] ∨ i = [] then m else m.put (t, a) (insSet ((m.get (t, a)).getD []) i)

/-- `initializeAliasToIndexMap`: only the org DIRECTORIES are walked; org 0 has none -/
def rebuild (files : AL (Nat × Key) (List Key)) : AL (Nat × Key) (List Key) :=
  files.foldl (fun m e => if e.1.1 = 0 then m else e.2.foldl (fun m a => putMem m e.1.1 a e.1.2) m) []

/-- `RemoveAliases`, file side: rewrite the index' alias file, or remove it when no alias is left
(`os.Remove` fails when there was no file) -/
def removeFile (files : AL (Nat × Key) (List Key)) (t : Nat) (i a : Key) : AL (Nat × Key) (List Key) × Res :=
  let cur := delSet ((files.get (t, i)).getD []) a
  if cur = [] then
    match files.get (t, i) with
    | none => (files, .notFound)
    | some _ => (files.del (t, i), .ok)
  else (files.put (t, i) cur, .ok)

/-- `RemoveAliases`, memory side: `delete(aliasToIndexNames[org][alias], index)` — the inner map stays -/
def removeMem (mem : AL (Nat × Key) (List Key)) (t : Nat) (i a : Key) : AL (Nat × Key) (List Key) :=
  match mem.get (t, a) with
  | some is => mem.put (t, a) (delSet is i)
  | none => mem

def step (st : St) : Op → St × Out
  | .add t i a =>
    if !validIndex i then (st, .res .invalid) else
    let cur := insSet ((st.files.get (t, i)).getD []) a
    ({ files := st.files.put (t, i) cur, mem := cur.foldl (fun m key => putMem m t key i) st.mem }, .res .ok)
  | .remove t i a =>
    if !validIndex i then (st, .res .invalid) else
    ({ files := (removeFile st.files t i a).1, mem := removeMem st.mem t i a }, .res (removeFile st.files t i a).2)
  | .get t i =>
    if !validIndex i then (st, .res .invalid) else (st, .names ((st.files.get (t, i)).getD []))
  | .list t => (st, .amap ((st.mem.filter (fun e => e.1.1 = t)).map (fun e => (e.1.2, e.2))))
  | .resolve t a => (st, .target ((st.mem.get (t, a)).getD []))
  | .restart => ({ st with mem := rebuild st.files }, .restarted)

/-- abstract state: (org, index) ↦ set of alias names -/
def abs (st : St) : Spec Nat Key (List Key) := fun t i => st.files.get (t, i)

def specStep (s : Spec Nat Key (List Key)) : Op → Spec Nat Key (List Key)
  | .add t i a => if !validIndex i then s else s.set t i (some (insSet ((s t i).getD []) a))
  | .remove t i a =>
    if !validIndex i then s else
    let cur := delSet ((s t i).getD []) a
    if cur = [] then s.set t i none else s.set t i (some cur)
  | _ => s

/-- alias `a` names index `i` for tenant `t` -/
def Spec.has (s : Spec Nat Key (List Key)) (t : Nat) (i a : Key) : Prop := a ∈ (s t i).getD []

/-- `o` is the documented answer to `op` in the abstract state `s` -/
def OutOk (s : Spec Nat Key (List Key)) : Op → Out → Prop
  | .add _ i _, o => o = .res (if validIndex i then .ok else .invalid)
  | .remove t i a, o =>
    o = .res (if !validIndex i then .invalid
              else if delSet ((s t i).getD []) a = [] ∧ s t i = none then .notFound else .ok)
  | .get t i, o => o = (if validIndex i then .names ((s t i).getD []) else .res .invalid)
  | .list t, .amap l =>
    (l.map Prod.fst).Nodup ∧ (∀ a is, (a, is) ∈ l → is ≠ [] ∧ ∀ i, i ∈ is ↔ Spec.has s t i a) ∧
    (∀ a i, a ≠ [] → Spec.has s t i a → ∃ is, (a, is) ∈ l)
  | .resolve t a, .target l => ∀ i, i ∈ l ↔ (a ≠ [] ∧ Spec.has s t i a)
  | .restart, o => o = .restarted
  | _, _ => False

def run (st : St) : List Op → St × List Out
  | [] => (st, [])
  | op :: r =>
    let (st1, o) := step st op
    let (st2, os) := run st1 r
    (st2, o :: os)

def Op.tenant : Op → Option Nat
  | .add t _ _ => some t | .remove t _ _ => some t | .get t _ => some t | .list t => some t
  | .resolve t _ => some t | .restart => none

/-- REFINEMENT along an operation sequence -/
def Refines : Spec Nat Key (List Key) → St → List Op → Prop
  | _, _, [] => True
  | s, st, op :: r =>
    OutOk s op (step st op).2 ∧ abs (step st op).1 = specStep s op ∧ Refines (specStep s op) (step st op).1 r

/-- the same, but the answers of the two reads that come from the in-memory map (list, resolve) are
not looked at -/
def RefinesFiles : Spec Nat Key (List Key) → St → List Op → Prop
  | _, _, [] => True
  | s, st, op :: r =>
    ((∀ t, op ≠ .list t) → (∀ t a, op ≠ .resolve t a) → OutOk s op (step st op).2) ∧
    abs (step st op).1 = specStep s op ∧ RefinesFiles (specStep s op) (step st op).1 r

/-- memory view: index `i` is listed under alias `a` of tenant `t` in `aliasToIndexNames` -/
def memView (st : St) (t : Nat) (a i : Key) : Prop := i ∈ (st.mem.get (t, a)).getD []

/-- guard of one step: a removal does not take the LAST index off an alias that the memory map holds,
and no restart happens while org 0 holds alias files -/
def stepClean (st : St) : Op → Bool
  | .remove t i a =>
    !validIndex i || (match st.mem.get (t, a) with
      | some is => !(delSet is i).isEmpty
      | none => true)
  | .restart => st.files.all (fun e => !decide (e.1.1 = 0))
  | _ => true

/-- the guard along an operation sequence -/
def Clean : St → List Op → Bool
  | _, [] => true
  | st, op :: r => stepClean st op && Clean (step st op).1 r

end Alias

end SigModel.KV
