/-
C20 (keyed-store half) — saved objects behave as a keyed store.

SPECIFICATION   `Spec T K V := T → K → Option V`  ((tenant, key) ↦ last written value) with the
documented operations create / put / update / rename / delete / get / list / restart.

IMPLEMENTATION-SHAPED MODELS, one per store, mirroring the Go code AS IT IS (quirks included):

* `Usq`   pkg/usersavedqueries/usqueries.go — `localUSQInfo` (org → name → query) mirrored to one JSON
          file per org (`getUsqFileName`), re-read lazily by `readSavedQueries` (:281-321) when the
          file's mtime (whole seconds) is newer than `usqLastReadTime[org]` (milliseconds: whether a
          re-read happens is a clock race, hence a free Boolean `b` per operation); `writeUsq` :86,
          `deleteUsq` :243, `getUsqOne` :123 (SUBSTRING search `strings.Index(k, qname) != -1`),
          `getUsqAll` :165, `InitUsq` :51 (reads org 0 only, forgets all read times).
* `Alias` pkg/virtualtable/virtualtable.go — one alias file per (org, index) holding the set of alias
          names (`GetAliases` :465, `writeAliasFile` :504, `removeAliasFile` :669) and the in-memory
          inverse `aliasToIndexNames[org][alias] = set of indexes` (`putAliasToIndexInMem` :570);
          `AddAliases` :395, `RemoveAliases` :629, `GetAllAliasesAsMapArray` :435, `IsAlias` :619,
          `initializeAliasToIndexMap` :531 (restart).  The model follows the code WITH patches c20-1 (the
          top-level files = org 0 are read at restart), c20-2 (an emptied inner map is dropped) and c20-9
          (`FlushAliasMapToFile` :605, run at graceful shutdown, adds the pairs of the memory map that an
          index' alias file lacks — before, it wrote files named like the ALIAS holding the INDEX names); the
          behaviour before them is kept as `rebuildOld` / `removeMemOld` / `stepOld`, `flushOld` / `stepOldFlush`.

Keys are byte strings (`List Nat`); values are opaque.  Core Lean only (linked into the oracle).
-/
namespace SigModel.KV

/-! ## association lists (Go maps / JSON objects; key order is irrelevant, printing sorts) -/

abbrev AL (K V : Type) := List (K × V)

namespace AL
variable {K V : Type} [DecidableEq K]

def get : AL K V → K → Option V
  | [], _ => none
  | (k', v) :: r, k => if k' = k then some v else get r k

def put : AL K V → K → V → AL K V
  | [], k, v => [(k, v)]
  | (k', v') :: r, k, v => if k' = k then (k, v) :: r else (k', v') :: put r k v

def del (l : AL K V) (k : K) : AL K V := l.filter (fun p => !decide (p.1 = k))

def keys (l : AL K V) : List K := l.map Prod.fst
end AL

/-- set insertion / removal on duplicate-free lists (Go `map[string]bool` used as a set) -/
def insSet {A : Type} [DecidableEq A] (l : List A) (x : A) : List A := if x ∈ l then l else l ++ [x]
def delSet {A : Type} [DecidableEq A] (l : List A) (x : A) : List A := l.filter (fun y => !decide (y = x))

/-- functional update -/
def upd {A B : Type} [DecidableEq A] (f : A → B) (a : A) (b : B) : A → B := fun x => if x = a then b else f x

/-! ## the specification -/

abbrev Spec (T K V : Type) := T → K → Option V

/-- result codes -/
inductive Res where
  | ok | exists_ | notFound | invalid
  | parentNotFound | wrongType | cycle   -- tree-shaped stores (dashboards / folders)
  deriving DecidableEq, Repr

namespace Spec
variable {T K V : Type} [DecidableEq T] [DecidableEq K]

def empty : Spec T K V := fun _ _ => none

def set (s : Spec T K V) (t : T) (k : K) (v : Option V) : Spec T K V :=
  fun t' k' => if t' = t ∧ k' = k then v else s t' k'

/-- upsert -/
def put (s : Spec T K V) (t : T) (k : K) (v : V) : Spec T K V × Res := (s.set t k (some v), .ok)

def create (s : Spec T K V) (t : T) (k : K) (v : V) : Spec T K V × Res :=
  match s t k with
  | none => (s.set t k (some v), .ok)
  | some _ => (s, .exists_)

def update (s : Spec T K V) (t : T) (k : K) (v : V) : Spec T K V × Res :=
  match s t k with
  | none => (s, .notFound)
  | some _ => (s.set t k (some v), .ok)

def delete (s : Spec T K V) (t : T) (k : K) : Spec T K V × Res :=
  match s t k with
  | none => (s, .notFound)
  | some _ => (s.set t k none, .ok)

def rename (s : Spec T K V) (t : T) (k k2 : K) : Spec T K V × Res :=
  match s t k with
  | none => (s, .notFound)
  | some v =>
    if k2 = k then (s, .ok) else
    match s t k2 with
    | some _ => (s, .exists_)
    | none => ((s.set t k none).set t k2 (some v), .ok)

/-- `l` is the documented answer of "list tenant t" (determined up to order) -/
def ListOk (s : Spec T K V) (t : T) (l : List (K × V)) : Prop :=
  (l.map Prod.fst).Nodup ∧ ∀ k v, (k, v) ∈ l ↔ s t k = some v

/-- `l` is the documented answer of "list the entries of tenant t whose key satisfies p" -/
def FilterOk (s : Spec T K V) (t : T) (p : K → Bool) (l : List (K × V)) : Prop :=
  (l.map Prod.fst).Nodup ∧ ∀ k v, (k, v) ∈ l ↔ (s t k = some v ∧ p k = true)

/-- the part of the store that belongs to the tenants other than `t` -/
def others (s : Spec T K V) (t : T) : Spec T K V := fun t' k => if t' = t then none else s t' k
end Spec

/-- names are byte strings -/
abbrev Key := List Nat

/-- Go `strings.Index(k, q) != -1` on byte strings -/
def isInfix (q : Key) : Key → Bool
  | [] => q.isEmpty
  | c :: r => q.isPrefixOf (c :: r) || isInfix q r

/-! ## saved queries (pkg/usersavedqueries/usqueries.go) -/
namespace Usq

structure St (V : Type) where
  /-- `localUSQInfo[org]`: none = no entry for the org -/
  mem : Nat → Option (AL Key V)
  /-- the org's file `usqinfo[-<org>].bin`: none = no file -/
  file : Nat → Option (AL Key V)
  /-- `usqLastReadTime[org]` is set -/
  read : Nat → Bool

inductive Op (V : Type) where
  | put (t : Nat) (k : Key) (v : V)   -- SaveUserQueries → writeUsq (upsert)
  | del (t : Nat) (k : Key)           -- DeleteUserSavedQuery → deleteUsq
  | search (t : Nat) (q : Key)        -- SearchUserSavedQuery → getUsqOne (substring search)
  | list (t : Nat)                    -- GetUserSavedQueriesAll → getUsqAll
  | restart                           -- new process + InitUsq

inductive Out (V : Type) where
  | res (r : Res)
  | entries (l : AL Key V)
  | restarted
  deriving DecidableEq

variable {V : Type}

def init : St V := { mem := fun _ => none, file := fun _ => none, read := fun _ => false }

/-- `readSavedQueries(org)`; `b` = "the file's mtime is newer than the last read" (clock race) -/
def readSaved (st : St V) (t : Nat) (b : Bool) : St V :=
  match st.file t with
  | none => st
  | some f => if st.read t = false ∨ b = true then { st with mem := upd st.mem t (some f), read := upd st.read t true } else st

def step (st : St V) (op : Op V) (b : Bool) : St V × Out V :=
  match op with
  | .put t k v =>
    if k = [] then (st, .res .invalid) else
    let st1 := readSaved st t b
    let m := ((st1.mem t).getD []).put k v
    ({ st1 with mem := upd st1.mem t (some m), file := upd st1.file t (some m) }, .res .ok)
  | .del t k =>
    let st1 := readSaved st t b
    match st1.mem t with
    | none => (st1, .res .notFound)
    | some m0 =>
      match m0.get k with
      | none => (st1, .res .notFound)
      | some _ =>
        let m := m0.del k
        ({ st1 with mem := upd st1.mem t (some m), file := upd st1.file t (some m) }, .res .ok)
  | .search t q =>
    let st1 := readSaved st t b
    (st1, .entries (((st1.mem t).getD []).filter (fun p => isInfix q p.1)))
  | .list t =>
    let st1 := readSaved st t b
    (st1, .entries ((st1.mem t).getD []))
  | .restart =>
    (readSaved { mem := fun _ => none, file := st.file, read := fun _ => false } 0 b, .restarted)

/-- what a read of tenant t sees (a read first runs `readSavedQueries` without the clock race) -/
def view (st : St V) (t : Nat) : Option (AL Key V) :=
  if st.read t = true then st.mem t else
  match st.file t with
  | some f => some f
  | none => st.mem t

def abs (st : St V) : Spec Nat Key V := fun t k => (view st t).bind (fun m => m.get k)

def specStep (s : Spec Nat Key V) : Op V → Spec Nat Key V
  | .put t k v => if k = [] then s else (s.put t k v).1
  | .del t k => (s.delete t k).1
  | _ => s

/-- `o` is the documented answer to `op` in the abstract state `s` -/
def OutOk (s : Spec Nat Key V) : Op V → Out V → Prop
  | .put _ k _, o => o = .res (if k = [] then .invalid else .ok)
  | .del t k, o => o = .res (s.delete t k).2
  | .search t q, .entries l => s.FilterOk t (isInfix q) l
  | .list t, .entries l => s.ListOk t l
  | .restart, o => o = .restarted
  | _, _ => False

def run (st : St V) : List (Op V × Bool) → St V × List (Out V)
  | [] => (st, [])
  | (op, b) :: r =>
    let (st1, o) := step st op b
    let (st2, os) := run st1 r
    (st2, o :: os)

/-- the tenant an operation addresses -/
def Op.tenant : Op V → Option Nat
  | .put t _ _ => some t | .del t _ => some t | .search t _ => some t | .list t => some t | .restart => none

/-- REFINEMENT along an operation sequence (each op with its clock-race bit): every answer is the
documented one for the abstract state, and `abs` commutes with every step -/
def Refines : Spec Nat Key V → St V → List (Op V × Bool) → Prop
  | _, _, [] => True
  | s, st, (op, b) :: r =>
    OutOk s op (step st op b).2 ∧ abs (step st op b).1 = specStep s op ∧ Refines (specStep s op) (step st op b).1 r

end Usq

/-! ## index aliases (pkg/virtualtable/virtualtable.go) -/
namespace Alias

/-- `utils.IsSimpleFileName` (pkg/utils/fileutils.go:32): not empty, not "." / "..", no '/' or '\' -/
def validIndex (i : Key) : Bool :=
  !(i = [] || i = [46] || i = [46, 46]) && !(i.any (fun c => c = 47 || c = 92))

structure St where
  /-- alias file of (org, index): the set of alias names; absent = no file -/
  files : AL (Nat × Key) (List Key)
  /-- `aliasToIndexNames[org][alias]`: set of index names (an EMPTY inner map can stay behind) -/
  mem : AL (Nat × Key) (List Key)

inductive Op where
  | add (t : Nat) (i a : Key)      -- AddAliases(index, [alias], org)
  | remove (t : Nat) (i a : Key)   -- RemoveAliases(index, [alias], org)
  | get (t : Nat) (i : Key)        -- GetAliases(index, org)
  | list (t : Nat)                 -- GetAllAliasesAsMapArray(org)
  | resolve (t : Nat) (a : Key)    -- IsAlias(alias, org)
  | restart                        -- new process + initializeAliasToIndexMap
  | graceful                       -- graceful shutdown (FlushAliasMapToFile) + new process
  deriving DecidableEq

inductive Out where
  | res (r : Res)
  | names (l : List Key)                   -- get: alias names of the index
  | amap (l : List (Key × List Key))       -- list: alias ↦ indexes
  | target (l : List Key)                  -- resolve: [] = not an alias, else the candidate indexes (the code returns one of them)
  | restarted
  | gracefulRestarted
  deriving DecidableEq

def init : St := { files := [], mem := [] }

/-- `putAliasToIndexInMem` -/
def putMem (m : AL (Nat × Key) (List Key)) (t : Nat) (a i : Key) : AL (Nat × Key) (List Key) :=
  if a = [] ∨ i = [] then m else m.put (t, a) (insSet ((m.get (t, a)).getD []) i)

/-- `initializeAliasToIndexMap`: the regular `*.json` files at the top level of the alias directory are the
alias files of org 0, the sub-directories hold those of the other orgs -/
def rebuild (files : AL (Nat × Key) (List Key)) : AL (Nat × Key) (List Key) :=
  files.foldl (fun m e => e.2.foldl (fun m a => putMem m e.1.1 a e.1.2) m) []

/-- before patch c20-1: only the org DIRECTORIES were walked — the alias files of org 0 were never read -/
def rebuildOld (files : AL (Nat × Key) (List Key)) : AL (Nat × Key) (List Key) :=
  files.foldl (fun m e => if e.1.1 = 0 then m else e.2.foldl (fun m a => putMem m e.1.1 a e.1.2) m) []

/-- `FlushAliasMapToFile` (patch c20-9), one pair of the memory map: the alias is added to the alias file of
its index unless it is already there (`GetAliases` refuses an invalid index name: nothing is written) -/
def flushOne (files : AL (Nat × Key) (List Key)) (t : Nat) (a i : Key) : AL (Nat × Key) (List Key) :=
  let cur := (files.get (t, i)).getD []
  if a ∈ cur then files else
  if !validIndex i then files else files.put (t, i) (insSet cur a)

/-- `FlushAliasMapToFile` at graceful shutdown: every (alias, index) pair of the memory map -/
def flush (files mem : AL (Nat × Key) (List Key)) : AL (Nat × Key) (List Key) :=
  mem.foldl (fun f e => e.2.foldl (fun f i => flushOne f e.1.1 e.1.2 i) f) files

/-- before patch c20-9: `writeAliasFile(&alias, indexNames, org)` — a file NAMED like the alias holding the
INDEX names, i.e. the relation inverted; it is read back as an index' alias file at the next start
(alias names that are no file names are not modelled here) -/
def flushOld (files mem : AL (Nat × Key) (List Key)) : AL (Nat × Key) (List Key) :=
  mem.foldl (fun f e => f.put e.1 e.2) files

/-- `RemoveAliases`, file side: rewrite the index' alias file, or remove it when no alias is left
(`os.Remove` fails when there was no file) -/
def removeFile (files : AL (Nat × Key) (List Key)) (t : Nat) (i a : Key) : AL (Nat × Key) (List Key) × Res :=
  let cur := delSet ((files.get (t, i)).getD []) a
  if cur = [] then
    match files.get (t, i) with
    | none => (files, .notFound)
    | some _ => (files.del (t, i), .ok)
  else (files.put (t, i) cur, .ok)

/-- `RemoveAliases`, memory side: `delete(aliasToIndexNames[org][alias], index)`, and the alias' inner map
is dropped when it becomes empty -/
def removeMem (mem : AL (Nat × Key) (List Key)) (t : Nat) (i a : Key) : AL (Nat × Key) (List Key) :=
  match mem.get (t, a) with
  | some is => if delSet is i = [] then mem.del (t, a) else mem.put (t, a) (delSet is i)
  | none => mem

/-- before patch c20-2: the (possibly empty) inner map stayed -/
def removeMemOld (mem : AL (Nat × Key) (List Key)) (t : Nat) (i a : Key) : AL (Nat × Key) (List Key) :=
  match mem.get (t, a) with
  | some is => mem.put (t, a) (delSet is i)
  | none => mem

/-- `AddAliases` once index and alias name are accepted -/
def addAlias (st : St) (t : Nat) (i a : Key) : St × Out :=
  let cur := insSet ((st.files.get (t, i)).getD []) a
  ({ files := st.files.put (t, i) cur, mem := cur.foldl (fun m key => putMem m t key i) st.mem }, .res .ok)

def step (st : St) : Op → St × Out
  | .add t i a =>
    if !validIndex i then (st, .res .invalid) else
    -- patch c20-14: an alias must be a name an index could have (`IsValidIndexName(alias)`)
    if !validIndex a then (st, .res .invalid) else addAlias st t i a
  | .remove t i a =>
    if !validIndex i then (st, .res .invalid) else
    ({ files := (removeFile st.files t i a).1, mem := removeMem st.mem t i a }, .res (removeFile st.files t i a).2)
  | .get t i =>
    if !validIndex i then (st, .res .invalid) else (st, .names ((st.files.get (t, i)).getD []))
  | .list t => (st, .amap ((st.mem.filter (fun e => e.1.1 = t)).map (fun e => (e.1.2, e.2))))
  | .resolve t a => (st, .target ((st.mem.get (t, a)).getD []))
  | .restart => ({ st with mem := rebuild st.files }, .restarted)
  | .graceful => ({ files := flush st.files st.mem, mem := rebuild (flush st.files st.mem) }, .gracefulRestarted)

/-- the behaviour before patch c20-9 (with c20-1 / c20-2 in place): the shutdown flush wrote the inverted
relation -/
def stepOldFlush (st : St) : Op → St × Out
  | .graceful => ({ files := flushOld st.files st.mem, mem := rebuild (flushOld st.files st.mem) }, .gracefulRestarted)
  | op => step st op

/-- the behaviour before patch c20-14 (everything else as now): alias names were not validated — the EMPTY alias
was written into the index' file (returned by `GetAliases`) while `putAliasToIndexInMem` refuses it, so the two
views of the store disagreed for ever -/
def stepOldAnyAlias (st : St) : Op → St × Out
  | .add t i a => if !validIndex i then (st, .res .invalid) else addAlias st t i a
  | op => step st op

def runOldAnyAlias (st : St) : List Op → St × List Out
  | [] => (st, [])
  | op :: r =>
    let (st1, o) := stepOldAnyAlias st op
    let (st2, os) := runOldAnyAlias st1 r
    (st2, o :: os)

/-- the behaviour before patches c20-1 / c20-2 (kept for the counterexample theorems) -/
def stepOld (st : St) : Op → St × Out
  | .remove t i a =>
    if !validIndex i then (st, .res .invalid) else
    ({ files := (removeFile st.files t i a).1, mem := removeMemOld st.mem t i a }, .res (removeFile st.files t i a).2)
  | .restart => ({ st with mem := rebuildOld st.files }, .restarted)
  | op => step st op

/-- abstract state: (org, index) ↦ set of alias names -/
def abs (st : St) : Spec Nat Key (List Key) := fun t i => st.files.get (t, i)

def specStep (s : Spec Nat Key (List Key)) : Op → Spec Nat Key (List Key)
  | .add t i a => if !validIndex i || !validIndex a then s else s.set t i (some (insSet ((s t i).getD []) a))
  | .remove t i a =>
    if !validIndex i then s else
    let cur := delSet ((s t i).getD []) a
    if cur = [] then s.set t i none else s.set t i (some cur)
  | _ => s

/-- alias `a` names index `i` for tenant `t` -/
def Spec.has (s : Spec Nat Key (List Key)) (t : Nat) (i a : Key) : Prop := a ∈ (s t i).getD []

/-- `o` is the documented answer to `op` in the abstract state `s` -/
def OutOk (s : Spec Nat Key (List Key)) : Op → Out → Prop
  | .add _ i a, o => o = .res (if validIndex i && validIndex a then .ok else .invalid)
  | .remove t i a, o =>
    o = .res (if !validIndex i then .invalid
              else if delSet ((s t i).getD []) a = [] ∧ s t i = none then .notFound else .ok)
  | .get t i, o => o = (if validIndex i then .names ((s t i).getD []) else .res .invalid)
  | .list t, .amap l =>
    (l.map Prod.fst).Nodup ∧ (∀ a is, (a, is) ∈ l → is ≠ [] ∧ ∀ i, i ∈ is ↔ Spec.has s t i a) ∧
    (∀ a i, a ≠ [] → Spec.has s t i a → ∃ is, (a, is) ∈ l)
  | .resolve t a, .target l => ∀ i, i ∈ l ↔ (a ≠ [] ∧ Spec.has s t i a)
  | .restart, o => o = .restarted
  | .graceful, o => o = .gracefulRestarted
  | _, _ => False

def run (st : St) : List Op → St × List Out
  | [] => (st, [])
  | op :: r =>
    let (st1, o) := step st op
    let (st2, os) := run st1 r
    (st2, o :: os)

def Op.tenant : Op → Option Nat
  | .add t _ _ => some t | .remove t _ _ => some t | .get t _ => some t | .list t => some t
  | .resolve t _ => some t | .restart => none | .graceful => none

/-- REFINEMENT along an operation sequence -/
def Refines : Spec Nat Key (List Key) → St → List Op → Prop
  | _, _, [] => True
  | s, st, op :: r =>
    OutOk s op (step st op).2 ∧ abs (step st op).1 = specStep s op ∧ Refines (specStep s op) (step st op).1 r

/-- memory view: index `i` is listed under alias `a` of tenant `t` in `aliasToIndexNames` -/
def memView (st : St) (t : Nat) (a i : Key) : Prop := i ∈ (st.mem.get (t, a)).getD []

/-- refinement statement for an OLD behaviour `stp` -/
def RefinesWith (stp : St → Op → St × Out) : Spec Nat Key (List Key) → St → List Op → Prop
  | _, _, [] => True
  | s, st, op :: r =>
    OutOk s op (stp st op).2 ∧ abs (stp st op).1 = specStep s op ∧ RefinesWith stp (specStep s op) (stp st op).1 r

abbrev RefinesOld := RefinesWith stepOld
abbrev RefinesOldFlush := RefinesWith stepOldFlush

def runOld (st : St) : List Op → St × List Out
  | [] => (st, [])
  | op :: r =>
    let (st1, o) := stepOld st op
    let (st2, os) := runOld st1 r
    (st2, o :: os)

/-! ### the ES `_aliases` request (pkg/es/writer/esAliases.go: ProcessPostAliasesRequest :167, processActions :207,
parseAddAction :240, doAddAliases :268, parseRemoveAction :310)

One request carries a list of actions: add with `index`, add with `indices` (the alias for each of them),
remove; anything else (unknown action name, missing / non-string members) is refused.  With patches c20-20 /
c20-21 the actions run in order, the FIRST refused action (or refused `AddAliases` / `RemoveAliases`) ends the
request with 400, the actions before it stay applied, and only a request all of whose actions were accepted is
answered `acknowledged`.  A request therefore IS a prefix of a sequence of add / remove operations: every
theorem about operation sequences covers states reached through requests (`post_is_run`). -/

inductive Act where
  | add (i a : Key)                    -- { "add": { "index": i, "alias": a } }
  | addMany (is : List Key) (a : Key)  -- { "add": { "indices": [...], "alias": a } }
  | remove (i a : Key)                 -- { "remove": { "index": i, "alias": a } }
  | refuse                             -- an action the handler cannot read
  deriving DecidableEq

/-- the add / remove operations an action stands for (`none` = refused before any store call) -/
def actOps (t : Nat) : Act → List (Option Op)
  | .add i a => [some (.add t i a)]
  | .addMany is a => is.map (fun i => some (.add t i a))
  | .remove i a => [some (.remove t i a)]
  | .refuse => [none]

/-- run the operations in order up to and including the first one that is not answered ok -/
def postRun (st : St) : List (Option Op) → St × Bool
  | [] => (st, true)
  | none :: _ => (st, false)
  | some op :: r => if (step st op).2 = .res .ok then postRun (step st op).1 r else ((step st op).1, false)

/-- the operations `postRun` executes -/
def executed (st : St) : List (Option Op) → List Op
  | [] => []
  | none :: _ => []
  | some op :: r => if (step st op).2 = .res .ok then op :: executed (step st op).1 r else [op]

/-- one `_aliases` request of tenant `t`: the state afterwards and "acknowledged" -/
def post (st : St) (t : Nat) (acts : List Act) : St × Bool := postRun st (acts.flatMap (actOps t))

/-- before patches c20-20 / c20-21: an `indices` action was refused before its loop (`indexName.(string)` on the
absent `index`), no refused action stopped the request, and the answer was ALWAYS 200 acknowledged -/
def postOld (st : St) (t : Nat) (acts : List Act) : St × Bool :=
  (acts.foldl (fun s act => match act with
    | .add i a => (step s (.add t i a)).1
    | .remove i a => (step s (.remove t i a)).1
    | _ => s) st, true)

end Alias

/-! ## dashboards and folders (pkg/dashboards/dashboards.go, folders.go)

One `folder_structure[-<org>].json` per org: `items` (id ↦ name, type, parent id) and `order`
(folder id ↦ ordered child ids); one `details/<id>.json` per dashboard — NOT per org, addressed by id only
(`getDashboardDetailsPath`).  There is no in-memory state: every operation reads and rewrites the files.
Ids are UUIDs in the code, consecutive numbers here (0 = "root-folder"); the harness numbers the UUIDs in
creation order.  Mirrors createDashboard :98, toggleFavorite :179, getDashboard :218 with
refreshFolderMetadata :247 (a READ that rewrites the details file when the stored folder path is stale),
updateDashboard :318, deleteDashboard :426, createFolder :258, getFolderContents :310, updateFolder :392
(the duplicate-name test looks at siblings of ANY type), deleteFolder :509 with collectItemsToDelete :566,
listItems :589.  `stepG false` follows the code WITH patches c20-3 / c20-4 / c20-5 (type checks in
updateDashboard / updateFolder, bounded parent walks, org check in getDashboard / toggleFavorite),
`stepG true` the behaviour before them.
The default dashboards (`defaultDBs/`, relative to the working directory) are absent. -/
namespace Dash

inductive Ty where
  | folder | dash
  deriving DecidableEq, Repr

structure Item where
  name : Key
  ty : Ty
  /-- `ParentID`; none = "" (only the root folder) -/
  parent : Option Nat
  deriving DecidableEq

/-- one folder-structure file -/
structure FS where
  items : AL Nat Item
  order : AL Nat (List Nat)
  deriving DecidableEq

/-- one details file (the fields the harness writes and reads) -/
structure Det where
  name : Key
  payload : String          -- "description"
  fid : Nat                 -- folder.id
  fname : Key               -- folder.name
  path : Key                -- folder.path  (names joined with '/')
  crumbs : List Nat         -- folder.breadcrumbs (ids, top down)
  fav : Bool                -- isFavorite
  deriving DecidableEq

structure St where
  fs : Nat → FS
  det : AL Nat Det
  next : Nat

def rootItem : Item := { name := [82, 111, 111, 116], ty := .folder, parent := none }   -- "Root"
def initFS : FS := { items := [(0, rootItem)], order := [(0, [])] }
def init : St := { fs := fun _ => initFS, det := [], next := 1 }

inductive Op where
  | createDash (t : Nat) (name : Key) (payload : String) (parent : Nat)
  | createFolder (t : Nat) (name : Key) (parent : Nat)
  | updateDash (t : Nat) (id : Nat) (name : Key) (payload : String) (newParent : Option Nat)
  | updateFolder (t : Nat) (id : Nat) (name : Option Key) (newParent : Option Nat)   -- name none = "" (unchanged)
  | deleteDash (t : Nat) (id : Nat)
  | deleteFolder (t : Nat) (id : Nat)
  | getDash (t : Nat) (id : Nat)
  | contents (t : Nat) (id : Nat)
  | list (t : Nat)
  | favorite (t : Nat) (id : Nat)
  | restart

/-- one row of listItems -/
structure Row where
  id : Nat
  name : Key
  ty : Ty
  parent : Option Nat
  parentName : Key
  fullPath : Key
  fav : Bool
  payload : String
  deriving DecidableEq

inductive Out where
  | res (r : Res)
  | created (id : Nat)
  | dash (d : Det)
  | folder (name : Key) (ty : Ty) (children : List (Nat × Key × Ty × Nat)) (crumbs : List Nat)
  | rows (l : List Row)
  | fav (b : Bool)
  | restarted
  deriving DecidableEq

def joinPath : List Key → Key
  | [] => []
  | [a] => a
  | a :: r => a ++ [47] ++ joinPath r

/-- names from below the root down to `cur` (`buildFolderPath` / `getFullPath` loop) -/
def pathNames (fs : FS) : Nat → Option Nat → List Key
  | 0, _ => []
  | _ + 1, none => []
  | f + 1, some cur =>
    if cur = 0 then [] else
    match fs.items.get cur with
    | none => []
    | some it => pathNames fs f it.parent ++ [it.name]

def fuel (fs : FS) : Nat := fs.items.length + 1

def folderPath (fs : FS) (fid : Nat) : Key := joinPath (pathNames fs (fuel fs) (some fid))

/-- `generateBreadcrumbs`: ids from the top down to `cur` (the root included) -/
def crumbs (fs : FS) : Nat → Option Nat → List Nat
  | 0, _ => []
  | _ + 1, none => []
  | f + 1, some cur =>
    match fs.items.get cur with
    | none => []
    | some it => crumbs fs f it.parent ++ [cur]

/-- `wouldCreateCircularReference`: walking up from `cur` meets `folder` (or never ends) -/
def reaches (fs : FS) (folder : Nat) : Nat → Option Nat → Bool
  | 0, _ => true
  | _ + 1, none => false
  | f + 1, some cur =>
    if cur = folder then true else
    match fs.items.get cur with
    | none => false
    | some it => reaches fs folder f it.parent

/-- `collectItemsToDelete` -/
def collect (fs : FS) : Nat → Nat → List Nat
  | 0, id => [id]
  | f + 1, id =>
    id :: ((fs.order.get id).getD []).flatMap (fun c =>
      match fs.items.get c with
      | none => []
      | some it => if it.ty = .folder then collect fs f c else [c])

/-- walking up from `cur` ends (reaches "" or a missing item) within the fuel -/
def walkEnds (fs : FS) : Nat → Option Nat → Bool
  | 0, _ => false
  | _ + 1, none => true
  | f + 1, some cur =>
    match fs.items.get cur with
    | none => true
    | some it => walkEnds fs f it.parent

/-- the structure holds a parent cycle.  Before patch c20-3 `buildFolderPath` / `generateBreadcrumbs`
(`for currentID != ""`) never returned on one, and `updateDashboard` — which has no circular-reference check,
only `updateFolder` has — created one when a FOLDER id was "moved" through it under itself or one of its
descendants. -/
def hasCycle (fs : FS) : Bool := fs.items.any (fun e => !walkEnds fs (fuel fs) (some e.1))

def setFS (st : St) (t : Nat) (fs : FS) : St := { st with fs := upd st.fs t fs }

/-- a sibling (child of `parent` in `order`) other than `self` with this name and, if given, this type -/
def nameTaken (fs : FS) (parent : Nat) (name : Key) (ty : Option Ty) (self : Option Nat) : Bool :=
  ((fs.order.get parent).getD []).any (fun c =>
    match fs.items.get c with
    | none => false
    | some it => (match ty with | some ty => decide (it.ty = ty) | none => true) && decide (it.name = name) && decide (some c ≠ self))

def folderMeta (fs : FS) (d : Det) (fid : Nat) : Det :=
  { d with fid := fid, fname := ((fs.items.get fid).map (·.name)).getD [], path := folderPath fs fid,
           crumbs := crumbs fs (fuel fs) (some fid) }

/-- `isDashboardOfOrg` (patch c20-5): the id is a dashboard of the org's own folder structure -/
def ownsDash (st : St) (t id : Nat) : Bool :=
  match (st.fs t).items.get id with
  | some it => decide (it.ty = .dash)
  | none => false

/-- `getDashboard` incl. `refreshFolderMetadata`.  `old` = the behaviour before patch c20-5 (the details file
was served to whatever org asked for the id) -/
def getDashG (old : Bool) (st : St) (t : Nat) (id : Nat) : St × Option Det :=
  if !old && !ownsDash st t id then (st, none) else
  match st.det.get id with
  | none => (st, none)
  | some d =>
    let fs := st.fs t
    match fs.items.get id with
    | none => (st, some d)
    | some it =>
      match it.parent with
      | none => (st, some d)     -- folderID "" is not an item
      | some fid =>
        match fs.items.get fid with
        | none => (st, some d)
        | some _ =>
          if d.path = folderPath fs fid then (st, some d) else
          let d' := folderMeta fs d fid
          ({ st with det := st.det.put id d' }, some d')

/-- one row of `listItems`: the item's details are read through getDashboard (which refreshes stale folder
metadata on the way) -/
abbrev getDash := getDashG false

def listRow (old : Bool) (fs : FS) (t : Nat) (acc : St × List Row) (e : Nat × Item) : St × List Row :=
  if e.1 = 0 then acc else
  let r := getDashG old acc.1 t e.1
  let isD := decide (e.2.ty = .dash)
  let row : Row := {
    id := e.1, name := e.2.name, ty := e.2.ty, parent := e.2.parent,
    parentName := (match e.2.parent with
      | some p => if p = 0 then [] else ((fs.items.get p).map (·.name)).getD []
      | none => []),
    fullPath := joinPath (pathNames fs (fuel fs) (some e.1)),
    fav := isD && ((r.2.map (·.fav)).getD false),
    payload := if isD then ((r.2.map (·.payload)).getD "") else "" }
  (r.1, acc.2 ++ [row])

def listFold (old : Bool) (fs : FS) (t : Nat) (items : List (Nat × Item)) (acc : St × List Row) : St × List Row :=
  items.foldl (listRow old fs t) acc

/-- one operation.  `old = false`: the code WITH patches c20-3 (updateDashboard rejects an id that is not a
dashboard; the path / breadcrumb walks are bounded by the number of items), c20-4 (updateFolder rejects an id
that is not a folder), c20-5 (getDashboard / toggleFavorite serve only dashboards of the caller's own
folder structure) and c20-13 (updateFolder tests the name of a MOVED folder against its new siblings);
`old = true`: the behaviour before them -/
def stepG (old : Bool) (st : St) : Op → St × Out
  | .createDash t name payload parent =>
    let fs := st.fs t
    if name = [] then (st, .res .invalid) else
    match fs.items.get parent with
    | none => (st, .res .parentNotFound)
    | some p =>
      if p.ty ≠ .folder then (st, .res .wrongType) else
      if nameTaken fs parent name (some .dash) none then (st, .res .exists_) else
      let id := st.next
      let fs' : FS := { items := fs.items.put id { name := name, ty := .dash, parent := some parent },
                        order := fs.order.put parent (((fs.order.get parent).getD []) ++ [id]) }
      let d : Det := folderMeta fs' { name := name, payload := payload, fid := parent, fname := [], path := [], crumbs := [], fav := false } parent
      ({ fs := upd st.fs t fs', det := st.det.put id d, next := id + 1 }, .created id)
  | .createFolder t name parent =>
    let fs := st.fs t
    if name = [] then (st, .res .invalid) else
    match fs.items.get parent with
    | none => (st, .res .parentNotFound)
    | some p =>
      if p.ty ≠ .folder then (st, .res .wrongType) else
      if nameTaken fs parent name (some .folder) none then (st, .res .exists_) else
      let id := st.next
      let order1 := fs.order.put id []
      let fs' : FS := { items := fs.items.put id { name := name, ty := .folder, parent := some parent },
                        order := order1.put parent (((order1.get parent).getD []) ++ [id]) }
      ({ st with fs := upd st.fs t fs', next := id + 1 }, .created id)
  | .updateDash t id name payload newParent =>
    let fs := st.fs t
    match fs.items.get id with
    | none => (st, .res .notFound)
    | some it =>
      if !old && it.ty ≠ .dash then (st, .res .wrongType) else
      let cur := it.parent
      let moving : Bool := match newParent with | some np => decide (some np ≠ cur) | none => false
      let r : Except Res (FS × Item) :=
        if moving then
          let np := newParent.getD 0
          match fs.items.get np with
          | none => .error .parentNotFound
          | some p =>
            if p.ty ≠ .folder then .error .wrongType else
            if nameTaken fs np name (some .dash) (some id) then .error .exists_ else
            let order1 := match cur with
              | some c => fs.order.put c (((fs.order.get c).getD []).filter (fun x => x ≠ id))
              | none => fs.order     -- Order[""] of the root: never read again
            let order2 := order1.put np (((order1.get np).getD []) ++ [id])
            let it' := { it with parent := some np }
            .ok ({ items := fs.items.put id it', order := order2 }, it')
        else
          let taken : Bool := match cur with | some c => nameTaken fs c name (some .dash) (some id) | none => false
          if decide (it.name ≠ name) && taken then .error .exists_ else .ok (fs, it)
      match r with
      | .error e => (st, .res e)
      | .ok (fs1, it1) =>
        let fs2 : FS := if it1.name ≠ name then { fs1 with items := fs1.items.put id { it1 with name := name } } else fs1
        let pid := it1.parent.getD 0
        let d : Det := folderMeta fs2 { name := name, payload := payload, fid := pid, fname := [], path := [], crumbs := [], fav := false } pid
        ({ st with fs := upd st.fs t fs2, det := st.det.put id d }, .res .ok)
  | .updateFolder t id name newParent =>
    let fs := st.fs t
    if id = 0 then (st, .res .invalid) else
    match fs.items.get id with
    | none => (st, .res .notFound)
    | some it =>
      if !old && it.ty ≠ .folder then (st, .res .wrongType) else
      let moving : Bool := match newParent with | some np => decide (some np ≠ it.parent) | none => false
      let r : Except Res (FS × Item) :=
        if moving then
          let np := newParent.getD 0
          match fs.items.get np with
          | none => .error .parentNotFound
          | some p =>
            if p.ty ≠ .folder then .error .wrongType else
            if reaches fs id (fuel fs) (some np) then .error .cycle else
            let order1 := match it.parent with
              | some c => (match fs.order.get c with
                  | some l => fs.order.put c (l.filter (fun x => x ≠ id))
                  | none => fs.order)
              | none => fs.order
            let order2 := order1.put np (((order1.get np).getD []) ++ [id])
            .ok ({ fs with order := order2 }, { it with parent := some np })
        else .ok (fs, it)
      match r with
      | .error e => (st, .res e)
      | .ok (fs1, it1) =>
        let ren : Bool := match name with | some n => decide (n ≠ it1.name) | none => false
        -- patch c20-13: the duplicate-name test also runs for a folder that is only MOVED (under the name it keeps);
        -- before it (`old`) only a rename was tested
        let newName : Key := match name with | some n => n | none => it1.name
        let taken : Bool := match (match newParent with | some np => some np | none => it1.parent) with
              | some p => nameTaken fs1 p newName none (some id)
              | none => false
        if (ren || (!old && moving)) && taken then (st, .res .exists_) else
        let it2 := if ren then { it1 with name := name.getD [] } else it1
        (setFS st t { fs1 with items := fs1.items.put id it2 }, .res .ok)
  | .deleteDash t id =>
    let fs := st.fs t
    match fs.items.get id with
    | none => (st, .res .notFound)
    | some it =>
      if it.ty ≠ .dash then (st, .res .wrongType) else
      let order1 := match it.parent with
        | some c => (match fs.order.get c with
            | some l => fs.order.put c (l.filter (fun x => x ≠ id))
            | none => fs.order)
        | none => fs.order
      ({ st with fs := upd st.fs t { items := fs.items.del id, order := order1 }, det := st.det.del id }, .res .ok)
  | .deleteFolder t id =>
    let fs := st.fs t
    if id = 0 then (st, .res .invalid) else
    match fs.items.get id with
    | none => (st, .res .notFound)
    | some it =>
      let dead := collect fs (fuel fs) id
      let det := dead.foldl (fun d x => match fs.items.get x with
        | some ix => if ix.ty = .dash then d.del x else d
        | none => d) st.det
      let order1 := match it.parent with
        | some c => (match fs.order.get c with
            | some l => fs.order.put c (l.filter (fun x => x ≠ id))
            | none => fs.order)
        | none => fs.order
      let fs' : FS := { items := dead.foldl (fun m x => m.del x) fs.items, order := dead.foldl (fun m x => m.del x) order1 }
      ({ st with fs := upd st.fs t fs', det := det }, .res .ok)
  | .getDash t id =>
    match getDashG old st t id with
    | (st', none) => (st', .res .notFound)
    | (st', some d) => (st', .dash d)
  | .contents t id =>
    let fs := st.fs t
    match fs.items.get id with
    | none => (st, .res .notFound)
    | some it =>
      let kids := ((fs.order.get id).getD []).filterMap (fun c =>
        (fs.items.get c).map (fun ci => (c, ci.name, ci.ty,
          if ci.ty = .folder then ((fs.order.get c).getD []).length else 0)))
      (st, .folder it.name it.ty kids (crumbs fs (fuel fs) (some id)))
  | .list t => ((listFold old (st.fs t) t (st.fs t).items (st, [])).1, .rows (listFold old (st.fs t) t (st.fs t).items (st, [])).2)
  | .favorite t id =>
    if !old && !ownsDash st t id then (st, .res .notFound) else
    match st.det.get id with
    | none => (st, .res .notFound)
    | some d => ({ st with det := st.det.put id { d with fav := !d.fav } }, .fav (!d.fav))
  | .restart => (st, .restarted)

abbrev step := stepG false
abbrev stepOld := stepG true

def runG (old : Bool) (st : St) : List Op → St × List Out
  | [] => (st, [])
  | op :: r =>
    let (st1, o) := stepG old st op
    let (st2, os) := runG old st1 r
    (st2, o :: os)

abbrev run := runG false
abbrev runOld := runG true

/-- names of the FOLDERS among the children of `p` (what `getFolderContents` lists), in order -/
def folderNames (fs : FS) (p : Nat) : List Key :=
  ((fs.order.get p).getD []).filterMap (fun c =>
    match fs.items.get c with
    | some it => if it.ty = .folder then some it.name else none
    | none => none)

def Op.tenant : Op → Option Nat
  | .createDash t _ _ _ => some t | .createFolder t _ _ => some t | .updateDash t _ _ _ _ => some t
  | .updateFolder t _ _ _ => some t | .deleteDash t _ => some t | .deleteFolder t _ => some t
  | .getDash t _ => some t | .contents t _ => some t | .list t => some t | .favorite t _ => some t
  | .restart => none

end Dash

/-! ## contact points (pkg/alerts/alertsqlite/alerts_sqlite.go, sqlite through gorm)

Table `contacts` (primary key contact_id, UNIQUE contact_name — unique over ALL orgs, org_id) with the
many-to-many association `Slack`.  The model follows the code WITH patches c20-6 / c20-7 / c20-8:
CreateContact :481 (a contact with the same name exists ⇒ "already exist" error), UpdateContactPoint :512
(the Slack list of the request replaces the stored one, clear + save in one transaction — a refused save
changes nothing), DeleteContactPoint :663, GetAllContactPoints :503; and, since the suite drives the REQUEST
HANDLERS (pkg/alerts/alertsHandler ProcessCreate/Update/DeleteContactRequest, the org of a request resolved by
the org id hook), WITH patches c20-15 (UpdateContactPoint keeps the org of the stored row, whatever org_id the
request body carries) and c20-18 (update / delete answer a contact of another org like one that does not exist).
The behaviour before c20-6/7/8 is kept as `stepOld`, the behaviour before c20-15 / c20-18 as `stepBodyOrg`.
Ids are UUIDs in the code, consecutive numbers (from 1) here. -/
namespace Contact

structure Row where
  name : Key
  org : Nat
  pager : String
  slack : List String
  deriving DecidableEq

structure St where
  rows : AL Nat Row
  next : Nat

def init : St := { rows := [], next := 1 }

inductive Op where
  | create (t : Nat) (name : Key) (pager : String) (slack : List String)
  | update (t : Nat) (id : Nat) (name : Key) (pager : String) (slack : List String)
  | delete (t : Nat) (id : Nat)
  | list (t : Nat)
  | restart

inductive Out where
  | res (r : Res)
  | created (id : Nat)
  | notCreated            -- OLD: CreateContact answered nil and created nothing
  | saveFailed            -- OLD: UpdateContactPoint: the Save failed (UNIQUE contact_name) after the lists were cleared
  | rows (l : List (Nat × Row))
  | restarted
  deriving DecidableEq

def nameUsed (rows : AL Nat Row) (name : Key) (except : Option Nat) : Bool :=
  rows.any (fun e => decide (e.2.name = name) && decide (some e.1 ≠ except))

def step (st : St) : Op → St × Out
  | .create t name pager slack =>
    if nameUsed st.rows name none then (st, .res .exists_) else
    ({ rows := st.rows.put st.next { name := name, org := t, pager := pager, slack := slack }, next := st.next + 1 },
     .created st.next)
  | .update t id name pager slack =>
    match st.rows.get id with
    | none => (st, .res .notFound)
    | some r =>
      if r.org ≠ t then (st, .res .notFound) else        -- c20-18: not a contact of the request's org
      if nameUsed st.rows name (some id) then (st, .res .exists_) else
      ({ st with rows := st.rows.put id { name := name, org := r.org, pager := pager, slack := slack } }, .res .ok)   -- c20-15
  | .delete t id =>
    match st.rows.get id with
    | none => (st, .res .notFound)
    | some r => if r.org ≠ t then (st, .res .notFound) else ({ st with rows := st.rows.del id }, .res .ok)
  | .list t => (st, .rows (st.rows.filter (fun e => e.2.org = t)))
  | .restart => (st, .restarted)

/-- the behaviour before patches c20-15 / c20-18 (with c20-6/7/8 in place): update and delete address a contact by
its id alone, and the saved row carries the org the request BODY names (`bodyOrg t`; a body without `org_id`
means org 0) -/
def stepBodyOrg (bodyOrg : Nat → Nat) (st : St) : Op → St × Out
  | .update t id name pager slack =>
    match st.rows.get id with
    | none => (st, .res .notFound)
    | some _ =>
      if nameUsed st.rows name (some id) then (st, .res .exists_) else
      ({ st with rows := st.rows.put id { name := name, org := bodyOrg t, pager := pager, slack := slack } }, .res .ok)
  | .delete _ id =>
    match st.rows.get id with
    | none => (st, .res .notFound)
    | some _ => ({ st with rows := st.rows.del id }, .res .ok)
  | op => step st op

/-- the behaviour before patches c20-6 / c20-7 / c20-8: a create with an existing name is acknowledged and
dropped; the Slack association is cleared only when the new list is not empty, and BEFORE (outside the
transaction of) the `Save` whose UNIQUE failure is then reported -/
def stepOld (st : St) : Op → St × Out
  | .create t name pager slack =>
    if nameUsed st.rows name none then (st, .notCreated) else
    ({ rows := st.rows.put st.next { name := name, org := t, pager := pager, slack := slack }, next := st.next + 1 },
     .created st.next)
  | .update t id name pager slack =>
    match st.rows.get id with
    | none => (st, .res .notFound)
    | some r =>
      let r1 : Row := if slack = [] then r else { r with slack := [] }
      if nameUsed st.rows name (some id) then ({ st with rows := st.rows.put id r1 }, .saveFailed) else
      ({ st with rows := st.rows.put id { name := name, org := t, pager := pager, slack := if slack = [] then r.slack else slack } },
       .res .ok)
  | op => step st op

def run (st : St) : List Op → St × List Out
  | [] => (st, [])
  | op :: r =>
    let (st1, o) := step st op
    let (st2, os) := run st1 r
    (st2, o :: os)

abbrev CVal := Key × String × List String

/-- abstract state: (org, contact id) ↦ (name, pager, slack list) -/
def abs (st : St) : Spec Nat Nat CVal :=
  fun t id => match st.rows.get id with
    | some r => if r.org = t then some (r.name, r.pager, r.slack) else none
    | none => none

/-- the name is held by a contact (of ANY org) other than `except` -/
def NameUsed (s : Spec Nat Nat CVal) (name : Key) (except : Option Nat) : Prop :=
  ∃ t id v, s t id = some v ∧ v.1 = name ∧ some id ≠ except

/-- `o` is the documented answer: contact names are unique (over all orgs — as the table's UNIQUE index
has it), a create is stored under the fresh id `next`, update / delete address the caller's own contact -/
def OutOk (s : Spec Nat Nat CVal) (next : Nat) : Op → Out → Prop
  | .create _ name _ _, o =>
    (¬ NameUsed s name none ∧ o = .created next) ∨ (NameUsed s name none ∧ o = .res .exists_)
  | .update t id name _ _, o =>
    (s t id = none ∧ o = .res .notFound) ∨
    (s t id ≠ none ∧ ¬ NameUsed s name (some id) ∧ o = .res .ok) ∨
    (s t id ≠ none ∧ NameUsed s name (some id) ∧ o = .res .exists_)
  | .delete t id, o => o = .res (s.delete t id).2
  | .list t, .rows l =>
    (l.map Prod.fst).Nodup ∧ ∀ id r, (id, r) ∈ l ↔ (s t id = some (r.name, r.pager, r.slack) ∧ r.org = t)
  | .restart, o => o = .restarted
  | _, _ => False

/-- the abstract state after an operation that was answered `o` -/
def specNext (s : Spec Nat Nat CVal) : Op → Out → Spec Nat Nat CVal
  | .create t name pager slack, .created id => s.set t id (some (name, pager, slack))
  | .update t id name pager slack, .res .ok => s.set t id (some (name, pager, slack))
  | .delete t id, .res .ok => s.set t id none
  | _, _ => s

def RefinesWith (stp : St → Op → St × Out) : Spec Nat Nat CVal → St → List Op → Prop
  | _, _, [] => True
  | s, st, op :: r =>
    OutOk s st.next op (stp st op).2 ∧ abs (stp st op).1 = specNext s op (stp st op).2 ∧
    RefinesWith stp (specNext s op (stp st op).2) (stp st op).1 r

abbrev Refines := RefinesWith step
abbrev RefinesOld := RefinesWith stepOld
/-- before c20-15 / c20-18, for a client that puts its own org into the body -/
abbrev RefinesBodyOrg := RefinesWith (stepBodyOrg id)

/-- guard of one step (needed only for the behaviour before patch c20-18): update and delete address a contact of
the caller's org, or no contact at all -/
def stepOwn (st : St) : Op → Bool
  | .update t id _ _ _ =>
    match st.rows.get id with
    | none => true
    | some r => decide (r.org = t)
  | .delete t id =>
    match st.rows.get id with
    | none => true
    | some r => decide (r.org = t)
  | _ => true

def OwnIds : St → List Op → Bool
  | _, [] => true
  | st, op :: r => stepOwn st op && OwnIds (step st op).1 r

def runBodyOrg (bodyOrg : Nat → Nat) (st : St) : List Op → St × List Out
  | [] => (st, [])
  | op :: r =>
    let (st1, o) := stepBodyOrg bodyOrg st op
    let (st2, os) := runBodyOrg bodyOrg st1 r
    (st2, o :: os)

def Op.tenant : Op → Option Nat
  | .create t _ _ _ => some t | .update t _ _ _ _ => some t | .delete t _ => some t | .list t => some t
  | .restart => none

end Contact

/-! ## alert definitions (pkg/alerts/alertsqlite/alerts_sqlite.go; driven the way the HTTP handlers do)

Table `all_alerts` (primary key alert_id, UNIQUE alert_name over ALL orgs, org_id, contact_id, contact_name
copied from the contact).  CreateAlert :210 (`isValid(name)`: not "" and not "*"; `isNewAlertName` :141
answers true on BOTH branches, so a duplicate name is only caught by the UNIQUE index when the row is
inserted; the contact must exist — in whatever org), GetAlert :272 (WITH patch c20-22 an unknown id is refused
"alert does not exist"; before it answered an EMPTY alert and no error, kept as `stepUnknownIdOld`; no org check), UpdateAlert :361 as called by ProcessUpdateAlertRequest (GetAlert, overwrite the
configuration fields, UpdateAlert: name valid, alert exists,
a CHANGED contact must exist and its name is copied, Save fails on a duplicate name; the row keeps its org),
DeleteAlert :445, GetAllAlerts :298.  The auxiliary contact create follows patch c20-8.
The suite drives the REQUEST HANDLERS (ProcessCreate/Update/Delete/GetAlertRequest; the org of a request is
resolved by the org id hook), WITH patches c20-16 (the created alert belongs to the org of the request, whatever
org_id the body carries) and c20-18 (`getAlertOfRequest`: update / delete / get answer an alert of another org
like one that does not exist; an unknown id is "does not exist" for every org, c20-22).  The behaviour before c20-18 is kept
as `stepNoOrg`, the create before c20-16 as `createBodyOrg`.
Alerts and contacts are numbered separately from 1. -/
namespace AlertDB

structure Row where
  name : Key
  org : Nat
  msg : String
  cid : Nat
  cname : Key
  deriving DecidableEq

structure St where
  contacts : AL Nat Key
  alerts : AL Nat Row
  nextC : Nat
  nextA : Nat

def init : St := { contacts := [], alerts := [], nextC := 1, nextA := 1 }

inductive Op where
  | contact (t : Nat) (name : Key)
  | create (t : Nat) (name : Key) (msg : String) (cid : Nat)
  | update (t : Nat) (id : Nat) (name : Key) (msg : String) (cid : Option Nat)
  | delete (t : Nat) (id : Nat)
  | get (t : Nat) (id : Nat)
  | list (t : Nat)
  | restart

inductive Out where
  | res (r : Res)
  | created (id : Nat)
  | alert (id : Nat) (r : Row)
  | noAlert                      -- GetAlert of an unknown id: an empty alert
  | rows (l : List (Nat × Row))
  | restarted
  deriving DecidableEq

/-- `isValid` -/
def validName (n : Key) : Bool := !(n = [] || n = [42])

def nameUsed (alerts : AL Nat Row) (name : Key) (except : Option Nat) : Bool :=
  alerts.any (fun e => decide (e.2.name = name) && decide (some e.1 ≠ except))

def step (st : St) : Op → St × Out
  | .contact _ name =>
    if st.contacts.any (fun e => e.2 = name) then (st, .res .exists_) else
    ({ st with contacts := st.contacts.put st.nextC name, nextC := st.nextC + 1 }, .created st.nextC)
  | .create t name msg cid =>
    if !validName name then (st, .res .invalid) else
    match st.contacts.get cid with
    | none => (st, .res .parentNotFound)
    | some cn =>
      if nameUsed st.alerts name none then (st, .res .exists_) else
      ({ st with alerts := st.alerts.put st.nextA { name := name, org := t, msg := msg, cid := cid, cname := cn },
                 nextA := st.nextA + 1 }, .created st.nextA)
  | .update t id name msg cid =>
    match st.alerts.get id with
    | none => (st, .res .notFound)                       -- c20-22: GetAlert refuses an unknown id
    | some r =>
      if r.org ≠ t then (st, .res .notFound) else        -- c20-18
      if !validName name then (st, .res .invalid) else
      let newCid := cid.getD r.cid
      match (if newCid = r.cid then some r.cname else st.contacts.get newCid) with
      | none => (st, .res .parentNotFound)
      | some cn =>
        if nameUsed st.alerts name (some id) then (st, .res .exists_) else
        ({ st with alerts := st.alerts.put id { r with name := name, msg := msg, cid := newCid, cname := cn } }, .res .ok)
  | .delete t id =>
    match st.alerts.get id with
    | none => (st, .res .notFound)
    | some r => if r.org ≠ t then (st, .res .notFound) else ({ st with alerts := st.alerts.del id }, .res .ok)
  | .get t id =>
    match st.alerts.get id with
    | none => (st, .res .notFound)                       -- c20-22
    | some r => if r.org ≠ t then (st, .res .notFound) else (st, .alert id r)
  | .list t => (st, .rows (st.alerts.filter (fun e => e.2.org = t)))
  | .restart => (st, .restarted)

/-- the behaviour before patch c20-22 (with c20-16 / c20-18): GetAlert answered an unknown id with an EMPTY alert and
no error (gorm `Find`); the empty alert has org 0 and the id "", so for org 0 a get of an unknown id was answered
200 with the empty alert and an update of it "alert id not valid"; every other org was told "does not exist" -/
def stepUnknownIdOld (st : St) : Op → St × Out
  | .update t id name msg cid =>
    match st.alerts.get id with
    | none => if t ≠ 0 then (st, .res .notFound) else (st, .res .invalid)
    | some _ => step st (.update t id name msg cid)
  | .get t id =>
    match st.alerts.get id with
    | none => if t ≠ 0 then (st, .res .notFound) else (st, .noAlert)
    | some _ => step st (.get t id)
  | op => step st op

/-- the behaviour before patch c20-18: update / delete / get address an alert by its id alone -/
def stepNoOrg (st : St) : Op → St × Out
  | .update _ id name msg cid =>
    if !validName name then (st, .res .invalid) else
    match st.alerts.get id with
    | none => (st, .res .invalid)
    | some r =>
      let newCid := cid.getD r.cid
      match (if newCid = r.cid then some r.cname else st.contacts.get newCid) with
      | none => (st, .res .parentNotFound)
      | some cn =>
        if nameUsed st.alerts name (some id) then (st, .res .exists_) else
        ({ st with alerts := st.alerts.put id { r with name := name, msg := msg, cid := newCid, cname := cn } }, .res .ok)
  | .delete _ id =>
    match st.alerts.get id with
    | none => (st, .res .notFound)
    | some _ => ({ st with alerts := st.alerts.del id }, .res .ok)
  | .get _ id =>
    match st.alerts.get id with
    | none => (st, .noAlert)
    | some r => (st, .alert id r)
  | op => step st op

/-- the create request before patch c20-16: the alert is stored for the org the request BODY names -/
def createBodyOrg (st : St) (bodyOrg : Nat) (name : Key) (msg : String) (cid : Nat) : St × Out :=
  step st (.create bodyOrg name msg cid)

def Op.tenant : Op → Option Nat
  | .contact t _ => some t | .create t _ _ _ => some t | .update t _ _ _ _ => some t | .delete t _ => some t
  | .get t _ => some t | .list t => some t | .restart => none

def run (st : St) : List Op → St × List Out
  | [] => (st, [])
  | op :: r =>
    let (st1, o) := step st op
    let (st2, os) := run st1 r
    (st2, o :: os)

end AlertDB

/-! ## lookup files (pkg/lookups/lookups.go)

One directory of files per org and no in-memory state: org 0 keeps `<data>/lookups/`, every other org the
sub-directory `<data>/lookups/<org>/` (config.GetLookupPathForOrg; WITH patch c13-1 — before it the handlers took no
org id and all orgs shared the one directory: `stepOld`).  UploadLookupFile (the name must be a simple file name;
".csv" / ".csv.gz" is appended unless the name already ends in one of them, case-insensitively; an existing file is
replaced only with overwrite=true, otherwise 409), GetLookupFile / DeleteLookupFile (a name without one of the two
extensions is no lookup file: not found — the directory of org 0 also holds the sub-directories of the other orgs),
GetAllLookupFiles (the regular files of the org's directory). -/
namespace Lookup

def asciiLower (c : Nat) : Nat := if 65 ≤ c ∧ c ≤ 90 then c + 32 else c

def endsWithCI (name suffix : Key) : Bool := (name.map asciiLower).reverse.take suffix.length = suffix.reverse

def csv : Key := [46, 99, 115, 118]
def csvgz : Key := [46, 99, 115, 118, 46, 103, 122]

/-- `hasLookupFileExt` -/
def hasExt (name : Key) : Bool := endsWithCI name csv || endsWithCI name csvgz

/-- the file name an upload is stored under -/
def norm (name : Key) (gz : Bool) : Key :=
  if endsWithCI name csv || endsWithCI name csvgz then name else name ++ (if gz then csvgz else csv)

structure St where
  /-- the regular files of the directory of each org -/
  files : Nat → AL Key String

def init : St := { files := fun _ => [] }

inductive Op where
  | upload (t : Nat) (name : Key) (content : String) (overwrite gz : Bool)
  | get (t : Nat) (name : Key)
  | delete (t : Nat) (name : Key)
  | list (t : Nat)
  | restart

inductive Out where
  | res (r : Res)
  | stored (name : Key)
  | content (c : String)
  | names (l : List Key)
  | restarted
  deriving DecidableEq

def step (st : St) : Op → St × Out
  | .upload t name content overwrite gz =>
    if !Alias.validIndex name then (st, .res .invalid) else
    let final := norm name gz
    match (st.files t).get final with
    | some _ => if overwrite then ({ files := upd st.files t ((st.files t).put final content) }, .stored final) else (st, .res .exists_)
    | none => ({ files := upd st.files t ((st.files t).put final content) }, .stored final)
  | .get t name =>
    if !hasExt name then (st, .res .notFound) else
    match (st.files t).get name with
    | some c => (st, .content c)
    | none => (st, .res .notFound)
  | .delete t name =>
    if !hasExt name then (st, .res .notFound) else
    match (st.files t).get name with
    | some _ => ({ files := upd st.files t ((st.files t).del name) }, .res .ok)
    | none => (st, .res .notFound)
  | .list t => (st, .names (st.files t).keys)
  | .restart => (st, .restarted)

/-- BEFORE patch c13-1: the handlers took no org id — every request, whatever its org, worked on the directory of
org 0 (and no extension was asked of a name that is read or deleted) -/
def stepOld (st : St) : Op → St × Out
  | .upload _ name content overwrite gz => step st (.upload 0 name content overwrite gz)
  | .get _ name =>
    match (st.files 0).get name with
    | some c => (st, .content c)
    | none => (st, .res .notFound)
  | .delete _ name =>
    match (st.files 0).get name with
    | some _ => ({ files := upd st.files 0 ((st.files 0).del name) }, .res .ok)
    | none => (st, .res .notFound)
  | .list _ => (st, .names (st.files 0).keys)
  | .restart => (st, .restarted)

/-- abstract state: (org, file name) ↦ content -/
def abs (st : St) : Spec Nat Key String := fun t k => (st.files t).get k

def specStep (s : Spec Nat Key String) : Op → Spec Nat Key String
  | .upload t name content overwrite gz =>
    if !Alias.validIndex name then s else
    if overwrite then (s.put t (norm name gz) content).1 else (s.create t (norm name gz) content).1
  | .delete t name => (s.delete t name).1
  | _ => s

/-- `o` is the documented answer to `op` in the abstract state `s` -/
def OutOk (s : Spec Nat Key String) : Op → Out → Prop
  | .upload t name content overwrite gz, o =>
    o = (if !Alias.validIndex name then .res .invalid
         else if overwrite then .stored (norm name gz)
         else if (s.create t (norm name gz) content).2 = .ok then .stored (norm name gz) else .res .exists_)
  | .get t name, o => o = (match s t name with | some c => .content c | none => .res .notFound)
  | .delete t name, o => o = .res (s.delete t name).2
  | .list t, .names l => l.Nodup ∧ ∀ k, k ∈ l ↔ s t k ≠ none
  | .restart, o => o = .restarted
  | _, _ => False

/-- the tenant an operation addresses -/
def Op.tenant : Op → Option Nat
  | .upload t _ _ _ _ => some t | .get t _ => some t | .delete t _ => some t | .list t => some t | .restart => none

def Refines : Spec Nat Key String → St → List Op → Prop
  | _, _, [] => True
  | s, st, op :: r =>
    OutOk s op (step st op).2 ∧ abs (step st op).1 = specStep s op ∧ Refines (specStep s op) (step st op).1 r

def run (st : St) : List Op → St × List Out
  | [] => (st, [])
  | op :: r =>
    let (st1, o) := step st op
    let (st2, os) := run st1 r
    (st2, o :: os)

def runOld (st : St) : List Op → St × List Out
  | [] => (st, [])
  | op :: r =>
    let (st1, o) := stepOld st op
    let (st2, os) := runOld st1 r
    (st2, o :: os)

end Lookup

end SigModel.KV
