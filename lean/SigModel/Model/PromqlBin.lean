/-
Model of the BINARY OPERATORS BETWEEN TWO RESULT VECTORS of metric queries (C09, "arithmetic between vectors matches
label sets"), mirroring

  pkg/segment/segexecution.go            : HelperQueryArithmeticAndLogical, the vector–vector branch WITHOUT
        on()/ignoring() (`hasVectorMatchingOp = false`) and with `opLabelsDoNotNeedToMatch = false`, WITH the
        repair c09-15 and the pending repairs c09-19 (operators evaluated per timestamp), c09-20 (x / 0) and c09-25
        (labelPartOfGroupID): the label part of a group id is what follows the metric name of the vector when the id
        starts with that name and goes on with "{" (or ends there); any other id — the ids of a vector that comes from
        an `or` can start with different metric names — is cut at its first "{" (`cutLabel?`; before c09-25 every id was
        SLICED at len(MetricName): `cutLabel`); the label part is brought into a canonical form (canonicalLabelSet: leading "{"
        dropped, split on ",", items sorted, empty items dropped, joined with ","); the partner is the right id whose
        label part has the same canonical form (the smallest such id).  PER TIMESTAMP (c09-19): arithmetic, comparison
        and `and` write a sample only where the partner series has one too (`valueRHS, ok := tsRHS[timestamp]`; before
        the repair a missing right sample was read as 0: `leftPtsOld`), `unless` keeps the left samples where the partner
        has none (and drops a left id that keeps no sample; before: the whole left id was deleted as soon as some right id
        had its label set), `or` keeps all left samples and takes a right sample where no left id of the same canonical
        label set has one (before: a right id was copied whole iff no left id had its label set).  Before c09-15 the id
        STRINGS were compared (`resultRHS.MetricName + labelStr`): `partnerIdOld`, counterexamples in Props/C09.lean;
  pkg/integrations/prometheus/utils/…    : SetFinalResult (83-200) with swapped = false, ConstantOp = false.

A group id is  <metric> "{" k1 ":" v1 "," … (Model/Promql.lean `seriesIdOf`); here it is just a byte string, and a
result vector is a metric name plus a map id → (timestamp → value) — the model does what the code does for ANY ids,
also ids that do not start with the metric name or are shorter than it.  Values are integers (the correspondence
run uses integer-valued float64, |v| < 2^20): + - * are exact, / is the correctly rounded float64 quotient
(`Promql.f64div`; x / 0 is ±Inf, 0 / 0 is NaN — c09-20; before it the sample was dropped), % is math.Mod (sign of the
dividend), ^ is exact for exponents 0..4 and |base| ≤ 8192; the Oracle rejects the remaining pow inputs and so does the harness.

NOT modelled: on()/ignoring()/group_left/group_right (ExtractMatchingLabelSet), scalar and constant operands,
nested expressions (processQueryArithmeticNodeOp), MQueryAggsChain.
-/
import SigModel.Model.Promql

namespace SigModel.PromqlBin
open SigModel.Promql

inductive Op where
  | add | sub | mul | div | mod | pow | eq | ne | gt | lt | ge | le | and | or | unless
deriving DecidableEq, Repr

def Op.isSet : Op → Bool
  | .and | .or | .unless => true
  | _ => false

/-- a value as the Oracle prints it -/
inductive Val where
  | num (q : Rat)
  | nan                -- x % 0, 0 / 0
  | inf (neg : Bool)   -- x / 0, x ≠ 0
  | unmodelled         -- x ^ y with y outside 0..4
deriving DecidableEq, Repr

abbrev Pts := List (Nat × Int)            -- distinct timestamps
abbrev Vec := List (Str × Pts)            -- distinct ids   (MetricsResult.Results)

structure Res where
  name : Str                              -- MetricsResult.MetricName
  series : Vec

def lookupPts (v : Vec) (id : Str) : Option Pts := (v.find? (·.1 == id)).map (·.2)
def ptAt? (p : Pts) (t : Nat) : Option Int := (p.find? (·.1 == t)).map (·.2)
/-- the Go map read `m[t]` of a missing key (what the code did before the repair c09-19) -/
def ptAt (p : Pts) (t : Nat) : Int := (ptAt? p t).getD 0

/-- `id[len(MetricName):]` when the id is long enough (before the repair c09-25) -/
def cutLabel (name id : Str) : Str := if id.length ≥ name.length then id.drop name.length else []

/-- the suffix of a string from its first '{' on -/
def fromFirstBrace : Str → Option Str
  | [] => none
  | c :: r => if c = cBrace then some (c :: r) else fromFirstBrace r

/-- labelPartOfGroupID (repair c09-25) -/
def cutLabel? (name id : Str) : Option Str :=
  if name.isPrefixOf id && (id.length == name.length || (id.drop name.length).head? == some cBrace) then some (id.drop name.length)
  else fromFirstBrace id

/-- the partner id BEFORE the repair c09-15: the right metric name followed by the very same label string -/
def partnerIdOld (lname rname lid : Str) : Str := if lid.length ≥ lname.length then rname ++ cutLabel lname lid else []

/-- bytewise lexicographic ≤ (Go string comparison) -/
def strLe : Str → Str → Bool
  | [], _ => true
  | _ :: _, [] => false
  | a :: r, b :: s => a < b || (a == b && strLe r s)

def insertStr (x : Str) : List Str → List Str
  | [] => [x]
  | y :: ys => if strLe x y then x :: y :: ys else y :: insertStr x ys

/-- sort.Strings -/
def sortStrs (l : List Str) : List Str := l.foldr insertStr []

/-- canonicalLabelSet: TrimPrefix "{", Split ",", sort, drop the empty items (they sort first), Join "," -/
def canonLabel (s : Str) : Str :=
  let body := match s with
    | c :: r => if c = cBrace then r else s
    | [] => []
  joinWith cComma ((sortStrs (splitOn cComma body)).dropWhile (· == []))

/-- the canonical label set under which an id of a vector is filed ("" for an id shorter than the metric name) -/
def labelSetOf (name id : Str) : Str := ((cutLabel? name id).map canonLabel).getD []

/-- `rGroupIDOfLabelSet`: the smallest right id (long enough) with this canonical label set -/
def partnerOf (r : Str × List Str) (c : Str) : Option Str :=
  ((r.2.filter (fun rid => (cutLabel? r.1 rid).map canonLabel == some c)).foldl
    (fun (acc : Option Str) rid => match acc with
      | none => some rid
      | some p => if strLe p rid then some p else some rid) none)

/-- `rGroupID` of the left loop: the partner id, "" when there is none or the left id is shorter than its metric name -/
def partnerId (lname : Str) (r : Str × List Str) (lid : Str) : Str :=
  match cutLabel? lname lid with
  | some p => (partnerOf r (canonLabel p)).getD []
  | none => []

/-- SetFinalResult for one (timestamp, left value, right value): `none` = the map entry is not written -/
def setFinal (op : Op) (retBool : Bool) (x y : Int) : Option Val :=
  let cmp (b : Bool) : Option Val :=
    if b then some (.num (if retBool then 1 else (x : Rat))) else (if retBool then some (.num 0) else none)
  match op with
  | .add => some (.num ((x + y : Int) : Rat))
  | .sub => some (.num ((x - y : Int) : Rat))
  | .mul => some (.num ((x * y : Int) : Rat))
  | .div => if y = 0 then some (if x = 0 then .nan else .inf (x < 0)) else some (.num (f64div x y.natAbs * (if y < 0 then -1 else 1)))
  | .mod => if y = 0 then some .nan else some (.num ((Int.tmod x y : Int) : Rat))
  | .pow => if 0 ≤ y ∧ y ≤ 4 ∧ x.natAbs ≤ 8192 then some (.num ((x ^ y.toNat : Int) : Rat)) else some .unmodelled
  | .eq => cmp (x == y)
  | .ne => cmp (x != y)
  | .gt => cmp (x > y)
  | .lt => cmp (x < y)
  | .ge => cmp (x ≥ y)
  | .le => cmp (x ≤ y)
  | .and | .or | .unless => some (.num (x : Rat))

abbrev Out := List (Str × List (Nat × Val))

def outInsert (o : Out) (id : Str) (pts : List (Nat × Val)) : Out :=
  if o.any (·.1 == id) then o.map (fun e => if e.1 == id then (id, pts) else e) else o ++ [(id, pts)]

def hasId (v : Vec) (id : Str) : Bool := (lookupPts v id).isSome

def rKey (r : Res) : Str × List Str := (r.name, r.series.map (·.1))

/-- the samples written for ONE left series (points `pl`) whose partner series has the points `rp` (`none`: no partner,
    or an id that the right vector does not have): arithmetic / comparison / `and` need a right sample at the
    timestamp, `unless` keeps the left sample where there is none, `or` keeps every left sample (SetFinalResult then
    writes the left value; the right value it is handed is the zero value of the missing map entry) -/
def leftPts (op : Op) (retBool : Bool) (pl : Pts) (rp : Option Pts) : List (Nat × Val) :=
  pl.filterMap (fun (t, x) =>
    match rp.bind (ptAt? · t) with
    | some y => if op == .unless then none else (setFinal op retBool x y).map (fun v => (t, v))
    | none => if op == .or || op == .unless then (setFinal op retBool x 0).map (fun v => (t, v)) else none)

/-- … before the repair c09-19: every left timestamp, a missing right sample read as 0 -/
def leftPtsOld (op : Op) (retBool : Bool) (pl : Pts) (rp : Option Pts) : List (Nat × Val) :=
  pl.filterMap (fun (t, x) => (setFinal op retBool x (ptAt (rp.getD []) t)).map (fun v => (t, v)))

/-- the loop over the left vector: the ids of a Go map are distinct, so every kept id gets its own
    entry; an id without partner is skipped unless the operator is or / unless -/
def leftPass (op : Op) (retBool : Bool) (l r : Res) : Out :=
  l.series.filterMap (fun e =>
    if hasId r.series (partnerId l.name (rKey r) e.1) || op == .or || op == .unless then
      some (e.1, leftPts op retBool e.2 (lookupPts r.series (partnerId l.name (rKey r) e.1)))
    else none)

/-- the canonical label sets of the left ids (`lGroupIDsOfLabelSet`, only filled for or) -/
def leftLabelSets (l : Res) : List Str := l.series.map (fun e => labelSetOf l.name e.1)

/-- the canonical label sets of the right ids -/
def rightLabelSets (r : Res) : List Str := r.series.map (fun e => labelSetOf r.name e.1)

/-- some left id of the canonical label set `c` has a sample at `t` -/
def leftHasAt (l : Res) (c : Str) (t : Nat) : Bool :=
  l.series.any (fun e => labelSetOf l.name e.1 == c && (ptAt? e.2 t).isSome)

/-- `finalResult[id][t] = v` -/
def outSetPt (o : Out) (id : Str) (t : Nat) (v : Val) : Out :=
  if o.any (·.1 == id) then o.map (fun e => if e.1 == id then (id, e.2.filter (·.1 != t) ++ [(t, v)]) else e)
  else o ++ [(id, [(t, v)])]

/-- `or`, loop over the right vector: a right sample is written (under the right id) where no left id of the same
    canonical label set has a sample -/
def orPass (l r : Res) (o : Out) : Out :=
  r.series.foldl (fun o e =>
    (e.2.filter (fun p => !leftHasAt l (labelSetOf r.name e.1) p.1)).foldl (fun o p => outSetPt o e.1 p.1 (Val.num (p.2 : Rat))) o) o

/-- HelperQueryArithmeticAndLogical, vector–vector, no vector matching clause; `unless`: a left id that keeps no
    sample is deleted -/
def binop (op : Op) (retBool : Bool) (l r : Res) : Out :=
  let o := leftPass op retBool l r
  match op with
  | .unless => o.filter (fun e => !e.2.isEmpty)
  | .or => orPass l r o
  | _ => o

def outIds (o : Out) : List Str := o.map (·.1)
def vecIds (res : Res) : List Str := res.series.map (·.1)

/-! ### what the property says (for the theorems): vectors given by label parts -/

/-- a label part: empty, or beginning with '{' (any bytes behind it) -/
def partOK (p : Str) : Prop := p = [] ∨ p.head? = some cBrace

/-- every id of a vector is its metric name followed by a label part -/
def wellFormed (res : Res) : Prop := ∀ id ∈ vecIds res, ∃ p, id = res.name ++ p ∧ partOK p

end SigModel.PromqlBin
