/-
Model of the BINARY OPERATORS BETWEEN TWO RESULT VECTORS of metric queries (C09, "arithmetic between vectors matches
label sets"), mirroring

  pkg/segment/segexecution.go            : HelperQueryArithmeticAndLogical (243-498), the vector–vector branch
        WITHOUT on()/ignoring() (`hasVectorMatchingOp = false`) and with `opLabelsDoNotNeedToMatch = false`
        (lines 430-493): the label part of a group id is cut out by SLICING the id at len(MetricName)
        (`lGroupID[len(resultLHS.MetricName):]`), the partner id is `resultRHS.MetricName + labelStr`;
  pkg/integrations/prometheus/utils/…    : SetFinalResult (83-200) with swapped = false, ConstantOp = false.

A group id is  <metric> "{" k1 ":" v1 "," … (Model/Promql.lean `seriesIdOf`); here it is just a byte string, and a
result vector is a metric name plus a map id → (timestamp → value) — the model does what the code does for ANY ids,
also ids that do not start with the metric name or are shorter than it.  Values are integers (the correspondence
run uses integer-valued float64, |v| < 2^40): + - * are exact, / is the correctly rounded float64 quotient
(`Promql.f64div`), % is math.Mod (sign of the dividend), ^ is exact for exponents 0..4 and |base| ≤ 8192; the Oracle prints a fixed token
for the remaining input pairs (x % 0, exponent outside 0..4 or |base| > 8192) and so does the harness, by the INPUTS.
A timestamp of the left series that the partner series does not have reads the partner as 0 (Go map zero value):
mirrored as it is (what PromQL says there is a question for the end-to-end specification, not for this kernel).

NOT modelled: on()/ignoring()/group_left/group_right (ExtractMatchingLabelSet), scalar and constant operands,
nested expressions (processQueryArithmeticNodeOp), MQueryAggsChain.
-/
import SigModel.Model.Promql

namespace SigModel.PromqlBin
open SigModel.Promql

inductive Op where
  | add | sub | mul | div | mod | pow | eq | ne | gt | lt | ge | le | and | or | unless
deriving DecidableEq, Repr

def Op.isSet : Op → Bool
  | .and | .or | .unless => true
  | _ => false

/-- a value as the Oracle prints it -/
inductive Val where
  | num (q : Rat)
  | nan                -- x % 0
  | unmodelled         -- x ^ y with y outside 0..4
deriving DecidableEq, Repr

abbrev Pts := List (Nat × Int)            -- distinct timestamps
abbrev Vec := List (Str × Pts)            -- distinct ids   (MetricsResult.Results)

structure Res where
  name : Str                              -- MetricsResult.MetricName
  series : Vec

def lookupPts (v : Vec) (id : Str) : Option Pts := (v.find? (·.1 == id)).map (·.2)
def ptAt (p : Pts) (t : Nat) : Int := ((p.find? (·.1 == t)).map (·.2)).getD 0

/-- `labelStr` and `rGroupID` of lines 446-450: slice the id at len(MetricName) when it is long enough -/
def cutLabel (name id : Str) : Str := if id.length ≥ name.length then id.drop name.length else []
def partnerId (lname rname lid : Str) : Str := if lid.length ≥ lname.length then rname ++ cutLabel lname lid else []

/-- SetFinalResult for one (timestamp, left value, right value): `none` = the map entry is not written -/
def setFinal (op : Op) (retBool : Bool) (x y : Int) : Option Val :=
  let cmp (b : Bool) : Option Val :=
    if b then some (.num (if retBool then 1 else (x : Rat))) else (if retBool then some (.num 0) else none)
  match op with
  | .add => some (.num ((x + y : Int) : Rat))
  | .sub => some (.num ((x - y : Int) : Rat))
  | .mul => some (.num ((x * y : Int) : Rat))
  | .div => if y = 0 then (if retBool then some (.num 0) else none) else some (.num (f64div x y.natAbs * (if y < 0 then -1 else 1)))
  | .mod => if y = 0 then some .nan else some (.num ((Int.tmod x y : Int) : Rat))
  | .pow => if 0 ≤ y ∧ y ≤ 4 ∧ x.natAbs ≤ 8192 then some (.num ((x ^ y.toNat : Int) : Rat)) else some .unmodelled
  | .eq => cmp (x == y)
  | .ne => cmp (x != y)
  | .gt => cmp (x > y)
  | .lt => cmp (x < y)
  | .ge => cmp (x ≥ y)
  | .le => cmp (x ≤ y)
  | .and | .or | .unless => some (.num (x : Rat))

abbrev Out := List (Str × List (Nat × Val))

def outInsert (o : Out) (id : Str) (pts : List (Nat × Val)) : Out :=
  if o.any (·.1 == id) then o.map (fun e => if e.1 == id then (id, pts) else e) else o ++ [(id, pts)]

def hasId (v : Vec) (id : Str) : Bool := (lookupPts v id).isSome

/-- the loop over the left vector (lines 431-467): the ids of a Go map are distinct, so every kept id gets its own
    entry; an id without partner is skipped unless the operator is or / unless -/
def leftPass (op : Op) (retBool : Bool) (l r : Res) : Out :=
  l.series.filterMap (fun (lid, pl) =>
    let rid := partnerId l.name r.name lid
    if hasId r.series rid || op == .or || op == .unless then
      let rp := (lookupPts r.series rid).getD []
      some (lid, pl.filterMap (fun (t, x) => (setFinal op retBool x (ptAt rp t)).map (fun v => (t, v))))
    else none)

/-- the label parts of the left ids (`labelStrSet`, only filled for or / unless) -/
def leftLabelParts (l : Res) : List Str := l.series.map (fun e => cutLabel l.name e.1)

/-- `unless`, loop over the right vector (lines 469-479): `delete(finalResult, lName + labelStr)` -/
def unlessDeleted (l r : Res) : List Str := r.series.map (fun e => l.name ++ cutLabel r.name e.1)

/-- `or`, loop over the right vector (lines 480-491): a right series whose label part no left id has is copied
    under its own id (`finalResult[rGroupID] = …`, replacing an entry of that very id if there is one) -/
def orPass (l r : Res) (o : Out) : Out :=
  (r.series.filter (fun e => !(leftLabelParts l).contains (cutLabel r.name e.1))).foldl
    (fun o e => outInsert o e.1 (e.2.map (fun (t, y) => (t, Val.num (y : Rat))))) o

/-- HelperQueryArithmeticAndLogical, vector–vector, no vector matching clause -/
def binop (op : Op) (retBool : Bool) (l r : Res) : Out :=
  let o := leftPass op retBool l r
  match op with
  | .unless => o.filter (fun e => !(unlessDeleted l r).contains e.1)
  | .or => orPass l r o
  | _ => o

def outIds (o : Out) : List Str := o.map (·.1)
def vecIds (res : Res) : List Str := res.series.map (·.1)

/-! ### what the property says (for the theorems): vectors given by label parts -/

/-- every id of a vector is its metric name followed by a label part (any bytes) -/
def wellFormed (res : Res) : Prop := ∀ id ∈ vecIds res, ∃ p, id = res.name ++ p

end SigModel.PromqlBin
