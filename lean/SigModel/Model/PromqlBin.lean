/-
Model of the BINARY OPERATORS BETWEEN TWO RESULT VECTORS of metric queries (C09, "arithmetic between vectors matches
label sets"), mirroring

  pkg/segment/segexecution.go            : HelperQueryArithmeticAndLogical, the vector–vector branch WITHOUT
        on()/ignoring() (`hasVectorMatchingOp = false`) and with `opLabelsDoNotNeedToMatch = false`, WITH the pending
        repair c09-15: the label part of a group id is cut out by SLICING the id at len(MetricName)
        (`lGroupID[len(resultLHS.MetricName):]`) and brought into a canonical form (canonicalLabelSet: leading "{"
        dropped, split on ",", items sorted, empty items dropped, joined with ","); the partner is the right id whose
        label part has the same canonical form (the smallest such id), `unless` deletes the left ids of a canonical
        label set, `or` copies the right ids whose canonical label set no left id has.  Before the repair the id STRINGS
        were compared (`resultRHS.MetricName + labelStr`): `partnerIdOld`, counterexamples in Props/C09.lean;
  pkg/integrations/prometheus/utils/…    : SetFinalResult (83-200) with swapped = false, ConstantOp = false.

A group id is  <metric> "{" k1 ":" v1 "," … (Model/Promql.lean `seriesIdOf`); here it is just a byte string, and a
result vector is a metric name plus a map id → (timestamp → value) — the model does what the code does for ANY ids,
also ids that do not start with the metric name or are shorter than it.  Values are integers (the correspondence
run uses integer-valued float64, |v| < 2^20): + - * are exact, / is the correctly rounded float64 quotient
(`Promql.f64div`), % is math.Mod (sign of the dividend), ^ is exact for exponents 0..4 and |base| ≤ 8192; the Oracle
rejects the remaining pow inputs and so does the harness.
A timestamp of the left series that the partner series does not have reads the partner as 0 (Go map zero value):
mirrored as it is (what PromQL says there is a question for the end-to-end specification, not for this kernel).

NOT modelled: on()/ignoring()/group_left/group_right (ExtractMatchingLabelSet), scalar and constant operands,
nested expressions (processQueryArithmeticNodeOp), MQueryAggsChain.
-/
import SigModel.Model.Promql

namespace SigModel.PromqlBin
open SigModel.Promql

inductive Op where
  | add | sub | mul | div | mod | pow | eq | ne | gt | lt | ge | le | and | or | unless
deriving DecidableEq, Repr

def Op.isSet : Op → Bool
  | .and | .or | .unless => true
  | _ => false

/-- a value as the Oracle prints it -/
inductive Val where
  | num (q : Rat)
  | nan                -- x % 0
  | unmodelled         -- x ^ y with y outside 0..4
deriving DecidableEq, Repr

abbrev Pts := List (Nat × Int)            -- distinct timestamps
abbrev Vec := List (Str × Pts)            -- distinct ids   (MetricsResult.Results)

structure Res where
  name : Str                              -- MetricsResult.MetricName
  series : Vec

def lookupPts (v : Vec) (id : Str) : Option Pts := (v.find? (·.1 == id)).map (·.2)
def ptAt (p : Pts) (t : Nat) : Int := ((p.find? (·.1 == t)).map (·.2)).getD 0

/-- `id[len(MetricName):]` when the id is long enough -/
def cutLabel (name id : Str) : Str := if id.length ≥ name.length then id.drop name.length else []

/-- the partner id BEFORE the repair c09-15: the right metric name followed by the very same label string -/
def partnerIdOld (lname rname lid : Str) : Str := if lid.length ≥ lname.length then rname ++ cutLabel lname lid else []

/-- bytewise lexicographic ≤ (Go string comparison) -/
def strLe : Str → Str → Bool
  | [], _ => true
  | _ :: _, [] => false
  | a :: r, b :: s => a < b || (a == b && strLe r s)

def insertStr (x : Str) : List Str → List Str
  | [] => [x]
  | y :: ys => if strLe x y then x :: y :: ys else y :: insertStr x ys

/-- sort.Strings -/
def sortStrs (l : List Str) : List Str := l.foldr insertStr []

/-- canonicalLabelSet: TrimPrefix "{", Split ",", sort, drop the empty items (they sort first), Join "," -/
def canonLabel (s : Str) : Str :=
  let body := match s with
    | c :: r => if c = cBrace then r else s
    | [] => []
  joinWith cComma ((sortStrs (splitOn cComma body)).dropWhile (· == []))

/-- the canonical label set under which an id of a vector is filed ("" for an id shorter than the metric name) -/
def labelSetOf (name id : Str) : Str := if id.length ≥ name.length then canonLabel (cutLabel name id) else []

/-- `rGroupIDOfLabelSet`: the smallest right id (long enough) with this canonical label set -/
def partnerOf (r : Str × List Str) (c : Str) : Option Str :=
  ((r.2.filter (fun rid => rid.length ≥ r.1.length && canonLabel (cutLabel r.1 rid) == c)).foldl
    (fun (acc : Option Str) rid => match acc with
      | none => some rid
      | some p => if strLe p rid then some p else some rid) none)

/-- `rGroupID` of the left loop: the partner id, "" when there is none or the left id is shorter than its metric name -/
def partnerId (lname : Str) (r : Str × List Str) (lid : Str) : Str :=
  if lid.length ≥ lname.length then (partnerOf r (canonLabel (cutLabel lname lid))).getD [] else []

/-- SetFinalResult for one (timestamp, left value, right value): `none` = the map entry is not written -/
def setFinal (op : Op) (retBool : Bool) (x y : Int) : Option Val :=
  let cmp (b : Bool) : Option Val :=
    if b then some (.num (if retBool then 1 else (x : Rat))) else (if retBool then some (.num 0) else none)
  match op with
  | .add => some (.num ((x + y : Int) : Rat))
  | .sub => some (.num ((x - y : Int) : Rat))
  | .mul => some (.num ((x * y : Int) : Rat))
  | .div => if y = 0 then (if retBool then some (.num 0) else none) else some (.num (f64div x y.natAbs * (if y < 0 then -1 else 1)))
  | .mod => if y = 0 then some .nan else some (.num ((Int.tmod x y : Int) : Rat))
  | .pow => if 0 ≤ y ∧ y ≤ 4 ∧ x.natAbs ≤ 8192 then some (.num ((x ^ y.toNat : Int) : Rat)) else some .unmodelled
  | .eq => cmp (x == y)
  | .ne => cmp (x != y)
  | .gt => cmp (x > y)
  | .lt => cmp (x < y)
  | .ge => cmp (x ≥ y)
  | .le => cmp (x ≤ y)
  | .and | .or | .unless => some (.num (x : Rat))

abbrev Out := List (Str × List (Nat × Val))

def outInsert (o : Out) (id : Str) (pts : List (Nat × Val)) : Out :=
  if o.any (·.1 == id) then o.map (fun e => if e.1 == id then (id, pts) else e) else o ++ [(id, pts)]

def hasId (v : Vec) (id : Str) : Bool := (lookupPts v id).isSome

def rKey (r : Res) : Str × List Str := (r.name, r.series.map (·.1))

/-- the loop over the left vector: the ids of a Go map are distinct, so every kept id gets its own
    entry; an id without partner is skipped unless the operator is or / unless -/
def leftPass (op : Op) (retBool : Bool) (l r : Res) : Out :=
  l.series.filterMap (fun (lid, pl) =>
    let rid := partnerId l.name (rKey r) lid
    if hasId r.series rid || op == .or || op == .unless then
      let rp := (lookupPts r.series rid).getD []
      some (lid, pl.filterMap (fun (t, x) => (setFinal op retBool x (ptAt rp t)).map (fun v => (t, v))))
    else none)

/-- the canonical label sets of the left ids (`lGroupIDsOfLabelSet`, only filled for or / unless) -/
def leftLabelSets (l : Res) : List Str := l.series.map (fun e => labelSetOf l.name e.1)

/-- the canonical label sets of the right ids -/
def rightLabelSets (r : Res) : List Str := r.series.map (fun e => labelSetOf r.name e.1)

/-- `or`, loop over the right vector: a right series whose canonical label set no left id has is copied under its own
    id (`finalResult[rGroupID] = …`, replacing an entry of that very id if there is one) -/
def orPass (l r : Res) (o : Out) : Out :=
  (r.series.filter (fun e => !(leftLabelSets l).contains (labelSetOf r.name e.1))).foldl
    (fun o e => outInsert o e.1 (e.2.map (fun (t, y) => (t, Val.num (y : Rat))))) o

/-- HelperQueryArithmeticAndLogical, vector–vector, no vector matching clause; `unless`: every left id whose canonical
    label set some right id has is deleted -/
def binop (op : Op) (retBool : Bool) (l r : Res) : Out :=
  let o := leftPass op retBool l r
  match op with
  | .unless => o.filter (fun e => !(rightLabelSets r).contains (labelSetOf l.name e.1))
  | .or => orPass l r o
  | _ => o

def outIds (o : Out) : List Str := o.map (·.1)
def vecIds (res : Res) : List Str := res.series.map (·.1)

/-! ### what the property says (for the theorems): vectors given by label parts -/

/-- every id of a vector is its metric name followed by a label part (any bytes) -/
def wellFormed (res : Res) : Prop := ∀ id ∈ vecIds res, ∃ p, id = res.name ++ p

end SigModel.PromqlBin
