/-
Model of index-expression expansion and segment selection (C13 — tenant and index isolation).

Mirrors, as they are (quirks included):
  * pkg/virtualtable/virtualtable.go
      `ExpandAndReturnIndexNames` (l.670-759): strip through the first `:`, the `*` branch
        (excluded internal indices, `.kibana` unless elastic), `strings.Split(",")` without trimming,
        wildcard element → `"^" + Join(QuoteMeta(parts of Split(elem, "*")), ".*") + "$"` (since the fix of
        C13: before, the literal parts were not quoted), compiled and used with the UNANCHORED
        `Regexp.Match` against the alias names and table names of the org,
        compile error → `[]`, plain element → alias lookup (`pres`; an alias without index is no longer in the map, patch c20-2) else the
        element itself verbatim, empty result → the (stripped) expression itself unless excluded,
        result = sorted key set of a map;
      `isIndexExcluded` (l.768), `DeleteVirtualTable` (l.777, rewrites the org's table file without the name).
  * pkg/segment/metadata/metadata.go
      `bulkAddSegmentMicroIndex` (l.145), `deleteTable` (l.318), `deleteSegmentKeyWithLock` (l.342),
      `FilterSegmentsByTime` (l.603): rotated segments are looked up BY TABLE NAME ONLY
      (`tableSortedMetadata[index]`) and then filtered on `OrgId` and the time range.
  * pkg/segment/writer/unrotatedquery.go `FilterUnrotatedSegmentsInQuery` (l.553).
  * the time-range test is the generated kernel `Gen.TimeRange_CheckRangeOverLap`.
  * pkg/utils/segutils.go `CreateStreamId` (l.71): the key of the open segment stores.

The regular-expression engine (Go regexp = RE2 syntax, flags `syntax.Perl`) is modelled for a fragment that
is larger than what the quoted source can contain (it was needed for the unquoted source and is kept: the
correspondence run exercises it through the quoted source, `regexSrcOld` documents the former behaviour):
  literals, `.`, `*` `+` `?` (with the lazy marker `?` and the "nested repetition" error), `|`, groups
  `( )`, `^` `$` (begin/end of TEXT, as without the `m` flag), character classes `[...]`, `[^...]` with
  ranges, `\` followed by a non-alphanumeric character (a literal).
Not modelled: `{n,m}` repetition, `(?…)`, `[:class:]`, `\` + letter/digit (none of them can arise from the
quoted source), non-ASCII and control characters (outside `inAlphabet`).  Matching is by Brzozowski derivatives with begin/end-of-text context; `search` is the
unanchored `Regexp.Match`.  Characters are ASCII (`Char`), names are `List Char`.
Core Lean only.
-/
import SigModel.Gen.TimeRange

namespace SigModel.Tenant

abbrev Name := List Char
abbrev Org := Int

/-! ## The specification: glob matching (`*` = any string, everything else literal) -/

/-- `globStar rest s`: some suffix of `s` satisfies `rest` -/
def globStar (rest : Name → Bool) : Name → Bool
  | [] => rest []
  | c :: s => rest (c :: s) || globStar rest s

/-- SPEC: does the glob pattern match the whole name? -/
def globMatch : Name → Name → Bool
  | [] => fun s => s.isEmpty
  | c :: p =>
    if c = '*' then globStar (globMatch p)
    else fun s => match s with
      | [] => false
      | d :: s' => c == d && globMatch p s'

/-! ## Regular expressions (the fragment) -/

inductive Re where
  | empty                                   -- matches nothing
  | eps                                     -- matches the empty string
  | chr (c : Char)
  | anyNotNL                                -- `.` without the `s` flag
  | cls (neg : Bool) (rs : List (Char × Char))
  | bot                                     -- `^` : beginning of text
  | eot                                     -- `$` : end of text
  | cat (a b : Re)
  | alt (a b : Re)
  | star (a : Re)
deriving DecidableEq, Repr

def inRanges (c : Char) : List (Char × Char) → Bool
  | [] => false
  | (lo, hi) :: r => (lo ≤ c && c ≤ hi) || inRanges c r

/-- can `r` match the empty string at a position that is (`st`) the start / (`en`) the end of the text? -/
def nullable (st en : Bool) : Re → Bool
  | .empty => false
  | .eps => true
  | .chr _ => false
  | .anyNotNL => false
  | .cls _ _ => false
  | .bot => st
  | .eot => en
  | .cat a b => nullable st en a && nullable st en b
  | .alt a b => nullable st en a || nullable st en b
  | .star _ => true

def mkCat (a b : Re) : Re :=
  if a = .empty then .empty else if b = .empty then .empty else if a = .eps then b else .cat a b

def mkAlt (a b : Re) : Re :=
  if a = .empty then b else if b = .empty then a else if a = b then a else .alt a b

/-- derivative of `r` by the character `c` read at a position that is (`st`) the start of the text
(the position is never the end of the text: `c` follows) -/
def deriv (c : Char) (st : Bool) : Re → Re
  | .empty => .empty
  | .eps => .empty
  | .chr d => if c = d then .eps else .empty
  | .anyNotNL => if c = '\n' then .empty else .eps
  | .cls neg rs => if inRanges c rs != neg then .eps else .empty
  | .bot => .empty
  | .eot => .empty
  | .cat a b => mkAlt (mkCat (deriv c st a) b) (if nullable st false a then deriv c st b else .empty)
  | .alt a b => mkAlt (deriv c st a) (deriv c st b)
  | .star a => mkCat (deriv c st a) (.star a)

/-- does some PREFIX of `s` match `r`, the match starting here (`st`: here is the start of the text)? -/
def prefixMatch : Re → Name → Bool → Bool
  | r, [], st => nullable st true r
  | r, c :: s, st => nullable st false r || prefixMatch (deriv c st r) s false

/-- `Regexp.Match` (unanchored): does some substring match, starting at this or a later position? -/
def searchFrom (r : Re) : Name → Bool → Bool
  | [], st => prefixMatch r [] st
  | c :: s, st => prefixMatch r (c :: s) st || searchFrom r s false

def search (r : Re) (s : Name) : Bool := searchFrom r s true

/-! ## Parsing (regexp/syntax/parse.go, flags Perl) -/

inductive Tok where
  | raw (c : Char)
  | esc (c : Char)      -- `\c`, c not alphanumeric: the literal c
deriving DecidableEq, Repr

def Tok.chr : Tok → Char
  | .raw c => c
  | .esc c => c

/-- `\x` pairs; a trailing backslash is a compile error -/
def lex : List Char → Option (List Tok)
  | [] => some []
  | c :: r =>
    if c = '\\' then
      match r with
      | [] => none
      | e :: r' => (lex r').map (Tok.esc e :: ·)
    else (lex r).map (Tok.raw c :: ·)

def catList : List Re → Re
  | [] => .eps
  | [r] => r
  | r :: rs => .cat r (catList rs)

def altList : List Re → Re
  | [] => .empty
  | [r] => r
  | r :: rs => .alt r (altList rs)

/-- one nesting level of the parse: finished alternatives and the items of the current concatenation,
both most-recent-first -/
structure Frame where
  alts : List Re := []
  items : List Re := []
deriving Repr

def Frame.close (f : Frame) : Re := altList ((catList f.items.reverse :: f.alts).reverse)

structure PState where
  cur : Frame := {}
  stack : List Frame := []
  lastRep : Bool := false     -- the previous token was a repetition operator
deriving Repr

def PState.push (st : PState) (r : Re) : PState :=
  { st with cur := { st.cur with items := r :: st.cur.items }, lastRep := false }

def PState.open (st : PState) : PState :=
  { cur := {}, stack := st.cur :: st.stack, lastRep := false }

/-- `)` : unexpected without an open group -/
def PState.closeGroup (st : PState) : Option PState :=
  match st.stack with
  | [] => none
  | f :: rest => some { cur := { f with items := st.cur.close :: f.items }, stack := rest, lastRep := false }

def PState.bar (st : PState) : PState :=
  { st with cur := { alts := catList st.cur.items.reverse :: st.cur.alts, items := [] }, lastRep := false }

/-- `*` `+` `?` : error after another repetition operator ("invalid nested repetition operator") and
when there is nothing to repeat ("missing argument to repetition operator") -/
def PState.rep (st : PState) (c : Char) : Option PState :=
  if st.lastRep then none else
  match st.cur.items with
  | [] => none
  | r :: rs =>
    let r' := if c = '*' then Re.star r else if c = '+' then Re.cat r (Re.star r) else Re.alt r Re.eps
    some { st with cur := { st.cur with items := r' :: rs }, lastRep := true }

inductive Mode where
  | top
  | cls (neg first start : Bool) (acc : List (Char × Char))
deriving Repr

def isRep (c : Char) : Bool := c = '*' || c = '+' || c = '?'

/-- the parser loop over the tokens -/
def parseLoop : List Tok → Mode → PState → Option PState
  | [], .top, st => some st
  | [], .cls .., _ => none                                   -- missing closing ]
  | t :: rest, .cls neg first start acc, st =>
    if start && t == .raw '^' then parseLoop rest (.cls true first false acc) st
    else if !first && t == .raw ']' then parseLoop rest .top (st.push (.cls neg acc.reverse))
    else
      match rest with
      | d :: h :: rest' =>
        if d == .raw '-' && h != .raw ']' then
          if h.chr < t.chr then none                             -- invalid character class range
          else parseLoop rest' (.cls neg false false ((t.chr, h.chr) :: acc)) st
        else parseLoop (d :: h :: rest') (.cls neg false false ((t.chr, t.chr) :: acc)) st
      | rest => parseLoop rest (.cls neg false false ((t.chr, t.chr) :: acc)) st
  | .esc c :: rest, .top, st => parseLoop rest .top (st.push (.chr c))
  | .raw c :: rest, .top, st =>
    if c = '(' then parseLoop rest .top st.open
    else if c = ')' then
      match st.closeGroup with
      | none => none
      | some st' => parseLoop rest .top st'
    else if c = '|' then parseLoop rest .top st.bar
    else if isRep c then
      match st.rep c with
      | none => none
      | some st' =>
        match rest with
        | q :: rest' => if q == .raw '?' then parseLoop rest' .top st' else parseLoop (q :: rest') .top st'
        | [] => some st'
    else if c = '[' then parseLoop rest (.cls false true true []) { st with lastRep := false }
    else if c = '^' then parseLoop rest .top (st.push .bot)
    else if c = '$' then parseLoop rest .top (st.push .eot)
    else if c = '.' then parseLoop rest .top (st.push .anyNotNL)
    else parseLoop rest .top (st.push (.chr c))

/-- `regexp.Compile` on the fragment: `none` = compile error -/
def compile (src : List Char) : Option Re :=
  match lex src with
  | none => none
  | some toks =>
    match parseLoop toks .top {} with
    | none => none
    | some st => if st.stack.isEmpty then some st.cur.close else none     -- missing closing )

/-- `strings.ReplaceAll(s, "*", ".*")` -/
def replaceStar : Name → List Char
  | [] => []
  | c :: r => if c = '*' then '.' :: '*' :: replaceStar r else c :: replaceStar r

/-- the source the code built BEFORE the fix of C13 (literal parts not quoted) — kept for the record -/
def regexSrcOld (elem : Name) : List Char := '^' :: (replaceStar elem ++ ['$'])

/-- `regexp.QuoteMeta`'s special characters: `\.+*?()|[]{}^$` -/
def isMeta (c : Char) : Bool :=
  c = '.' || c = '+' || c = '?' || c = '(' || c = ')' || c = '[' || c = ']' || c = '|' || c = '^' || c = '$' ||
  c = '\\' || c = '{' || c = '}' || c = '*'

/-- `strings.Join(QuoteMeta(p) for p in strings.Split(elem, "*"), ".*")`, character by character:
`*` becomes `.*`, a special character gets a backslash, every other character stays -/
def quoteStar : Name → List Char
  | [] => []
  | c :: r =>
    if c = '*' then '.' :: '*' :: quoteStar r
    else if isMeta c then '\\' :: c :: quoteStar r
    else c :: quoteStar r

/-- the regular expression source the code builds for a wildcard element -/
def regexSrc (elem : Name) : List Char := '^' :: (quoteStar elem ++ ['$'])

/-- what the code's wildcard test really computes: `none` = the expression does not compile,
`some b` = `regexp.Match` -/
def implMatch (elem name : Name) : Option Bool := (compile (regexSrc elem)).map (fun re => search re name)

/-- the same test before the fix -/
def implMatchOld (elem name : Name) : Option Bool := (compile (regexSrcOld elem)).map (fun re => search re name)

/-! ## The modelled alphabet / fragment -/

def isAlnum (c : Char) : Bool := ('a' ≤ c && c ≤ 'z') || ('A' ≤ c && c ≤ 'Z') || ('0' ≤ c && c ≤ '9')

/-- characters of index names and expressions that are modelled -/
def inAlphabet (c : Char) : Bool :=
  isAlnum c || c = '-' || c = '_' || c = '.' || c = '*' || c = '+' || c = '?' || c = '(' || c = ')' ||
  c = '[' || c = ']' || c = '|' || c = '^' || c = '$' || c = '\\' || c = '{' || c = '}' || c = ',' || c = ':' || c = ' '

def nameOk (n : Name) : Bool := n.all inAlphabet

/-- every character of the element other than `*` is an ordinary character -/
def plainElem (elem : Name) : Bool := elem.all (fun c => c = '*' || !isMeta c)

/-! ## Expansion -/

def splitOn (sep : Char) : List Char → List (List Char)
  | [] => [[]]
  | c :: r =>
    if c = sep then [] :: splitOn sep r
    else match splitOn sep r with
      | [] => [[c]]
      | h :: t => (c :: h) :: t

/-- `indexNameIn[idx+1:]` for the first `:` -/
def stripColon (e : Name) : Name :=
  match e.dropWhile (· ≠ ':') with
  | [] => e
  | _ :: r => r

def hasInfix (p : Name) : Name → Bool
  | [] => p.isEmpty
  | c :: s => p.isPrefixOf (c :: s) || hasInfix p s

def excludedNames : List Name := ["traces".toList, "red-traces".toList, "service-dependency".toList]

/-- `isIndexExcluded` -/
def isExcluded (n : Name) : Bool := excludedNames.contains (n.filter (· ≠ '*'))

structure AliasEntry where
  org : Org
  alias : Name
  targets : List Name       -- may be empty (AddAliases then RemoveAliases: since patch c20-2 the alias is then gone from the map)
deriving Repr, DecidableEq

def tablesOf (org : Org) (tables : List (Org × Name)) : List Name :=
  tables.filterMap (fun p => if p.1 = org then some p.2 else none)

def aliasesOf (org : Org) (aliases : List AliasEntry) : List AliasEntry := aliases.filter (·.org = org)

/-- the alias is in `aliasToIndexNames[org]`.  Since patch c20-2 (`RemoveAliases` drops an inner map that became
empty) an alias that lost its last index is no longer in the map: an entry without targets does not count
(before the patch it did, and such a plain element expanded to nothing instead of to itself). -/
def aliasPresent (org : Org) (a : Name) (aliases : List AliasEntry) : Bool :=
  (aliasesOf org aliases).any (fun e => e.alias = a && !e.targets.isEmpty)

def aliasTargets (org : Org) (a : Name) (aliases : List AliasEntry) : List Name :=
  ((aliasesOf org aliases).filter (·.alias = a)).flatMap (·.targets)

def containsStar (n : Name) : Bool := n.contains '*'

/-- one element of the comma list; `none` = the regular expression did not compile (the whole call returns `[]`) -/
def expandElem (org : Org) (tables : List (Org × Name)) (aliases : List AliasEntry) (elem : Name) : Option (List Name) :=
  if containsStar elem then
    if isExcluded elem then some []
    else match compile (regexSrc elem) with
      | none => none
      | some re =>
        some (((aliasesOf org aliases).filter (fun e => search re e.alias)).flatMap (·.targets) ++
              (tablesOf org tables).filter (search re))
  else if aliasPresent org elem aliases then some (aliasTargets org elem aliases)
  else some [elem]

def nameLt : Name → Name → Bool
  | [], [] => false
  | [], _ :: _ => true
  | _ :: _, [] => false
  | a :: x, b :: y => a < b || (a = b && nameLt x y)

def insertU (x : Name) : List Name → List Name
  | [] => [x]
  | y :: r => if x = y then y :: r else if nameLt x y then x :: y :: r else y :: insertU x r

/-- the sorted key set of the result map -/
def sortU (l : List Name) : List Name := l.foldr insertU []

/-- the loop over the comma list: the first element whose regular expression does not compile aborts the call -/
def collectElems (f : Name → Option (List Name)) : List Name → Option (List Name)
  | [] => some []
  | e :: r =>
    match f e with
    | none => none
    | some l =>
      match collectElems f r with
      | none => none
      | some l' => some (l ++ l')

/-- the names collected in `finalResultsMap` (`none` = compile error) -/
def collect (e : Name) (org : Org) (isElastic : Bool) (tables : List (Org × Name)) (aliases : List AliasEntry) : Option (List Name) :=
  if e = ['*'] then
    some ((tablesOf org tables).filter (fun n => !isExcluded n && (isElastic || !hasInfix ".kibana".toList n)))
  else collectElems (expandElem org tables aliases) (splitOn ',' e)

/-- `ExpandAndReturnIndexNames(expr, org, isElastic, nil)` -/
def expand (expr : Name) (org : Org) (isElastic : Bool) (tables : List (Org × Name)) (aliases : List AliasEntry) : List Name :=
  let e := stripColon expr
  match collect e org isElastic tables aliases with
  | none => []
  | some l =>
    if l.isEmpty then (if isExcluded e then [] else [e])
    else sortU l

/-! ## The table list of an organisation (`virtualtablenames[-org].txt`) -/

/-- `DeleteVirtualTable(name, org)`: the org's file is rewritten without the lines equal to `name` -/
def deleteTable (org : Org) (name : Name) (tables : List (Org × Name)) : List (Org × Name) :=
  tables.filter (fun p => !(p.1 = org && p.2 = name))

/-- `AddVirtualTable` (set semantics of the in-memory map, append to the file) -/
def addTable (org : Org) (name : Name) (tables : List (Org × Name)) : List (Org × Name) :=
  if tables.contains (org, name) then tables else tables ++ [(org, name)]

/-! ## Segment selection -/

structure Seg where
  key : Nat
  table : Name
  org : Org
  lo : Int
  hi : Int
deriving Repr, DecidableEq

/-- `timeRange.CheckRangeOverLap(seg.lo, seg.hi)` — the generated kernel -/
def overlaps (qlo qhi : Int) (s : Seg) : Bool := Gen.TimeRange_CheckRangeOverLap qhi qlo s.lo s.hi

/-- `FilterUnrotatedSegmentsInQuery`: table name among the requested names, time overlap, same org -/
def selectUnrotated (qlo qhi : Int) (names : List Name) (org : Org) (segs : List Seg) : List Seg :=
  segs.filter (fun u => names.contains u.table && (overlaps qlo qhi u && u.org = org))

/-- the rotated-segment metadata: all segments, and the per-TABLE-NAME lists (`tableSortedMetadata`) -/
structure Meta where
  all : List Seg := []
  byTable : List (Name × List Seg) := []
deriving Repr

def lookupT (n : Name) : List (Name × List Seg) → Option (List Seg)
  | [] => none
  | (k, v) :: r => if k = n then some v else lookupT n r

def putT (n : Name) (v : List Seg) : List (Name × List Seg) → List (Name × List Seg)
  | [] => [(n, v)]
  | (k, w) :: r => if k = n then (k, v) :: r else (k, w) :: putT n v r

def eraseT (n : Name) : List (Name × List Seg) → List (Name × List Seg)
  | [] => []
  | (k, w) :: r => if k = n then eraseT n r else (k, w) :: eraseT n r

/-- `bulkAddSegmentMicroIndex` for one new segment key (the order inside the lists is not observable here) -/
def Meta.add (m : Meta) (s : Seg) : Meta :=
  if m.all.any (·.key = s.key) then m
  else { all := m.all ++ [s], byTable := putT s.table ((lookupT s.table m.byTable).getD [] ++ [s]) m.byTable }

def Meta.ofList (segs : List Seg) : Meta := segs.foldl Meta.add {}

/-- `deleteSegmentKeyWithLock` -/
def Meta.deleteKey (m : Meta) (key : Nat) : Meta :=
  match m.all.find? (·.key = key) with
  | none => m
  | some s =>
    let all' := m.all.filter (·.key ≠ key)
    if s.table = [] then { m with all := all' } else     -- `if tName == "" { return }`
    match lookupT s.table m.byTable with
    | none => { m with all := all' }
    | some l => { all := all', byTable := putT s.table (l.filter (·.key ≠ key)) m.byTable }

/-- `deleteTable(table, orgid)` BEFORE the fix of C13: the segments OF THAT ORG in the table's list are
removed, then the table's WHOLE entry is dropped from `tableSortedMetadata` — kept for the record -/
def Meta.deleteTableOld (m : Meta) (table : Name) (org : Org) : Meta :=
  match lookupT table m.byTable with
  | none => m
  | some segs =>
    let keys := (segs.filter (·.org = org)).map (·.key)
    let m' := keys.foldl Meta.deleteKey m
    { m' with byTable := eraseT table m'.byTable }

/-- `deleteTable(table, orgid)`: the segments OF THAT ORG in the table's list are removed; the table's
entry is dropped from `tableSortedMetadata` only when no segment (of any org) is left in it -/
def Meta.deleteTable (m : Meta) (table : Name) (org : Org) : Meta :=
  match lookupT table m.byTable with
  | none => m
  | some segs =>
    let keys := (segs.filter (·.org = org)).map (·.key)
    let m' := keys.foldl Meta.deleteKey m
    if ((lookupT table m'.byTable).getD []).isEmpty then { m' with byTable := eraseT table m'.byTable } else m'

/-- `FilterSegmentsByTime`: for every requested name, the table's list filtered on overlap and org -/
def selectRotated (qlo qhi : Int) (names : List Name) (org : Org) (m : Meta) : List Seg :=
  names.flatMap (fun n => ((lookupT n m.byTable).getD []).filter (fun s => overlaps qlo qhi s && s.org = org))

/-! ## Stream ids (the key of the OPEN segment stores, `writer.allSegStores`) -/

def digitChar (d : Nat) : Char :=
  match d with
  | 0 => '0' | 1 => '1' | 2 => '2' | 3 => '3' | 4 => '4' | 5 => '5' | 6 => '6' | 7 => '7' | 8 => '8' | _ => '9'

/-- `%d` of a natural number -/
def decNat (n : Nat) : List Char :=
  if n < 10 then [digitChar n] else decNat (n / 10) ++ [digitChar (n % 10)]
termination_by n
decreasing_by omega

/-- `%v` of an int64 -/
def decInt (i : Int) : List Char := if i < 0 then '-' :: decNat (-i).toNat else decNat i.toNat

/-- `utils.CreateStreamId(indexName, orgId)` = `fmt.Sprintf("%d-%v-%v", shard, orgId, xxhash(indexName))`;
the hash is a parameter, the shard is `rand.Intn(MAX_SHARDS)` -/
def streamId (H : Name → Nat) (shard : Nat) (org : Org) (index : Name) : List Char :=
  decNat shard ++ '-' :: (decInt org ++ '-' :: decNat (H index))

/-- the PRE-IMAGE of a stream id (shard aside): the text that stays outside the hash, and the hashed string -/
def streamPre (org : Org) (index : Name) : List Char × Name := (decInt org, index)

/-- NOT the code: a pre-image that hashes the organisation TOGETHER with the index name
(`hash(fmt.Sprintf("%v%v", orgId, indexName))`) — kept to document why the organisation must stay outside -/
def streamPreConcat (org : Org) (index : Name) : List Char × Name := ([], decInt org ++ index)

/-! ## End to end: what a search of an organisation over an index expression may return -/

/-- an ingested record with its markers -/
structure Rec where
  id : Nat
  org : Org
  index : Name
deriving Repr, DecidableEq

/-- the records a search of `org` over `expr` returns: ingest registers the (org, index) pairs as tables
(`AddAndGetRealIndexName`), the expression is expanded for the organisation, segments are selected on
(table ∈ names, org) — no aliases, whole time range -/
def visible (recs : List Rec) (org : Org) (expr : Name) : List Rec :=
  let tables := recs.foldl (fun acc r => addTable r.org r.index acc) []
  recs.filter (fun r => r.org = org && (expand expr org false tables []).contains r.index)

end SigModel.Tenant
