/-
Model of the checksummed chunk file (C18 / C01), mirroring pkg/utils/checksumfile.go
  AppendChunk / ReadAt / readChunkAt (including the legacy fallback when the magic is absent).
`crc` is a parameter.  Core Lean only.
-/
import SigModel.Model.Wal

namespace SigModel.Checksum
open SigModel.Wal (Bytes le32 rd32)

def magic : Nat := 0x87654321
def dataOffset : Nat := 12

/-- `AppendChunk(data)`; empty data writes nothing -/
def appendChunk (crc : Bytes → Nat) (f data : Bytes) : Bytes :=
  if data.isEmpty then f else f ++ le32 magic ++ le32 (crc data) ++ le32 data.length ++ data

def fileOf (crc : Bytes → Nat) (chunks : List Bytes) : Bytes := chunks.foldl (appendChunk crc) []

/-- `readUint32At(fd, off)`: error unless 4 bytes are available -/
def readU32At (f : Bytes) (off : Nat) : Option Nat :=
  match rd32 (f.drop off) with
  | some (v, _) => some v
  | none => none

inductive Rd where
  | ok (data : Bytes)            -- n bytes, err = nil
  | okEof (data : Bytes)         -- n bytes, err = io.EOF (short read passed through)
  | fail                         -- error, the data is not to be used
deriving Repr, DecidableEq

/-- `readChunkAt(buf[:n], off)` -/
def readChunkAt (crc : Bytes → Nat) (f : Bytes) (n off : Nat) : Rd :=
  match readU32At f off with
  | none => .fail
  | some m =>
    if m ≠ magic then
      match readU32At f 0 with
      | none => .fail
      | some m0 =>
        if m0 = magic then .fail
        else
          -- legacy (non-checksummed) file: serve the raw bytes
          let d := (f.drop off).take n
          if d.length < n then .okEof d else .ok d
    else
      match readU32At f (off + 4), readU32At f (off + 8) with
      | some sum, some len =>
        if len > n then .fail
        else
          let d := (f.drop (off + dataOffset)).take len
          if crc d ≠ sum then .fail
          else if d.length < len then .okEof d else .ok d
      | _, _ => .fail

/-- `ReadAt(buf[:n], off)`: consecutive chunks until the buffer is full; (bytes read, error?) -/
def readAtLoop (crc : Bytes → Nat) (f : Bytes) (n off : Nat) : Nat → Nat → Bytes → Bytes × Bool
  | 0, _, acc => (acc, true)
  | fuel+1, i, acc =>
    match readChunkAt crc f (n - acc.length) (off + acc.length + i * dataOffset) with
    | .fail => (acc, true)
    | .okEof d => (acc ++ d, true)
    | .ok d =>
      let acc' := acc ++ d
      if acc'.length ≥ n then (acc', false) else readAtLoop crc f n off fuel (i + 1) acc'

/-- fuel: each iteration advances the file offset by ≥ 12, so `f.length` iterations suffice
(the real loop does not terminate on a file of empty chunks only if the file is infinite). -/
def readAt (crc : Bytes → Nat) (f : Bytes) (n off : Nat) : Bytes × Bool :=
  readAtLoop crc f n off (f.length + 2) 0 []

/-- file offset at which chunk `k` starts -/
def chunkStart (chunks : List Bytes) (k : Nat) : Nat :=
  ((chunks.take k).map (fun c => if c.isEmpty then 0 else dataOffset + c.length)).sum

end SigModel.Checksum
