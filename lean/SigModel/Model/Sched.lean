/-
Model of the searcher's block scheduler (C05), mirroring pkg/segment/query/processor/searcher.go AS IT IS:

  sortBlocks (1243-1260)         blocks ordered by HighTs descending (recentFirst) / LowTs ascending (recentLast)
  getNextBlocks (1269-1352)      the leading tie group, then whole tie groups while the count stays <= maxBlocks;
                                 end time = start time of the first block NOT taken, or min LowTs / max HighTs of
                                 all blocks when every block is taken; `(nil, 0)` for an empty list
  getValidRRCs (1558-1577)       sort.Search for the first record with ts < last (recentFirst) / ts > last
                                 (recentLast) on a sorted slice  ≙  takeWhile
  getQSRSToProcess (1089-1127)   cutOffTimestampInMs := start (recentFirst) / end (recentLast) of the FRONT
                                 unprocessed segment request; requests with end >= cutoff (start <= cutoff) are
                                 processed now, those with start >= cutoff (end <= cutoff) leave the list
  getFilteredBlocks (1046-1065)  blocks not handed out before whose HighTs >= cutoff (LowTs <= cutoff)
  Fetch (307-325) + fetchRRCs (742-891)
                                 the `!gotBlocks` refill, `endTime = max/min(endTime, cutoff)`, since the repair
                                 `lastBlocks := gotAllSegments && len(nextBlocks) == len(remainingBlocksSorted)`
                                 (tested BEFORE remainingBlocksSorted is shortened) which replaces the end time by
                                 0 (recentFirst) / math.MaxUint64 (recentLast) so that everything kept back in
                                 unsentRRCs is handed out, the `remaining == 0 || endTime == cutoff` reset of
                                 gotBlocks, merge of the newly read records with unsentRRCs, release of the valid
                                 prefix, EOF test.  The function before the repair (no `lastBlocks`) is kept as
                                 `fetchRRCsOld` / `fetchOld` / `runFetchOld` for the counterexample theorems only.
  getSortingFunc / sortRRCs / utils.MergeSortedSlices (pkg/utils/sliceutils.go:382)

A record is (id, ts).  Reading a block (readSortedRRCs: raw search / PQMR) is abstracted: a block carries the
records that match.  Abstractions that only affect the relative order of records with EQUAL timestamps (the
correspondence run compares batches with runs of equal timestamps ordered by id):
  * sort.Slice is not stable; the model sorts with a stable insertion sort (since the repair sortRRCs breaks
    ties by (BlockNum, RecordNum), initializeQSRs by the segment key, and fetchRRCs reads the segments in
    segment-key order: the order among equal timestamps is a function of the data — `rrcBefore` below,
    Props.C05 §4 — but it is still not the order of the stable sort of this model);
  * fetchRRCs reads the chosen blocks grouped per segment and k-way-merges the groups with unsentRRCs
    (first slice wins ties); the model sorts the records of all chosen blocks together and merges that with
    unsentRRCs (left operand wins ties).
initializeQSRs orders the segment requests with sort.Slice as well; there the order among requests with equal
keys DOES matter (it selects the cut-off).  Since the repair equal keys are ordered by the segment key; the
correspondence harness names its synthetic segments in listed order (verifseg-0 … verifseg-7), so the stable sort
of the model gives the same order.
`anyOrder` is not modelled.  Core Lean only.
-/
namespace SigModel.Sched

/-- (record id, timestamp) -/
abbrev Rec := Nat × Nat

structure Block where
  id : Nat
  low : Nat
  high : Nat
  recs : List Rec
deriving Repr, DecidableEq

/-- one QuerySegmentRequest: the segment's time range and its (matching) blocks -/
structure Seg where
  start : Nat
  stop : Nat
  blocks : List Block
deriving Repr, DecidableEq

inductive Mode where
  | recentFirst
  | recentLast
deriving Repr, DecidableEq

/-- `getSortingFunc`: a is strictly before b in the output order -/
def Mode.before : Mode → Nat → Nat → Bool
  | .recentFirst, a, b => decide (a > b)
  | .recentLast, a, b => decide (a < b)

/-- `startTimeOf` in getNextBlocks; also the sort key of sortBlocks -/
def startOf : Mode → Block → Nat
  | .recentFirst, b => b.high
  | .recentLast, b => b.low

/-- `endTimeOf` in getNextBlocks -/
def endOf : Mode → Block → Nat
  | .recentFirst, b => b.low
  | .recentLast, b => b.high

/-- stable insertion of `x` into a list sorted by `key` under `m.before` -/
def insertBy {α : Type} (m : Mode) (key : α → Nat) (x : α) : List α → List α
  | [] => [x]
  | y :: ys => if m.before (key y) (key x) then y :: insertBy m key x ys else x :: y :: ys

def sortBy {α : Type} (m : Mode) (key : α → Nat) : List α → List α
  | [] => []
  | x :: xs => insertBy m key x (sortBy m key xs)

/-- `sortBlocks` -/
def sortBlocks (m : Mode) (bs : List Block) : List Block := sortBy m (startOf m) bs

/-- `sortRRCs` -/
def sortRRCs (m : Mode) (rs : List Rec) : List Rec := sortBy m (·.2) rs

/-- inner loop of `merge` for a fixed left head `a`; `cont` merges the left tail -/
def mergeInto (m : Mode) (a : Rec) (cont : List Rec → List Rec) : List Rec → List Rec
  | [] => a :: cont []
  | b :: r => if m.before b.2 a.2 then b :: mergeInto m a cont r else a :: cont (b :: r)

/-- two-way `utils.MergeSortedSlices(less, l, r)`: the right head is taken only when strictly before the left
head (structural recursion, so that the kernel can evaluate it):
  merge [] r = r;  merge l [] = l;
  merge (a :: l) (b :: r) = if before b a then b :: merge (a :: l) r else a :: merge l (b :: r) -/
def merge (m : Mode) : List Rec → List Rec → List Rec
  | [] => fun r => r
  | a :: l => mergeInto m a (merge m l)

/-- number of leading blocks whose start time equals `s0` -/
def tieCount (m : Mode) (s0 : Nat) : List Block → Nat
  | [] => 0
  | b :: bs => if startOf m b = s0 then tieCount m s0 bs + 1 else 0

/-- the `for { … }` loop of getNextBlocks; `n` is numBlocks -/
def extendLoop (m : Mode) (blocks : List Block) (maxBlocks : Nat) : Nat → Nat → Nat
  | 0, n => n
  | fuel + 1, n =>
    let npn := match blocks.drop n with
      | [] => n + 1
      | b :: rest => n + 1 + tieCount m (startOf m b) rest
    if npn > maxBlocks then n
    else if npn = blocks.length then npn
    else extendLoop m blocks maxBlocks fuel npn

/-- `overallEndTime` loop: min of the LowTs (recentFirst) / max of the HighTs (recentLast) -/
def overallEnd (m : Mode) : Nat → List Block → Nat
  | acc, [] => acc
  | acc, b :: bs =>
    overallEnd m (match m with
      | .recentFirst => min acc (endOf m b)
      | .recentLast => max acc (endOf m b)) bs

/-- numBlocks chosen by getNextBlocks on a non-empty list whose first block is `b0` -/
def numNext (m : Mode) (sorted : List Block) (maxBlocks : Nat) (b0 : Block) : Nat :=
  extendLoop m sorted maxBlocks (sorted.length + maxBlocks + 1) (tieCount m (startOf m b0) sorted)

/-- `getNextBlocks`: (blocks to read now, end time) -/
def getNextBlocks (m : Mode) (sorted : List Block) (maxBlocks : Nat) : List Block × Nat :=
  match sorted with
  | [] => ([], 0)
  | b0 :: _ =>
    let n := numNext m sorted maxBlocks b0
    match sorted.drop n with
    | [] => (sorted, overallEnd m (endOf m b0) sorted)
    | b :: _ => (sorted.take n, startOf m b)

/-- `getValidRRCs` on a sorted slice: the prefix of records not beyond `last` -/
def getValidRRCs (m : Mode) (sorted : List Rec) (last : Nat) : List Rec :=
  sorted.takeWhile (fun r => !m.before last r.2)

/-- time of a segment request that is compared in `shouldProcessQSR` -/
def segFirst : Mode → Seg → Nat
  | .recentFirst, s => s.stop
  | .recentLast, s => s.start

/-- time of a segment request that becomes the cut-off and is compared in `willProcessQSRCompletely` -/
def segLast : Mode → Seg → Nat
  | .recentFirst, s => s.start
  | .recentLast, s => s.stop

/-- `shouldProcessQSR`: end >= cutoff / start <= cutoff -/
def shouldProcessQSR (m : Mode) (cutoff : Nat) (s : Seg) : Bool := !m.before cutoff (segFirst m s)

/-- `willProcessQSRCompletely`: start >= cutoff / end <= cutoff -/
def willProcessQSRCompletely (m : Mode) (cutoff : Nat) (s : Seg) : Bool := !m.before cutoff (segLast m s)

/-- `shouldProcessBlock`: HighTs >= cutoff / LowTs <= cutoff -/
def shouldProcessBlock (m : Mode) (cutoff : Nat) (b : Block) : Bool := !m.before cutoff (startOf m b)

/-- `getFilteredBlocks`: (blocks handed out now, processedBlocks afterwards) -/
def getFilteredBlocks (m : Mode) (cutoff : Nat) : List Block → List Nat → List Block × List Nat
  | [], p => ([], p)
  | b :: bs, p =>
    if p.contains b.id then getFilteredBlocks m cutoff bs p
    else if shouldProcessBlock m cutoff b then
      let r := getFilteredBlocks m cutoff bs (b.id :: p)
      (b :: r.1, r.2)
    else getFilteredBlocks m cutoff bs p

/-- the searcher state that fetchRRCs keeps between calls -/
structure St where
  unproc : List Seg := []        -- unprocessedQSRs, in initializeQSRs order
  processed : List Nat := []     -- processedBlocks
  remaining : List Block := []   -- remainingBlocksSorted
  unsent : List Rec := []        -- unsentRRCs
  cutoff : Nat := 0              -- cutOffTimestampInMs
  gotBlocks : Bool := false
  gotAll : Bool := false         -- gotAllSegments
deriving Repr, DecidableEq

/-- `initializeQSRs`: requests ordered by end descending / start ascending -/
def sortSegs (m : Mode) (segs : List Seg) : List Seg := sortBy m (segFirst m) segs

def init (m : Mode) (segs : List Seg) : St := { unproc := sortSegs m segs }

/-- the `if !s.gotBlocks { … }` part of Fetch (getBlocks = getQSRSToProcess + getFilteredBlocks, then sortBlocks) -/
def refill (m : Mode) (st : St) : St :=
  if st.gotBlocks then st else
  match st.unproc with
  | [] => { st with gotAll := true, remaining := sortBlocks m st.remaining, gotBlocks := true }
  | front :: _ =>
    let cutoff := segLast m front
    let qsrs := st.unproc.filter (shouldProcessQSR m cutoff)
    let unproc' := st.unproc.filter (fun s => !willProcessQSRCompletely m cutoff s)
    let r := getFilteredBlocks m cutoff (qsrs.flatMap (·.blocks)) st.processed
    { st with unproc := unproc', cutoff := cutoff, processed := r.2,
              remaining := sortBlocks m (r.1 ++ st.remaining), gotBlocks := true }

/-- `endTime = max(endTime, cutOff)` / `min(endTime, cutOff)` -/
def clampEnd : Mode → Nat → Nat → Nat
  | .recentFirst, e, c => max e c
  | .recentLast, e, c => min e c

/-- `math.MaxUint64`: timestamps are uint64 in the code, `Nat` in this model -/
def maxU64 : Nat := 2 ^ 64 - 1

/-- the end time once `lastBlocks` holds: `endTime = 0` (recentFirst) / `endTime = math.MaxUint64` (recentLast).
`getValidRRCs` keeps the records with `!(ts < 0)` resp. `!(ts > MaxUint64)`: every uint64 timestamp. -/
def flushEnd : Mode → Nat
  | .recentFirst => 0
  | .recentLast => maxU64

/-- `lastBlocks := s.gotAllSegments && len(nextBlocks) == len(s.remainingBlocksSorted)`, evaluated before
remainingBlocksSorted is shortened; `n` = number of blocks taken by getNextBlocks -/
def lastBlocks (st : St) (n : Nat) : Bool := st.gotAll && n == st.remaining.length

/-- `fetchRRCs` (after the repair): none = io.EOF, otherwise (released batch, next state) -/
def fetchRRCs (m : Mode) (maxBlocks : Nat) (st : St) : Option (List Rec × St) :=
  if st.remaining.isEmpty && st.unsent.isEmpty && st.gotAll then none else
  let nb := getNextBlocks m st.remaining maxBlocks
  let endTime := if lastBlocks st nb.1.length then flushEnd m else clampEnd m nb.2 st.cutoff
  let remaining' := st.remaining.drop nb.1.length
  let gotBlocks' := if remaining'.isEmpty || endTime == st.cutoff then false else st.gotBlocks
  let merged := merge m (sortRRCs m (nb.1.flatMap (·.recs))) st.unsent
  let valid := getValidRRCs m merged endTime
  some (valid, { st with remaining := remaining', gotBlocks := gotBlocks', unsent := merged.drop valid.length })

/-- one `Searcher.Fetch` call -/
def fetch (m : Mode) (maxBlocks : Nat) (st : St) : Option (List Rec × St) :=
  fetchRRCs m maxBlocks (refill m st)

/-- Fetch until EOF or until the fuel runs out: (released batches, EOF reached) -/
def runFetch (m : Mode) (maxBlocks : Nat) : Nat → St → List (List Rec) × Bool
  | 0, _ => ([], false)
  | fuel + 1, st =>
    match fetch m maxBlocks st with
    | none => ([], true)
    | some (out, st') =>
      let r := runFetch m maxBlocks fuel st'
      (out :: r.1, r.2)

/-! ### the scheduler BEFORE the repair (counterexample theorems only) -/

/-- `fetchRRCs` before the repair: the end time is always clamped by the cut-off, also in the last round -/
def fetchRRCsOld (m : Mode) (maxBlocks : Nat) (st : St) : Option (List Rec × St) :=
  if st.remaining.isEmpty && st.unsent.isEmpty && st.gotAll then none else
  let nb := getNextBlocks m st.remaining maxBlocks
  let endTime := clampEnd m nb.2 st.cutoff
  let remaining' := st.remaining.drop nb.1.length
  let gotBlocks' := if remaining'.isEmpty || endTime == st.cutoff then false else st.gotBlocks
  let merged := merge m (sortRRCs m (nb.1.flatMap (·.recs))) st.unsent
  let valid := getValidRRCs m merged endTime
  some (valid, { st with remaining := remaining', gotBlocks := gotBlocks', unsent := merged.drop valid.length })

def fetchOld (m : Mode) (maxBlocks : Nat) (st : St) : Option (List Rec × St) :=
  fetchRRCsOld m maxBlocks (refill m st)

def runFetchOld (m : Mode) (maxBlocks : Nat) : Nat → St → List (List Rec) × Bool
  | 0, _ => ([], false)
  | fuel + 1, st =>
    match fetchOld m maxBlocks st with
    | none => ([], true)
    | some (out, st') =>
      let r := runFetchOld m maxBlocks fuel st'
      (out :: r.1, r.2)

def allBlocks (segs : List Seg) : List Block := segs.flatMap (·.blocks)

def allRecs (segs : List Seg) : List Rec := (allBlocks segs).flatMap (·.recs)

/-- number of Fetch calls after which a run has certainly reached EOF -/
def fuelBound (segs : List Seg) : Nat := 2 * (segs.length + (allBlocks segs).length) + 4

/-- `scrollProcessor.Process` over a sequence of batches (scroller.go:33): state = scrollFrom -/
def scrollStep (from_ : Nat) (batch : List α) : Nat × List α :=
  if from_ = 0 then (0, batch)
  else if from_ < batch.length then (0, batch.drop from_)
  else (from_ - batch.length, batch.drop batch.length)

def scrollRun (from_ : Nat) : List (List α) → List (List α)
  | [] => []
  | b :: bs => let r := scrollStep from_ b; r.2 :: scrollRun r.1 bs

/-- `headProcessor.Process` without a condition (headcommand.go:116): state = numRecordsSent; stops at EOF -/
def headRun (limit : Nat) (sent : Nat) : List (List α) → List (List α)
  | [] => []
  | b :: bs =>
    let kept := b.take (limit - sent)
    let sent' := sent + kept.length
    if sent' ≥ limit then [kept] else kept :: headRun limit sent' bs

/-! ### order among records with equal timestamps (sortRRCs after the repair) -/

/-- a record of one segment as `sortRRCs` sees it: timestamp and position (block number, record number) -/
structure PosRec where
  ts : Nat
  blk : Nat
  recNum : Nat
deriving Repr, DecidableEq

/-- the comparator of `sortRRCs` after the repair: by timestamp (direction of the mode), then by position in
the segment -/
def rrcBefore (m : Mode) (a b : PosRec) : Bool :=
  if a.ts ≠ b.ts then m.before a.ts b.ts
  else if a.blk ≠ b.blk then decide (a.blk < b.blk)
  else decide (a.recNum < b.recNum)

/-- the comparator before the repair: timestamp only -/
def rrcBeforeOld (m : Mode) (a b : PosRec) : Bool := m.before a.ts b.ts

/-- what `sort.Slice(…, less)` guarantees about its result whatever the input order: no inversion -/
def SortedUnder (before : PosRec → PosRec → Bool) (l : List PosRec) : Prop :=
  l.Pairwise (fun a b => before b a = false)

end SigModel.Sched
