/-
Model of the DISTINCT-VALUE KEY: the bytes under which one value of a column enters the HyperLogLog sketch of the column's
segment statistics (`SegStats.InsertIntoHll`), on the two paths that answer `stats dc(f)` without a by clause (property C04,
C03), mirroring

  pkg/segment/writer/segwriter.go  doLogEventFilling (395-426): numbers → addSegStatsNums(…, ple.allCvalsTypeLen[i][1:9]) =
                                   the 8 value bytes of the column encoding (int64 / float64, little endian);
                                   strings → addSegStatsStrIngestion(…, the text bytes)
  pkg/segment/writer/packer.go     addSegStatsStrIngestion (1624-1653): numeric text → addSegStatsNums(…, valBytes): the
                                   TEXT goes into the sketch; other text → InsertIntoHll(valBytes)          [ingest time → .sst]
  pkg/segment/writer/stats/segstats.go  AddSegStatsNums / addSegStatsNumsWithHllKey: the 8 little-endian bytes of the int64 /
                                   of the float64 unless the caller names the key; AddSegStatsStr: numeric text →
                                   addSegStatsNumsWithHllKey(…, the text); other text → the text bytes     [query time]

The sketches of the segments of one query are merged (SegStats.Merge → hll union): a segment whose time range the query
encloses contributes the sketch of its .sst file (ingest keys), a segment the query cuts through the sketch computed from
its records (query keys).  A value is counted once by the merged sketch iff both paths feed the SAME bytes for it.

The defect found with this slice was repaired (patch build/patches/c04-16, pending): AddSegStatsStr handed numeric text to
AddSegStatsNums(SS_FLOAT64, floatVal), so the bytes of the NUMBER went into the query-time sketch while the ingest-time
sketch holds the TEXT (dc of "7","007","2.50" in two segments: 3 from .sst, 5 from .sst + records, 2 from records).  The
model follows the FIXED code (`hllKeyQuery`: the text, through addSegStatsNumsWithHllKey) and keeps the former behaviour as
`hllKeyQueryOld` (counterexample theorem in Props/C04.lean).  What remains outside this kernel: the segment writer rewrites
a numeric string that shares a BLOCK column with JSON numbers as a number (consolidateColumnTypes, C01 class
numeric-string-returned-as-number), so the records of such a block hand the query-time statistics a number where the
ingest-time statistics saw the text (end-to-end class e2e/stats/dc-over-numbers-and-numeric-text).
uint64 inputs are not modelled (as in Model/Stats.lean).  The float64 bit pattern of a rational that is a float64 value is
`f64Bits` (sign, biased exponent, 52 fraction bits; −0, NaN, ±Inf outside).
Core Lean only.
-/
import SigModel.Model.Stats

namespace SigModel.HllKey
open SigModel.Stats SigModel.MachInt

/-- `n` little-endian bytes of `x` -/
def leBytes : Nat → Nat → List Nat
  | 0, _ => []
  | n + 1, x => (x % 256) :: leBytes n (x / 256)

theorem leBytes_length (n x : Nat) : (leBytes n x).length = n := by
  induction n generalizing x with
  | zero => rfl
  | succ n ih => simp [leBytes, ih]

/-- the number `leBytes` encodes -/
def ofLe : List Nat → Nat
  | [] => 0
  | b :: r => b + 256 * ofLe r

theorem ofLe_leBytes (n x : Nat) : ofLe (leBytes n x) = x % 256 ^ n := by
  induction n generalizing x with
  | zero => simp [leBytes, ofLe, Nat.mod_one]
  | succ n ih =>
    simp only [leBytes, ofLe, ih]
    rw [Nat.pow_succ, Nat.mul_comm (256 ^ n) 256, Nat.mod_mul]

/-- utils.Int64ToBytesLittleEndianInplace: the two's-complement image of the int64 -/
def i64Key (i : Int) : Str := leBytes 8 (wrapU64 i).toNat

/-- bit pattern of the float64 whose exact value is `q` (for `q` a float64 value other than −0) -/
def f64Bits (q : Rat) : Nat :=
  if q = 0 then 0 else
  let a := if q < 0 then -q else q
  let sign : Nat := if q < 0 then 2 ^ 63 else 0
  let e0 : Int := (Nat.log2 a.num.natAbs : Int) - (Nat.log2 a.den : Int)
  let e : Int := if a < pow2 e0 then e0 - 1 else if pow2 (e0 + 1) ≤ a then e0 + 1 else e0
  if e < -1022 then sign + (a / pow2 (-1074)).floor.toNat
  else sign + (e + 1023).toNat * 2 ^ 52 + ((a / pow2 (e - 52)).floor.toNat - 2 ^ 52)

/-- utils.Float64ToBytesLittleEndianInplace -/
def f64Key (q : Rat) : Str := leBytes 8 (f64Bits q)

/-- ingest time (what the .sst file holds): numbers by their 8 value bytes, every string by its text -/
def hllKeyIngest : Val → Option Str
  | .absent => none
  | .int i => some (i64Key i)
  | .flt q => some (f64Key q)
  | .str s => some s

/-- query time (code as FIXED by patch c04-16): numbers by their 8 value bytes, every string — numeric text included — by its
text, as at ingest time -/
def hllKeyQuery : Val → Option Str
  | .absent => none
  | .int i => some (i64Key i)
  | .flt q => some (f64Key q)
  | .str s => some s

/-- query time BEFORE the repair: numeric text by the bytes of the NUMBER it denotes (AddSegStatsStr →
AddSegStatsNums(SS_FLOAT64, floatVal)), other text by its text -/
def hllKeyQueryOld (rnd : Rat → Rat) : Val → Option Str
  | .absent => none
  | .int i => some (i64Key i)
  | .flt q => some (f64Key q)
  | .str s => match parseFast rnd s with
    | some q => some (f64Key q)
    | none => some s

/-- the value is a string that FastParseFloat reads as a number -/
def NumericText (rnd : Rat → Rat) : Val → Prop
  | .str s => (parseFast rnd s).isSome
  | _ => False

instance (rnd : Rat → Rat) (v : Val) : Decidable (NumericText rnd v) := by
  cases v <;> simp only [NumericText] <;> infer_instance

/-- the keys a segment's sketch holds: answered from the .sst file / computed from its records -/
def keysI (vs : List Val) : List Str := vs.filterMap hllKeyIngest
def keysQ (vs : List Val) : List Str := vs.filterMap hllKeyQuery
def keysQOld (rnd : Rat → Rat) (vs : List Val) : List Str := vs.filterMap (hllKeyQueryOld rnd)

/-- number of distinct keys (the distinct count while the sketch is exact) -/
def dc (ks : List Str) : Nat := ks.eraseDups.length

end SigModel.HllKey
