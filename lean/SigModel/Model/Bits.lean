/-
Bit-stream model shared by the Gorilla codec (C08).
Mirrors pkg/segment/writer/metrics/compress/bit_writer.go / bit_reader.go at the
level of the bit sequence they produce/consume (MSB first); byte packing is `pack`/`unpack`.
Core Lean only (this file is linked into the Oracle executable).
-/
namespace SigModel

abbrev Bits := List Bool

/-- `bitWriter.writeBits(u, n)`: the `n` right-most bits of `u`, left to right. -/
def writeBits (u : Nat) : Nat → Bits
  | 0 => []
  | n+1 => u.testBit n :: writeBits u n

/-- `bitReader.readBits(n)` with an accumulator; `none` = the stream ran out (io.EOF / short read). -/
def readBitsAux : Nat → Nat → Bits → Option (Nat × Bits)
  | 0, acc, bs => some (acc, bs)
  | _+1, _, [] => none
  | n+1, acc, b :: bs => readBitsAux n (2 * acc + b.toNat) bs

def readBits (n : Nat) (bs : Bits) : Option (Nat × Bits) := readBitsAux n 0 bs

/-- value of up to 8 bits, MSB first, zero padded on the right to a whole byte (`flush(zero)`). -/
def byteOfBits (bs : Bits) : Nat :=
  (List.range 8).foldl (fun acc i => 2 * acc + (bs.getD i false).toNat) 0

/-- bytes written by the bitWriter after `flush(zero)` -/
def pack : Bits → List Nat
  | [] => []
  | b :: bs =>
    have : (List.drop 8 (b :: bs)).length < (b :: bs).length := by simp; omega
    byteOfBits (b :: bs) :: pack ((b :: bs).drop 8)
termination_by bs => bs.length

def unpack (bytes : List Nat) : Bits := bytes.flatMap (fun b => writeBits b 8)

end SigModel
