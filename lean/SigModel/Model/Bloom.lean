/-
Model of the BLOOM skip rule and of the DICTIONARY search path (C03 kernel slice "C03B").  Core Lean only.

Mirrors, as they are (quirks included):
  add side (flush)
    pkg/segment/writer/segwriter.go   addToBlockBloomBothCasesWithBuf :1297-1360  (`addedKeys`: the full value, every piece
                                        obtained by cutting at a SINGLE SPACE (0x20) — an empty last piece is not added —, the
                                        ASCII-lower-cased copy of each when the VALUE has a byte 'A'..'Z'; the last piece's
                                        lower-cased copy unconditionally; the lower-cased full value when the value has upper case)
                                      addToBlockBloomBothCases :1284 (`addedKeysInPlace`: same loop with workBuf ALIASING the
                                        value: every BytesToLower overwrites the head of the value, so the final "lower-cased
                                        full value" is taken from a damaged buffer)
                                      writeToBloom :1249 / writeDeBloom :1189 (`colKeysRaw` / `colKeysDict`: only string
                                        records are added; in a dictionary block also bools as the ONE byte 0/1; numbers and
                                        back-fill never)
    pkg/utils/bitutils.go             HasUpper :256, BytesToLower :266 (ASCII only)
  probe side (query)
    pkg/ast/common.go                 ProcessSingleFilter :57-168 (string value), createMatchPhraseFilterCriteria :180,
                                      createMatchFilterCriteria :222, CreateTermFilterCriteria :264   (`processSingleFilter`)
    pkg/segment/structs/segsearchstructs.go  MatchFilter.GetAllBlockBloomKeysToSearch :528 (`MatchFilter.probe`),
                                      SearchExpression.GetAllBlockBloomKeysToSearch :484 + SearchQuery wrapper
                                      searchnodestructs.go:316 (`exprProbe`)
    pkg/segment/query/metadata/blockmeta.go  doCmiChecks :124-156, doBloomCheckForCol :218, doBloomCheckAllCol :262
                                      (`passRotated`)
    pkg/segment/writer/unrotatedquery.go     DoCMICheckForUnrotated :338, doBloomCheckForCols :409 (`passUnrotated`: no
                                      negate test there)
  record level
    pkg/utils/segutils.go             IsSubWordPresent :89 (`subWord`), bitutils.go BytesCaseInsensitiveEqual :223 (`bytesEq`)
    pkg/segment/writer/rawchecker.go  ApplySearchToMatchFilterRawCsg :34 (`matchRaw`), fopOnString :289 (`exprRaw`)
  dictionary path
    pkg/segment/reader/segread/dechecker.go  ApplySearchToMatchFilterDictCsg :42 (`dictMatch`: the filter once per dictionary
                                      word, then AddRecNumsToMr segreader.go:735), vs the per-record loop of
                                      pkg/segment/search/filtersearch.go :271-310 + conditioncheck.go ApplyColumnarSearchQuery
                                      (`perRecord`, records read through deGetRec)

The model mirrors the code WITH the repairs c03-A … c03-E (build/patches); the former behaviour is kept under …Old names
with counterexample theorems in Props/C03.
A bloom filter is abstracted to its membership test (`BloomLike`); the real filter only adds false positives.
Go maps (`allKeys`, `originalAllKeys`) are lists in insertion order with map semantics (no duplicate key, assignment
overrides); the result of every check is independent of the iteration order (Lemmas/C03B).  Regular expressions
(wildcard `*`) are external: a wildcard value never reaches the bloom, its record-level result is not modelled.
strings.ToLower (Unicode) is external as well: the op lines carry both the lower-cased and the original query text,
exactly the two values the SPL grammar hands to ProcessSingleFilter.
-/
import SigModel.Model.Tlv

namespace SigModel.Bloom
open SigModel.Tlv (Bytes)

/-! ### ASCII case (HasUpper / BytesToLower / isAlpha) -/

def isUpperB (b : Nat) : Bool := decide (65 ≤ b) && decide (b ≤ 90)
def isAlphaB (b : Nat) : Bool := isUpperB b || (decide (97 ≤ b) && decide (b ≤ 122))
def lowerB (b : Nat) : Nat := if isUpperB b then b + 32 else b
def hasUpper (s : Bytes) : Bool := s.any isUpperB
def toLower (s : Bytes) : Bytes := s.map lowerB

/-! ### add side -/

/-- the pieces between single spaces (`bytes.Index(copy, " ")` loop): n spaces give n+1 pieces -/
def splitSpace : Bytes → List Bytes
  | [] => [[]]
  | b :: r =>
    if b = 32 then [] :: splitSpace r
    else match splitSpace r with
      | [] => [[b]]
      | s :: ss => (b :: s) :: ss

/-- `addToBlockBloomBothCasesWithBuf(bloom, v, workBuf)` with a work buffer of its own (the flush path):
every byte string handed to `TestAndAdd`, in call order -/
def addedKeys (v : Bytes) : List Bytes :=
  let up := hasUpper v
  let segs := splitSpace v
  let subs :=
    if segs.length ≤ 1 then []                        -- no space: hasSubWords stays false
    else
      (segs.dropLast.flatMap fun s => if up then [s, toLower s] else [s]) ++
      (match segs.getLast? with
       | some l => if l.isEmpty then [] else [l, toLower l]   -- `hasSubWords && len(copy) > 0`
       | none => [])
  [v] ++ subs ++ (if up then [toLower v] else [])

/-- `BytesToLower(src, workBuf)` with `workBuf` aliasing the value buffer: the lower-cased bytes land on buf[0:len src] -/
def overwrite (buf low : Bytes) : Bytes := low ++ buf.drop low.length

/-- the loop of `addToBlockBloomBothCases(bloom, v)` (workBuf = v): buffer, offset of `copy`, hasSubWords, keys so far -/
def inPlaceLoop (up : Bool) : Nat → Bytes → Nat → Bool → List Bytes → Bytes × Nat × Bool × List Bytes
  | 0, buf, off, hs, acc => (buf, off, hs, acc)
  | fuel+1, buf, off, hs, acc =>
    let copy := buf.drop off
    let i := copy.idxOf 32
    if i < copy.length then
      let sub := copy.take i
      if up then
        let low := toLower sub
        inPlaceLoop up fuel (overwrite buf low) (off + i + 1) true (acc ++ [sub, low])
      else inPlaceLoop up fuel buf (off + i + 1) true (acc ++ [sub])
    else (buf, off, hs, acc)

/-- `addToBlockBloomBothCases(bloom, v)`: keys handed to `TestAndAdd` and the caller's buffer afterwards -/
def addedKeysInPlace (v : Bytes) : List Bytes × Bytes :=
  let up := hasUpper v
  let (buf, off, hs, acc) := inPlaceLoop up (v.length + 1) v 0 false [v]
  let copy := buf.drop off
  let (buf, acc) :=
    if hs && !copy.isEmpty then
      let low := toLower copy
      (overwrite buf low, acc ++ [copy, low])
    else (buf, acc)
  if up then (acc ++ [toLower buf], toLower buf) else (acc, buf)

/-- one stored record of a column, as far as the bloom code looks at it -/
inductive CVal where
  | str (s : Bytes)
  | bool (b : Bool)
  | num            -- any numeric encoding
  | backfill       -- null / absent
deriving Repr, DecidableEq

/-- `ColWip.writeToBloom` (plain block): only string records -/
def colKeysRaw (vs : List CVal) : List Bytes :=
  vs.flatMap fun v => match v with
    | .str s => addedKeys s
    | _ => []

/-- `ColWip.writeDeBloom` (dictionary block): strings, and bools as the one byte 0/1 -/
def colKeysDict (vs : List CVal) : List Bytes :=
  vs.flatMap fun v => match v with
    | .str s => addedKeys s
    | .bool b => [[if b then 1 else 0]]
    | _ => []

/-! ### filters -/

inductive Op where
  | and
  | or
deriving Repr, DecidableEq

/-- the fields of `structs.MatchFilter` the bloom and the record matcher read (MATCH_DICT_ARRAY is not modelled) -/
structure MatchFilter where
  words : List Bytes          -- MatchWords
  wordsOrig : List Bytes      -- MatchWordsOriginal
  op : Op                     -- MatchOperator
  phrase : Bytes              -- MatchPhrase
  phraseOrig : Bytes          -- MatchPhraseOriginal ([] = unset)
  isPhrase : Bool             -- MatchType == MATCH_PHRASE
  negate : Bool               -- NegateMatch
deriving Repr, DecidableEq

/-- result of `GetAllBlockBloomKeysToSearch` -/
structure Probe where
  keys : List Bytes
  orig : List (Bytes × Bytes)
  wildcard : Bool
  op : Op
deriving Repr, DecidableEq

def hasStar (w : Bytes) : Bool := w.contains 42

/-- `allKeys[k] = true` -/
def insertKey (ks : List Bytes) (k : Bytes) : List Bytes := if ks.contains k then ks else ks ++ [k]

/-- `originalAllKeys[k] = o` -/
def setOrig (m : List (Bytes × Bytes)) (k o : Bytes) : List (Bytes × Bytes) := m.filter (fun e => e.1 != k) ++ [(k, o)]

/-- the words loop of `MatchFilter.GetAllBlockBloomKeysToSearch` (`i` = index of the head word): state = allKeys,
originalAllKeys, wildcardExists -/
def wordsLoop (ci lenEq : Bool) (origs : List Bytes) :
    List Bytes → Nat → List Bytes × List (Bytes × Bytes) × Bool → List Bytes × List (Bytes × Bytes) × Bool
  | [], _, st => st
  | w :: r, i, (ks, os, wc) =>
    if hasStar w then wordsLoop ci lenEq origs r (i + 1) (ks, os, true)
    else wordsLoop ci lenEq origs r (i + 1)
           (insertKey ks w, if ci && lenEq then setOrig os w (origs.getD i []) else os, wc)

/-- `MatchFilter.GetAllBlockBloomKeysToSearch(isCaseInsensitive)`: every phrase without `*` is ONE key.  Until patch
c03-A this was what the block checks consumed (hence the name); it still is the first step of `MatchFilter.probe` -/
def MatchFilter.probeOld (mf : MatchFilter) (ci : Bool) : Probe :=
  if mf.isPhrase then
    if hasStar mf.phrase then { keys := [], orig := [], wildcard := true, op := mf.op }
    else { keys := [mf.phrase],
           orig := if ci && !mf.phraseOrig.isEmpty then [(mf.phrase, mf.phraseOrig)] else [],
           wildcard := false, op := mf.op }
  else
    let lenEq := mf.wordsOrig.length == mf.words.length
    let (ks, os, wc) := wordsLoop ci lenEq mf.wordsOrig mf.words 0 ([], [], false)
    { keys := ks, orig := os, wildcard := wc, op := if ks.length == 1 then .and else mf.op }

/-- `getWordsOfBloomKeys` (patch c03-A): the non-empty space-separated words of the keys -/
def wordsOfKeys (ks : List Bytes) : List Bytes :=
  (ks.flatMap fun k => (splitSpace k).filter (fun w => !w.isEmpty)).foldl insertKey []

/-- a match word without any bloom key: empty or made of spaces only (`len(bytes.Trim(word, " ")) == 0`) -/
def blankWord (w : Bytes) : Bool := w.all (· == 32)

/-- `SearchQuery.GetAllBlockBloomKeysToSearch()` for a match filter as it was between patch c03-A and patch c03-F: every
key (a phrase, a multi-word term) replaced by its words, operator and second-chance map unchanged -/
def MatchFilter.probeNoBlankTest (mf : MatchFilter) (ci : Bool) : Probe :=
  let p := mf.probeOld ci
  { p with keys := wordsOfKeys p.keys }

/-- `SearchQuery.GetAllBlockBloomKeysToSearch()` for a match filter — what the block checks consume.  Patch c03-A: the
keys are split into words.  Patch c03-F: an OR filter one of whose match words has no bloom key probes nothing (the bloom
cannot rule a block out for it) -/
def MatchFilter.probe (mf : MatchFilter) (ci : Bool) : Probe :=
  let p := mf.probeNoBlankTest ci
  if p.op == .or && mf.words.any blankWord then { p with keys := [] } else p

/-- a string comparison `col = value` / `col != value` as `SearchQuery.GetAllBlockBloomKeysToSearch` sees it:
`fopEq` = the operator is Equals, `isRegex` = the value holds `*`, `orig` = OriginalColumnValue ([] / hasOrig=false = nil) -/
def exprProbe (fopEq isRegex : Bool) (val : Bytes) (hasOrig : Bool) (orig : Bytes) (ci : Bool) : Probe :=
  if !fopEq then { keys := [], orig := [], wildcard := false, op := .and }          -- error ⇒ empty maps, And
  else if isRegex then { keys := [], orig := [], wildcard := true, op := .and }
  else if val.isEmpty then { keys := [], orig := [], wildcard := false, op := .and } -- error
  else { keys := [val], orig := if ci && hasOrig && !orig.isEmpty then [(val, orig)] else [], wildcard := false, op := .and }

/-- a boolean comparison `col = true|false` / `col != …` (patch c03-C): boolean columns have no bloom, nothing is
looked up (a `!=` never was: the function returns an error for operators other than Equals) -/
def boolProbe : Probe := { keys := [], orig := [], wildcard := false, op := .and }

/-- BEFORE patch c03-C an Equals comparison probed the TEXT of the literal ("true" / "false") -/
def boolProbeOld (fopEq : Bool) (b : Bool) : Probe :=
  if fopEq then { keys := [if b then [116, 114, 117, 101] else [102, 97, 108, 115, 101]], orig := [], wildcard := false, op := .and }
  else boolProbe

/-! ### the block-level check -/

/-- what the check reads of a bloom filter; a real filter answers `true` for every added key (and for some others) -/
structure BloomLike where
  test : Bytes → Bool

/-- the filter holds all of `keys` -/
def BloomLike.holds (b : BloomLike) (keys : List Bytes) : Prop := ∀ k ∈ keys, b.test k = true

/-- the exact set (no false positives) -/
def exact (keys : List Bytes) : BloomLike := ⟨fun k => keys.contains k⟩

/-- `Bf.TestString(entry)` plus the `originalBloomKeys` second chance -/
def needleIn (b : BloomLike) (p : Probe) (k : Bytes) : Bool :=
  b.test k || (!p.orig.isEmpty && match p.orig.lookup k with
                                   | some o => b.test o
                                   | none => false)

/-- the columns consulted for one block: `none` = no CMI for that column / not a bloom CMI -/
abbrev Cols := List (Option BloomLike)

def needleInCols (cols : Cols) (p : Probe) (k : Bytes) : Bool :=
  cols.any fun c => match c with
    | some b => needleIn b p k
    | none => false

/-- `doBloomCheckForCol`: the entry loop; returns `matchedNeedleInBlock` (an Or never clears it) -/
def forColLoop (ex : Bytes → Bool) (op : Op) : List Bytes → Bool
  | [] => true
  | k :: ks =>
    if !ex k && op == .and then false
    else if ex k && op == .or then true
    else forColLoop ex op ks

/-- `doBloomCheckAllCol` and the unrotated `doBloomCheckForCols`: the entry loop, state `matchedNeedleInBlock` -/
def allColLoop (ex : Bytes → Bool) (op : Op) : List Bytes → Bool → Bool
  | [], m => m
  | k :: ks, m =>
    if !ex k && op == .and then false
    else if ex k && op == .or then true
    else if !ex k && op == .or then allColLoop ex op ks false
    else allColLoop ex op ks m

/-- `doCmiChecks` for a non-range query on a rotated segment: is the block kept?  `allCols` = the query names column `*` -/
def passRotated (allCols : Bool) (cols : Cols) (p : Probe) (negate : Bool) : Bool :=
  if p.wildcard || negate then true
  else if allCols then allColLoop (needleInCols cols p) p.op p.keys true
  else forColLoop (needleInCols cols p) p.op p.keys

/-- `DoCMICheckForUnrotated` for a non-range query on an open segment — as repaired by patch c03-B (negated match
filters are not checked, as in `doCmiChecks`) -/
def passUnrotated (cols : Cols) (p : Probe) (negate : Bool) : Bool :=
  if p.wildcard || negate then true else allColLoop (needleInCols cols p) p.op p.keys true

/-- BEFORE patch c03-B: no negate test -/
def passUnrotatedOld (cols : Cols) (p : Probe) : Bool :=
  if p.wildcard then true else allColLoop (needleInCols cols p) p.op p.keys true

/-! ### record level -/

/-- one byte of `BytesCaseInsensitiveEqual` -/
def ciEqB (a b : Nat) : Bool := a == b || (isAlphaB a && isAlphaB b && (a ^^^ 32) == b)

/-- `PerformBytesEqualityCheck(isCaseInsensitive, a, b)` -/
def bytesEq (ci : Bool) (a b : Bytes) : Bool :=
  if ci then a.length == b.length && (a.zip b).all (fun xy => ciEqB xy.1 xy.2) else a == b

/-- `IsSubWordPresent(haystack, needle, isCaseInsensitive)` -/
def subWord (ci : Bool) (hay needle : Bytes) : Bool :=
  let n := needle.length
  if n > hay.length then false
  else (List.range (hay.length - n + 1)).any fun i =>
    bytesEq ci ((hay.drop i).take n) needle &&
    (i == 0 || hay[i - 1]? == some 32) &&
    (i + n == hay.length || hay[i + n]? == some 32)

/-- `ApplySearchToMatchFilterRawCsg(match, col, nil, ci)` on a stored record, for a filter without wildcard
(no compiled regexp).  The Go function's `error` results (absent column) count as `false`. -/
def matchRaw (mf : MatchFilter) (ci : Bool) (v : CVal) : Bool :=
  if mf.words.isEmpty then true
  else match v with
    | .str s =>
      match mf.op with
      | .and => if mf.isPhrase then subWord ci s mf.phrase else mf.words.all (subWord ci s)
      | .or => mf.words.any (subWord ci s)
    | _ => false

/-- `fopOnString` without regexp: `eq` = Equals, else NotEquals; a BACK-FILL record (the event does not have the
column) satisfies exactly `!=`, like the empty record of a block without the column (patch c02-1); any other record that
is not a string (number, boolean) is "not equal" to the string as well (patch c02-5; before it: no match for `=` and `!=`) -/
def exprRaw (eq ci : Bool) (val : Bytes) (v : CVal) : Bool :=
  match v with
  | .str s =>
    if eq then s.length == val.length && bytesEq ci s val else !bytesEq ci s val
  | _ => !eq

/-- `filterOpOnDataType` for a boolean literal on a stored record — as repaired by patch c03-E: a record of another
type (string, number) does not match, for `=` and for `!=` (as for string literals); and by patch c02-1: a BACK-FILL
record (the event does not have the column) satisfies exactly `!=`, like the empty record of a block without the
column -/
def boolRaw (eq : Bool) (lit : Bool) (v : CVal) : Bool :=
  match v with
  | .bool b => if eq then b == lit else b != lit
  | .backfill => !eq
  | _ => false

/-- BEFORE patch c02-1 (after c03-E): the back-fill record never matched -/
def boolRawBackfillOld (eq : Bool) (lit : Bool) (v : CVal) : Bool :=
  match v with
  | .bool b => if eq then b == lit else b != lit
  | _ => false

/-- BEFORE patch c03-E such a record made the function return an ERROR (`none`), which aborts the dictionary word
loop / the record loop of the block at that point -/
def boolRawOld (eq : Bool) (lit : Bool) (v : CVal) : Option Bool :=
  match v with
  | .bool b => some (if eq then b == lit else b != lit)
  | _ => none

/-! ### building the filter: `ast.ProcessSingleFilter` for a string value -/

def isAsciiSpace (b : Nat) : Bool := b == 32 || (decide (9 ≤ b) && decide (b ≤ 13))

/-- the UTF-8 encodings of the non-ASCII code points of `unicode.IsSpace` -/
def uniSpaces : List Bytes :=
  [[0xC2, 0x85], [0xC2, 0xA0], [0xE1, 0x9A, 0x80], [0xE2, 0x80, 0xA8], [0xE2, 0x80, 0xA9], [0xE2, 0x80, 0xAF],
   [0xE2, 0x81, 0x9F], [0xE3, 0x80, 0x80]] ++ (List.range 11).map (fun i => [0xE2, 0x80, 0x80 + i])

def trimLeft : Nat → Bytes → Bytes
  | 0, s => s
  | fuel+1, s =>
    match s with
    | [] => []
    | b :: r =>
      if isAsciiSpace b then trimLeft fuel r
      else match uniSpaces.find? (fun u => u.isPrefixOf s) with
        | some u => trimLeft fuel (s.drop u.length)
        | none => s

def trimRight : Nat → Bytes → Bytes
  | 0, s => s
  | fuel+1, s =>
    match s.getLast? with
    | none => []
    | some b =>
      if isAsciiSpace b then trimRight fuel s.dropLast
      else match uniSpaces.find? (fun u => u.isSuffixOf s) with
        | some u => trimRight fuel (s.take (s.length - u.length))
        | none => s

/-- `strings.TrimSpace` on valid UTF-8 -/
def trimSpace (s : Bytes) : Bytes := trimRight s.length (trimLeft s.length s)

/-- `strings.ReplaceAll(s, "\"", "")` -/
def dropQuotes (s : Bytes) : Bytes := s.filter (· != 34)

/-- what ProcessSingleFilter yields for a string value -/
inductive Crit where
  | err                                              -- "colValue/ search Text can not be empty"
  | mf (f : MatchFilter)                             -- MatchFilter on column `*`
  | expr (fopEq : Bool) (val : Bytes) (hasOrig : Bool) (orig : Bytes)   -- ExpressionFilter column op value
  | number                                           -- a quoted NUMBER against a named column (patch c02-6): numeric comparison, no bloom probe of the text
deriving Repr, DecidableEq

def isDigitB (b : Nat) : Bool := decide (48 ≤ b) && decide (b ≤ 57)

/-- the text is a number for `utils.FastParseFloat`: `[+-]?(digits[.digits*]|.digits)([eE][+-]?digits)?` (what decides, in
ProcessSingleFilter since patch c02-6, that a quoted value against a named column is compared by value; strconv.ParseFloat
must accept it too, which it does for this grammar unless the exponent is out of range — suite domain: at most 2
exponent digits) -/
def isNumText (s : Bytes) : Bool :=
  let s1 := match s with | 43 :: r => r | 45 :: r => r | _ => s
  let ip := s1.takeWhile isDigitB
  let r1 := s1.dropWhile isDigitB
  let (fp, r2) : Bytes × Bytes := match r1 with
    | 46 :: r => (r.takeWhile isDigitB, r.dropWhile isDigitB)
    | _ => ([], r1)
  if ip.isEmpty && fp.isEmpty then false else
  match r2 with
  | [] => true
  | e :: r =>
    if e == 101 || e == 69 then
      let r3 := match r with | 43 :: x => x | 45 :: x => x | _ => r
      !r3.isEmpty && r3.all isDigitB
    else false

/-- `createMatchPhraseFilterCriteria(k, v, And, negate, cci)`; `also` = cci.ShouldAlsoSearchWithOriginalCase() -/
def mkPhrase (v : Bytes) (negate also : Bool) (corig : Bytes) : MatchFilter :=
  let rt := trimSpace v
  let words := splitSpace rt
  let ort := if also then trimSpace corig else []
  { words := words,
    wordsOrig := if also then List.replicate words.length [] ++ splitSpace ort else [],
    op := .and, phrase := rt, phraseOrig := ort, isPhrase := true, negate := negate }

/-- `createMatchFilterCriteria(col, value, And, negate, qid, cci)` -/
def mkWords (t : Bytes) (negate also : Bool) (corig : Bytes) : MatchFilter :=
  let words := ((splitSpace t).map trimSpace).filter (fun w => !w.isEmpty)
  { words := words,
    wordsOrig := if also then List.replicate words.length [] ++ splitSpace corig else [],
    op := .and, phrase := [], phraseOrig := [], isPhrase := false, negate := negate }

/-- `ProcessSingleFilter(col, t, o, "=" | "!=", valueIsRegex=false, ci, isTerm=false, forceCaseSensitive=false, qid)`
for string `t` (value as the grammar passes it: lower-cased when `ci`, quotes kept) and `o` (original text);
`star` = the column is `*` or empty -/
def processSingleFilter (star neq ci : Bool) (t o : Bytes) : Crit :=
  if t.isEmpty then .err
  else
    let cleaned := dropQuotes (trimSpace t)
    let corig := dropQuotes (trimSpace o)
    let also := ci && t != corig                    -- IsString && caseInsensitive && !regex && colValue != originalColValue
    if star then
      if t.contains 34 then .mf (mkPhrase cleaned neq also corig)
      else if t.contains 42 then .expr (!neq) t also corig
      else .mf (mkWords t neq also corig)
    else if isNumText cleaned then .number        -- patch c02-6 (isTerm = false here)
    else .expr (!neq) cleaned also corig

/-- bloom probe of a criterion (`GetSearchQueryFromFilterCriteria` + `SearchQuery.GetAllBlockBloomKeysToSearch`) -/
def Crit.probe (c : Crit) (ci : Bool) : Probe :=
  match c with
  | .err => { keys := [], orig := [], wildcard := false, op := .and }
  | .mf f => f.probe ci
  | .expr fopEq val hasOrig orig => exprProbe fopEq (hasStar val) val hasOrig orig ci
  | .number => { keys := [], orig := [], wildcard := false, op := .and }

def Crit.negate : Crit → Bool
  | .mf f => f.negate
  | _ => false

/-! ### dictionary path -/

/-- `AddRecNumsToMr(dwordIdx, bsh)` with all records valid: walks `deRecToTlv[:recCount]` (the bitset `bits` has
`recCount` positions; `i` = record number of its head) and sets the bit of every record whose word index is `wi` -/
def addRecNums (d : Tlv.DictRd) (wi : Nat) : Nat → List Bool → List Bool
  | _, [] => []
  | i, b :: r => (b || d.recToWord[i]? == some wi) :: addRecNums d wi (i + 1) r

/-- the word loop of `ApplySearchTo…DictCsg`: the predicate ONCE per dictionary word (`wi` = index of the head word) -/
def dictLoop (f : Bytes → Bool) (d : Tlv.DictRd) : List Bytes → Nat → List Bool → List Bool
  | [], _, bits => bits
  | w :: r, wi, bits => dictLoop f d r (wi + 1) (if f w then addRecNums d wi 0 bits else bits)

/-- dictionary search: matched-record bitset of a block of `recCount` records -/
def dictSearch (f : Bytes → Bool) (d : Tlv.DictRd) (recCount : Nat) : List Bool :=
  dictLoop f d d.words 0 (List.replicate recCount false)

/-- the record loop of filterRecordsFromSearchQuery over the same block: record `i` is read with `deGetRec` and
tested on its own (a read error leaves the record unmatched) -/
def perRecFrom (f : Bytes → Bool) (d : Tlv.DictRd) : Nat → Nat → List Bool
  | _, 0 => []
  | i, n + 1 => (match d.getRec i with
                 | .ok t => f t
                 | _ => false) :: perRecFrom f d (i + 1) n

def perRecordSearch (f : Bytes → Bool) (d : Tlv.DictRd) (recCount : Nat) : List Bool := perRecFrom f d 0 recCount

/-- a record's TLV as the matcher sees it -/
def cvalOfTlv (t : Bytes) : CVal :=
  match t with
  | [] => .backfill
  | tag :: rest =>
    if tag = Tlv.tStr then .str (rest.drop 2)
    else if tag = Tlv.tBool then .bool (rest.head? != some 0)
    else if tag = Tlv.tBackfill then .backfill
    else .num

/-- `ApplySearchToMatchFilterDictCsg`: NOTHING matches when the filter has no words (the per-record matcher
says EVERYTHING matches in that case) -/
def dictMatch (mf : MatchFilter) (ci : Bool) (d : Tlv.DictRd) (recCount : Nat) : List Bool :=
  if mf.words.isEmpty then List.replicate recCount false
  else dictSearch (fun t => matchRaw mf ci (cvalOfTlv t)) d recCount

def perRecordMatch (mf : MatchFilter) (ci : Bool) (d : Tlv.DictRd) (recCount : Nat) : List Bool :=
  perRecordSearch (fun t => matchRaw mf ci (cvalOfTlv t)) d recCount

/-! ### one block of `filterRecordsFromSearchQuery` whose searched column is dictionary-encoded

First the dictionary stage marks records (`dictMatch`); the record loop runs only when `doRecLevelSearch`; it is the
record loop that applies `NegateMatch` (`if matched || blockHelper.DoesRecordMatch(i) then clear else add`).  With every
searched column dictionary-encoded the record-level result `matched` is false.  This small model of the caller is tied
to the code by the end-to-end suites only (the function needs a whole segment reader). -/

/-- the record loop after the dictionary stage; `m i` = record-level result over the columns that are not dictionary-encoded -/
def recLoop (negate : Bool) (m : Nat → Bool) : Nat → List Bool → List Bool
  | _, [] => []
  | i, b :: r => (if negate then !(m i || b) else (b || m i)) :: recLoop negate m (i + 1) r

/-- as repaired by patch c03-D: a negated match filter always takes the record loop; `enclosed` = the block lies
inside the query's time range (otherwise the loop runs anyway, to test each record's time) -/
def filterDictBlock (mf : MatchFilter) (ci : Bool) (d : Tlv.DictRd) (recCount : Nat) (enclosed : Bool) : List Bool :=
  let bits := dictMatch mf ci d recCount
  if !enclosed || mf.negate then recLoop mf.negate (fun _ => false) 0 bits else bits

/-- BEFORE patch c03-D: the record loop (and with it the negation) was skipped for a time-enclosed block -/
def filterDictBlockOld (mf : MatchFilter) (ci : Bool) (d : Tlv.DictRd) (recCount : Nat) (enclosed : Bool) : List Bool :=
  let bits := dictMatch mf ci d recCount
  if !enclosed then recLoop mf.negate (fun _ => false) 0 bits else bits

end SigModel.Bloom
