/-
Model of the PLAN / PARALLELISM layer of the query pipeline (C06, suite pipeplan).
Mirrors, as they are:

  pkg/segment/query/processor/dataprocessor.go   NewXxxDP (the flag literals of every DataProcessor kind), NewMergerDP,
                                                 DataProcessor.Rewind (resets mergeSettings.numReturned, rewinds the streams),
                                                 getStreamInput with several streams (fetchFromAllStreamsWithData, iqr.MergeIQRs
                                                 until the first stream is drained, DiscardAfter(limit - numReturned), numReturned)
  pkg/segment/query/processor/queryprocessor.go  CanParallelSearch, SetupQueryParallelism (parallelism = GOMAXPROCS, merger DP after a
                                                 mergeable bottleneck, the other chains end at the merge index)
  pkg/segment/query/processor/sortcommand.go     sortProcessor.Process (sort the batch, merge with resultsSoFar, DiscardAfter(limit)),
                                                 compareValues / less (numbers < text < no value, whatever the direction of the key)
  pkg/segment/query/processor/statscommand.go    statsProcessor (count, sum, min, max; by one field) and the merge of the partial
                                                 results of several chains (mergeProcessor / MergeIQRStatsResults)
  pkg/segment/query/processor/bincommand.go      bin with span (getBinRange) and without (two passes: min/max, findSpan)
  pkg/segment/query/processor/wherecommand.go, evalcommand.go   comparison / arithmetic of one int column with a constant

What is abstracted (declared in lib/props.py): a parallel chain is represented by the RESULT it delivers to the merger (its
sorted, limited rows; its partial aggregates).  sort, stats, tail and the stats merger keep their final result and hand out
copies (IQR.Copy), so a value-semantic model is exact also for a second read after Rewind.  Ties between sort keys are
excluded by the op format (the last key is row-unique).  `setupOld` keeps the merger settings SetupQueryParallelism used
before the repair (less and limit taken from the propagated mergeSettings of the sort) for the counterexample theorems.
Core Lean only.
-/
import SigModel.Model.Pipe

namespace SigModel.PipePlan
open SigModel.Pipe

/-! ## 1. DataProcessor kinds and the plan -/

/-- the flags of a DataProcessor that steer the planner (dataprocessor.go: NewXxxDP) -/
structure Flags where
  name : String
  orderMatters : Bool := false   -- inputOrderMatters
  ignoresOrder : Bool := false   -- ignoresInputOrder
  permuting : Bool := false      -- isPermutingCmd
  bottleneck : Bool := false     -- isBottleneckCmd
  twoPass : Bool := false        -- isTwoPassCmd
  mergeable : Bool := false      -- isMergeableBottleneck
  generates : Bool := false      -- GeneratesData(): gentimes, inputlookup
deriving Repr, DecidableEq

def binDP (hasSpan : Bool) : Flags := { name := "bin", bottleneck := !hasSpan, twoPass := !hasSpan }
def dedupDP (hasSort : Bool) : Flags := { name := "dedup", orderMatters := true, bottleneck := hasSort }
def evalDP : Flags := { name := "eval" }
def fieldsDP : Flags := { name := "fields" }
def renameDP : Flags := { name := "rename" }
def fillnullDP (hasFields : Bool) : Flags := { name := "fillnull", bottleneck := !hasFields, twoPass := !hasFields }
def gentimesDP : Flags := { name := "gentimes", generates := true }
def inputlookupDP : Flags := { name := "inputlookup", generates := true }
def headDP : Flags := { name := "head", orderMatters := true }
def tailDP : Flags := { name := "tail", orderMatters := true, permuting := true, bottleneck := true }
def makemvDP : Flags := { name := "makemv" }
def mvexpandDP : Flags := { name := "mvexpand", permuting := true }
def regexDP : Flags := { name := "regex" }
def rexDP : Flags := { name := "rex" }
def whereDP : Flags := { name := "where" }
def tojsonDP : Flags := { name := "tojson" }
def streamstatsDP : Flags := { name := "streamstats", orderMatters := true }
def timechartDP : Flags := { name := "timechart", ignoresOrder := true, bottleneck := true, mergeable := true }
def statsDP : Flags := { name := "stats", ignoresOrder := true, bottleneck := true, mergeable := true }
def topDP : Flags := { name := "top", ignoresOrder := true, permuting := true, bottleneck := true }
def rareDP : Flags := { name := "rare", ignoresOrder := true, permuting := true, bottleneck := true }
def transactionDP : Flags := { name := "transaction", orderMatters := true }
def sortDP : Flags := { name := "sort", ignoresOrder := true, permuting := true, bottleneck := true, mergeable := true }

/-- every kind the planner can meet (asDataProcessor) -/
def allKinds : List Flags :=
  [binDP true, binDP false, dedupDP true, dedupDP false, evalDP, fieldsDP, renameDP, fillnullDP true, fillnullDP false,
   gentimesDP, inputlookupDP, headDP, tailDP, makemvDP, mvexpandDP, regexDP, rexDP, whereDP, tojsonDP, streamstatsDP,
   timechartDP, statsDP, topDP, rareDP, transactionDP, sortDP]

/-- CanParallelSearch: walk the chain up to the first bottleneck -/
def canParallelGo (canSplit : Bool) (i : Nat) : List Flags → Bool × Nat
  | [] => (false, 0)
  | dp :: rest =>
    if dp.orderMatters then (false, 0)
    else if dp.generates then (false, 0)
    else
      let cs := canSplit || dp.ignoresOrder
      if dp.bottleneck then (cs, i) else canParallelGo cs (i + 1) rest

def canParallelSearch (dps : List Flags) : Bool × Nat := canParallelGo false 0 dps

/-- the comparator a DataProcessor merges its input streams with (mergeSettings.less) -/
inductive LessKind where
  | timestamp                 -- sortByTimestampLess (the default: most recent first)
  | always                    -- func(a, b) bool { return true }: the consumer ignores the order
  | sortAt (i : Nat)          -- lessDirectRead of the sort at DataProcessor index i
  | notOf (l : LessKind)      -- reversed by a tail
deriving Repr, DecidableEq

structure MSet where
  less : LessKind := .timestamp
  limit : Option Nat := none
deriving Repr, DecidableEq

/-- `for k := i; k >= 0; k-- { if stop(dpChain[k]) break; dpChain[k].mergeSettings = cur }` (called with i+1) -/
def backProp (dps : List Flags) (stop : Flags → Bool) (cur : MSet) (sets : List MSet) : Nat → List MSet
  | 0 => sets
  | k + 1 =>
    match dps[k]? with
    | some d => if stop d then sets else backProp dps stop cur (sets.set k cur) k
    | none => sets

/-- one iteration of setMergeSettings (queryprocessor.go) -/
def msStep (dps : List Flags) (limitAt : Nat → Nat) (st : MSet × List MSet) (i : Nat) : MSet × List MSet :=
  match dps[i]? with
  | none => st
  | some dp =>
    let st1 : MSet × List MSet :=
      if dp.ignoresOrder then
        let cur : MSet := { st.1 with less := .always }
        (cur, backProp dps (fun d => d.orderMatters) cur st.2 (i + 1))
      else st
    let st2 : MSet × List MSet :=
      if dp.permuting then
        let cur : MSet :=
          if dp.name == "sort" then { less := .sortAt i, limit := some (limitAt i) }
          else if dp.name == "tail" then { st1.1 with less := .notOf st1.1.less }
          else st1.1
        (cur, backProp dps (fun d => d.orderMatters || d.permuting || d.ignoresOrder) cur st1.2 (i + 1))
      else st1
    (st2.1, st2.2.set i st2.1)

/-- setMergeSettings: the merge settings of every DataProcessor of a chain -/
def mergeSettingsOf (dps : List Flags) (limitAt : Nat → Nat) : List MSet :=
  ((List.range dps.length).foldl (msStep dps limitAt) ({}, List.replicate dps.length {})).2

/-- the merger DataProcessor SetupQueryParallelism inserts after a mergeable bottleneck -/
inductive Merger where
  | none
  | stats               -- mergeSettings{mergingStats: true}
  | limit (less : LessKind) (l : Option Nat)     -- less + limit of the merge settings of the bottleneck
deriving Repr, DecidableEq

structure Shape where
  can : Bool
  idx : Nat
  firstStats : Bool
  n : Nat              -- number of chains
  lens : List Nat      -- length of every chain
  merger : Merger
deriving Repr, DecidableEq

/-- SetupQueryParallelism for GOMAXPROCS = k; `limitAt i` = the limit of the sort at position i.
`useSettings = true`: the code before the repair, which gave the merger the sort's (propagated) mergeSettings. -/
def setupWith (useSettings : Bool) (k : Nat) (firstStats : Bool) (dps : List Flags) (limitAt : Nat → Nat) : Shape :=
  let r := canParallelSearch dps
  let can := r.1 && !firstStats
  let mi := if firstStats then 0 else r.2
  let par := if can then k else 1
  let mergeable := can && ((dps[mi]?).map (·.mergeable)).getD false
  let merger : Merger :=
    if mergeable then
      (if (dps[mi]?).any (fun d => d.name == "stats" || d.name == "timechart") then .stats
       else if useSettings then (let ms := (mergeSettingsOf dps limitAt).getD mi {}; .limit ms.less ms.limit)
       else .limit (.sortAt mi) (some (limitAt mi)))      -- sorter.lessDirectRead, sorter.GetLimit()
    else .none
  let extra := if mergeable then 1 else 0
  { can := r.1, idx := r.2, firstStats := firstStats, n := par,
    lens := (dps.length + extra) :: List.replicate (par - 1) (mi + extra), merger := merger }

def setup := setupWith false
/-- before the repair -/
def setupOld := setupWith true

/-! ## 2. commands with a meaning -/

inductive AggFn where | count | sum | min | max
deriving DecidableEq, Repr

structure Agg where
  fn : AggFn
  arg : String
  out : String
deriving Repr

inductive CmpOp where | gt | ge | lt | le | eq | ne
deriving DecidableEq, Repr
inductive ArOp where | add | sub | mul
deriving DecidableEq, Repr

inductive PCmd where
  | base (c : Cmd)                                     -- head tail dedup fillnull rename fields (Model/Pipe.lean)
  | sort (limit : Nat) (keys : List (String × Bool))   -- limit 0: none given (the grammar's default 10000); key = (field, ascending)
  | bin (f : String) (span : Nat) (bins : Nat)         -- span 0: none given (two passes); bins 0: the default 100
  | stats (aggs : List Agg) (by_ : Option String)
  | where_ (f : String) (op : CmpOp) (c : Int)
  | eval (new f : String) (op : ArOp) (c : Int)
  | shapeOnly (dps : List Flags) (firstStats : Bool)   -- commands without a meaning in this model: only their DataProcessors
deriving Repr

def PCmd.twoPass : PCmd → Bool
  | .base (.fillnull _ []) => true
  | .bin _ 0 _ => true
  | _ => false

def sortLimit (l : Nat) : Nat := if l = 0 then 10000 else l

/-- the DataProcessors AggsToDataProcessors makes of a command (stats … as … is followed by the rename of the aliases) -/
def PCmd.dps : PCmd → List Flags
  | .base (.head _) => [headDP]
  | .base (.tail _) => [tailDP]
  | .base (.scroll _) => []
  | .base (.dedup _) => [dedupDP false]
  | .base (.fillnull _ fs) => [fillnullDP (!fs.isEmpty)]
  | .base (.rename _ _) => [renameDP]
  | .base (.fields _ _) => [fieldsDP]
  | .sort _ _ => [sortDP]
  | .bin _ span _ => [binDP (span != 0)]
  | .stats _ _ => [statsDP, renameDP]
  | .where_ _ _ _ => [whereDP]
  | .eval _ _ _ _ => [evalDP]
  | .shapeOnly d _ => d

def PCmd.firstStats : PCmd → Bool
  | .stats _ _ => true
  | .shapeOnly _ fs => fs
  | _ => false

/-- limits of the sorts, by DataProcessor index -/
def limitsOf : List PCmd → List Nat
  | [] => []
  | .sort l _ :: cs => sortLimit l :: limitsOf cs
  | c :: cs => c.dps.map (fun d => if d.name == "sort" then 1000000 else 0) ++ limitsOf cs

def planOf (k : Nat) (cs : List PCmd) : Shape :=
  let dps := cs.flatMap PCmd.dps
  let lims := limitsOf cs
  setup k ((cs.head?.map PCmd.firstStats).getD false) dps (fun i => lims.getD i 0)

/-! ### sort -/

def rank : Val → Nat
  | .int _ => 1
  | .str _ => 2
  | .null => 3

def flipOrd (asc : Bool) (o : Ordering) : Ordering := if asc then o else o.swap

/-- compareValues (sortcommand.go) on int / text / no value: a row without a value sorts last whatever the direction;
text values are kept as hex of lower-case words, whose order is the order of the words -/
def cmpVal (a b : Val) (asc : Bool) : Ordering :=
  match a, b with
  | .null, .null => .eq
  | .null, _ => .gt
  | _, .null => .lt
  | .int x, .int y => flipOrd asc (compare x y)
  | .str x, .str y => flipOrd asc (compare x y)
  | .int _, .str _ => flipOrd asc .lt
  | .str _, .int _ => flipOrd asc .gt

/-- the keys one after the other: the first key that tells the rows apart decides -/
def cmpRows : List (String × Bool) → Row → Row → Ordering
  | [], _, _ => .eq
  | (f, asc) :: ks, a, b => (cmpVal (a.get f) (b.get f) asc).then (cmpRows ks a b)

/-- sortProcessor.less -/
def lessKeys (ks : List (String × Bool)) (a b : Row) : Bool := cmpRows ks a b == .lt

/-- "b does not sort before a": what the merge of two sorted results tests -/
def leKeys (ks : List (String × Bool)) (a b : Row) : Bool := !lessKeys ks b a

/-- the first L elements in sorted order -/
def sortL (le : α → α → Bool) (L : Nat) (t : List α) : List α := (t.mergeSort le).take L

/-- the documented meaning of `sort <limit> <keys>` -/
def sortSem (l : Nat) (ks : List (String × Bool)) (t : Table) : Table := sortL (leKeys ks) (sortLimit l) t

/-- state of sortProcessor: resultsSoFar, hasFinalResult -/
structure SortSt where
  rsf : Option Table := none
  done : Bool := false
deriving Repr

/-- sortProcessor.Process: sort the batch, merge it into resultsSoFar, keep `limit` rows -/
def sortStep (le : Row → Row → Bool) (L : Nat) (rsf : Option Table) (b : Table) : Table :=
  let sb := b.mergeSort le                         -- inputIQR.Sort
  match rsf with
  | none => sb.take L                              -- DiscardAfter(limit)
  | some r => (List.merge r sb le).take L          -- MergeIQRs + the leftover appended, DiscardAfter(limit)

def sortProcLe (le : Row → Row → Bool) (L : Nat) : Proc SortSt where
  init := {}
  process := fun s b => ({ s with rsf := some (sortStep le L s.rsf b) }, none, false)
  finish := fun s => ({ s with done := true }, s.rsf)
  final := fun s => if s.done then some s.rsf else none
  rewind := fun s => s
  bottleneck := true
  twoPass := false

def sortProc (l : Nat) (ks : List (String × Bool)) : Proc SortSt := sortProcLe (leKeys ks) (sortLimit l)

/-! ### where, eval -/

def cmpOp : CmpOp → Int → Int → Bool
  | .gt, a, b => decide (a > b)
  | .ge, a, b => decide (a ≥ b)
  | .lt, a, b => decide (a < b)
  | .le, a, b => decide (a ≤ b)
  | .eq, a, b => decide (a = b)
  | .ne, a, b => decide (a ≠ b)

def whereRow (f : String) (op : CmpOp) (c : Int) (r : Row) : Bool :=
  match r.get f with
  | .int x => cmpOp op x c
  | _ => false

def whereSem (f : String) (op : CmpOp) (c : Int) (t : Table) : Table := t.filter (whereRow f op c)

def arOp : ArOp → Int → Int → Int
  | .add, a, b => a + b
  | .sub, a, b => a - b
  | .mul, a, b => a * b

def evalRow (new f : String) (op : ArOp) (c : Int) (r : Row) : Row :=
  match r.get f with
  | .int x => r.set new (.int (arOp op x c))
  | _ => r.set new .null

def evalSem (new f : String) (op : ArOp) (c : Int) (t : Table) : Table := t.map (evalRow new f op c)

/-! ### bin -/

def hexDigitChar (n : Nat) : Char := if n < 10 then Char.ofNat (48 + n) else Char.ofNat (87 + n)
/-- hex of an ASCII text -/
def hexOfString (s : String) : String :=
  String.ofList (s.toList.flatMap (fun c => [hexDigitChar (c.toNat / 16 % 16), hexDigitChar (c.toNat % 16)]))

/-- getBinRange + fmt "%v-%v": [floor(v/span)*span, that + span); the float -0 of ceil(v/span) prints as "-0" -/
def binText (span : Int) (v : Int) : String :=
  let lo := v / span * span
  let hi := if lo + span = 0 ∧ v % span ≠ 0 then "-0" else toString (lo + span)
  toString lo ++ "-" ++ hi

def binRow (f : String) (span : Int) (r : Row) : Row :=
  match r.get f with
  | .int v => r.set f (.str (hexOfString (binText span v)))
  | _ => r

def binSpanSem (f : String) (span : Nat) (t : Table) : Table := t.map (binRow f span)

def colInts (f : String) (t : Table) : List Int :=
  t.filterMap (fun r => match r.get f with | .int v => some v | _ => none)

def minMax : List Int → Option (Int × Int)
  | [] => none
  | x :: xs => some (xs.foldl (fun (acc : Int × Int) v => (if v < acc.1 then v else acc.1, if v > acc.2 then v else acc.2)) (x, x))

def pow10Ge (fuel : Nat) (span bins range : Int) : Int :=
  match fuel with
  | 0 => span
  | n + 1 => if span * bins < range then pow10Ge n (span * 10) bins range else span

def widen (fuel : Nat) (span bins mn mx : Int) : Int :=
  match fuel with
  | 0 => span
  | n + 1 =>
    let lo := mn / span * span
    let hi := mx / span * span + span
    if (hi - lo) / span > bins then widen n (span * 10) bins mn mx else span

/-- findSpan on integers: the smallest power of ten ≥ (max-min)/bins, widened while floor(min)…ceil(max) holds more than
`bins` buckets; `none`: the span would be a fraction (max-min < bins) — outside the model (float formatting) -/
def autoSpan (mn mx : Int) (bins : Nat) : Option Int :=
  if mn = mx then some 1
  else if mx - mn < bins then none
  else some (widen 40 (pow10Ge 40 1 bins (mx - mn)) bins mn mx)

def binsOf (b : Nat) : Nat := if b = 0 then 100 else b

/-- `bin <f>` without span on the whole input; `none`: not modelled -/
def binAutoSem (f : String) (bins : Nat) (t : Table) : Option Table :=
  match minMax (colInts f t) with
  | none => some t
  | some (mn, mx) => (autoSpan mn mx (binsOf bins)).map (fun s => t.map (binRow f s))

structure BinSt where
  mm : Option (Int × Int) := none
  second : Bool := false
deriving Repr

def binAutoProc (f : String) (bins : Nat) : Proc BinSt where
  init := {}
  process := fun s b =>
    if s.second then
      match s.mm with
      | none => (s, some b, false)
      | some (mn, mx) => (s, some (b.map (binRow f ((autoSpan mn mx (binsOf bins)).getD 1))), false)
    else
      let mm := match s.mm, minMax (colInts f b) with
        | none, x => x
        | some a, none => some a
        | some (a, b'), some (c, d) => some (if c < a then c else a, if d > b' then d else b')
      ({ s with mm := mm }, some b, false)
  finish := fun s => (s, none)
  final := fun _ => none
  rewind := fun s => { s with second := true }
  bottleneck := true
  twoPass := true

/-! ### stats -/

/-- partial aggregate of one group: number of rows and, per aggregate, (a value was seen, accumulated value) -/
structure Group where
  key : Val
  rows : Nat
  accs : List (Bool × Int)
deriving Repr

def accStep (fn : AggFn) (acc : Bool × Int) (v : Val) : Bool × Int :=
  match v with
  | .int x =>
    if !acc.1 then (true, x) else
    match fn with
    | .count => acc
    | .sum => (true, acc.2 + x)
    | .min => (true, if x < acc.2 then x else acc.2)
    | .max => (true, if x > acc.2 then x else acc.2)
  | _ => acc

def accMerge (fn : AggFn) (a b : Bool × Int) : Bool × Int :=
  if !a.1 then b else if !b.1 then a else
  match fn with
  | .count => a
  | .sum => (true, a.2 + b.2)
  | .min => (true, if b.2 < a.2 then b.2 else a.2)
  | .max => (true, if b.2 > a.2 then b.2 else a.2)

def groupAddRow (aggs : List Agg) (g : Group) (r : Row) : Group :=
  { g with rows := g.rows + 1, accs := List.zipWith (fun (a : Agg) acc => accStep a.fn acc (r.get a.arg)) aggs g.accs }

def groupsAddRow (aggs : List Agg) (by_ : Option String) (gs : List Group) (r : Row) : List Group :=
  let k : Val := match by_ with | some f => r.get f | none => .null
  if gs.any (fun g => g.key == k) then gs.map (fun g => if g.key == k then groupAddRow aggs g r else g)
  else gs ++ [groupAddRow aggs { key := k, rows := 0, accs := aggs.map (fun _ => (false, 0)) } r]

def groupMerge (aggs : List Agg) (a b : Group) : Group :=
  { key := a.key, rows := a.rows + b.rows,
    accs := List.zipWith (fun (ag : Agg) (p : (Bool × Int) × (Bool × Int)) => accMerge ag.fn p.1 p.2) aggs (a.accs.zip b.accs) }

/-- merge of the partial results of two chains (AddBlockResults / MergeSegStats) -/
def groupsMerge (aggs : List Agg) (gs hs : List Group) : List Group :=
  hs.foldl (fun acc h =>
    if acc.any (fun g => g.key == h.key) then acc.map (fun g => if g.key == h.key then groupMerge aggs g h else g)
    else acc ++ [h]) gs

def groupRow (aggs : List Agg) (by_ : Option String) (g : Group) : Row :=
  (match by_ with | some f => [(f, g.key)] | none => []) ++
    List.zipWith (fun (a : Agg) (acc : Bool × Int) => (a.out, Val.int (match a.fn with | .count => (g.rows : Int) | _ => acc.2))) aggs g.accs

/-- rows of a (merged) partial result; without by there is one row even when no row was seen (all aggregates 0, as coded) -/
def groupsRows (aggs : List Agg) (by_ : Option String) (gs : List Group) : Table :=
  match by_, gs with
  | none, [] => [groupRow aggs none { key := .null, rows := 0, accs := aggs.map (fun _ => (false, 0)) }]
  | _, _ => gs.map (groupRow aggs by_)

def statsPartial (aggs : List Agg) (by_ : Option String) (t : Table) : List Group :=
  t.foldl (groupsAddRow aggs by_) []

/-- the documented meaning of stats on the whole input; `none`: no input rows and no by (one row of zeros or no row,
depending on whether a batch arrived: not judged) -/
def statsSem (aggs : List Agg) (by_ : Option String) (t : Table) : Option Table :=
  if by_.isNone && t.isEmpty then none else some (groupsRows aggs by_ (statsPartial aggs by_ t))

structure StatsSt where
  gs : List Group := []
  seen : Bool := false      -- searchResults != nil
  done : Bool := false
deriving Repr

def statsProc (aggs : List Agg) (by_ : Option String) : Proc StatsSt where
  init := {}
  process := fun s b => ({ s with gs := b.foldl (groupsAddRow aggs by_) s.gs, seen := true }, none, false)
  finish := fun s => if s.seen then ({ s with done := true }, some (groupsRows aggs by_ s.gs)) else (s, none)
  final := fun s => if s.done then some (some (groupsRows aggs by_ s.gs)) else none
  rewind := fun s => s
  bottleneck := true
  twoPass := false

/-! ## 3. the meaning of a chain and its execution by one chain of DataProcessors -/

def bseq (f : Table → Option Table) (t : Option Table) : Option Table := t.bind f

/-- documented meaning of a command on the whole ordered input (`none`: not judged) -/
def semP : PCmd → Table → Option Table
  | .base c, t => some (sem c t)
  | .sort l ks, t => some (sortSem l ks t)
  | .bin f 0 bins, t => binAutoSem f bins t
  | .bin f (s + 1) _, t => some (binSpanSem f (s + 1) t)
  | .stats aggs by_, t => statsSem aggs by_ t
  | .where_ f op c, t => some (whereSem f op c t)
  | .eval n f op c, t => some (evalSem n f op c t)
  | .shapeOnly _ _, t => some t

def semChain (cs : List PCmd) (t : Table) : Option Table := cs.foldl (fun acc c => acc.bind (semP c)) (some t)

def PCmd.stage (kf : List Val → Nat) (c : PCmd) (up : Chain) : Chain :=
  match c with
  | .base b => b.stage kf up
  | .sort l ks => .dp up (sortProc l ks) (sortProc l ks).init false
  | .bin f 0 bins => .dp up (binAutoProc f bins) (binAutoProc f bins).init false
  | .bin f (s + 1) _ => .dp up (rowwiseProc (binSpanSem f (s + 1))) () false
  | .stats aggs by_ => .dp up (statsProc aggs by_) (statsProc aggs by_).init false
  | .where_ f op c => .dp up (rowwiseProc (whereSem f op c)) () false
  | .eval n f op c => .dp up (rowwiseProc (evalSem n f op c)) () false
  | .shapeOnly _ _ => up

/-- one chain of DataProcessors over a replayed source, fetched until EOF: the batches delivered -/
def runChainBatches (kf : List Val → Nat) (cs : List PCmd) (src : List Table) : List Table :=
  ((cs.foldl (fun up c => c.stage kf up) (Chain.src src)).read (cs.length + 1)).2

/-! ## 4. the merger -/

/-- the loop of utils.IndexOfMin: `if less(arr[i], arr[result]) { result = i }`, carrying (result, arr[result]) -/
def minGo (less : α → α → Bool) : Nat × α → Nat → List α → Nat × α
  | best, _, [] => best
  | best, i, x :: xs => if less x best.2 then minGo less (i, x) (i + 1) xs else minGo less best (i + 1) xs

/-- utils.IndexOfMin on a non-empty slice: the index and the element -/
def indexOfMin (less : α → α → Bool) : List α → Option (Nat × α)
  | [] => none
  | x :: xs => some (minGo less (0, x) 1 xs)

def dropHeadAt : List (List α) → Nat → List (List α)
  | [], _ => []
  | q :: qs, 0 => q.tail :: qs
  | q :: qs, i + 1 => q :: dropHeadAt qs i

/-- iqr.MergeIQRs: take the least head (IndexOfMin over the next records) again and again until one of the queues is
drained; returns what was merged and what is left of every queue -/
def mergeRound (less : α → α → Bool) : Nat → List (List α) → List α × List (List α)
  | 0, qs => ([], qs)
  | fuel + 1, qs =>
    if qs.any List.isEmpty then ([], qs)
    else
      match indexOfMin less (qs.filterMap List.head?) with
      | none => ([], qs)
      | some (i, h) =>
        let rest := mergeRound less fuel (dropHeadAt qs i)
        (h :: rest.1, rest.2)

def totalLen (qs : List (List α)) : Nat := (qs.map List.length).sum

structure MergerSt where
  queues : List Table      -- what every upstream chain still has to deliver
  numReturned : Nat := 0
deriving Repr

/-- getStreamInput (several streams) + the merger's Fetch loop until EOF: the batches handed downstream -/
def mergerRun (less : Row → Row → Bool) (limit : Nat) : Nat → MergerSt → MergerSt × List Table
  | 0, s => (s, [])
  | fuel + 1, s =>
    let live := s.queues.filter (fun q => !q.isEmpty)       -- a drained chain delivers nothing more
    if live.isEmpty then (s, [])                              -- len(iqrs) == 0 → EOF
    else
      let r := mergeRound less (totalLen live + 1) live
      let thisLimit := limit - s.numReturned
      if thisLimit = 0 then ({ s with queues := r.2 }, [])   -- EOF (what this round merged is dropped)
      else
        let out := r.1.take thisLimit                          -- DiscardAfter(thisLimit)
        let rest := mergerRun less limit fuel { queues := r.2, numReturned := s.numReturned + out.length }
        (rest.1, out :: rest.2)

/-- DataProcessor.Rewind of the merger: the counter starts afresh and every upstream chain delivers its result again -/
def mergerRewind (full : List Table) (_s : MergerSt) : MergerSt := { queues := full, numReturned := 0 }

/-- the merger over the results of the chains, read until EOF -/
def mergerBatches (less : Row → Row → Bool) (limit : Nat) (queues : List Table) : List Table :=
  (mergerRun less limit (totalLen queues + queues.length + 2) { queues := queues }).2

/-! ## 5. the whole plan -/

/-- the table rows dealt out: `slot:n` = the next n rows as one batch for chain `slot mod chains`; the rest goes to chain 0 -/
def deal (n : Nat) : List (Nat × Nat) → Table → List (List Table) → List (List Table)
  | [], [], acc => acc
  | [], t, acc => acc.modify 0 (· ++ [t])
  | (slot, cnt) :: ds, t, acc => deal n ds (t.drop cnt) (acc.modify (slot % n) (· ++ [t.take cnt]))

def shares (n : Nat) (d : List (Nat × Nat)) (t : Table) : List (List Table) := deal n d t (List.replicate n [])

/-- index (among the commands) of the command the chains are merged at (CanParallelSearch over the commands); none: one chain -/
def mergeIdx : List PCmd → Nat → Option Nat
  | [], _ => none
  | c :: cs, i =>
    match c with
    | .base (.head _) | .base (.tail _) | .base (.dedup _) => none
    | .sort _ _ | .stats _ _ => some i
    | _ => if c.twoPass then none else mergeIdx cs (i + 1)

/-- order of the merger's streams: chains 1 … k-1 (SetupQueryParallelism), then chain 0 (ConnectEachDpChain) -/
def streamOrder (xs : List α) : List α := xs.drop 1 ++ xs.take 1

/-- execution of the plan with n chains: the rows the consumer receives.
n = 1: one chain over the batches in the order dealt.  n > 1: every chain runs the commands up to the merge command on its
share; a sort is merged under its limit, stats by merging the partial results; the rest of the chain reads the merger. -/
def runPlan (kf : List Val → Nat) (n : Nat) (cs : List PCmd) (sh : List (List Table)) : Table :=
  if n ≤ 1 then (runChainBatches kf cs (sh.headD [])).flatten
  else
    match mergeIdx cs 0 with
    | none => (runChainBatches kf cs (sh.headD [])).flatten   -- unreachable: such a plan has one chain
    | some mi =>
      let pre := cs.take (mi + 1)
      let post := cs.drop (mi + 1)
      match cs[mi]? with
      | some (.sort l ks) =>
        -- a chain takes part once a batch has reached its sort (resultsSoFar ≠ nil)
        let outs := (streamOrder sh).filter (fun s => !s.isEmpty) |>.map (fun s => (runChainBatches kf pre s).flatten)
        (runChainBatches kf post (mergerBatches (lessKeys ks) (sortLimit l) outs)).flatten
      | some (.stats aggs by_) =>
        let parts := (streamOrder sh).filter (fun s => !s.isEmpty) |>.map
          (fun s => statsPartial aggs by_ ((runChainBatches kf (cs.take mi) s).flatten))
        let merged : List Table :=
          match parts with
          | [] => []
          | p :: ps => [groupsRows aggs by_ (ps.foldl (groupsMerge aggs) p)]
        (runChainBatches kf post merged).flatten
      | _ => []

/-! ## 6. a DataProcessor with SEVERAL input streams (getStreamInput, suite pipeplan op `planms`)

Mirrors dataprocessor.go getStreamInput (switch len(dp.streams): 0 / 1 / default), fetchFromAllStreamsWithData,
CachedStream.Fetch / SetUnusedDataFromLastFetch / IsExhausted (streamer.go), iqr.MergeIQRs (one round: until one of the
fetched batches is drained), DiscardAfter(limit - numReturned), and fetchFromAnyStream (whole batches in arrival order).
An upstream stream is a replaying source: the list of the batches it delivers.  The order in which
fetchFromAllStreamsWithData collects the batches of a round depends on the scheduler; the model takes stream order (with a
comparator that tells all rows apart IndexOfMin does not depend on it: `multi_stream_input_is_merge`). -/

/-- the condition of the fast path in getStreamInput, from the flags of the DataProcessor:
`dp.IgnoresInputOrder() && dp.IsBottleneckCmd()` -/
def Flags.readsUnmerged (d : Flags) : Bool := d.ignoresOrder && d.bottleneck

/-- the condition seed C06-5 widened it to: `!dp.DoesInputOrderMatter() && dp.IsBottleneckCmd()` -/
def Flags.readsUnmergedWidened (d : Flags) : Bool := !d.orderMatters && d.bottleneck

/-- a CachedStream over a replaying source: `cur` = unusedDataFromLastFetch ([] = nil), `rest` = the batches the source has
not delivered yet -/
structure MStream where
  cur : Table := []
  rest : List Table
deriving Repr

/-- CachedStream.Fetch inside fetchFromAllStreamsWithData: unused data first, otherwise the next batch of the source; a stream
whose source is at its end answers (nil, EOF), is exhausted from then on and takes no part -/
def refill (s : MStream) : Option MStream :=
  if !s.cur.isEmpty then some s
  else
    match s.rest with
    | [] => none
    | b :: bs => some { cur := b, rest := bs }

def MStream.rows (s : MStream) : Table := s.cur ++ s.rest.flatten

def takeOpt : Option Nat → List α → List α
  | none, l => l
  | some n, l => l.take n

/-- getStreamInput, default branch without the fast path, called until it answers EOF: the batches handed to the processor.
Each round: a batch from every stream that is not exhausted; none → EOF; MergeIQRs until one batch is drained; with a limit,
EOF when limit - numReturned = 0, else DiscardAfter; numReturned += rows; what is left of every batch goes back to its stream. -/
def msRun (less : Row → Row → Bool) (limit : Option Nat) : Nat → List MStream → Nat → List Table
  | 0, _, _ => []
  | fuel + 1, ss, numReturned =>
    let live := ss.filterMap refill
    if live.isEmpty then []
    else
      let r := mergeRound less (totalLen (live.map (·.cur)) + 1) (live.map (·.cur))
      let next := List.zipWith (fun (s : MStream) (q : Table) => { s with cur := q }) live r.2
      let thisLimit := limit.map (· - numReturned)
      if thisLimit = some 0 then []
      else
        let out := takeOpt thisLimit r.1
        out :: msRun less limit fuel next (numReturned + out.length)

def msFuel (ss : List MStream) : Nat := (ss.map (fun s => s.rows.length + s.rest.length + 1)).sum + 1

/-- fetchFromAnyStream until EOF: whole batches, in the order in which the streams answer.  `sched` says which of the streams
that still have a batch is taken next (modulo their number; stream order once it is used up): every arrival order that keeps
the order within each stream is one of these. -/
def anyRun : Nat → List Nat → List (List Table) → List Table
  | 0, _, _ => []
  | fuel + 1, sched, ss =>
    let live := ss.filter (fun s => !s.isEmpty)
    if live.isEmpty then []
    else
      let i := sched.headD 0 % live.length
      match live[i]? with
      | some (b :: _) => b :: anyRun fuel sched.tail (live.modify i List.tail)
      | _ => []

/-- what the processor of a DataProcessor with the flags `d` consumes from its input streams until EOF (getStreamInput):
one stream: its batches as they are; several: the fast path for `ignoresInputOrder && bottleneck`, the record-level merge
otherwise.  (No stream: an error; not reached by the suite.) -/
def streamInput (d : Flags) (less : Row → Row → Bool) (limit : Option Nat) (sched : List Nat) (streams : List (List Table)) : List Table :=
  match streams with
  | [] => []
  | [s] => s
  | _ =>
    if d.readsUnmerged then anyRun ((streams.map List.length).sum + 1) sched streams
    else msRun less limit (msFuel (streams.map (fun s => { rest := s }))) (streams.map (fun s => { rest := s })) 0

/-- the rows (in merge order) dealt to k streams: row i goes to stream `asg[i]` -/
def dealStreams (k : Nat) (asg : List Nat) (t : Table) : List Table :=
  (List.range k).map (fun j => ((t.zip asg).filter (fun p => p.2 == j)).map (·.1))

/-- a stream cut into batches: the sizes one after the other (never an empty batch), what is left over is one more batch -/
def cutBatches : List Nat → Table → List Table
  | _, [] => []
  | [], t => [t]
  | n :: ns, t => if n = 0 then cutBatches ns t else t.take n :: cutBatches ns (t.drop n)

/-- the merge settings a DataProcessor is given by SetMergeSettingsBasedOnStream: nil → timestamp, most recent first, no limit;
a sort → its comparator and its limit -/
inductive MergeBy where
  | timestamp
  | sort (limit : Nat) (keys : List (String × Bool))
deriving Repr

def MergeBy.keys : MergeBy → List (String × Bool)
  | .timestamp => [("timestamp", false)]
  | .sort _ ks => ks

def MergeBy.limit : MergeBy → Option Nat
  | .timestamp => none
  | .sort l _ => some (sortLimit l)

/-- op `planms`: the first DataProcessor of the chain reads the streams, the rest of the chain reads it -/
def runMS (kf : List Val → Nat) (m : MergeBy) (cs : List PCmd) (streams : List (List Table)) : Table :=
  match (cs.flatMap PCmd.dps).head? with
  | none => []
  | some d => (runChainBatches kf cs (streamInput d (lessKeys m.keys) m.limit [] streams)).flatten

end SigModel.PipePlan
