/-
Model of the per-metric DATA CHUNK of a tags tree file (C08, suite "tagstree"), block level.
Mirrors (with the repair build/patches/c09-10: a value with more than 65535 TSIDs is written as several consecutive
blocks; and c09-11: the rotated exact-match reader knows the int64 value type)

  pkg/segment/writer/metrics/tagstree.go   TagTree.encodeTagsTree   per metric: for every tagInfo (kept sorted by hashed
                      value by AddTagValue) ONE OR MORE blocks  [hash u64][type u8][value][count u16][count × TSID u64];
                      every block carries at most 65535 TSIDs, the first block is written even without TSIDs
  pkg/segment/reader/metrics/tagstree/tagstreereader.go
      TagTreeReader.getOrInsertMatchingTSIDs   Equal: the TSIDs of the first run of consecutive blocks with the hash asked
                      for (the scan stops at the first other block behind a match); NotEqual: the TSIDs of every block
                      with another hash
      TagValueIterator.next                    every block with at least one TSID, in file order; the consumers
                      (addToTsidMap) collect the blocks of one value into one set

The byte framing of a block (little-endian fields, the 16-bit count) is abstracted: a block is (hash, TSIDs) and is
`wellFramed` when its TSID count fits the 16-bit count field — exactly the condition under which the real decoder reads
back what the encoder wrote; the real encoder/decoders are tied to this model by the correspondence suite (real
AddTagValue → EncodeTagsTreeHolder → real readers).  Before the repair the encoder wrote ONE block per value with
`uint16(count)` in front of ALL TSIDs (`encodeBlocksOld`).  Core Lean only.
-/
namespace SigModel.TagsTree

structure Entry where
  hash : Nat            -- tagInfo.tagHashValue
  tsids : List Nat      -- tagInfo.matchingtsids
deriving Repr, DecidableEq

structure Block where
  hash : Nat
  tsids : List Nat
deriving Repr, DecidableEq

/-- math.MaxUint16 -/
def maxPerBlock : Nat := 65535

/-- the value of the 16-bit count field the encoder writes for `n` TSIDs: `uint16(n)` -/
def countField (n : Nat) : Nat := n % 65536

/-- the decoder reads `countField` TSIDs: the block is read back as written iff the count fits -/
def wellFramed (b : Block) : Prop := countField b.tsids.length = b.tsids.length
instance (b : Block) : Decidable (wellFramed b) := by unfold wellFramed; infer_instance

/-- the encoder's loop `for firstBlock := true; firstBlock || len(remaining) > 0`: at most 65535 TSIDs per block -/
def chunksAux : Nat → List Nat → List (List Nat)
  | 0, _ => []
  | fuel + 1, l => if l.length ≤ maxPerBlock then [l] else l.take maxPerBlock :: chunksAux fuel (l.drop maxPerBlock)

def chunks (l : List Nat) : List (List Nat) := chunksAux (l.length + 1) l

def blocksOf (e : Entry) : List Block := (chunks e.tsids).map (fun c => { hash := e.hash, tsids := c })

/-- encodeTagsTree, the data chunk of one metric -/
def encodeBlocks (es : List Entry) : List Block := es.flatMap blocksOf

/-- … before the repair c09-10: one block per value, whatever the number of TSIDs -/
def encodeBlocksOld (es : List Entry) : List Block := es.map (fun e => { hash := e.hash, tsids := e.tsids })

/-- getOrInsertMatchingTSIDs, Equal (`matched` = matchedSomething) -/
def readEqual (h : Nat) : Bool → List Block → List Nat
  | _, [] => []
  | matched, b :: r =>
    if b.hash = h then b.tsids ++ readEqual h true r
    else if matched then []
    else readEqual h false r

/-- getOrInsertMatchingTSIDs, NotEqual -/
def readNotEqual (h : Nat) (bs : List Block) : List Nat := (bs.filter (fun b => b.hash != h)).flatMap (·.tsids)

/-- TagValueIterator.next until exhaustion -/
def iterate (bs : List Block) : List (Nat × List Nat) := (bs.filter (fun b => !b.tsids.isEmpty)).map (fun b => (b.hash, b.tsids))

/-- the set addToTsidMap collects for one value -/
def iterFor (h : Nat) (bs : List Block) : List Nat := ((iterate bs).filter (fun p => p.1 == h)).flatMap (·.2)

end SigModel.TagsTree
