/-
C12 — trace views END TO END: OTLP ingest boundary, result paging, the queries behind the views.
Core Lean only (linked into the `oracle_C12` executable).

Mirrors the code WITH the repairs build/patches/c12-1 … c12-10 (the behaviour before a repair is kept as `…Old`):
  * pkg/otlp/traces.go            `ProcessTraceIngest` (the loop over ResourceSpans / ScopeSpans / Spans, the
                                   per-resource `service` variable, the span counters),
                                   `spanToJson` (attribute columns first, then the fixed fields; duration 0 for a
                                   span that ends before it starts), `HandleTraceIngestionResponse`
    pkg/otlp/utils.go             `extractAnyValue` (nil / an AnyValue with no field set = no value; bytes = their
                                   base64 text; no kind the harness can send is an error any more)
  * pkg/segment/tracing/handler/tracehandler.go
        `ProcessGanttChartRequest`   (the paging loop, the per-record checks in their order)
        `ProcessSearchTracesRequest` (the three SPL queries as functions of the stored records; pages of 50 trace
                                      ids out of the buckets ordered by trace id; span counts = `dc(span_id)` per
                                      status)
        `MakeTracesDependancyGraph`  (paging loop, stop at the first empty page; `decodeSpans`: a record that does
                                      not unmarshal into `structs.Span` is skipped)
        `ProcessRedTracesIngest`     (paging loop, stop at the first empty page; `decodeSpans`)
    their folds / `BuildSpanTree` are the kernels of Model/Trace.lean, reused here.

Conventions
  * ids (trace id, span id, parent span id) are the lower-case hex strings the ingest stores; service and
    operation names are strings.  Before a kernel of Model/Trace.lean (which works on `Nat` ids / services) is
    applied, strings are replaced by their RANK among the strings at hand (`code`; "" ↦ 0), an order
    isomorphism — `BuildSpanTree` compares span ids as strings only for sorting.
  * a stored record (`Rec`) carries the fields the views read; a field the document did not have is `none`
    (documents posted to index `traces` by another protocol; OTLP documents always have all of them).
  * numbers ≥ 2^63 are stored as float64 (`storedNum`); 2^64 − d with d ≤ 1024 rounds to 2^64, which no longer
    fits the uint64 fields the handlers unmarshal into (`poison`).  Since the repair of the duration no OTLP span
    produces such a record (`Props.C12.otlp_record_never_poison`); documents posted to index `traces` through
    another protocol (ES bulk …) still can, and their `duration` can also be negative, fractional or a string
    (`Rec.durBad`).  Every view skips such a record (the span tree always did; the dependency graph and RED since
    the repair c12-7 — before, they dropped the WHOLE window: `depOld`, `redCollectOld`).
  * the search engine is a parameter of the paging loops: it answers `(from, size)` with
    `(recs.drop from).take size` for ONE list `recs` (newest ingest request first).  That the real engine does so
    is checked by the correspondence suite `tracee2e`, not proved.
  * the time window of every view request is the constant `[winStart, winEnd]` (ms) the harness sends.
-/
import SigModel.Model.Trace
namespace SigModel.TraceE2E
open SigModel.Trace

/-! ## OTLP request -/

/-- an OTLP `AnyValue` as far as `extractAnyValue` distinguishes (array / kvlist: the fixed shapes the harness
sends; `half k` = the double k + 0.5) -/
inductive AVal
  | str (s : String) | int (i : Int) | bool (b : Bool) | half (k : Nat) | arr | kvl | bytes | empty
  /-- the KeyValue has no AnyValue at all (`keyvalue.Value == nil`) -/
  | noValue
deriving Repr, DecidableEq, Inhabited

structure OSpan where
  trace : String
  sid : String
  pid : String
  name : String
  start : Nat
  end_ : Nat
  /-- `none`: the span has no Status; `some n`: Status.Code = n -/
  status : Option Nat
  attrs : List (String × AVal)
deriving Repr, DecidableEq, Inhabited

structure ResSpans where
  /-- `none`: Resource == nil; attribute values: `some s` = a string value, `none` = anything else
  (`GetStringValue()` gives "") -/
  res : Option (List (String × Option String))
  scopes : List (List OSpan)
deriving Repr, DecidableEq, Inhabited

/-- value of a field of the JSON document handed to the segment writer -/
inductive JVal
  | str (s : String) | num (i : Int) | bool (b : Bool) | half (k : Nat) | arr | kvl
  /-- JSON null (an attribute without a value) -/
  | null
deriving Repr, DecidableEq, Inhabited

/-- `Status.Code.String()` / "Unknown" -/
def statusName : Option Nat → String
  | none => "Unknown"
  | some 0 => "STATUS_CODE_UNSET"
  | some 1 => "STATUS_CODE_OK"
  | some 2 => "STATUS_CODE_ERROR"
  | some n => toString n

/-- Go map assignment `m[k] = v` on an association list (position of an existing key is kept) -/
def setKV {β : Type} (m : List (String × β)) (k : String) (v : β) : List (String × β) :=
  match m with
  | [] => [(k, v)]
  | (k', v') :: r => if k' == k then (k, v) :: r else (k', v') :: setKV r k v

def getKV {β : Type} (m : List (String × β)) (k : String) : Option β :=
  match m with
  | [] => none
  | (k', v) :: r => if k' == k then some v else getKV r k

/-- base64 (standard alphabet, padded) of the bytes fb ff fe 01 the harness sends as `bytes_value` (both the
alphabet and the padding show) -/
def bytesText : String := "+//+AQ=="

/-- `extractAnyValue`: a KeyValue that carries no AnyValue at all (nil pointer) and an AnyValue none of whose fields
is set (the OTLP "empty" value) give the nil value; bytes give their base64 text (the OTLP JSON mapping).  `none` =
error (the `default:` branch — no value the harness can send reaches it any more). -/
def attrVal : AVal → Option JVal
  | .str s => some (.str s)
  | .int i => some (.num i)
  | .bool b => some (.bool b)
  | .half k => some (.half k)
  | .arr => some .arr
  | .kvl => some .kvl
  | .bytes => some (.str bytesText)
  | .empty => some .null
  | .noValue => some .null

/-- BEFORE the repair c12-10 bytes values and empty AnyValues were an error: the WHOLE span was refused (counted in
the partial-success message) -/
def attrValOld : AVal → Option JVal
  | .bytes => none
  | .empty => none
  | v => attrVal v

/-- the span was refused before the repair c12-10 -/
def spanRejectedOld (sp : OSpan) : Bool := sp.attrs.any (fun kv => (attrValOld kv.2).isNone)

/-- BEFORE the repair `extractAnyValue(nil)` dereferenced the nil pointer.  Attributes are converted in order and
the first one that cannot be converted decided: error return (bytes, unset value) or panic (no AnyValue). -/
def spanPanicsOld (sp : OSpan) : Bool :=
  match sp.attrs.find? (fun kv => kv.2 == .noValue || (attrValOld kv.2).isNone) with
  | some (_, .noValue) => true
  | _ => false

/-- `span.EndTimeUnixNano - span.StartTimeUnixNano`, 0 for a span that ends before it starts -/
def durationOf (sp : OSpan) : Nat := if sp.end_ ≥ sp.start then sp.end_ - sp.start else 0

/-- the fixed fields of the stored document -/
def baseDoc (sp : OSpan) (service : String) : List (String × JVal) :=
  [("trace_id", .str sp.trace), ("span_id", .str sp.sid), ("parent_span_id", .str sp.pid), ("service", .str service),
   ("name", .str sp.name), ("start_time", .num sp.start), ("end_time", .num sp.end_),
   ("duration", .num (durationOf sp)), ("status", .str (statusName sp.status))]

/-- one column per attribute key; `none` = error (the span is counted as failed) -/
def attrDoc (sp : OSpan) : Option (List (String × JVal)) :=
  sp.attrs.foldlM (fun m kv => (attrVal kv.2).map (setKV m kv.1)) []

def setAll (m d : List (String × JVal)) : List (String × JVal) := d.foldl (fun m kv => setKV m kv.1 kv.2) m

/-- `spanToJson(span, service)`: the attribute columns first, then the fixed fields (an attribute named like a
fixed field is overwritten by the field).  `none` = error. -/
def spanToJson (sp : OSpan) (service : String) : Option (List (String × JVal)) :=
  (attrDoc sp).map (fun m => setAll m (baseDoc sp service))

/-- BEFORE the repairs: the unsigned difference wrapped for end < start … -/
def baseDocOld (sp : OSpan) (service : String) : List (String × JVal) :=
  [("trace_id", .str sp.trace), ("span_id", .str sp.sid), ("parent_span_id", .str sp.pid), ("service", .str service),
   ("name", .str sp.name), ("start_time", .num sp.start), ("end_time", .num sp.end_),
   ("duration", .num (wsub sp.end_ sp.start)), ("status", .str (statusName sp.status))]

/-- … and the fixed fields were written first, so that `result[key] = value` of an attribute REPLACED them -/
def spanToJsonOld (sp : OSpan) (service : String) : Option (List (String × JVal)) :=
  sp.attrs.foldlM (fun m kv => (attrVal kv.2).map (setKV m kv.1)) (baseDocOld sp service)

/-! ## stored records -/

structure Rec where
  trace : String
  sid : String
  pid : Option String
  svc : Option String
  name : Option String
  start : Nat
  end_ : Nat
  dur : Nat
  status : Option String
  /-- every other column, as the text the harness prints (sorted by key) -/
  tags : List (String × String) := []
  /-- `some txt`: the stored `duration` is not a natural number at all (negative, fractional, a string — only
  documents of other protocols); `txt` = its text as read back; `dur` is 0 then -/
  durBad : Option String := none
  /-- the `duration` column of the record's block was consolidated to strings (a document of the block carries a
  string that is no number there): the stored number comes back as its decimal TEXT; the span structs of the views
  read such a text like the number since the repair c12-12 -/
  durAsText : Bool := false
deriving Repr, DecidableEq, Inhabited

/-- a JSON number as the segment stores it: exact below 2^63, float64 above -/
def storedNum (v : Nat) : Nat := if v < 2 ^ 63 then v else (Dy.ofNat v).floor

/-- the stored `duration` does not fit a uint64: the record does not unmarshal into `structs.Span` /
`structs.GanttChartSpan` -/
def poison (r : Rec) : Bool := r.dur ≥ 2 ^ 64 || r.durBad.isSome

/-- BEFORE the repair c12-12 a duration that came back as a JSON string — the decimal text of the stored number, after
the column of its block had been consolidated to strings — did not fit the uint64 fields either -/
def poisonOld (r : Rec) : Bool := poison r || r.durAsText

def strField (d : List (String × JVal)) (k : String) : Option String :=
  match getKV d k with
  | some (.str s) => some s
  | _ => none

def numField (d : List (String × JVal)) (k : String) : Nat :=
  match getKV d k with
  | some (.num i) => storedNum i.toNat
  | _ => 0

def fixedKeys : List String :=
  ["trace_id", "span_id", "parent_span_id", "service", "name", "start_time", "end_time", "duration", "status"]

def tagText (k : String) : JVal → List (String × String)
  | .str s => [(k, s)]
  | .num i => [(k, toString i)]
  | .bool b => [(k, if b then "true" else "false")]
  | .half n => [(k, toString n ++ ".5")]
  | .arr => [(k ++ ".0", "x"), (k ++ ".1", "1")]
  | .kvl => [(k ++ ".q", "r")]
  | .null => []

def tagLe (a b : String × String) : Bool := a.1 < b.1 || (a.1 == b.1 && a.2 ≤ b.2)

def docToRec (d : List (String × JVal)) : Rec :=
  { trace := (strField d "trace_id").getD "", sid := (strField d "span_id").getD "",
    pid := strField d "parent_span_id", svc := strField d "service", name := strField d "name",
    start := numField d "start_time", end_ := numField d "end_time", dur := numField d "duration",
    status := strField d "status",
    tags := isort tagLe ((d.filter (fun kv => !fixedKeys.contains kv.1)).flatMap (fun kv => tagText kv.1 kv.2)) }

/-! ## ProcessTraceIngest -/

structure IngState where
  /-- the variable `service` of ProcessTraceIngest -/
  service : String := ""
  numSpans : Nat := 0
  numFailed : Nat := 0
  docs : List (List (String × JVal)) := []
deriving Repr, DecidableEq, Inhabited

/-- the loop over `resourceSpans.Resource.Attributes` -/
def findService (attrs : List (String × Option String)) (s0 : String) : String :=
  attrs.foldl (fun s kv => if kv.1 == "service.name" then kv.2.getD "" else s) s0

def ingestSpan (service : String) (st : IngState) (sp : OSpan) : IngState :=
  match spanToJson sp service with
  | none => { st with numFailed := st.numFailed + 1 }
  | some d => { st with docs := st.docs ++ [d] }

def ingestScope (st : IngState) (sc : List OSpan) : IngState :=
  sc.foldl (ingestSpan st.service) { st with numSpans := st.numSpans + sc.length }

/-- one iteration of `for _, resourceSpans := range request.ResourceSpans` -/
def ingestRes (st : IngState) (r : ResSpans) : IngState :=
  let st := { st with service := "" }                       -- `var service string` INSIDE the loop body
  let st := match r.res with
    | none => st
    | some attrs => { st with service := findService attrs st.service }
  r.scopes.foldl ingestScope st

def ingest (rs : List ResSpans) : IngState := rs.foldl ingestRes {}

/-- `HandleTraceIngestionResponse`: (HTTP status, rejected spans of the partial-success message; -1 = none) -/
def ack (st : IngState) : Nat × Int :=
  if st.numFailed == 0 then (200, 0)
  else if st.numFailed < st.numSpans then (200, st.numFailed)
  else (500, -1)

/-- what ONE resource contributes, as a function of that resource alone (specification side of the frame
property `Props.C12.ingest_frame`) -/
def serviceOfRes (r : ResSpans) : String :=
  match r.res with
  | none => ""
  | some attrs => findService attrs ""

def docsOfRes (r : ResSpans) : List (List (String × JVal)) :=
  (r.scopes.flatMap id).filterMap (fun sp => spanToJson sp (serviceOfRes r))

/-! ## requests, record order -/

inductive Req
  | otlp (rs : List ResSpans)
  | raw (evs : List Rec)
deriving Repr, Inhabited

/-- BEFORE the repair of `extractAnyValue`: the request reached a span whose conversion panicked and
ProcessTraceIngest did not return (nothing of the request was handed to the segment writer) -/
def reqPanicsOld (rs : List ResSpans) : Bool := rs.any (fun r => r.scopes.any (fun sc => sc.any spanPanicsOld))

def recsOfReq : Req → List Rec
  | .otlp rs => (ingest rs).docs.map docToRec
  | .raw evs => evs

/-- the text of a stored duration (a float is rendered with `strconv.FormatFloat(v, 'f', -1, 64)`: 2^64 gives
18446744073709552000) -/
def durText (r : Rec) : String :=
  match r.durBad with
  | some t => t
  | none => if r.dur == 2 ^ 64 then "18446744073709552000" else toString r.dur

/-- the document carries a STRING (not a number) as its duration -/
def isStrDur (r : Rec) : Bool :=
  match r.durBad with
  | some t => t.any Char.isAlpha
  | none => false

/-- pkg/segment/writer/segstore.go `consolidateColumnTypes` (per block; the datasets of the harness are one block): a
column that holds numbers AND a string that is not a number is rewritten as strings — EVERY duration of the block
is then returned as a JSON string: the decimal text of the stored number (`durAsText`; a float is rendered with
FormatFloat 'f', see `durText`), the documents' own strings as they are.  Since the repair c12-12 the span structs of
the views (structs.Span / GanttChartSpan UnmarshalJSON) read the decimal text of a uint64 like the number, so the
views of the other spans of the block are what they are without that document; before, no span of the block could be
read (`poisonOld`; old known finding `trace-views/string-in-duration-column-hides-every-span-of-the-block`).
That ParseUint reads the decimal text of `dur` back as `dur` is not modelled (tied by the suite tracee2e). -/
def consolidate (recs : List Rec) : List Rec :=
  if recs.any isStrDur then recs.map (fun r => if r.durBad.isSome then r else { r with durAsText := true }) else recs

/-- the order in which a `*` search returns the records: newest ingest request first, ingest order within
a request -/
def records (reqs : List Req) : List Rec := consolidate (reqs.reverse.flatMap recsOfReq)

/-! ## result paging -/

/-- the paging loops of ProcessGanttChartRequest (`stopShort = true`: also stops after a page shorter than
`size`) and ProcessRedTracesIngest (`stopShort = false`: stops at the first empty page only).
`size` = `searchRequestBody.Size`, `stride` = the `From += …` literal; `fuel` bounds the number of requests. -/
def pageLoop {σ ρ : Type} (step : σ → ρ → σ) (size stride : Nat) (stopShort : Bool) (recs : List ρ) :
    Nat → Nat → σ → σ
  | 0, _, st => st
  | fuel + 1, from_, st =>
    let page := (recs.drop from_).take size
    if page.isEmpty then st
    else
      let st := page.foldl step st
      if stopShort && page.length < size then st
      else pageLoop step size stride stopShort recs fuel (from_ + stride) st

/-! ## ProcessGanttChartRequest -/

structure GState where
  /-- `idToSpanMap` -/
  spans : List (String × Rec) := []
  /-- `idToParentId` -/
  parents : List (String × String) := []
deriving Repr, Inhabited

/-- the body of `for _, rawSpan := range rawSpans`, checks in the order of the code: unmarshal into
GanttChartSpan (fails on a poisoned duration), `service`, `name`, `parent_span_id` present — then the parent
entry is written — `status` present — then the span is put into the map. -/
def gStep (st : GState) (r : Rec) : GState :=
  if poison r then st else
  match r.svc, r.name, r.pid with
  | some _, some _, some pid =>
    let st := { st with parents := setKV st.parents r.sid pid }
    match r.status with
    | none => st
    | some _ => { st with spans := setKV st.spans r.sid r }
  | _, _, _ => st

/-- the records the query `trace_id=<t>` matches, in result order -/
def ofTrace (recs : List Rec) (t : String) : List Rec := recs.filter (·.trace == t)

def ganttCollect (page : Nat) (recs : List Rec) : GState :=
  pageLoop gStep page page true recs (recs.length + 1) 0 {}

/-- distinct strings in increasing order -/
def sortedDistinct (l : List String) : List String :=
  uniq (isort (fun a b => decide (a ≤ b)) l)

/-- rank of `s` among `tbl` (sorted, distinct, without ""), "" ↦ 0 -/
def code (tbl : List String) (s : String) : Nat := if s == "" then 0 else tbl.idxOf s + 1

def decode (tbl : List String) (n : Nat) : String := if n == 0 then "" else tbl.getD (n - 1) ""

def gTable (st : GState) : List String :=
  sortedDistinct ((st.spans.map (·.1) ++ st.spans.map (fun kv => (getKV st.parents kv.1).getD "")).filter (· != ""))

/-- the two maps as a kernel span list (one span per id; every span of the map has a parent entry) -/
def gSpans (st : GState) : List Span :=
  let tbl := gTable st
  st.spans.map (fun kv =>
    { id := code tbl kv.1, parent := code tbl ((getKV st.parents kv.1).getD ""), noEntry := false, service := 0,
      start := kv.2.start, end_ := kv.2.end_, error := false })

structure GNode where
  parent : String
  id : String
  svc : String
  op : String
  status : String
  actual : Nat
  relStart : Nat
  relEnd : Nat
  dur : Nat
  anom : Bool
deriving Repr, DecidableEq

/-- the response of ProcessGanttChartRequest for trace `t`: `none` = error 400 "can not find a root span",
otherwise the tree in preorder -/
def gantt (page pick : Nat) (recs : List Rec) (t : String) : Option (List GNode) :=
  let st := ganttCollect page (ofTrace recs t)
  let tbl := gTable st
  let spans := gSpans st
  match buildTree spans pick, treeView spans pick with
  | some (_, nodes), some view =>
    some (view.filterMap (fun e =>
      match nodes.find? (fun n => n.id == e.2), getKV st.spans (decode tbl e.2) with
      | some n, some r =>
        some { parent := decode tbl e.1, id := decode tbl e.2, svc := r.svc.getD "", op := r.name.getD "",
               status := r.status.getD "", actual := n.actual, relStart := n.relStart, relEnd := n.relEnd,
               dur := r.dur, anom := n.anom }
      | _, _ => none))
  | _, _ => none

/-! ## ProcessSearchTracesRequest -/

def winStart : Nat := 1600000000000
def winEnd : Nat := 2000000000000
def tracePageLimit : Nat := 50

/-- `uint64(float64(v))` of `convertTimeToUint64` -/
def f64 (v : Nat) : Nat := (Dy.ofNat v).floor

def distinctNat (l : List Nat) : List Nat := uniq l
def distinctStr (l : List String) : List String := uniq l

structure TraceRow where
  trace : String
  svc : String
  op : String
  count : Nat
  errs : Nat
  start : Nat
  end_ : Nat
deriving Repr, DecidableEq

def errStatus : String := "STATUS_CODE_ERROR"

/-- `… | stats dc(span_id) as count by status, trace_id`, the buckets of one trace added up: the number of distinct
(status, span id) pairs — a span delivered twice (a retried export) is counted once; records without `status` form
a bucket of their own -/
def spanCount (rs : List Rec) : Nat := (uniq (rs.map (fun r => (r.status, r.sid)))).length

/-- the bucket of status ERROR: the distinct span ids with that status -/
def errCount (rs : List Rec) : Nat := (uniq ((rs.filter (fun r => r.status == some errStatus)).map (·.sid))).length

/-- BEFORE the repair c12-9 the query was `stats count as count by status, trace_id`: stored RECORDS were counted,
a re-delivered span twice -/
def spanCountOld (rs : List Rec) : Nat := rs.length
def errCountOld (rs : List Rec) : Nat := (rs.filter (fun r => r.status == some errStatus)).length

/-- BEFORE the repair c12-5 — one trace id of the page: `.error` = the whole request answered 500 (more than one
root start / end time), `.ok none` = not listed, `.ok (some row)` = listed -/
def searchRowOld (recs : List Rec) (t : String) : Except Unit (Option TraceRow) :=
  let rs := ofTrace recs t
  let roots := rs.filter (fun r => r.pid == some "")
  if roots.isEmpty then .ok none else
  match distinctNat (roots.map (·.start)), distinctNat (roots.map (·.end_)) with
  | [s], [e] =>
    let st := f64 s
    let en := f64 e
    if winStart * 1000000 > st || winEnd * 1000000 < en then .ok none else
    match distinctStr (roots.filterMap (·.svc)), distinctStr (roots.filterMap (·.name)) with
    | [sv], [nm] =>
      .ok (some { trace := t, svc := sv, op := nm, count := spanCount rs, errs := errCount rs, start := st, end_ := en })
    | _, _ => .ok none
  | _, _ => .error ()

/-- one trace id of the page: `none` = not listed (no root record, root records that do not agree on ONE start
time, end time, service and operation, or root outside the window), `some row` = listed -/
def searchRow (recs : List Rec) (t : String) : Option TraceRow :=
  match searchRowOld recs t with
  | .ok r => r
  | .error _ => none

def traceIds (recs : List Rec) : List String := sortedDistinct (recs.map (·.trace))

/-- the trace ids of page `p` (1-based): the group-by buckets ordered by trace id, 50 per page -/
def pageIds (recs : List Rec) (p : Nat) : List String :=
  ((traceIds recs).drop ((p - 1) * tracePageLimit)).take tracePageLimit

/-- page `p` of the listing for the search text `*` -/
def searchPage (recs : List Rec) (p : Nat) : List TraceRow := (pageIds recs p).filterMap (searchRow recs)

/-- the whole listing -/
def searchAll (recs : List Rec) : List TraceRow := (traceIds recs).filterMap (searchRow recs)

/-- the row BEFORE the repair c12-9 (stored records counted) -/
def searchRowCountOld (recs : List Rec) (t : String) : Option TraceRow :=
  (searchRow recs t).map (fun row => { row with count := spanCountOld (ofTrace recs t), errs := errCountOld (ofTrace recs t) })

/-- BEFORE the repair a page answered 500 as soon as one of its traces had two root start / end times -/
def searchPageOld (recs : List Rec) (p : Nat) : Option (List TraceRow) :=
  if (pageIds recs p).any (fun t => match searchRowOld recs t with | .error _ => true | .ok _ => false) then none
  else some (searchPage recs p)

/-! ## MakeTracesDependancyGraph / ProcessRedTracesIngest -/

/-- page of a search request without `size` (what the one-request reader saw before the repair) -/
def defaultPage : Nat := 100

def idTable (recs : List Rec) : List String :=
  sortedDistinct ((recs.map (·.sid) ++ recs.map (fun r => r.pid.getD "")).filter (· != ""))

def svcTable (recs : List Rec) : List String :=
  sortedDistinct (recs.map (fun r => r.svc.getD ""))

/-- a record unmarshalled into `structs.Span` (absent fields = ""); service = index into `svcTable` -/
def toSpans (recs : List Rec) : List Span :=
  let it := idTable recs
  let sv := svcTable recs
  recs.map (fun r =>
    { id := code it r.sid, parent := code it (r.pid.getD ""), noEntry := false, service := sv.idxOf (r.svc.getD ""),
      start := 0, end_ := r.dur, error := r.status == some "STATUS_CODE_ERROR" })

inductive DepOut
  | nil
  | ok (m : List ((String × String) × Nat))
deriving Repr, DecidableEq

/-- the records that unmarshal into `structs.Span` -/
def readable (recs : List Rec) : List Rec := recs.filter (fun r => !poison r)

/-- `decodeSpans` inside the paging loops: the records of a page are decoded one by one, a record that does not fit
a span is skipped (logged), every other one is appended -/
def collectStep (acc : List Rec) (r : Rec) : List Rec := if poison r then acc else acc ++ [r]

/-- what the paging loops of MakeTracesDependancyGraph / ProcessRedTracesIngest collect (they stop at the first page
without RECORDS, readable or not) -/
def collectSpans (page : Nat) (recs : List Rec) : List Rec :=
  pageLoop collectStep page page false recs (recs.length + 1) 0 []

/-- the fold of MakeTracesDependancyGraph over the collected spans -/
def depFold (rs : List Rec) : DepOut :=
  let sv := svcTable rs
  .ok ((depGraph (toSpans rs)).map (fun e => ((sv.getD e.1.1 "", sv.getD e.1.2 ""), e.2)))

/-- `dropRedeliveredSpans` (patch c12-11): a span that was delivered more than once (an exporter that retries after
a timeout) is stored once per delivery; of the collected spans with one (trace id, span id) the FIRST is kept — the
search returns the newest record first, so that is the latest delivery; `seen` = the Go map -/
def dedupAux (seen : List (String × String)) : List Rec → List Rec
  | [] => []
  | r :: rs => if seen.contains (r.trace, r.sid) then dedupAux seen rs else r :: dedupAux ((r.trace, r.sid) :: seen) rs

def dedupRecs (rs : List Rec) : List Rec := dedupAux [] rs

/-- the dependency graph of the window: the fold over every readable record, a re-delivered span once -/
def depOf (recs : List Rec) : DepOut := depFold (dedupRecs (readable recs))

/-- MakeTracesDependancyGraph: pages through the spans of the window, drops the re-delivered ones and folds -/
def dep (page : Nat) (recs : List Rec) : DepOut := depFold (dedupRecs (collectSpans page recs))

/-- BEFORE the repair c12-11 the fold ran over every stored RECORD: a span delivered twice counted twice -/
def depOfRecordsOld (recs : List Rec) : DepOut := depFold (readable recs)

/-- BEFORE the repair c12-7 a page was unmarshalled at once into `[]*structs.Span`: ONE record that does not fit made
the function return nil — no graph for the whole window -/
def depOld (_page : Nat) (recs : List Rec) : DepOut := if recs.any poison then .nil else depFold (dedupRecs recs)

/-- BEFORE the repair c12-2: ONE search request without `size`, i.e. the first `page` (100) records only -/
def depFirstPageOld (page : Nat) (recs : List Rec) : DepOut :=
  if recs.any poison then .nil else depFold (dedupRecs (recs.take page))

/-- the spans ProcessRedTracesIngest collects (re-delivered spans dropped, c12-11) -/
def redCollect (page : Nat) (recs : List Rec) : List Rec := dedupRecs (collectSpans page recs)

/-- BEFORE the repair c12-11: every stored record -/
def redCollectRecordsOld (page : Nat) (recs : List Rec) : List Rec := collectSpans page recs

/-- BEFORE the repair c12-7: `none` = a page could not be unmarshalled, the function returned without writing a row -/
def redCollectOld (_page : Nat) (recs : List Rec) : Option (List Rec) := if recs.any poison then none else some recs

def redOf (rs : List Rec) : List (String × RedRow) :=
  let sv := svcTable rs
  (red (toSpans rs)).map (fun row => (sv.getD row.service "", row))

def redE2E (page : Nat) (recs : List Rec) : List (String × RedRow) := redOf (redCollect page recs)

end SigModel.TraceE2E
