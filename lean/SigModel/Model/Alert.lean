/-
Model of the alert evaluation state machine (C20), mirroring — as they are —
  pkg/alerts/alertsHandler/cronJobHandler.go
    `handleAlertCondition` (185-227), `shouldUpdateAlertStateToFiring` (129-165),
    `updateAlertStateAndCreateAlertHistory` (103-124)
  pkg/alerts/alertsHandler/notificationHandler.go
    `NotifyAlertHandlerRequest` (39-109), `shouldSendNotification` (113-141),
    `isSilenceMinutesOver` (210-220), `isCooldownOver` (222-231)
  pkg/alerts/alertsqlite/alerts_sqlite.go
    `CreateAlert` (notification row: last_sent_time zero, last_alert_state Inactive),
    `UpdateAlertStateAndNotificationDetails` / `updateLastSentTimeAndAlertState` (713-785: the
    notification row is touched only when a notification was actually sent),
    `CreateAlertHistory` / `GetAlertHistoryByAlertID` (newest first, LIMIT n-1)
  pkg/alerts/alertsHandler/alertsHandler.go `ProcessUpdateAlertRequest` (443-449: a config change
    appends a history row whose AlertState is the zero value = Inactive; all_alerts.state is kept).
The state codes and the predicate `IsAlertStatePendingOrFiring` are REGENERATED from the Go source
(SigModel/Gen/Alert.lean).  Time is counted in whole minutes (the code compares
`now - last_sent_time >= minutes * time.Minute`; the harness moves time in whole minutes).
The transport (webhook POST) is the parameter `sendOk`.  Core Lean only.
-/
import SigModel.Gen.Alert

namespace SigModel.Alert

/-- `alertutils.AlertState` -/
inductive AState where
  | inactive | normal | pending | firing
deriving Repr, DecidableEq

/-- numeric value of the Go constant (regenerated) -/
def AState.code : AState → Int
  | .inactive => Gen.AlertState_Inactive
  | .normal => Gen.AlertState_Normal
  | .pending => Gen.AlertState_Pending
  | .firing => Gen.AlertState_Firing

/-- `alertutils.IsAlertStatePendingOrFiring` (regenerated kernel applied to the state's code) -/
def pof (s : AState) : Bool := Gen.IsAlertStatePendingOrFiring s.code

structure Cfg where
  window   : Nat   -- EvalWindow (minutes)
  interval : Nat   -- EvalInterval (minutes), ≥ 1 (0 would be a division by zero in the Go code)
  cooldown : Nat   -- notification_details.cooldown_period (minutes)
  silence  : Nat   -- all_alerts.silence_minutes
deriving Repr, DecidableEq

/-- `intervalCount := alertDetails.EvalWindow / alertDetails.EvalInterval` (uint64 division) -/
def Cfg.n (c : Cfg) : Nat := c.window / c.interval

structure St where
  hist          : List AState := []      -- alert_history_details.alert_state of this alert, newest first
  state         : AState := .inactive    -- all_alerts.state
  lastSentState : AState := .inactive    -- notification_details.last_alert_state
  lastSentTime  : Option Nat := none     -- notification_details.last_sent_time (none = zero time), minutes
deriving Repr, DecidableEq

/-- `shouldUpdateAlertStateToFiring` for a current state that is Pending: reads the newest
`intervalCount - 1` history rows -/
def shouldFire (n : Nat) (hist : List AState) : Bool :=
  if n = 0 then false
  else if n = 1 then true
  else
    let rows := hist.take (n - 1)
    if rows.length < n - 1 then false
    else rows.all pof

/-- `isCooldownOver` / `isSilenceMinutesOver`: zero time ⇒ over; else now - last ≥ minutes -/
def minutesOver (minutes : Nat) (last : Option Nat) (now : Nat) : Bool :=
  match last with
  | none => true
  | some t => decide (t + minutes ≤ now)

/-- `shouldSendNotification` -/
def shouldSend (cfg : Cfg) (st : St) (cur : AState) (now : Nat) : Bool :=
  if cur = .normal ∧ st.lastSentState = .inactive then false
  else if cur = .normal ∧ st.lastSentState = cur then false
  else if !minutesOver cfg.cooldown st.lastSentTime now then false
  else if !minutesOver cfg.silence st.lastSentTime now then false
  else true

/-- `NotifyAlertHandlerRequest`: true iff the notification was due and at least one channel
accepted it (the only channel of the modelled contact point is a webhook) -/
def notify (cfg : Cfg) (st : St) (cur : AState) (now : Nat) (sendOk : Bool) : Bool :=
  shouldSend cfg st cur now && sendOk

structure Out where
  state    : AState
  notified : Bool
  time     : Nat
deriving Repr, DecidableEq

/-- `handleAlertCondition` followed by `updateAlertStateAndCreateAlertHistory` -/
def evalStep (cfg : Cfg) (st : St) (now : Nat) (matched sendOk : Bool) : St × Out :=
  let newState : AState :=
    if matched then (if shouldFire cfg.n st.hist then .firing else .pending) else .normal
  let sent : Bool :=
    if matched then (if newState = .firing then notify cfg st .firing now sendOk else false)
    else notify cfg st .normal now sendOk
  let st' : St :=
    { hist := newState :: st.hist
      state := newState
      lastSentState := if sent then newState else st.lastSentState
      lastSentTime := if sent then some now else st.lastSentTime }
  (st', { state := newState, notified := sent, time := now })

/-- the history row written by `ProcessUpdateAlertRequest` -/
def configChange (st : St) : St := { st with hist := .inactive :: st.hist }

inductive Op where
  | eval (matched sendOk : Bool)   -- one cron evaluation
  | tick (minutes : Nat)           -- time passes
  | cfgChange                      -- the alert's configuration is saved (history row only)
deriving Repr, DecidableEq

/-- the alert together with the clock -/
structure Sys where
  st  : St := {}
  now : Nat := 0
deriving Repr, DecidableEq

def stepOp (cfg : Cfg) (s : Sys) : Op → Sys × Option Out
  | .eval m ok => let r := evalStep cfg s.st s.now m ok; ({ s with st := r.1 }, some r.2)
  | .tick k => ({ s with now := s.now + k }, none)
  | .cfgChange => ({ s with st := configChange s.st }, none)

/-- run an operation list; outputs in chronological order -/
def runOps (cfg : Cfg) : Sys → List Op → Sys × List Out
  | s, [] => (s, [])
  | s, op :: ops =>
    let r := stepOp cfg s op
    let r2 := runOps cfg r.1 ops
    (r2.1, r.2.toList ++ r2.2)

/-- a freshly created alert at clock `t0` -/
def init (t0 : Nat) : Sys := { st := {}, now := t0 }

end SigModel.Alert
