/-
Model of the Gorilla time-series codec (C08), mirroring
  pkg/segment/writer/metrics/compress/compressor.go   (Compress / compressTimestamp / compressValue / finish)
  pkg/segment/writer/metrics/compress/decompressor.go (Next / decompressFirst / decompressTimestamp / decompressValue)
All machine integers are `Nat` views with explicit wrap (`% P32`, `% P64`, `% 256`), because the
property is about those casts.  Core Lean only.
-/
import SigModel.Model.Bits

namespace SigModel.Gorilla
open SigModel

def P32 : Nat := 4294967296
def P64 : Nat := 18446744073709551616
def firstDeltaBits : Nat := 14

/-- int32 / int64 reading of a uint32 bit pattern -/
def toS32 (x : Nat) : Int := if x < 2147483648 then (x : Int) else (x : Int) - 4294967296

/-- `leardingZeros(v)`: scan from bit 63 down. -/
def lzFrom (v : Nat) : Nat → Nat
  | 0 => 0
  | n+1 => if v.testBit n then 0 else 1 + lzFrom v n
def leadingZeros (v : Nat) : Nat := lzFrom v 64

/-- `trailingZeros(v)`: scan from bit 0 up (at most `fuel` positions). -/
def tzFrom (v : Nat) : Nat → Nat
  | 0 => 0
  | f+1 => if v % 2 = 1 then 0 else 1 + tzFrom (v / 2) f
def trailingZeros (v : Nat) : Nat := tzFrom v 64

structure Enc where
  header : Nat   -- uint32 bit pattern of the int32 field
  t      : Nat   -- uint32 bit pattern of the int32 field
  tDelta : Nat   -- uint32 bit pattern of the int32 field
  lead   : Nat   -- uint8
  trail  : Nat   -- uint8
  value  : Nat   -- uint64
deriving Repr, DecidableEq

/-- `NewCompressor(w, header)` -/
def Enc.new (header : Nat) : Enc × Bits :=
  ({ header := header % P32, t := 0, tDelta := 0, lead := 255, trail := 0, value := 0 },
   writeBits header 32)

/-- `writeInt64Bits(bw, i, nbits)`: the uint64 handed to writeBits -/
def int64Bits (i : Int) (nbits : Nat) : Nat :=
  if i ≥ 0 ∨ nbits ≥ 64 then (i % (P64 : Int)).toNat else (((2 : Int) ^ nbits + i) % (P64 : Int)).toNat

/-- the delta-of-delta the encoder computes for timestamp `t` in state `c` -/
def dodOf (c : Enc) (t : Nat) : Int :=
  toS32 ((t % P32 + P32 - c.t) % P32) - toS32 c.tDelta

/-- `compressTimestamp` -/
def compressTimestamp (c : Enc) (t : Nat) : Enc × Bits :=
  let delta := (t % P32 + P32 - c.t) % P32
  let dod : Int := toS32 delta - toS32 c.tDelta
  let c' := { c with t := t % P32, tDelta := delta }
  if dod = 0 then (c', [false])
  else if -63 ≤ dod ∧ dod ≤ 64 then (c', writeBits 0x02 2 ++ writeBits (int64Bits dod 7) 7)
  else if -255 ≤ dod ∧ dod ≤ 256 then (c', writeBits 0x06 3 ++ writeBits (int64Bits dod 9) 9)
  else if -2047 ≤ dod ∧ dod ≤ 2048 then (c', writeBits 0x0E 4 ++ writeBits (int64Bits dod 12) 12)
  else (c', writeBits 0x0F 4 ++ writeBits (int64Bits dod 32) 32)

/-- `compressValue`; `value` is `math.Float64bits(v)`.  Leading zeros are clamped to 31 so that they
fit the 5-bit field (the `fix:` commit in /repo; before it the field overflowed, see Props/C08). -/
def compressValue (c : Enc) (value : Nat) : Enc × Bits :=
  let xor := c.value ^^^ value
  let c1 := { c with value := value }
  if xor = 0 then (c1, [false])
  else
    let lz0 := leadingZeros xor
    let lz := if lz0 ≥ 32 then 31 else lz0
    let tz := trailingZeros xor
    if c.lead ≤ lz ∧ c.trail ≤ tz then
      let sig := 64 - c.lead - c.trail
      (c1, true :: false :: writeBits (xor >>> c.trail) sig)
    else
      let sig := 64 - lz - tz
      ({ c1 with lead := lz, trail := tz },
       true :: true :: (writeBits lz 5 ++ writeBits sig 6 ++ writeBits (xor >>> tz) sig))

/-- `Compress(t, v)` -/
def compress (c : Enc) (t value : Nat) : Enc × Bits :=
  if c.t = 0 then
    let d := (t % P32 + P32 - c.header) % P32
    let delta := if toS32 d < 0 then (c.header + P32 - t % P32) % P32 else d
    ({ c with t := t % P32, tDelta := delta, value := value },
     writeBits delta firstDeltaBits ++ writeBits value 64)
  else
    let (c1, b1) := compressTimestamp c t
    let (c2, b2) := compressValue c1 value
    (c2, b1 ++ b2)

/-- `finish()` without the byte padding (that is `pack`) -/
def finish (c : Enc) : Bits :=
  if c.t = 0 then writeBits (2 ^ firstDeltaBits - 1) firstDeltaBits ++ writeBits 0 64
  else writeBits 0x0F 4 ++ writeBits 0xFFFFFFFF 32 ++ [false]

def encodePts (c : Enc) : List (Nat × Nat) → Enc × Bits
  | [] => (c, [])
  | (t, v) :: ps =>
    let (c1, b1) := compress c t v
    let (c2, b2) := encodePts c1 ps
    (c2, b1 ++ b2)

/-- header, all points, finish marker -/
def encodeAll (header : Nat) (pts : List (Nat × Nat)) : Bits :=
  let (c0, b0) := Enc.new header
  let (c1, b1) := encodePts c0 pts
  b0 ++ b1 ++ finish c1

/-! ### decoder -/

structure Dec where
  header : Nat
  t      : Nat
  delta  : Nat
  lead   : Nat
  trail  : Nat
  value  : Nat
deriving Repr, DecidableEq

inductive Res (α : Type) where
  | ok (a : α)
  | eof
  | err
deriving Repr, DecidableEq

def u8sub (a b : Nat) : Nat := (a % 256 + 256 - b % 256) % 256

/-- `NewDecompressIterator`: reads the 32-bit header -/
def Dec.new (bs : Bits) : Option (Dec × Bits) :=
  match readBits 32 bs with
  | none => none
  | some (h, r) => some ({ header := h, t := 0, delta := 0, lead := 0, trail := 0, value := 0 }, r)

def decompressFirst (d : Dec) (bs : Bits) : Res (Dec × Bits) :=
  match readBits firstDeltaBits bs with
  | none => .err
  | some (delta, r) =>
    if delta = 2 ^ firstDeltaBits - 1 then .eof
    else match readBits 64 r with
      | none => .err
      | some (value, r2) =>
        .ok ({ d with delta := delta, t := (d.header + delta) % P32, value := value }, r2)

/-- `dodTimestampBitN` -/
def dodBitN : Bits → Option (Nat × Bits)
  | false :: r => some (0, r)
  | true :: false :: r => some (7, r)
  | true :: true :: false :: r => some (9, r)
  | true :: true :: true :: false :: r => some (12, r)
  | true :: true :: true :: true :: r => some (32, r)
  | _ => none

def decompressTimestamp (d : Dec) (bs : Bits) : Res (Dec × Bits) :=
  match dodBitN bs with
  | none => .err
  | some (0, r) => .ok ({ d with t := (d.t + d.delta) % P32 }, r)
  | some (n, r) =>
    match readBits n r with
    | none => .err
    | some (bits, r2) =>
      if n = 32 ∧ bits = 0xFFFFFFFF then .eof
      else
        let dod : Int := if n ≠ 32 ∧ 2 ^ (n - 1) < bits then (bits : Int) - 2 ^ n else bits
        let delta := ((d.delta : Int) + dod) % (P32 : Int) |>.toNat
        .ok ({ d with delta := delta, t := (d.t + delta) % P32 }, r2)

def decompressValue (d : Dec) (bs : Bits) : Option (Dec × Bits) :=
  match bs with
  | [] => none
  | false :: r => some (d, r)
  | true :: r =>
    match r with
    | [] => none
    | b :: r1 =>
      -- b = false: control '10' (reuse window); b = true: control '11' (new window)
      let hdr : Option (Dec × Bits) :=
        if b then
          match readBits 5 r1 with
          | none => none
          | some (lz, r2) =>
            match readBits 6 r2 with
            | none => none
            | some (sig0, r3) =>
              let sig := if sig0 = 0 then 64 else sig0
              some ({ d with lead := lz, trail := u8sub (u8sub 64 sig) lz }, r3)
        else some (d, r1)
      match hdr with
      | none => none
      | some (d1, r4) =>
        match readBits (u8sub (u8sub 64 d1.lead) d1.trail) r4 with
        | none => none
        | some (vb, r5) =>
          let vb64 := vb % P64
          let shifted := if d1.trail ≥ 64 then 0 else (vb64 <<< d1.trail) % P64
          some ({ d1 with value := d1.value ^^^ shifted }, r5)

/-- one `Next()` -/
def next (d : Dec) (bs : Bits) : Res (Dec × Bits) :=
  if d.t = 0 then decompressFirst d bs
  else match decompressTimestamp d bs with
    | .err => .err
    | .eof => .eof
    | .ok (d1, r) =>
      match decompressValue d1 r with
      | none => .err
      | some (d2, r2) => .ok (d2, r2)

inductive Status where | eof | err
deriving Repr, DecidableEq

/-- iterate `Next()`; returns the (t, valuebits) sequence and how iteration ended -/
def decodeLoop : Nat → Dec → Bits → List (Nat × Nat) × Status
  | 0, _, _ => ([], .err)
  | fuel+1, d, bs =>
    match next d bs with
    | .err => ([], .err)
    | .eof => ([], .eof)
    | .ok (d1, r) =>
      let (ps, st) := decodeLoop fuel d1 r
      ((d1.t, d1.value) :: ps, st)

def decodeAll (bs : Bits) : Option (Nat × List (Nat × Nat) × Status) :=
  match Dec.new bs with
  | none => none
  | some (d, r) =>
    let (ps, st) := decodeLoop (bs.length + 1) d r
    some (d.header, ps, st)

end SigModel.Gorilla
