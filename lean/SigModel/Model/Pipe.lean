/-
Model of the query pipeline's per-command processors and of the loop that drives them (C06).
Mirrors, as they are (quirks included):

  pkg/segment/query/processor/dataprocessor.go   DataProcessor.Fetch (229-283): GetFinalResultIfExists /
                                                 getStreamInput / Process / bottleneck / two-pass Rewind
  pkg/segment/query/processor/streamer.go        CachedStream (exhausted flag: after EOF only (nil, EOF))
  pkg/segment/query/processor/queryprocessor.go  GetFullResult (563-590): Fetch until EOF, outputs appended
  pkg/segment/query/processor/headcommand.go     headProcessor.Process (plain limit; BoolExpr == nil), Rewind
  pkg/segment/query/processor/tailcommand.go     tailProcessor.Process / GetFinalResultIfExists (hands out a COPY of finalIqr)
  pkg/segment/query/processor/dedupcommand.go    dedupProcessor.Process / Rewind (key = digest of the SEQUENCE of per-field hashes;
                                                 columns read with backfill: an absent column reads as nulls)
  pkg/segment/query/processor/fillnullcommand.go fillnullProcessor.Process / Rewind (field list; two-pass without)
  pkg/segment/query/processor/renamecommand.go   renameProcessor.Process (REMPhrase, one pair) + IQR.RenameColumn
  pkg/segment/query/processor/fieldscommand.go   fieldsProcessor.Process (literal names) + IQR.AddColumnsToDelete
  pkg/segment/query/processor/scroller.go        scrollProcessor.Process
  pkg/segment/query/iqr/intermediateQueryResult.go  IQR without RRCs: knownValues (column ↦ one value per row),
        NumberOfRecords, ReadColumn (nil for an unknown column), Discard, DiscardAfter, DiscardRows, Append,
        ReverseRecords, RenameColumn, GetColumns

Representation. A batch (one IQR without RRCs) is a `Table`; a row is an association list column ↦ value.
The real container is column-major: every row of a batch has a value for every column of the batch
(`SS_DT_BACKFILL` = `Val.null` where the event has none).  The Oracle therefore pads the rows of a batch to a
common key set before running the model (exactly what the harness does when it builds the IQR), and
"the batch has column c" is `hasCol b c` = some row carries key c.  A batch without any column has no rows
(`NumberOfRecords` looks at the first column): rows that lose their last key disappear (`dropEmpty`).
Not modelled: `deletedColumns` shadowing (re-creating a column removed by `fields`), RRC mode, wildcards.

The hash of a single value (`CValueEnclosure.Hash`, xxhash of dtype byte + text) is the parameter `h`; the
digest of the concatenated 8-byte field hashes (`xxhash.Sum64(fieldHashes)`) is the parameter `combine`.
Core Lean only.
-/
namespace SigModel.Pipe

inductive Val where
  | int (i : Int)
  | str (s : String)
  | null
deriving DecidableEq, Repr, Inhabited

def Val.isNull : Val → Bool
  | .null => true
  | _ => false

abbrev Row := List (String × Val)
abbrev Table := List Row

namespace Row
/-- value of column `k` in the row; an absent key reads as null -/
def get (r : Row) (k : String) : Val := (r.lookup k).getD .null
def hasKey (r : Row) (k : String) : Bool := (r.lookup k).isSome
def erase (r : Row) (k : String) : Row := r.filter (fun kv => kv.1 != k)
def set (r : Row) (k : String) (v : Val) : Row := (k, v) :: r.erase k
end Row

/-- the batch (IQR) has a column `k` -/
def hasCol (b : Table) (k : String) : Bool := b.any (fun r => r.hasKey k)

/-- an IQR without columns has zero records -/
def dropEmpty (t : Table) : Table := t.filter (fun r => !r.isEmpty)

/-! ## processors as state machines -/

/-- `processor` interface of dataprocessor.go plus the DataProcessor flags that steer Fetch -/
structure Proc (σ : Type) where
  init : σ
  /-- `Process(iqr)` for a non-nil batch: new state, output (`none` = nil IQR), `io.EOF` returned? -/
  process : σ → Table → σ × Option Table × Bool
  /-- `Process(nil)`: the upstream is exhausted; always answers `io.EOF` -/
  finish : σ → σ × Option Table
  /-- `GetFinalResultIfExists` -/
  final : σ → Option (Option Table)
  rewind : σ → σ
  bottleneck : Bool
  twoPass : Bool

def otl : Option Table → List Table
  | none => []
  | some t => [t]

/-- One read of the upstream until EOF by the `Fetch` loop of one DataProcessor, consumed by a caller
that fetches until EOF (GetFullResult / the next DataProcessor through its CachedStream):
the batches are handed to `Process` one by one; a nil output is skipped; `io.EOF` from `Process`
ends the read at once (the rest of the upstream is never fetched); after the last batch `Process(nil)`.
`emit = false`: the command is a bottleneck (or in its first pass): outputs that come without EOF are
withheld.  Result: state afterwards and the list of batches handed downstream. -/
def pass (p : Proc σ) (emit : Bool) : σ → List Table → σ × List Table
  | s, [] =>
    match p.final s with
    | some o => (s, otl o)
    | none => let r := p.finish s; (r.1, otl r.2)
  | s, b :: bs =>
    match p.final s with
    | some o => (s, otl o)
    | none =>
      let r := p.process s b
      if r.2.2 then (r.1, otl r.2.1)
      else
        let rest := pass p emit r.1 bs
        (rest.1, (if emit then otl r.2.1 else []) ++ rest.2)

/-- the batches one DataProcessor over a replayable upstream hands downstream (Fetch 229-283):
two-pass commands read the upstream once with every output withheld (the output that comes with the
EOF included), `Rewind`, and read it again streaming. -/
def runBatches (p : Proc σ) (parts : List Table) : List Table :=
  if p.twoPass then
    let s1 := (pass p false p.init parts).1
    (pass p true (p.rewind s1) parts).2
  else (pass p (!p.bottleneck) p.init parts).2

/-- the processor's state when the consumer has fetched until EOF -/
def runState (p : Proc σ) (parts : List Table) : σ :=
  if p.twoPass then
    let s1 := (pass p false p.init parts).1
    (pass p true (p.rewind s1) parts).1
  else (pass p (!p.bottleneck) p.init parts).1

/-- what the final consumer sees: all fetched batches appended -/
def runBatched (p : Proc σ) (parts : List Table) : Table := (runBatches p parts).flatten

/-- two-pass read where the second pass may be chunked differently from the first -/
def runTwoPass (p : Proc σ) (parts1 parts2 : List Table) : Table :=
  ((pass p true (p.rewind (pass p false p.init parts1).1) parts2).2).flatten

/-! ## head (plain limit) -/

/-- state: `numRecordsSent` -/
def headProc (n : Nat) : Proc Nat where
  init := 0
  process := fun sent b =>
    let out := b.take (n - sent)            -- DiscardAfter(limit - numRecordsSent)
    let sent' := sent + out.length
    (sent', some out, decide (sent' ≥ n))
  finish := fun s => (s, none)
  final := fun _ => none
  rewind := fun _ => 0
  bottleneck := false
  twoPass := false

/-! ## tail -/

structure TailSt where
  fin : Option Table := none   -- finalIqr
  eof : Bool := false
deriving Repr

def tailProc (n : Nat) : Proc TailSt where
  init := {}
  process := fun s b =>
    match s.fin with
    | none => ({ s with fin := some (b.drop (b.length - n)) }, none, false)
    | some f =>
      if b.length ≥ n then ({ s with fin := some (b.drop (b.length - n)) }, none, false)
      else
        let keep := n - b.length
        ({ s with fin := some (f.drop (f.length - keep) ++ b) }, none, false)
  finish := fun s =>
    if s.eof then (s, none)
    else match s.fin with
      | none => ({ s with eof := true }, none)
      | some f => ({ fin := some f.reverse, eof := true }, some f.reverse)
  final := fun s => if s.eof then some s.fin else none
  rewind := fun s => s
  bottleneck := true
  twoPass := false

/-! ## scroll from -/

/-- state: the remaining `scrollFrom` -/
def scrollProc (from_ : Nat) : Proc Nat where
  init := from_
  process := fun rem b =>
    if rem = 0 then (rem, some b, false)
    else if rem < b.length then (0, some (b.drop rem), false)
    else (rem - b.length, some (b.drop b.length), false)
  finish := fun s => (s, none)
  final := fun _ => none
  rewind := fun s => s
  bottleneck := false
  twoPass := false

/-! ## row-wise commands: rename, fields, fillnull with a field list -/

def rowwiseProc (f : Table → Table) : Proc Unit where
  init := ()
  process := fun _ b => ((), some (f b), false)
  finish := fun _ => ((), none)
  final := fun _ => none
  rewind := fun _ => ()
  bottleneck := false
  twoPass := false

/-- IQR.RenameColumn(old, new): the target column is deleted first; if the source column exists its values
move to the target; the source column is deleted. -/
def renameRow (old new : String) (r : Row) : Row :=
  let r1 := r.erase new
  if r1.hasKey old then (r1.erase old).set new (r1.get old) else r1.erase old

def renameTable (old new : String) (t : Table) : Table := dropEmpty (t.map (renameRow old new))

def timestampKey : String := "timestamp"

/-- `fields - f1 …` -/
def fieldsExcRow (fs : List String) (r : Row) : Row := r.filter (fun kv => !fs.contains kv.1)
/-- `fields [+] f1 …`: the timestamp column is always kept -/
def fieldsIncRow (fs : List String) (r : Row) : Row := r.filter (fun kv => fs.contains kv.1 || kv.1 == timestampKey)

def fieldsTable (inc : Bool) (fs : List String) (t : Table) : Table :=
  dropEmpty (t.map (if inc then fieldsIncRow fs else fieldsExcRow fs))

/-- performFillNullForTheFields on one row: a missing column is created, a null is replaced;
the fill value is always a string (`ConvertValue(options.Value)`, Value is a Go string) -/
def fillRow (ks : List String) (v : String) (r : Row) : Row :=
  ks.foldl (fun r k => if (r.get k).isNull then r.set k (.str v) else r) r

def fillTable (ks : List String) (v : String) (t : Table) : Table := t.map (fillRow ks v)

/-! ## fillnull without a field list (two passes) -/

def addKey (acc : List String) (k : String) : List String := if acc.contains k then acc else acc ++ [k]
/-- `utils.AddMapKeysToSet(p.knownColumns, iqr.GetColumns())` -/
def addCols (acc : List String) (b : Table) : List String :=
  b.foldl (fun acc r => r.foldl (fun acc kv => addKey acc kv.1) acc) acc

structure FillSt where
  known : List String := []
  second : Bool := false
deriving Repr

def fillAllProc (v : String) : Proc FillSt where
  init := {}
  process := fun s b =>
    if s.second then (s, some (fillTable s.known v b), false)
    else ({ s with known := addCols s.known b }, some b, false)
  finish := fun s => (s, none)
  final := fun _ => none
  rewind := fun s => { s with second := true }
  bottleneck := true
  twoPass := true

/-! ## dedup -/

structure DedupOpts where
  fields : List String
  limit : Nat := 1
  consecutive : Bool := false
  keepEmpty : Bool := false
  keepEvents : Bool := false
deriving Repr

/-- the key of a row under a combination function of the field values; `none` when a field is null
(`continue RecordLoop` before the map is touched) -/
def rowKey (comb : List Val → κ) (fs : List String) (r : Row) : Option κ :=
  let vs := fs.map r.get
  if vs.any Val.isNull then none else some (comb vs)

/-- the key of a combination: `xxhash.Sum64` of the concatenated little-endian field hashes, i.e. a digest
`combine` of the SEQUENCE of the per-field hashes `h` -/
def digestKey (h : Val → Nat) (combine : List Nat → Nat) (vs : List Val) : Nat := combine (vs.map h)

/-- the key before the repair (`hash ^= fieldToValues[field][i].Hash()` from 0): kept only for the
counterexample theorems about the old code -/
def xorKeyOld (h : Val → Nat) (vs : List Val) : Nat := vs.foldl (fun acc v => acc ^^^ h v) 0

/-- `combinationHashes` : map[uint64]int as an association list -/
abbrev Seen := List (Nat × Nat)
def seenSet (s : Seen) (k v : Nat) : Seen := (k, v) :: s.filter (fun e => e.1 != k)

/-- KeepEvents: the dedup fields of a discarded row are cleared instead -/
def clearFields (fs : List String) (r : Row) : Row := r.map (fun kv => if fs.contains kv.1 then (kv.1, Val.null) else kv)

def emitRow (o : DedupOpts) (discard : Bool) (r : Row) : Table :=
  if discard then (if o.keepEvents then [clearFields o.fields r] else []) else [r]

/-- `if value, ok := p.combinationHashes[hash]; ok { discard if value >= Limit; ++ } else { = 1 }` -/
def seenBump (limit : Nat) (seen : Seen) (k : Nat) : Bool × Seen :=
  match seen.lookup k with
  | some v => (decide (v ≥ limit), seenSet seen k (v + 1))
  | none => (false, seenSet seen k 1)

/-- one iteration of RecordLoop; `kf` = the key of a complete tuple of field values (`digestKey h combine`) -/
def dedupRow (kf : List Val → Nat) (o : DedupOpts) (seen : Seen) (r : Row) : Seen × Bool :=
  match rowKey kf o.fields r with
  | none => (seen, !o.keepEmpty)
  | some k =>
    let r1 : Bool × Seen := seenBump o.limit seen k
    let seen2 := if o.consecutive then r1.2.filter (fun e => e.1 == k) else r1.2
    (seen2, r1.1)

def dedupRows (kf : List Val → Nat) (o : DedupOpts) : Seen → Table → Seen × Table
  | seen, [] => (seen, [])
  | seen, r :: t =>
    let x := dedupRow kf o seen r
    let rest := dedupRows kf o x.1 t
    (rest.1, emitRow o x.2 r ++ rest.2)

/-- `ReadColumnsWithBackfill(FieldList)`: a field the batch has no column for reads as a column of nulls,
which is what `Row.get` answers for an absent key — the row loop is the same for every batch. -/
def dedupProc (kf : List Val → Nat) (o : DedupOpts) : Proc Seen where
  init := []
  process := fun seen b =>
    match o.fields with
    | [] => (seen, none, false)                                 -- error "no field specified" (not generated)
    | _ :: _ => let x := dedupRows kf o seen b; (x.1, some x.2, false)
  finish := fun s => (s, none)
  final := fun _ => none
  rewind := fun _ => []
  bottleneck := false
  twoPass := false

/-! ## documented meaning on the whole ordered input -/

/-- dedup as documented, over an arbitrary key with decidable equality: a row is kept while fewer than
`max limit 1` earlier rows (consecutive: immediately preceding rows) had the same key; rows lacking a
field are kept iff keepempty; keepevents clears instead of removing.  `pre` = keys of the earlier
complete rows, most recent first. -/
def dedupSpecFrom [DecidableEq κ] (key : Row → Option κ) (o : DedupOpts) : List κ → Table → Table
  | _, [] => []
  | pre, r :: t =>
    match key r with
    | none => emitRow o (!o.keepEmpty) r ++ dedupSpecFrom key o pre t
    | some k =>
      let c := if o.consecutive then (pre.takeWhile (fun x => decide (x = k))).length else pre.count k
      emitRow o (decide (c ≥ max o.limit 1)) r ++ dedupSpecFrom key o (k :: pre) t

def dedupSpec [DecidableEq κ] (key : Row → Option κ) (o : DedupOpts) (t : Table) : Table :=
  dedupSpecFrom key o [] t

/-- all columns that occur anywhere in the stream -/
def allCols (t : Table) : List String := addCols [] t

inductive Cmd where
  | head (n : Nat)
  | tail (n : Nat)
  | scroll (n : Nat)
  | dedup (o : DedupOpts)
  | fillnull (v : String) (fields : List String)   -- [] : all columns (two passes)
  | rename (old new : String)
  | fields (inc : Bool) (fs : List String)
deriving Repr

/-- the documented meaning of a command on the full ordered input stream (dedup: the key is the TUPLE
of field values) -/
def sem : Cmd → Table → Table
  | .head n, t => t.take n
  | .tail n, t => (t.drop (t.length - n)).reverse
  | .scroll n, t => t.drop n
  | .dedup o, t => dedupSpec (rowKey (fun vs => vs) o.fields) o t
  | .fillnull v [], t => fillTable (allCols t) v t
  | .fillnull v fs, t => fillTable fs v t
  | .rename a b, t => renameTable a b t
  | .fields inc fs, t => fieldsTable inc fs t

/-- one DataProcessor of the command over a replayed upstream, fetched until EOF -/
def runCmd (kf : List Val → Nat) : Cmd → List Table → Table
  | .head n, parts => runBatched (headProc n) parts
  | .tail n, parts => runBatched (tailProc n) parts
  | .scroll n, parts => runBatched (scrollProc n) parts
  | .dedup o, parts => runBatched (dedupProc kf o) parts
  | .fillnull v [], parts => runBatched (fillAllProc v) parts
  | .fillnull v (f :: fs), parts => runBatched (rowwiseProc (fillTable (f :: fs) v)) parts
  | .rename a b, parts => runBatched (rowwiseProc (renameTable a b)) parts
  | .fields inc fs, parts => runBatched (rowwiseProc (fieldsTable inc fs)) parts

/-! ## chains of DataProcessors (for the Oracle): every stage keeps its processor state across rewinds -/

inductive Chain : Type 1 where
  | src (parts : List Table)
  | dp (up : Chain) {σ : Type} (p : Proc σ) (s : σ) (finishedFirstPass : Bool)

/-- DataProcessor.Rewind: rewind the streams, then the processor -/
def Chain.rewind : Chain → Chain
  | .src parts => .src parts
  | .dp up p s f => .dp up.rewind p (p.rewind s) f

/-- fetch the top DataProcessor until EOF: (chain afterwards, batches delivered).
`fuel` ≥ number of stages + 1 (the recursion re-reads the rewound upstream, which is not a subterm). -/
def Chain.read : Nat → Chain → Chain × List Table
  | 0, c => (c, [])
  | _ + 1, .src parts => (.src parts, parts)
  | n + 1, .dp up p s f =>
    if p.twoPass && !f then
      let u1 := Chain.read n up
      let s1 := (pass p false s u1.2).1
      let u2 := Chain.read n u1.1.rewind
      let r := pass p true (p.rewind s1) u2.2
      (.dp u2.1 p r.1 true, r.2)
    else
      let u1 := Chain.read n up
      let r := pass p (!p.bottleneck || (p.twoPass && f)) s u1.2
      (.dp u1.1 p r.1 f, r.2)

def Cmd.stage (kf : List Val → Nat) (c : Cmd) (up : Chain) : Chain :=
  match c with
  | .head n => .dp up (headProc n) (headProc n).init false
  | .tail n => .dp up (tailProc n) (tailProc n).init false
  | .scroll n => .dp up (scrollProc n) (scrollProc n).init false
  | .dedup o => .dp up (dedupProc kf o) (dedupProc kf o).init false
  | .fillnull v [] => .dp up (fillAllProc v) (fillAllProc v).init false
  | .fillnull v fs => .dp up (rowwiseProc (fillTable fs v)) () false
  | .rename a b => .dp up (rowwiseProc (renameTable a b)) () false
  | .fields inc fs => .dp up (rowwiseProc (fieldsTable inc fs)) () false

def runChain (kf : List Val → Nat) (cs : List Cmd) (parts : List Table) : Table :=
  (((cs.foldl (fun up c => c.stage kf up) (Chain.src parts)).read (cs.length + 1)).2).flatten

end SigModel.Pipe
