/- Model (SPEC side) of the bucket arithmetic of the new-pipeline `bin span=<n><unit> [aligntime=T] <timestamp field>`:
   pkg/segment/query/processor/bincommand.go  performBinWithSpanTime (time scales ms … h) → getTimeBucketWithAlign.
   Core only.  The code itself is REGENERATED into SigModel/Gen/BinAlign.lean (tools/go2lean, exact rational reading of the
   float64 steps); Props/C04.lean proves that the regenerated kernel equals `bucket` below, and suite `binalign`
   (harness/cmd/corr/c04_binalign.go, Oracle/C04B.lean) compares the real function with it.

   `bucket span align ts` — FLOOR semantics: the grid is align + k·span for every integer k (negative k for timestamps before
   the align time); a timestamp belongs to the cell whose left edge is the largest grid point ≤ ts; a cell whose left edge
   would be negative is reported as 0 (the code clamps: `if bucket < 0 { bucket = 0 }`).
   Lean's Int `/` rounds toward minus infinity for a positive divisor. -/
namespace SigModel.BinAlign

/-- milliseconds of one unit of the sub-day time scales of performBinWithSpanTime (TMMillisecond … TMHour) -/
def scaleMs : String → Option Int
  | "ms" => some 1
  | "cs" => some 10
  | "ds" => some 100
  | "s" => some 1000
  | "m" => some 60000
  | "h" => some 3600000
  | _ => none

/-- left edge of the grid cell of `ts` before clamping -/
def gridPoint (span align ts : Int) : Int := align + (ts - align) / span * span

/-- bucket of `ts` with an align time (all in epoch milliseconds) -/
def bucket (span align ts : Int) : Int := if gridPoint span align ts < 0 then 0 else gridPoint span align ts

/-- Go's zero time (January 1, year 1 UTC) lies this many milliseconds before the epoch -/
def zeroOffsetMs : Int := 62135596800000

/-- bucket without an align time: time.Truncate counts multiples of the span from Go's zero time -/
def bucketNoAlign (span ts : Int) : Int := ts - (ts + zeroOffsetMs) % span

/-- the variant with Go's integer division (rounds toward zero): kept only to show that it violates the partition -/
def bucketTrunc (span align ts : Int) : Int :=
  let g := align + Int.tdiv (ts - align) span * span
  if g < 0 then 0 else g

end SigModel.BinAlign
