/-
Model of the metrics WAL RECOVERY layer (C10, slice "walrecover"), on top of Model/Wal.lean.
Mirrors  pkg/segment/writer/metrics/metricssegment.go  (with the repairs build/patches/c10-1 … c10-4; the line
numbers of the writer functions are those of /repo at da5d5a2):

  extractWALFileInfo   os.ReadDir (sorted by file name, byte-wise) ; strings.Split(name, "_") ; >= 6 parts ;
                       mId = parts[1], segID = ParseUint(parts[3]), blockNo = ParseUint(parts[5]) ;
                       key = mId_segIDStr_blockNoStr ; every group's files sorted by walFileIndex (repair c10-1;
                       before it they stayed in DIRECTORY order, `_10.wal` before `_2.wal`: groupsOld)
  RecoverWALData       a group whose first WAL file (index 0) is gone is only deleted (repair c10-3) ; otherwise ONE
                       MetricsBlock per group, every file of the group replayed into it in that order, ONE
                       flushBlock(seg, blk) iff at least one datapoint, and the replayed files deleted AFTER the
                       flush (repair c10-2; before it each file was deleted right after its replay: recoverActionsOld)
  appendToWALBuffer   2058-2084  buffer full (dpIdx >= WAL_BLOCK_FLUSH_SIZE) -> Append + (size > MAX -> rotateWAL), dpIdx = 0
  timeBasedWalDPSFlush 2086-2108 dpIdx > 0 -> Append + (size > MAX -> rotateWAL), dpIdx = 0
  rotateWAL / initNewDpWal 2110-2128  currentWALIndex++ ; new file  shardID_<mId>_segID_<dpWalState.segID>_blockID_<Blknum>_<idx>.wal
  rotateBlock / cleanAndInitNewDpWal 1410-1451  flushBlock(seg, currBlockNum) ; Blknum++ ; all WAL files deleted ;
                                 dpIdx = 0 ; index 0 ; new WAL
  CheckAndRotate(false) / rotateSegment(false) 1248-1280, 1458-1535  (block rotated first if it holds data) ; new suffix ;
                                 currBlockNum = 0 ; Blknum = 0 ; dpWalState.segID = nextSuffix ; THEN cleanAndInitNewDpWal
  metric-name WAL  2154-2324 ; metrics-meta WAL 2326-2392 (system level; with the repairs build/patches/c10-5, c10-6):
  RecoverMNameWALData  FlushMetricNames (creates the segment directory) BEFORE deleteWalFile (recoverNames; before c10-5
                       the other way round and without the directory: nameActionsOld, sysNamesAfterRecoveryOnOld)
  RecoverMEntryWALData a WAL entry of a segment that already has an entry in metricmeta.json is skipped
                       (sysMetaAfterRecovery; before c10-6 every entry was appended: sysMetaAfterRecoveryOld)
  flushBlock           FlushSummary ; OpenFile(.tso, O_TRUNC) ; OpenFile(.tsg, O_TRUNC) ; Write ; Write  (flushCrashed)

The framing is abstracted (Model/Wal.lean + Props/C10 deliver it): a WAL file is the list of its completely
appended blocks.  The outcome of the size test `GetWALStats() > MAX_WAL_FILE_SIZE_BYTES` depends on zstd and is
therefore an input of the operation (`roll`).  Block numbers are uint16 in the code; the model uses Nat
(assumption: fewer than 65536 blocks per segment).  Core Lean only.
-/
import SigModel.Model.Wal

namespace SigModel.WalRecover
open SigModel.Wal (Dp)

abbrev Block := List Dp            -- one completed Append
abbrev Name := List Char           -- a file name
abbrev RawFile := Name × List Block
abbrev RawDir := List RawFile

/-! ### file names -/

/-- strconv.FormatUint(n, 10) -/
def dec (n : Nat) : List Char := Nat.toDigits 10 n

structure WalName where
  shard : Nat   -- mId (fmt.Sprintf("%d", i))
  seg : Nat     -- dpWalState.segID
  blk : Nat     -- mBlockSummary.Blknum
  idx : Nat     -- currentWALIndex
deriving Repr, DecidableEq

/-- initNewDpWal: the file name -/
def render (f : WalName) : Name :=
  "shardID_".toList ++ dec f.shard ++ "_segID_".toList ++ dec f.seg ++ "_blockID_".toList ++ dec f.blk
    ++ '_' :: (dec f.idx ++ ".wal".toList)

/-- strings.Split(s, "_") -/
def splitU : List Char → List (List Char)
  | [] => [[]]
  | c :: cs =>
    match splitU cs with
    | [] => [[c]]
    | p :: ps => if c = '_' then [] :: p :: ps else (c :: p) :: ps

/-- strconv.ParseUint(s, 10, 64): non-empty, digits only, < 2^64 -/
def parseUint (s : List Char) : Option Nat :=
  if s = [] then none
  else if s.all Char.isDigit then
    let n := Nat.ofDigitChars 10 s 0
    if n < 18446744073709551616 then some n else none
  else none

structure Info where
  mId : List Char
  seg : Nat
  blk : Nat
  key : List Char   -- mId_segStr_blkStr
deriving Repr, DecidableEq

/-- the parsing part of extractWALFileInfo; `none` = the file is skipped -/
def parseName (n : Name) : Option Info :=
  match splitU n with
  | _ :: mId :: _ :: segS :: _ :: blkS :: _ =>
    match parseUint segS, parseUint blkS with
    | some seg, some blk => some { mId := mId, seg := seg, blk := blk, key := mId ++ '_' :: (segS ++ '_' :: blkS) }
    | _, _ => none
  | _ => none

/-! ### directory order (os.ReadDir sorts by file name, byte-wise; all names here are ASCII) -/

def lexLt : List Char → List Char → Bool
  | [], [] => false
  | [], _ :: _ => true
  | _ :: _, [] => false
  | a :: as, b :: bs => if a.toNat < b.toNat then true else if b.toNat < a.toNat then false else lexLt as bs

def insertByName (x : RawFile) : RawDir → RawDir
  | [] => [x]
  | y :: ys => if lexLt y.1 x.1 then y :: insertByName x ys else x :: y :: ys

def readDir (d : RawDir) : RawDir := d.foldr insertByName []

/-! ### extractWALFileInfo: groups in first-appearance order (Go: a map; the groups are independent) -/

structure Group where
  info : Info
  files : List RawFile     -- in replay order
deriving Repr

def addFile (i : Info) (f : RawFile) : List Group → List Group
  | [] => [{ info := i, files := [f] }]
  | g :: gs => if g.info.key = i.key then { g with files := g.files ++ [f] } :: gs else g :: addFile i f gs

def groupsOfSorted : RawDir → List Group → List Group
  | [], acc => acc
  | f :: fs, acc =>
    match parseName f.1 with
    | none => groupsOfSorted fs acc
    | some i => groupsOfSorted fs (addFile i f acc)

/-- extractWALFileInfo BEFORE the repair c10-1: the files of a group stay in directory (name) order -/
def groupsOld (d : RawDir) : List Group := groupsOfSorted (readDir d) []

/-- strings.TrimSuffix(fileName, ".wal") -/
def stripWal (n : Name) : Name := if ".wal".toList.isSuffixOf n then n.take (n.length - 4) else n
/-- name[strings.LastIndex(name, "_")+1:] -/
def afterLastU (n : Name) : Name := (n.reverse.takeWhile (· != '_')).reverse
/-- walFileIndex: the <n> of "..._<n>.wal", MaxUint64 when it is not a number -/
def walIndexOf (n : Name) : Nat := (parseUint (afterLastU (stripWal n))).getD 18446744073709551615

/-- sort.SliceStable by walFileIndex -/
def insertByIndex (x : RawFile) : List RawFile → List RawFile
  | [] => [x]
  | y :: ys => if walIndexOf y.1 < walIndexOf x.1 then y :: insertByIndex x ys else x :: y :: ys
def sortByIndex (l : List RawFile) : List RawFile := l.foldr insertByIndex []

/-- extractWALFileInfo (after c10-1): every group's files sorted by their WAL index, i.e. in the order in which
the writer created them -/
def groups (d : RawDir) : List Group := (groupsOld d).map (fun g => { g with files := sortByIndex g.files })

/-! ### RecoverWALData -/

abbrev Key := List Char × Nat × Nat      -- (mId, segment, block)

def fileDps (f : RawFile) : List Dp := f.2.flatten

/-- the datapoints replayed for one group, in replay order -/
def groupDps (g : Group) : List Dp := g.files.flatMap fileDps

/-- RecoverWALData BEFORE the repairs: one element per flushBlock call: (shard, seg, blk) and the datapoints of the
block that is written; every group is replayed, in directory order -/
def recoverOld (d : RawDir) : List (Key × List Dp) :=
  (groupsOld d).filterMap (fun g =>
    let dps := groupDps g
    if dps.isEmpty then none else some ((g.info.mId, g.info.seg, g.info.blk), dps))

/-- the first (oldest) WAL file of the group is still there.  The WAL files of a block are deleted oldest first and
only after the block was flushed (rotateBlock, RecoverWALData), so a group without its file 0 belongs to a block that
is complete on disk (repair c10-3: such a group is deleted, not replayed) -/
def hasFirstWal (g : Group) : Bool :=
  match g.files with
  | [] => true
  | f :: _ => walIndexOf f.1 == 0

/-- RecoverWALData: one element per flushBlock call -/
def recover (d : RawDir) : List (Key × List Dp) :=
  (groups d).filterMap (fun g =>
    if !hasFirstWal g then none
    else
      let dps := groupDps g
      if dps.isEmpty then none else some ((g.info.mId, g.info.seg, g.info.blk), dps))

/-! ### block files: flushBlock creates or TRUNCATES the files of block (shard, seg, blk) -/

abbrev Disk := List (Key × List Dp)

def flushTo (k : Key) (v : List Dp) : Disk → Disk
  | [] => [(k, v)]
  | (k', v') :: r => if k' = k then (k, v) :: r else (k', v') :: flushTo k v r

def lookup (k : Key) : Disk → List Dp
  | [] => []
  | (k', v) :: r => if k' = k then v else lookup k r

def applyFlushes (disk : Disk) (fl : List (Key × List Dp)) : Disk := fl.foldl (fun d kv => flushTo kv.1 kv.2 d) disk

/-! ### the writer of one shard -/

structure WState where
  shard : Nat
  seg : Nat          -- ms.Suffix
  blkNum : Nat       -- ms.currBlockNum      (target of the next flushBlock)
  walSeg : Nat       -- mBlock.dpWalState.segID        (goes into WAL file names)
  walBlk : Nat       -- mBlock.mBlockSummary.Blknum    (goes into WAL file names)
  walIdx : Nat       -- dpWalState.currentWALIndex
  nextSuffix : Nat   -- the suffix file of the shard
  files : List (WalName × List Block)   -- dpWalState.allWALs in creation order; the last one is currentWal
  buf : List Dp      -- dpsInWalMem[0:dpIdx]
  cur : List Dp      -- datapoints encoded into the open block (memory only)
  segHasData : Bool  -- mSegEncodedSize > 0
  dpCount : Nat      -- ms.datapointCount
  durable : Disk     -- the block files
  -- metric names (correspondence only)
  mNames : List Nat          -- ms.mNamesMap, insertion order
  pendNames : List Nat       -- mNameWalState.metricsNames
  nameWal : List (List Nat)  -- blocks of the metric-name WAL of (shard, seg)
  mnm : List (Nat × List Nat) -- .mnm files written: (seg, names)
deriving Repr

def WState.init (shard : Nat) : WState :=
  { shard := shard, seg := 0, blkNum := 0, walSeg := 0, walBlk := 0, walIdx := 0, nextSuffix := 1,
    files := [({ shard := shard, seg := 0, blk := 0, idx := 0 }, [])], buf := [], cur := [], segHasData := false,
    dpCount := 0, durable := [], mNames := [], pendNames := [], nameWal := [], mnm := [] }

def appendLast (b : Block) : List (WalName × List Block) → List (WalName × List Block)
  | [] => []
  | [f] => [(f.1, f.2 ++ [b])]
  | f :: g :: r => f :: appendLast b (g :: r)

/-- initNewDpWal -/
def initNewDpWal (st : WState) : WState :=
  { st with files := st.files ++ [({ shard := st.shard, seg := st.walSeg, blk := st.walBlk, idx := st.walIdx }, [])] }

/-- `currentWal.Append(dpsInWalMem[0:dpIdx])`, the size test (outcome `roll`) with rotateWAL, `dpIdx = 0` -/
def appendBuf (roll : Bool) (st : WState) : WState :=
  let st1 := { st with files := appendLast st.buf st.files }
  let st2 := if roll then initNewDpWal { st1 with walIdx := st1.walIdx + 1 } else st1
  { st2 with buf := [] }

/-- cleanAndInitNewDpWal -/
def cleanAndInitNewDpWal (st : WState) : WState :=
  initNewDpWal { st with files := [], buf := [], walIdx := 0 }

def shardStr (st : WState) : List Char := dec st.shard

/-- rotateBlock(metricsKeyBase, Suffix, currBlockNum) followed by the caller's currBlockNum++ -/
def rotateBlock (st : WState) : WState :=
  let st1 := { st with durable := flushTo (shardStr st, st.seg, st.blkNum) st.cur st.durable, cur := [], walBlk := st.walBlk + 1 }
  let st2 := cleanAndInitNewDpWal st1
  { st2 with blkNum := st2.blkNum + 1 }

/-- rotateSegment(false) -/
def rotateSegment (st : WState) : WState :=
  let mnm' := if st.mNames.isEmpty then st.mnm else st.mnm ++ [(st.seg, st.mNames)]   -- FlushMetricNames
  let st1 := { st with mnm := mnm', seg := st.nextSuffix, nextSuffix := st.nextSuffix + 1, mNames := [], blkNum := 0,
                       segHasData := false, dpCount := 0, walBlk := 0 }
  let st2 := { st1 with walSeg := st1.seg }            -- dpWalState.segID = nextSuffix   (BEFORE the new WAL is created)
  let st3 := cleanAndInitNewDpWal st2
  { st3 with pendNames := [], nameWal := [] }         -- cleanAndInitNewMNameWal(false)

inductive Op where
  | ingest (name : Nat) (d : Dp) (roll : Bool)   -- EncodeDatapoint: series encoding, then appendToWALBuffer
  | walFlush (roll : Bool)                       -- one pass of timeBasedWalDPSFlush
  | blockRotate                                  -- one pass of timeBasedMetricsFlush
  | segRotate                                    -- CheckAndRotate(false) with the segment over its size limit
  | nameFlush                                    -- one pass of timeBasedMNameWalFlush
deriving Repr

def step (cap : Nat) (st : WState) : Op → WState
  | .ingest name d roll =>
    let st0 := if st.mNames.contains name then st
               else { st with mNames := st.mNames ++ [name], pendNames := st.pendNames ++ [name] }
    let st1 := { st0 with cur := st0.cur ++ [d], segHasData := true, dpCount := st0.dpCount + 1 }
    let st2 := if cap ≤ st1.buf.length then appendBuf roll st1 else st1
    { st2 with buf := st2.buf ++ [d] }
  | .walFlush roll => if st.buf.isEmpty then st else appendBuf roll st
  | .blockRotate => if st.cur.isEmpty then st else rotateBlock st
  | .segRotate =>
    if !st.segHasData then st
    else rotateSegment (if st.cur.isEmpty then st else rotateBlock st)
  | .nameFlush =>
    if st.pendNames.isEmpty then st else { st with nameWal := st.nameWal ++ [st.pendNames], pendNames := [] }

def runFrom (cap : Nat) (st : WState) (h : List Op) : WState := h.foldl (step cap) st
def run (cap shard : Nat) (h : List Op) : WState := runFrom cap (WState.init shard) h

def rawOf (files : List (WalName × List Block)) : RawDir := files.map (fun f => (render f.1, f.2))

/-- the WAL directory found after a crash that follows history `h` -/
def dirAfter (cap shard : Nat) (h : List Op) : RawDir := rawOf (run cap shard h).files
/-- the block files found after that crash -/
def durableBlocks (cap shard : Nat) (h : List Op) : Disk := (run cap shard h).durable
/-- the block files after restart ran RecoverWALData -/
def diskAfterRecovery (cap shard : Nat) (h : List Op) : Disk := applyFlushes (durableBlocks cap shard h) (recover (dirAfter cap shard h))
/-- … with RecoverWALData as it was before the repairs -/
def diskAfterRecoveryOld (cap shard : Nat) (h : List Op) : Disk := applyFlushes (durableBlocks cap shard h) (recoverOld (dirAfter cap shard h))

/-! ### specification: which block every datapoint belongs to, and whether its log append (or the rotation of
its block) completed before the crash.  No files, no names, no buffers. -/

structure Spec where
  shard : Nat
  seg : Nat
  blk : Nat
  nextSuffix : Nat
  openCount : Nat      -- datapoints in the open block
  segHasData : Bool
  done : List (Key × Dp)   -- completed, in ingest order
  pend : List (Key × Dp)   -- ingested, log append not yet completed
deriving Repr

def Spec.init (shard : Nat) : Spec :=
  { shard := shard, seg := 0, blk := 0, nextSuffix := 1, openCount := 0, segHasData := false, done := [], pend := [] }

def Spec.complete (s : Spec) : Spec := { s with done := s.done ++ s.pend, pend := [] }
def Spec.closeBlock (s : Spec) : Spec := { s.complete with blk := s.blk + 1, openCount := 0 }

def specStep (cap : Nat) (s : Spec) : Op → Spec
  | .ingest _ d _ =>
    let s1 := if cap ≤ s.pend.length then s.complete else s
    { s1 with pend := s1.pend ++ [((dec s.shard, s.seg, s.blk), d)], openCount := s.openCount + 1, segHasData := true }
  | .walFlush _ => s.complete
  | .blockRotate => if s.openCount = 0 then s else s.closeBlock
  | .segRotate =>
    if !s.segHasData then s
    else
      let s1 := if s.openCount = 0 then s else s.closeBlock
      { s1 with seg := s1.nextSuffix, nextSuffix := s1.nextSuffix + 1, blk := 0, segHasData := false }
  | .nameFlush => s

def specRun (cap shard : Nat) (h : List Op) : Spec := h.foldl (specStep cap) (Spec.init shard)

/-- the datapoints of block `k` whose append / block rotation completed before the crash, in ingest order -/
def specBlock (cap shard : Nat) (h : List Op) (k : Key) : List Dp :=
  ((specRun cap shard h).done.filter (fun e => e.1 = k)).map (·.2)

/-! ### several shards + the metrics-meta WAL (correspondence only) -/

structure MetaEntry where
  shard : Nat
  seg : Nat
  numBlocks : Nat
  dpCount : Nat
deriving Repr, DecidableEq

structure Sys where
  shards : List WState
  metaWal : List MetaEntry     -- metricsMetaEntry.wal: ONE block, overwritten by every Write
  metaFile : List MetaEntry    -- metricmeta.json (append only)
deriving Repr

def Sys.init (n : Nat) : Sys := { shards := (List.range n).map WState.init, metaWal := [], metaFile := [] }

def metaOf (st : WState) : MetaEntry := { shard := st.shard, seg := st.seg, numBlocks := st.blkNum, dpCount := st.dpCount }

inductive SysOp where
  | shard (i : Nat) (op : Op)     -- ingest / segRotate of one shard
  | all (op : Op)                 -- the timer bodies walk over every shard
  | metaFlush                     -- one pass of timeBasedMetaEntryWalFlush
deriving Repr

def modifyNth (f : WState → WState) : Nat → List WState → List WState
  | _, [] => []
  | 0, x :: xs => f x :: xs
  | n + 1, x :: xs => x :: modifyNth f n xs

def sysStep (cap : Nat) (s : Sys) : SysOp → Sys
  | .shard i .segRotate =>
    match s.shards[i]? with
    | none => s
    | some st =>
      if !st.segHasData then s
      else
        -- getMetaEntry is taken after the block rotation and before the counters are reset
        let st1 := if st.cur.isEmpty then st else rotateBlock st
        { s with shards := modifyNth (fun x => step cap x .segRotate) i s.shards, metaFile := s.metaFile ++ [metaOf st1] }
  | .shard i op => { s with shards := modifyNth (fun x => step cap x op) i s.shards }
  | .all op => { s with shards := s.shards.map (fun x => step cap x op) }
  | .metaFlush => { s with metaWal := s.shards.map metaOf }

def sysRun (cap n : Nat) (h : List SysOp) : Sys := h.foldl (sysStep cap) (Sys.init n)

def sysDir (s : Sys) : RawDir := s.shards.flatMap (fun st => rawOf st.files)
def sysDurable (s : Sys) : Disk := s.shards.flatMap (·.durable)
def sysDiskAfterRecovery (s : Sys) : Disk := applyFlushes (sysDurable s) (recover (sysDir s))
def sysDiskAfterRecoveryOld (s : Sys) : Disk := applyFlushes (sysDurable s) (recoverOld (sysDir s))

/-- metricmeta.json after RecoverMEntryWALData BEFORE the repair c10-6 (the reader keeps the LAST entry per segment
directory): every entry of the meta WAL was appended, also the older snapshot of a segment that has been rotated since -/
def sysMetaAfterRecoveryOld (s : Sys) : List MetaEntry := s.metaFile ++ s.metaWal

def hasMetaEntry (l : List MetaEntry) (e : MetaEntry) : Bool := l.any (fun x => x.shard == e.shard && x.seg == e.seg)

/-- metricmeta.json after RecoverMEntryWALData (repair c10-6): a WAL entry of a segment that already has an entry in the
file is skipped — the entry written by the segment's rotation is final, the WAL holds an older state of it -/
def sysMetaAfterRecovery (s : Sys) : List MetaEntry := s.metaFile ++ s.metaWal.filter (fun e => !hasMetaEntry s.metaFile e)

/-- the entry the reader keeps for a segment: the LAST one of the file (ReadMetricsMeta fills a map line by line) -/
def metaEntryOf (l : List MetaEntry) (shard seg : Nat) : Option MetaEntry :=
  (l.filter (fun x => x.shard == shard && x.seg == seg)).getLast?

/-- .mnm files after RecoverMNameWALData BEFORE the repair c10-5: (shard, seg, names); the recovered file of the open
segment holds the names of the completed name-WAL blocks (first occurrence order is not observable: a Go map).
FlushMetricNames did not create the segment directory: the recovered names were written only if the
directory existed, i.e. if some block of that segment was on disk (rotated, or just flushed by RecoverWALData, which
runs first); otherwise they were dropped (and the name WAL was deleted all the same). -/
def sysNamesAfterRecoveryOnOld (disk : Disk) (s : Sys) : List (Nat × Nat × List Nat) :=
  s.shards.flatMap (fun st =>
    st.mnm.map (fun (seg, ns) => (st.shard, seg, ns))
      ++ (if st.nameWal.flatten.isEmpty || !(disk.any (fun kv => kv.1.1 == dec st.shard && kv.1.2.1 == st.seg)) then []
          else [(st.shard, st.seg, st.nameWal.flatten)]))

/-! ### RecoverMNameWALData as a sequence of steps (one shard: ONE name-WAL file, the one of the open segment; the name
WALs of older segments were deleted at their rotation).  After the repair c10-5: FlushMetricNames (creates the segment
directory when it is missing) iff the WAL holds at least one name, THEN deleteWalFile.  Before it: deleteWalFile first. -/

structure NameDisk where
  wal : Option (List Nat)        -- the names in the name-WAL file; none = the file is gone
  mnm : List (Nat × List Nat)    -- the .mnm files: (segment, names)
deriving Repr, DecidableEq

inductive NameAct where
  | flush (seg : Nat) (ns : List Nat)   -- FlushMetricNames completed
  | delete                              -- deleteWalFile completed
deriving Repr

/-- FlushMetricNames writes the .mnm file of the segment: the file is rewritten WHOLE (O_CREATE|O_TRUNC since the repair
c10-8; before it the new content was written from offset 0 over the old bytes, and a shorter content left the tail of the
old file behind — bytes that the reader takes for further names or runs out of bounds on; the model has no bytes: a file
is the list of its names) -/
def writeMnm (seg : Nat) (ns : List Nat) : List (Nat × List Nat) → List (Nat × List Nat)
  | [] => [(seg, ns)]
  | (s, v) :: r => if s = seg then (seg, ns) :: r else (s, v) :: writeMnm seg ns r

/-- the names in the .mnm file of a segment (none: no file) -/
def mnmNamesOf (seg : Nat) : List (Nat × List Nat) → List Nat
  | [] => []
  | (s, v) :: r => if s = seg then v else mnmNamesOf seg r

/-- the names of the file and, behind them, the WAL names that the file does not have (a Go map: no duplicates) -/
def mergeNames (old new : List Nat) : List Nat := old ++ new.filter (fun n => !old.contains n)

/-- RecoverMNameWALData per segment (repairs c10-5, c10-8): the names of the segment's name WAL AND of its .mnm file, if
there is one (a segment rotation that died after FlushMetricNames left the complete file next to a WAL that may hold
fewer names), are flushed; then the WAL is deleted -/
def nameActions (seg : Nat) (nd : NameDisk) : List NameAct :=
  match nd.wal with
  | none => []
  | some ns => (if ns.isEmpty then [] else [NameAct.flush seg (mergeNames (mnmNamesOf seg nd.mnm) ns)]) ++ [NameAct.delete]

/-- … before the repair c10-8: only the WAL names were written (over the old file) -/
def nameActionsNoMerge (seg : Nat) (nd : NameDisk) : List NameAct :=
  match nd.wal with
  | none => []
  | some ns => (if ns.isEmpty then [] else [NameAct.flush seg ns]) ++ [NameAct.delete]

def nameActionsOld (seg : Nat) (nd : NameDisk) : List NameAct :=
  match nd.wal with
  | none => []
  | some ns => NameAct.delete :: (if ns.isEmpty then [] else [NameAct.flush seg ns])

def applyNameAct (nd : NameDisk) : NameAct → NameDisk
  | .flush seg ns => { nd with mnm := writeMnm seg ns nd.mnm }
  | .delete => { nd with wal := none }

/-- RecoverMNameWALData run to its end -/
def recoverNames (seg : Nat) (nd : NameDisk) : NameDisk := (nameActions seg nd).foldl applyNameAct nd
def recoverNamesNoMerge (seg : Nat) (nd : NameDisk) : NameDisk := (nameActionsNoMerge seg nd).foldl applyNameAct nd
/-- … died right after its `m`-th step -/
def recoverNamesCrashed (m seg : Nat) (nd : NameDisk) : NameDisk := ((nameActions seg nd).take m).foldl applyNameAct nd
def recoverNamesCrashedOld (m seg : Nat) (nd : NameDisk) : NameDisk := ((nameActionsOld seg nd).take m).foldl applyNameAct nd

/-- first restart dies after `m` steps of RecoverMNameWALData, a second restart recovers completely -/
def namesAfterCrashedRecovery (m seg : Nat) (nd : NameDisk) : NameDisk := recoverNames seg (recoverNamesCrashed m seg nd)
/-- … before the repair (the second restart of the old code = the new one on what is left: no WAL, nothing to do; WAL there: same steps in the other order, same result) -/
def namesAfterCrashedRecoveryOld (m seg : Nat) (nd : NameDisk) : NameDisk :=
  let nd1 := recoverNamesCrashedOld m seg nd
  (nameActionsOld seg nd1).foldl applyNameAct nd1

def nameDiskOf (st : WState) : NameDisk := { wal := some st.nameWal.flatten, mnm := st.mnm }

/-- .mnm files after RecoverMNameWALData (repair c10-5): (shard, seg, names) -/
def sysNamesAfterRecovery (s : Sys) : List (Nat × Nat × List Nat) :=
  s.shards.flatMap (fun st => (recoverNames st.seg (nameDiskOf st)).mnm.map (fun (seg, ns) => (st.shard, seg, ns)))

/-- … when the first restart died after `m` steps of RecoverMNameWALData of shard 0 (one shard) -/
def sysNamesAfterCrashedRecovery (m : Nat) (s : Sys) : List (Nat × Nat × List Nat) :=
  s.shards.flatMap (fun st => (namesAfterCrashedRecovery m st.seg (nameDiskOf st)).mnm.map (fun (seg, ns) => (st.shard, seg, ns)))

end SigModel.WalRecover

namespace SigModel.WalRecover

/-- several datapoints of ONE metric name ingested in a row while the WAL buffer has room for all of them
(`st.buf.length + ds.length ≤ cap`, `ds ≠ []`): equal to folding `step` over them (Lemmas/C10Rb.lean,
`ingestMany_eq_foldl`); used by the Oracle for the generated bulk loads only, to avoid quadratic list appends. -/
def ingestMany (name : Nat) (ds : List Wal.Dp) (st : WState) : WState :=
  let st0 := if st.mNames.contains name then st
             else { st with mNames := st.mNames ++ [name], pendNames := st.pendNames ++ [name] }
  { st0 with cur := st0.cur ++ ds, buf := st0.buf ++ ds, segHasData := true, dpCount := st0.dpCount + ds.length }

end SigModel.WalRecover

/-! ### crash points INSIDE an operation (correspondence + counterexample theorems; no positive theorem)

The steps are the ones whose completion is observable on disk; a crash is placed right after the `m`-th of them. -/
namespace SigModel.WalRecover

/-- rotateBlock interrupted after `m ≥ 1` completed steps:  flushBlock ; one DeleteWAL per WAL file of the block,
in creation order (deleteDpWalFiles) ; initNewDpWal.  Only the disk matters afterwards (files, durable). -/
def rotateBlockCrashed (m : Nat) (st : WState) : WState :=
  let s1 := { st with durable := flushTo (shardStr st, st.seg, st.blkNum) st.cur st.durable }
  if m = 0 then st
  else if m ≤ st.files.length + 1 then { s1 with files := st.files.drop (m - 1) }
  else rotateBlock st

/-- one pass of timeBasedMetricsFlush that dies after `m` completed steps of rotateBlock (runs to its end when there
are fewer steps) -/
def blockRotateCrash (m : Nat) (st : WState) : WState :=
  if st.cur.isEmpty then st else rotateBlockCrashed m st

/-- CheckAndRotate(false) of a segment over its size limit that dies inside rotateSegment, right after `m ≥ 1` of its
steps whose completion is observable on disk (the block rotation in front of it has completed):
  FlushMetricNames ; one DeleteWAL per datapoint-WAL file (cleanAndInitNewDpWal → deleteDpWalFiles, the files of the OLD
  segment) ; initNewDpWal (the first WAL file of the NEW segment) ; DeleteWAL of the name WAL ; initNewMNameWAL ;
  AddMetricsMetaEntry.
Only the disk matters afterwards: the .mnm files, the WAL files, the name WAL.  With more steps than there are the
rotation runs to its end (`rotateSegment`; the meta entry is added by `segRotateCrash` on the system). -/
def rotateSegmentCrashed (m : Nat) (st : WState) : WState :=
  let k := st.files.length
  let mnm' := if st.mNames.isEmpty then st.mnm else writeMnm st.seg st.mNames st.mnm      -- FlushMetricNames
  let s1 := { st with mnm := mnm' }
  if m = 0 then st
  else if m ≤ 1 + k then { s1 with files := st.files.drop (m - 1) }
  else
    let s2 := { s1 with files := [({ shard := st.shard, seg := st.nextSuffix, blk := 0, idx := 0 }, [])] }   -- initNewDpWal
    if m = 2 + k then s2
    else { s2 with nameWal := [], pendNames := [] }          -- the name WAL is gone (or new and empty)

/-- the number of steps of rotateSegment -/
def rotateSegmentSteps (st : WState) : Nat := 5 + st.files.length

/-- one size-triggered CheckAndRotate(false) that dies after `m` completed steps of rotateSegment -/
def segRotateCrashShard (m : Nat) (st : WState) : WState :=
  if !st.segHasData then st
  else
    let st1 := if st.cur.isEmpty then st else rotateBlock st
    if m ≥ rotateSegmentSteps st1 then rotateSegment st1 else rotateSegmentCrashed m st1

inductive RecAction where
  | delete (name : Name)                 -- deleteWalFile completed
  | flush (k : Key) (dps : List Wal.Dp)  -- flushBlock completed
deriving Repr

/-- RecoverWALData BEFORE the repairs as a sequence of steps: per group, every file is deleted right after its replay
into MEMORY, and only then the block is flushed -/
def recoverActionsOld (d : RawDir) : List RecAction :=
  (groupsOld d).flatMap (fun g =>
    g.files.map (fun f => RecAction.delete f.1)
      ++ (if (groupDps g).isEmpty then [] else [RecAction.flush (g.info.mId, g.info.seg, g.info.blk) (groupDps g)]))

/-- RecoverWALData (after c10-2, c10-3) as a sequence of steps: a group whose first WAL file is gone is only deleted;
otherwise the block is flushed FIRST and the replayed files are deleted afterwards, oldest first -/
def recoverActions (d : RawDir) : List RecAction :=
  (groups d).flatMap (fun g =>
    (if !hasFirstWal g || (groupDps g).isEmpty then []
     else [RecAction.flush (g.info.mId, g.info.seg, g.info.blk) (groupDps g)])
      ++ g.files.map (fun f => RecAction.delete f.1))

def applyRecAction (s : RawDir × Disk) : RecAction → RawDir × Disk
  | .delete n => (s.1.filter (fun f => f.1 != n), s.2)
  | .flush k v => (s.1, flushTo k v s.2)

/-- the WAL directory and the block files after RecoverWALData died right after its `m`-th step -/
def recoverCrashed (m : Nat) (d : RawDir) (disk : Disk) : RawDir × Disk :=
  ((recoverActions d).take m).foldl applyRecAction (d, disk)
def recoverCrashedOld (m : Nat) (d : RawDir) (disk : Disk) : RawDir × Disk :=
  ((recoverActionsOld d).take m).foldl applyRecAction (d, disk)

/-- block files after: crash of the writer, a first restart whose RecoverWALData dies after `m` steps, a second
restart that recovers completely -/
def diskAfterCrashedRecovery (m : Nat) (d : RawDir) (disk : Disk) : Disk :=
  let s := recoverCrashed m d disk
  applyFlushes s.2 (recover s.1)
def diskAfterCrashedRecoveryOld (m : Nat) (d : RawDir) (disk : Disk) : Disk :=
  let s := recoverCrashedOld m d disk
  applyFlushes s.2 (recoverOld s.1)

/-! ### crash BETWEEN THE SYSTEM CALLS of the flushBlock inside RecoverWALData (first restart).  flushBlock =
FlushSummary (append to the segment's .mbsu; a second entry for the same block number is harmless: the reader collects
block numbers into a set) ; OpenFile(.tso, O_TRUNC) ; OpenFile(.tsg, O_TRUNC) ; Write(.tso) ; Write(.tsg).  Between the
first OpenFile and the last Write the block files are empty or half written: the block holds nothing readable (modelled
as the empty block).  The WAL files are deleted only after flushBlock returned. -/

def flushCrashed (m : Nat) (k : Key) (v : List Wal.Dp) (disk : Disk) : Disk :=
  if m ≤ 1 then disk
  else if m < 5 then flushTo k [] disk
  else flushTo k v disk

/-- the first restart died after `m` system calls of its FIRST flushBlock -/
def recoverFlushCrashed (m : Nat) (d : RawDir) (disk : Disk) : Disk :=
  match recover d with
  | [] => disk
  | (k, v) :: _ => flushCrashed m k v disk

/-- … and a second restart recovers completely (the WAL directory is as the writer left it) -/
def diskAfterFlushCrashedRecovery (m : Nat) (d : RawDir) (disk : Disk) : Disk :=
  applyFlushes (recoverFlushCrashed m d disk) (recover d)

/-- Wal.Write (meta WAL) BEFORE the repair c10-4 = truncate ; encode ; writeBlockToFile.  Died right after truncate:
the file holds the version byte only. -/
def metaFlushCrashOld (m : Nat) (s : Sys) : Sys :=
  if m = 1 then { s with metaWal := [] } else { s with metaWal := s.shards.map metaOf }

/-- Wal.Write (after c10-4) = encode ; open <file>.tmp ; write version + block ; Sync ; Rename over the WAL file.
Steps: OpenFile, writeBlockToFile, Sync, Rename.  Died before the Rename completed: the WAL is unchanged. -/
def metaFlushCrash (m : Nat) (s : Sys) : Sys :=
  if m < 4 then s else { s with metaWal := s.shards.map metaOf }

/-- the segment rotation of shard 0 dies after `m` steps of rotateSegment (one shard); the meta entry is in
metricmeta.json only when the last step (AddMetricsMetaEntry) has completed -/
def segRotateCrash (cap m : Nat) (s : Sys) : Sys :=
  match s.shards[0]? with
  | none => s
  | some st =>
    if !st.segHasData then s
    else
      let st1 := if st.cur.isEmpty then st else rotateBlock st
      if m ≥ rotateSegmentSteps st1 then sysStep cap s (.shard 0 .segRotate)
      else { s with shards := modifyNth (segRotateCrashShard m) 0 s.shards }

end SigModel.WalRecover
