/-
Model of the small request grammars of the OpenTSDB query route (C17: "… answers with results or an error … and the
process keeps running"), mirroring — quirks included —

  pkg/integrations/otsdb/query/queryparser.go
      parseMetricTag               the metric name and the tag filters of `m=agg:downsample:metric{k=v|w,…}`
      parseAggregatorDownsampler   the aggregator and the downsampler of the same text
      parseTime                    `start=` / `end=`: only the branch of texts ending in "-ago" (accepted or not)

AS REPAIRED (build/patches/c17-1, c17-2): the metric name ends at the first '{' and starts after the last ':' BEFORE it;
a '}' in front of the '{' is a format error; "-ago" without a duration is a format error.  The behaviour before the
repairs is kept as `parseMetricTagOld` / `agoOld`, whose third outcome `panic` is what ended the server process
(slice bounds out of range / index out of range [-1] on the request goroutine, which nothing recovers).

Texts are byte strings (`List Nat`, every element < 256), as Go strings are: every separator of the grammar is an
ASCII byte, `strings.TrimSpace` is modelled on the UTF-8 encodings of the Unicode White_Space code points.  What is
abstracted: the xxhash values of metric name and tag values (not on the op line); the spelling of a downsample unit
that holds non-ASCII bytes (Go ranges over runes and writes U+FFFD for invalid bytes; whether the unit is EMPTY — the
only thing the parser asks — is exact); the clock (`parseTime` of a relative time returns now − duration: only
accepted / rejected is modelled); the absolute formats of `parseTime` (time.Parse).  Core Lean only.
-/
namespace SigModel.OtsdbQuery

abbrev Bytes := List Nat

/-! ## strings.Index / LastIndex / Split for a one-byte separator, TrimSpace -/

/-- `strings.IndexByte`: position of the first `c` -/
def indexOf (c : Nat) : Bytes → Option Nat
  | [] => none
  | b :: r => if b = c then some 0 else (indexOf c r).map (· + 1)

/-- `strings.LastIndexByte`: position of the last `c` -/
def lastIndexOf (c : Nat) : Bytes → Option Nat
  | [] => none
  | b :: r => match lastIndexOf c r with
    | some i => some (i + 1)
    | none => if b = c then some 0 else none

/-- `strings.Split(s, string(c))`: always at least one piece -/
def splitOn (c : Nat) : Bytes → List Bytes
  | [] => [[]]
  | b :: r =>
    match splitOn c r with
    | [] => [[b]]            -- unreachable: splitOn never returns []
    | p :: ps => if b = c then [] :: p :: ps else (b :: p) :: ps

/-- length of the white space at the head of `s` in bytes (0 = none): ASCII white space and the UTF-8 encodings of
U+0085, U+00A0, U+1680, U+2000 … U+200A, U+2028, U+2029, U+202F, U+205F, U+3000 (`unicode.IsSpace`) -/
def spaceLen : Bytes → Nat
  | [] => 0
  | b :: r =>
    if b = 9 ∨ b = 10 ∨ b = 11 ∨ b = 12 ∨ b = 13 ∨ b = 32 then 1
    else match b, r with
      | 0xC2, x :: _ => if x = 0x85 ∨ x = 0xA0 then 2 else 0
      | 0xE1, x :: y :: _ => if x = 0x9A ∧ y = 0x80 then 3 else 0
      | 0xE2, x :: y :: _ =>
        if x = 0x80 ∧ ((0x80 ≤ y ∧ y ≤ 0x8A) ∨ y = 0xA8 ∨ y = 0xA9 ∨ y = 0xAF) then 3
        else if x = 0x81 ∧ y = 0x9F then 3 else 0
      | 0xE3, x :: y :: _ => if x = 0x80 ∧ y = 0x80 then 3 else 0
      | _, _ => 0

/-- the same, read from the END of the text (argument: the reversed text) -/
def spaceLenRev : Bytes → Nat
  | [] => 0
  | b :: r =>
    if b = 9 ∨ b = 10 ∨ b = 11 ∨ b = 12 ∨ b = 13 ∨ b = 32 then 1
    else match r with
      | x :: rest =>
        if x = 0xC2 ∧ (b = 0x85 ∨ b = 0xA0) then 2
        else match rest with
          | y :: _ =>
            if y = 0xE1 ∧ x = 0x9A ∧ b = 0x80 then 3
            else if y = 0xE2 ∧ x = 0x80 ∧ ((0x80 ≤ b ∧ b ≤ 0x8A) ∨ b = 0xA8 ∨ b = 0xA9 ∨ b = 0xAF) then 3
            else if y = 0xE2 ∧ x = 0x81 ∧ b = 0x9F then 3
            else if y = 0xE3 ∧ x = 0x80 ∧ b = 0x80 then 3
            else 0
          | [] => 0
      | [] => 0

def trimWith (len : Bytes → Nat) : Nat → Bytes → Bytes
  | 0, s => s
  | fuel + 1, s => if len s = 0 then s else trimWith len fuel (s.drop (len s))

/-- `strings.TrimSpace` -/
def trimSpace (s : Bytes) : Bytes :=
  let l := trimWith spaceLen s.length s
  (trimWith spaceLenRev l.length l.reverse).reverse

/-! ## parseMetricTag -/

inductive LogOp where
  | and | or
deriving Repr, DecidableEq

structure TagFilter where
  key : Bytes
  value : Bytes
  op : LogOp
deriving Repr, DecidableEq

/-- what a call of a parser ends in: a value, an error answer (HTTP 400), or a Go panic (the process dies) -/
inductive Outcome (α : Type) where
  | ok (a : α)
  | err
  | panic
deriving Repr, DecidableEq

def Outcome.isOk {α : Type} : Outcome α → Bool
  | .ok _ => true
  | _ => false

/-- a value wrapped in "…" or '…' (and longer than one byte) loses the quotes -/
def unquote (v : Bytes) : Bytes :=
  if v.length > 1 ∧ ((v.head? = some 34 ∧ v.getLast? = some 34) ∨ (v.head? = some 39 ∧ v.getLast? = some 39)) then
    (v.drop 1).dropLast
  else v

/-- one item `key=v1|v2|…` of the tag list; `op` is the logical operator so far: it turns to `or` at the first item with
several values and STAYS `or` for all later items (one variable for the whole list in the code) -/
def parseTag (op : LogOp) (item : Bytes) : Option (LogOp × List TagFilter) :=
  match splitOn 61 item with
  | [k, vs] =>
    let key := trimSpace k
    let vals := splitOn 124 (trimSpace vs)
    let op' := if vals.length > 1 then LogOp.or else op
    some (op', vals.map (fun v => { key := key, value := unquote v, op := op' }))
  | _ => none

def parseTags : LogOp → List Bytes → Option (List TagFilter)
  | _, [] => some []
  | op, item :: rest =>
    match parseTag op item with
    | none => none
    | some (op', fs) => (parseTags op' rest).map (fs ++ ·)

/-- the metric name: from behind the last ':' of `pre` (= the text in front of the first '{') to its end -/
def metricOf (pre : Bytes) : Bytes :=
  match lastIndexOf 58 pre with
  | some i => pre.drop (i + 1)
  | none => pre

/-- `parseMetricTag` as repaired: never panics -/
def parseMetricTag (m : Bytes) : Outcome (Bytes × List TagFilter) :=
  match indexOf 123 m, indexOf 125 m with
  | some ts, some te =>
    if te < ts then .err
    else
      match parseTags .and (splitOn 44 ((m.drop (ts + 1)).take (te - (ts + 1)))) with
      | some fs => .ok (metricOf (m.take ts), fs)
      | none => .err
  | _, _ => .err

/-- `parseMetricTag` BEFORE the repair: `metric := m[LastIndex(m, ":")+1 : Index(m, "{")]` and
`m[tagsStart+1 : tagsEnd]` with only `-1` excluded -/
def parseMetricTagOld (m : Bytes) : Outcome (Bytes × List TagFilter) :=
  let metricEnd := (indexOf 123 m).getD m.length
  let metricStart := match lastIndexOf 58 m with
    | some i => i + 1
    | none => 0
  if metricStart > metricEnd then .panic
  else
    match indexOf 123 m, indexOf 125 m with
    | some ts, some te =>
      if te < ts + 1 then .panic
      else
        match parseTags .and (splitOn 44 ((m.drop (ts + 1)).take (te - (ts + 1)))) with
        | some fs => .ok ((m.take metricEnd).drop metricStart, fs)
        | none => .err
    | _, _ => .err

/-! ## parseAggregatorDownsampler -/

inductive Agg where
  | invalid | count | avg | min | max | sum | cardinality | quantile
deriving Repr, DecidableEq

def Agg.name : Agg → String
  | .invalid => "invalid" | .count => "count" | .avg => "avg" | .min => "min" | .max => "max"
  | .sum => "sum" | .cardinality => "cardinality" | .quantile => "quantile"

def bytesOf (s : String) : Bytes := s.toUTF8.toList.map (·.toNat)

/-- `aggregatorMapping` (the names as byte lists, so that the kernel can evaluate the parser on a concrete text) -/
def aggOf (b : Bytes) : Option Agg :=
  if b = [99, 111, 117, 110, 116] then some .count                 -- "count"
  else if b = [97, 118, 103] then some .avg                         -- "avg"
  else if b = [109, 105, 110] then some .min                       -- "min"
  else if b = [109, 97, 120] then some .max                        -- "max"
  else if b = [115, 117, 109] then some .sum                       -- "sum"
  else if b = [99, 97, 114, 100, 105, 110, 97, 108, 105, 116, 121] then some .cardinality   -- "cardinality"
  else if b = [113, 117, 97, 110, 116, 105, 108, 101] then some .quantile      -- "quantile"
  else none

structure Downsampler where
  interval : Nat
  unit : Bytes        -- the non-digit bytes of the interval component (exact spelling when all are ASCII)
  agg : Agg
  cflag : Bool
deriving Repr, DecidableEq

def isDigit (b : Nat) : Bool := 48 ≤ b ∧ b ≤ 57

def digitsVal (ds : Bytes) : Nat := ds.foldl (fun acc d => 10 * acc + (d - 48)) 0

def maxInt64 : Nat := 2 ^ 63 - 1

/-- the default downsampler `1m-avg` -/
def defaultDs : Downsampler := { interval := 1, unit := [109], agg := .avg, cflag := false }

/-- the downsample component `<digits><unit>[c]-<aggregator>[-…]` -/
def parseDs (ds : Bytes) : Option Downsampler :=
  match splitOn 45 ds with
  | iu :: a :: _ =>
    let cflag := iu.getLast? = some 99
    let body := if cflag then iu.dropLast else iu
    let digits := body.filter isDigit
    let unit := body.filter (fun b => !isDigit b)
    if digits = [] ∨ unit = [] then none
    else if digitsVal digits > maxInt64 then none      -- strconv.Atoi: value out of range
    else some { interval := digitsVal digits, unit := unit, agg := (aggOf a).getD .invalid, cflag := cflag }
  | _ => none

def parseAggDs (m : Bytes) : Outcome (Agg × Downsampler) :=
  match splitOn 58 m with
  | [_] => .ok (.sum, defaultDs)
  | [a, _] =>
    match aggOf a with
    | some ag => .ok (ag, defaultDs)
    | none => .err
  | a :: d :: _ =>
    match aggOf a with
    | none => .err
    | some ag =>
      if d = [] then .ok (ag, defaultDs)
      else match parseDs d with
        | some ds => .ok (ag, ds)
        | none => .err
  | [] => .ok (.sum, defaultDs)   -- unreachable: splitOn never returns []

/-! ## parseTime, the branch of relative times -/

/-- `strconv.Atoi` accepts `[+-]?[0-9]+` within the int64 range -/
def atoiOk (s : Bytes) : Bool :=
  let (neg, ds) := match s with
    | 45 :: r => (true, r)
    | 43 :: r => (false, r)
    | _ => (false, s)
  ds ≠ [] ∧ ds.all isDigit ∧ (if neg then digitsVal ds ≤ 2 ^ 63 else digitsVal ds ≤ maxInt64)

def agoSuffix : Bytes := [45, 97, 103, 111]   -- "-ago"

def timeUnits : Bytes := [115, 109, 104, 100, 119, 110, 121]   -- s m h d w n y

inductive Ago where
  | abs          -- the text does not end in "-ago": the absolute formats (not modelled)
  | relOk
  | relErr
  | panic
deriving Repr, DecidableEq

def hasSuffix (s suf : Bytes) : Bool := suf.length ≤ s.length ∧ s.drop (s.length - suf.length) = suf

/-- the duration text `<number><unit>` in front of "-ago" (non-empty) -/
def durationOk (d : Bytes) : Bool :=
  match d.getLast? with
  | none => false
  | some u => timeUnits.contains u ∧ atoiOk d.dropLast

/-- `parseTime` as repaired -/
def ago (s : Bytes) : Ago :=
  if hasSuffix s agoSuffix then
    let d := s.take (s.length - 4)
    if d = [] then .relErr
    else if durationOk d then .relOk else .relErr
  else .abs

/-- `parseTime` BEFORE the repair: `unit := durationStr[len(durationStr)-1]` with an empty `durationStr` -/
def agoOld (s : Bytes) : Ago :=
  if hasSuffix s agoSuffix then
    let d := s.take (s.length - 4)
    if d = [] then .panic
    else if durationOk d then .relOk else .relErr
  else .abs

end SigModel.OtsdbQuery
