/-
Model for C11 — concurrent ingest / flush / rotation / search: an abstract interleaving machine over
the PROTOCOL steps of siglens' hand-over of a segment from "unrotated" (open) to "rotated".

Mirrored Go code (protocol order only; data layout, files and the Go memory model are NOT modelled):
  * flush      pkg/segment/writer/segstore.go  AppendWipToSegfile (529-707): under the SegStore lock the
               WIP block is written and `updateUnrotatedBlockInfo` (unrotatedquery.go 139-204, under
               UnrotatedInfoLock) appends the block summary to AllUnrotatedSegmentInfo[segkey] (entry created
               on the first block) and stores the new RecordCount; numBlocks += 1.
  * rotation   segstore.go checkAndRotateColFiles (772-867) + CleanupUnrotatedSegment (882-901), run with
               the SegStore lock held from the first to the last step:
                 addSegmeta(segmeta)                      -- segmeta.json entry                      (RotStep.segmetaFile)
                 metadata.AddSegMetaToMetadata(&segmeta)  -- rotated list, globalMetadata.updateLock (addMeta)
                 CleanupUnrotatedSegment → removeSegKeyFromUnrotatedInfo(key)  -- unrotated map      (removeUnrot)
                                         → segstore.resetSegStore(…)           -- next suffix, 0 blocks (reset)
               The order is tied to the source by the go2lean `callorder` facts
               C11.rotation.order / C11.cleanup.order (lib/props.py).
  * query      pkg/segment/query/segquery.go getAllSegmentsInQuery (1063-1100) and getAllSegmentsInAggs
               (841-880): FIRST writer.FilterUnrotatedSegmentsInQuery (snapshot of the unrotated map under
               RLock: key, RecordCount), THEN segmetadata.FilterSegmentsByTime (snapshot of the rotated list
               under RLock: key, record count); then `removeQSRsAlsoRotated` drops every unrotated request
               whose segment key is also in the rotated list and the two lists are appended
               (`Cfg.dedupSeg = true`; before the repair they were appended as they were: `Cfg.realOld`).
               Facts C11.query.order / C11.aggs.order / C11.query.dedup.
  * read       record queries (RRC; processor/searcher.go getBlocks → query.GetSSRsFromQSR, segquery.go 1164-1195):
               per request the CURRENT state decides — `writer.IsSegKeyUnrotated(key)` → the blocks now in the
               unrotated entry, otherwise the blocks of the rotated metadata; a (segment, block) pair already
               taken is dropped (getFilteredBlocks, `processedBlocks`).
               count queries (`* | stats count`, applyAggOpOnSegments, segquery.go 961-1040): every request
               contributes the record count captured BY ITS SNAPSHOT (`Count: segReq.TotalRecords`); nothing
               further is de-duplicated (the request list already holds every segment key once).

The two maps are modelled as functions key ↦ number of blocks (0 = no entry); `segs` (ghost) enumerates the
keys that ever received a block, `total` (ghost) counts the blocks ever flushed to a key.
Schedules are lists of labels "which thread moves next"; a label whose thread cannot move (a flush of a
stream whose store lock is held by a rotation in progress, a rotation of a store without blocks, a step of
a finished query) leaves the state unchanged.
Core Lean only.
-/
namespace SigModel.Conc

/-- segment key: (stream = index/SegStore, suffix) -/
structure Seg where
  stream : Nat
  seq : Nat
deriving DecidableEq, Repr

/-- a flushed block: (segment, block number) -/
abbrev Block := Seg × Nat

inductive RotStep where
  | segmetaFile | addMeta | removeUnrot | reset
deriving DecidableEq, Repr

inductive QStep where
  | snapU | snapR
deriving DecidableEq, Repr

/-- the protocol orders (program order of the rotation steps, program order of the two snapshots) and
whether the query de-duplicates its request list by segment key -/
structure Cfg where
  rotOrder : List RotStep
  qOrder : List QStep
  dedupSeg : Bool

/-- the orders extracted from the source (see header), with or without de-duplication of the request list -/
def Cfg.of (dedupSeg : Bool) : Cfg :=
  { rotOrder := [.segmetaFile, .addMeta, .removeUnrot, .reset], qOrder := [.snapU, .snapR], dedupSeg := dedupSeg }

/-- the code as it is: `removeQSRsAlsoRotated` drops the unrotated request of a segment that is also in the
rotated list (segquery.go, getAllSegmentsInQuery / getAllSegmentsInAggs) -/
abbrev Cfg.real : Cfg := Cfg.of true

/-- the code before that repair: the two request lists were appended as they were -/
abbrev Cfg.realOld : Cfg := Cfg.of false

/-- one SegStore -/
structure Store where
  seq : Nat := 0                 -- suffix of the open segment
  nblocks : Nat := 0             -- segstore.numBlocks
  todo : List RotStep := []      -- remaining steps of the rotation in progress ([] = none; ≠ [] = store lock held)
  rotSeg : Seg := ⟨0, 0⟩         -- the segmeta built at the start of the rotation: key …
  rotN : Nat := 0                -- … and NumBlocks

inductive QKind where
  | rrc | stats
deriving DecidableEq, Repr

structure Query where
  kind : QKind := .rrc
  started : Bool := false
  todo : List QStep := []          -- remaining snapshot steps (after them: the read)
  finished : Bool := false
  snapU : List (Seg × Nat) := []   -- requests from the unrotated snapshot: key, block count at the snapshot
  snapR : List (Seg × Nat) := []   -- requests from the rotated snapshot
  pre : Seg → Nat := fun _ => 0    -- ghost: `total` when the query took its first step
  result : List Block := []        -- the (segment, block) pairs read / counted, with multiplicity

structure St where
  unrot : Seg → Nat := fun _ => 0  -- AllUnrotatedSegmentInfo[g]: number of block summaries
  rot : Seg → Nat := fun _ => 0    -- globalMetadata[g]: NumBlocks of the segmeta
  segs : List Seg := []            -- ghost: keys in order of their first flush
  total : Seg → Nat := fun _ => 0  -- ghost: blocks ever flushed to g; block (g, k) has been flushed iff k < total g
  segmetaJson : List Seg := []
  store : Nat → Store := fun _ => {}
  query : Nat → Query := fun _ => {}

def init : St := {}

def upd {α : Type} (f : Nat → α) (i : Nat) (v : α) : Nat → α := fun j => if j = i then v else f j

def updS (f : Seg → Nat) (g : Seg) (v : Nat) : Seg → Nat := fun h => if h = g then v else f h

/-- remove duplicates, keeping last occurrences -/
def dedup {α : Type} [DecidableEq α] : List α → List α
  | [] => []
  | a :: l => if a ∈ dedup l then dedup l else a :: dedup l

/-- de-duplication of a request list by segment key (last request of a key wins: the rotated one) —
`removeQSRsAlsoRotated` followed by the append, `Cfg.dedupSeg = true` -/
def dedupKey : List (Seg × Nat) → List (Seg × Nat)
  | [] => []
  | r :: l => if (dedupKey l).any (fun r' => r'.1 = r.1) then dedupKey l else r :: dedupKey l

def blocksOf (g : Seg) (n : Nat) : List Block := (List.range n).map (fun b => (g, b))

/-- flush of stream `i` (atomic under the store lock) -/
def flush (s : St) (i : Nat) : St :=
  let st := s.store i
  match st.todo with
  | [] =>
    let g : Seg := ⟨i, st.seq⟩
    { s with unrot := updS s.unrot g (s.unrot g + 1), total := updS s.total g (s.total g + 1),
             segs := if s.total g = 0 then s.segs ++ [g] else s.segs,
             store := upd s.store i { st with nblocks := st.nblocks + 1 } }
  | _ :: _ => s

/-- one rotation step of stream `i`; the store's `todo` has already been advanced -/
def applyRot (s : St) (i : Nat) : RotStep → St
  | .segmetaFile => { s with segmetaJson := s.segmetaJson ++ [(s.store i).rotSeg] }
  | .addMeta => { s with rot := updS s.rot (s.store i).rotSeg (s.store i).rotN }
  | .removeUnrot => { s with unrot := updS s.unrot (s.store i).rotSeg 0 }
  | .reset => { s with store := upd s.store i { s.store i with seq := (s.store i).seq + 1, nblocks := 0 } }

/-- label `rot i`: start a rotation (if the store has blocks) and execute its first step, or execute the
next step of the rotation in progress -/
def rotStep (cfg : Cfg) (s : St) (i : Nat) : St :=
  let st := s.store i
  match st.todo with
  | [] =>
    if st.nblocks = 0 then s else
    match cfg.rotOrder with
    | [] => s
    | a :: rest =>
      applyRot { s with store := upd s.store i { st with todo := rest, rotSeg := ⟨i, st.seq⟩, rotN := st.nblocks } } i a
  | a :: rest => applyRot { s with store := upd s.store i { st with todo := rest } } i a

/-- the entries of a map, enumerated through the ghost key list -/
def snapOf (s : St) (f : Seg → Nat) : List (Seg × Nat) :=
  (s.segs.filter (fun g => f g ≠ 0)).map (fun g => (g, f g))

/-- what a request for segment `g` reads NOW -/
def nowCount (s : St) (g : Seg) : Nat := if s.unrot g ≠ 0 then s.unrot g else s.rot g

def readResult (cfg : Cfg) (s : St) (q : Query) : List Block :=
  let qsrs := q.snapU ++ q.snapR
  let qsrs := if cfg.dedupSeg then dedupKey qsrs else qsrs
  match q.kind with
  | .rrc => dedup (qsrs.flatMap (fun r => blocksOf r.1 (nowCount s r.1)))
  | .stats => qsrs.flatMap (fun r => blocksOf r.1 r.2)

def applySnap (s : St) (q : Query) : QStep → Query
  | .snapU => { q with snapU := snapOf s s.unrot }
  | .snapR => { q with snapR := snapOf s s.rot }

/-- label `q j`: first step = start + first snapshot; then the other snapshot; then the read -/
def qStep (cfg : Cfg) (s : St) (j : Nat) (stats : Bool) : St :=
  let q := s.query j
  if q.finished then s else
  if q.started then
    match q.todo with
    | [] => { s with query := upd s.query j { q with finished := true, result := readResult cfg s q } }
    | a :: rest => { s with query := upd s.query j (applySnap s { q with todo := rest } a) }
  else
    let q0 : Query := { q with started := true, kind := if stats then .stats else .rrc, pre := s.total }
    match cfg.qOrder with
    | [] => { s with query := upd s.query j q0 }
    | a :: rest => { s with query := upd s.query j (applySnap s { q0 with todo := rest } a) }

inductive Label where
  | flush (i : Nat)
  | rot (i : Nat)
  | q (j : Nat) (stats : Bool)
deriving DecidableEq, Repr

def step (cfg : Cfg) (s : St) : Label → St
  | .flush i => flush s i
  | .rot i => rotStep cfg s i
  | .q j k => qStep cfg s j k

def run (cfg : Cfg) (s : St) (l : List Label) : St := l.foldl (step cfg) s

/-- every store idle: no rotation in progress -/
def Quiescent (s : St) : Prop := ∀ i, (s.store i).todo = []

/-- the sequential schedule of a concurrent schedule: every flush that took effect, and every rotation as
ONE uninterrupted run of its steps placed where its last step happened; queries dropped -/
def seqOf (cfg : Cfg) : St → List Label → List Label
  | _, [] => []
  | s, l :: ls =>
    (match l with
     | .flush i => if (s.store i).todo = [] then [Label.flush i] else []
     | .rot i => if (s.store i).todo.length = 1 then List.replicate cfg.rotOrder.length (Label.rot i) else []
     | .q _ _ => []) ++ seqOf cfg (step cfg s l) ls

end SigModel.Conc

/-
The read of ONE request of a record query against a concurrent rotation of that request's segment, at the
granularity of the lock acquisitions of the read path (the machine above treats this read as one step):

  A  query.GetSSRsFromQSR (segquery.go):                      `writer.IsSegKeyUnrotated(key)`   (RLock, released)
  B  metadata.CheckMicroIndicesForUnrotated (unrotatedmeta.go 68-120): look-up of the key under a SECOND RLock;
     a missing key is logged and the segment is skipped there.
       repaired reader: GetSSRsFromQSR then asks `IsSegKeyUnrotated` again and, the key being gone, builds the
       request from the rotated metadata (ExtractSSRFromSearchNode)
       old reader:      the segment stayed skipped — its events were silently missing from the result
  C  segread.initNewMultiColumnReader (multicolreader.go):     `writer.IsSegKeyUnrotated(key)` again
  D  `writer.GetBlockSearchInfoForKey(key)` under a further RLock; a missing key is an error.
       repaired reader: asks `IsSegKeyUnrotated` again and, the key being gone, uses
                        segmetadata.GetSearchInfoAndSummary; SharedMultiColReaders.Close is idempotent
       old reader:      InitSharedMultiColumnReaders closed the readers AND returned them with the error, its
                        caller search.RawSearchSingleQuery closed them again (deferred): the FD semaphore was
                        released twice, panic "semaphore: released more than held", the process died
  If A or C answer "not unrotated" the rotated metadata / the segment's files are used (always present after
  `addMeta`, which precedes `removeUnrot`).

Facts C11.read.* tie the call orders.
-/
namespace SigModel.Conc.ReadOne

/-- rotation of the request's segment: protocol steps executed so far (order of `Cfg.real.rotOrder`) -/
inductive RotPc where
  | start | segmeta | added | removed | reset
deriving DecidableEq, Repr

def RotPc.next : RotPc → RotPc
  | .start => .segmeta | .segmeta => .added | .added => .removed | .removed => .reset | .reset => .reset

/-- the key is in AllUnrotatedSegmentInfo -/
def RotPc.inUnrot : RotPc → Bool
  | .start | .segmeta | .added => true
  | _ => false

/-- the key is in the rotated metadata -/
def RotPc.inRot : RotPc → Bool
  | .added | .removed | .reset => true
  | _ => false

inductive RPc where
  | checkSsr | lookupSsr | checkReader | lookupReader | done
deriving DecidableEq, Repr

inductive Outcome where
  | readUnrotated | readRotated | skipped | crashed
deriving DecidableEq, Repr

/-- which reader: the code as it is (fall back to the rotated path when the key has left the unrotated map
between a check and its look-up; idempotent Close) or the code before the repair -/
inductive Reader where
  | real | old
deriving DecidableEq, Repr

structure RSt where
  rot : RotPc := .start
  pc : RPc := .checkSsr
  outcome : Option Outcome := none
deriving DecidableEq, Repr

inductive RLabel where
  | rot | read
deriving DecidableEq, Repr

/-- one lock acquisition of the reader (the repaired reader's re-check and its rotated look-up happen after
`removeUnrot`; the rotated map only grows, so they are folded into the failing look-up step) -/
def readStep (r : Reader) (s : RSt) : RSt :=
  match s.pc with
  | .checkSsr =>
    if s.rot.inUnrot then { s with pc := .lookupSsr }
    else if s.rot.inRot then { s with pc := .checkReader }
    else { s with pc := .done, outcome := some .skipped }
  | .lookupSsr =>
    if s.rot.inUnrot then { s with pc := .checkReader }
    else match r with
      | .real => if s.rot.inRot then { s with pc := .checkReader } else { s with pc := .done, outcome := some .skipped }
      | .old => { s with pc := .done, outcome := some .skipped }
  | .checkReader =>
    if s.rot.inUnrot then { s with pc := .lookupReader }
    else { s with pc := .done, outcome := some .readRotated }
  | .lookupReader =>
    if s.rot.inUnrot then { s with pc := .done, outcome := some .readUnrotated }
    else match r with
      | .real => { s with pc := .done, outcome := some .readRotated }
      | .old => { s with pc := .done, outcome := some .crashed }
  | .done => s

def rstep (r : Reader) (s : RSt) : RLabel → RSt
  | .rot => { s with rot := s.rot.next }
  | .read => readStep r s

def rrun (r : Reader) (s : RSt) (l : List RLabel) : RSt := l.foldl (rstep r) s

/-- schedule guard for the OLD reader: the `removeUnrot` step does not fall between a check and its look-up -/
def noRemoveInWindow (s : RSt) : List RLabel → Bool
  | [] => true
  | l :: ls =>
    (match l with
     | .rot => !(s.rot == .added && (s.pc == .lookupSsr || s.pc == .lookupReader))
     | .read => true) && noRemoveInWindow (rstep .old s l) ls

end SigModel.Conc.ReadOne
