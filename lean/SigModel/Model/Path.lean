/-
C19 — lexical path model and the siglens path builders that take a client-controlled name.
Core Lean only (linked into the `oracle` executable).

Strings are byte strings represented as `List Char` (one `Char` < 256 per byte; '/' and '.' are ASCII,
so UTF-8 multi-byte sequences never contain them and byte-wise = rune-wise for everything below).

Mirrors
  * Go 1.23 `path/filepath.Clean` / `Join` / `Rel` on Unix (internal/filepathlite/path.go `Clean`,
    path/filepath/path_unix.go `join`, path/filepath/path.go `Rel`)   →  `clean`, `join`, `relTo`
  * the path builders of /repo, EXACTLY as coded (validation as coded, concatenation as coded);
    `d` = segments of the configured data path (config.GetDataPath() = "/" ++ d.join "/" ++ "/"),
    `H` = config.GetHostID() (one segment):

    builder          Go site                                                        validation as coded
    ---------------  -------------------------------------------------------------  -------------------------------------------
    lookupUpload     pkg/lookups/lookups.go UploadLookupFile                        form value `name` ≠ "" and utils.IsSimpleFileName(name)
                     filepath.Join(GetLookupPath(), fileName)                       (fix); ".csv" appended unless lower(name) ends in .csv/.csv.gz
    lookupGet        lookups.go GetLookupFile           (route {lookupFilename})    fasthttp/router param: raw path segment, non-empty, contains
    lookupDelete     lookups.go DeleteLookupFile        (route {lookupFilename})    no '/'; in the handler (patch c13-1, PENDING): lower(name) ends
                     (requests of org 0: config.GetLookupPathForOrg(0) = GetLookupPath();    in .csv / .csv.gz, else "File not found" and no file is touched
                      org n ≠ 0 works in lookups/<n>/ — decimal digits —, not modelled here)  (before the patch: no check in the handler, lookupGetOld)
    inputlookup      pkg/segment/query/processor/inputlookupcommand.go Process      name ends in ".csv" or ".csv.gz" and
                     (same code: pkg/segment/aggregations/generateevents.go)        utils.IsSimpleFileName(name) (fix)
    aliasFile        pkg/virtualtable/virtualtable.go GetAliases/writeAliasFile/    vtable.IsValidIndexName(index) in AddAliases /
                     removeAliasFile: VTableAliasesDir ++ index ++ ".json"          RemoveAliases / GetAliases (fix)
    mappingFile      virtualtable.go AddMapping  VTableMappingsDir++t++".json"      route param {indexName} (PUT /{indexName}) and
                                                                                    vtable.IsValidIndexName (fix)
    baseSegDir       pkg/config/config.go GetBaseSegDir                             the builders themselves check nothing; the index name
    baseVTableDir    config.go GetBaseVTableDir (filepath.Join)                     enters through es/writer ProcessIndexRequestPle (all
    suffixFile       config.go GetSuffixFile                                        ingest protocols) / HandleBulkBody / vtable.AddVirtualTable,
                                                                                    which reject it unless vtable.IsValidIndexName (fix)
    tagsTreeFile     pkg/segment/writer/metrics/tagstree.go GetFinalTagsTreeDir     metrics.EncodeDatapoint rejects the datapoint unless every
                     + getTagsTreeFileName  (ttBase ++ key)                         tag key passes utils.IsSimpleFileName (fix)

    tagsTreeRead     pkg/segment/reader/metrics/tagstree/tagstreereader.go           READ side of the same files: the tag key of a tag filter
                     tagTreeFileExists / initTagsTreeReader (baseDir ++ tagKey)     of a metrics QUERY (OpenTSDB m={k=v}, query expressions
                                                                                    `tagk`, …) against a rotated segment; both functions
                                                                                    refuse a key unless utils.IsSimpleFileName (repair c19-2)

  utils.IsSimpleFileName(name) = name ∉ {"", ".", ".."} and no '/' and no '\\' in name   →  `simpleName`.
  The definitions `…Old` are the builders as they were BEFORE the fix: commits (kept for the counterexample theorems).
    dashboardDetails pkg/dashboards/dashboards.go getDashboardDetailsPath:54-59     route param {dashboard-id} (get/favorite/delete);
                     (non-default branch)                                           update: id must be a key of the folder structure
    scrollResults    pkg/scroll/scroll.go GetScrollRecord:203-217 +                 a client scroll_id that is not a key of the
                     getScrollResultsFilename:119-129                               server-side table is REPLACED by a fresh UUID

  Examined, no path flow (so no builder): saved-query names (JSON keys inside one file per org,
  usqueries.go getUsqFileName: org id only), tenant/org id (int64 → strconv.FormatInt), metric names
  (hashed to a shard number, utils.CreateStreamIdForMetrics), column names (xxhash in file name),
  stream ids (`%d-%v-%v` of numbers, utils.CreateStreamId).
-/
namespace SigModel.Path

abbrev Str := List Char
abbrev Seg := List Char

def dd : Seg := ['.', '.']
def dot : Seg := ['.']

/-- split at every '/' (like strings.Split(s, "/")): always non-empty, segments contain no '/' -/
def splitSlash : Str → List Seg
  | [] => [[]]
  | c :: cs =>
    if c = '/' then [] :: splitSlash cs
    else match splitSlash cs with
      | [] => [[c]]
      | s :: r => (c :: s) :: r

/-- one element of the Clean loop; `st` is the output stack, TOP FIRST.
    ""/"." skipped; ".." pops a real element, is dropped at the root, is kept (pushed) on a relative path
    whose stack is empty or already ends in ".." (Go: `out.w > dotdot` / `!rooted`). -/
def step (rooted : Bool) (st : List Seg) (s : Seg) : List Seg :=
  if s = [] ∨ s = dot then st
  else if s = dd then
    match st with
    | [] => if rooted then [] else [dd]
    | t :: r => if t = dd then dd :: t :: r else r
  else s :: st

def normSegs (rooted : Bool) (segs : List Seg) : List Seg := (segs.foldl (step rooted) []).reverse

/-- a cleaned path: rooted flag + its segments (bottom first) -/
structure NPath where
  rooted : Bool
  segs : List Seg
deriving DecidableEq, Repr

def isRooted : Str → Bool
  | '/' :: _ => true
  | _ => false

def cleanN (s : Str) : NPath := ⟨isRooted s, normSegs (isRooted s) (splitSlash s)⟩

def joinSegs : List Seg → Str
  | [] => []
  | [s] => s
  | s :: r => s ++ '/' :: joinSegs r

def render (p : NPath) : Str :=
  if p.rooted then '/' :: joinSegs p.segs
  else if p.segs = [] then ['.'] else joinSegs p.segs

/-- filepath.Clean -/
def clean (s : Str) : Str := render (cleanN s)

/-- filepath.Join(a, b): empty elements are ignored, the rest joined with '/' and cleaned; all empty → "" -/
def join (a b : Str) : Str :=
  if a = [] then (if b = [] then [] else clean b)
  else if b = [] then clean a
  else clean (a ++ '/' :: b)

/-- `p` lies in the directory tree rooted at `base` (or is `base` itself); both cleaned -/
def within (base p : NPath) : Prop := p.rooted = base.rooted ∧ base.segs <+: p.segs

instance (base p : NPath) : Decidable (within base p) := by unfold within; exact inferInstance

/-- depth walk of raw segments: ""/"." stay, ".." goes up (fails above the start), anything else goes down -/
def walk : Nat → List Seg → Option Nat
  | n, [] => some n
  | n, s :: r =>
    if s = [] ∨ s = dot then walk n r
    else if s = dd then (match n with
      | 0 => none
      | k + 1 => walk k r)
    else walk (n + 1) r

/-- the name never climbs above the directory it is joined to -/
def depthOK (name : Str) : Prop := (walk 0 (splitSlash name)).isSome = true

instance (name : Str) : Decidable (depthOK name) := by unfold depthOK; exact inferInstance

/-- no path separator -/
def noSlash (v : Str) : Prop := '/' ∉ v

instance (v : Str) : Decidable (noSlash v) := by unfold noSlash; exact inferInstance

/-- an ordinary file-name segment -/
def Plain (s : Seg) : Prop := s ≠ [] ∧ s ≠ dot ∧ s ≠ dd ∧ '/' ∉ s

instance (s : Seg) : Decidable (Plain s) := by unfold Plain; exact inferInstance

/-- filepath.Rel(base, p) for two cleaned absolute paths -/
def relSegs : List Seg → List Seg → List Seg
  | b :: bs, p :: ps => if b = p then relSegs bs ps else (List.replicate (bs.length + 1) dd) ++ (p :: ps)
  | [], ps => ps
  | bs, [] => List.replicate bs.length dd

def relTo (base p : NPath) : Str := render ⟨false, relSegs base.segs p.segs⟩

/-! ### builders -/

/-- config.GetDataPath() for data-dir segments `d`: "/" ++ d.join "/" ++ "/" -/
def dataPath (d : List Seg) : Str := '/' :: (joinSegs d ++ ['/'])

def dataDir (d : List Seg) : NPath := ⟨true, d⟩

def asciiLower (c : Char) : Char := if 'A' ≤ c ∧ c ≤ 'Z' then Char.ofNat (c.toNat + 32) else c

def endsWith (s suf : Str) : Bool := suf.reverse.isPrefixOf s.reverse

def csvExt : Str := ".csv".toList
def csvGzExt : Str := ".csv.gz".toList

/-- utils.IsSimpleFileName: not "", ".", "..", and neither '/' nor '\\' occurs -/
def simpleName (v : Str) : Bool := v ≠ [] ∧ v ≠ dot ∧ v ≠ dd ∧ '/' ∉ v ∧ '\\' ∉ v

/-- fasthttp/router named parameter: one raw, non-empty path segment -/
def routeParamOK (v : Str) : Bool := v ≠ [] ∧ '/' ∉ v

/-- stream id / metrics id / suffix used by the harness (server generated: digits and '-') -/
def SID : Str := "0-0-7".toList
def MID : Str := "0".toList

/-! The Go code builds these paths by string concatenation / filepath.Join. `joinSegs [e₁, …, eₙ]` is the string
    e₁ ++ "/" ++ … ++ "/" ++ eₙ (the elements may themselves contain '/': the client value does), so every
    `dataPath d ++ joinSegs […]` below is literally the concatenated Go string; an empty element stands for a
    doubled or trailing '/'. -/

/-- UploadLookupFile: the file name actually joined -/
def uploadName (v : Str) : Str :=
  let l := v.map asciiLower
  if endsWith l csvExt ∨ endsWith l csvGzExt then v else v ++ csvExt

/-- config.GetLookupPath() = dataPath ++ "lookups/";  filepath.Join(lookupPath, name) for a non-empty name is
    Clean(lookupPath ++ "/" ++ name) = Clean(dataPath ++ "lookups" ++ "/" ++ "" ++ "/" ++ name) -/
def lookupJoin (d : List Seg) (name : Str) : NPath := cleanN (dataPath d ++ joinSegs ["lookups".toList, [], name])

def lookupUploadOld (d : List Seg) (v : Str) : Option NPath :=
  if v = [] then none else some (lookupJoin d (uploadName v))

def lookupUpload (d : List Seg) (v : Str) : Option NPath :=
  if simpleName v then lookupUploadOld d v else none

/-- `hasLookupFileExt` (pkg/lookups/lookups.go, patch c13-1): the lower-cased name ends in ".csv" or ".csv.gz" -/
def hasLookupExt (v : Str) : Bool :=
  let l := v.map asciiLower
  endsWith l csvExt || endsWith l csvGzExt

/-- before patch c13-1: the handler joined every name the router handed over -/
def lookupGetOld (d : List Seg) (v : Str) : Option NPath :=
  if routeParamOK v then some (lookupJoin d v) else none

def lookupGet (d : List Seg) (v : Str) : Option NPath :=
  if hasLookupExt v then lookupGetOld d v else none

def lookupDelete (d : List Seg) (v : Str) : Option NPath := lookupGet d v

def inputlookupOld (d : List Seg) (v : Str) : Option NPath :=
  if endsWith v csvExt ∨ endsWith v csvGzExt then some (lookupJoin d v) else none

def inputlookup (d : List Seg) (v : Str) : Option NPath :=
  if simpleName v then inputlookupOld d v else none

/-- VTableAliasesDir ++ index ++ ".json", VTableAliasesDir = dataPath ++ "ingestnodes/" ++ hostID ++ "/vtabledata" ++ "/aliases/" -/
def aliasFileOld (d : List Seg) (H : Seg) (v : Str) : Option NPath :=
  if v = [] then none else
  some (cleanN (dataPath d ++ joinSegs ["ingestnodes".toList, H, "vtabledata".toList, "aliases".toList, v ++ ".json".toList]))

def aliasFile (d : List Seg) (H : Seg) (v : Str) : Option NPath :=
  if simpleName v then aliasFileOld d H v else none

def mappingFile (d : List Seg) (H : Seg) (v : Str) : Option NPath :=
  if routeParamOK v ∧ simpleName v then
    some (cleanN (dataPath d ++ joinSegs ["ingestnodes".toList, H, "vtabledata".toList, "mappings".toList, v ++ ".json".toList]))
  else none

/-- dataPath ++ hostID ++ "/final/" ++ index ++ "/" ++ streamid ++ "/" ++ suffix ++ "/" -/
def baseSegDirOld (d : List Seg) (H : Seg) (v : Str) : Option NPath :=
  some (cleanN (dataPath d ++ joinSegs [H, "final".toList, v, SID, ['0'], []]))

def baseSegDir (d : List Seg) (H : Seg) (v : Str) : Option NPath :=
  if simpleName v then baseSegDirOld d H v else none

/-- filepath.Join(dataPath, hostID, "final", index, streamid) = Clean(dataPath ++ "/" ++ hostID ++ "/final/" ++ index ++ "/" ++ streamid)
    (an empty index is skipped by Join, which equals the doubled '/' that Clean collapses) -/
def baseVTableDirOld (d : List Seg) (H : Seg) (v : Str) : Option NPath :=
  some (cleanN (dataPath d ++ joinSegs [[], H, "final".toList, v, SID]))

def baseVTableDir (d : List Seg) (H : Seg) (v : Str) : Option NPath :=
  if simpleName v then baseVTableDirOld d H v else none

/-- dataPath ++ hostID ++ "/suffix/" ++ index ++ "/" ++ streamid ++ ".suffix" -/
def suffixFileOld (d : List Seg) (H : Seg) (v : Str) : Option NPath :=
  some (cleanN (dataPath d ++ joinSegs [H, "suffix".toList, v, SID ++ ".suffix".toList]))

def suffixFile (d : List Seg) (H : Seg) (v : Str) : Option NPath :=
  if simpleName v then suffixFileOld d H v else none

/-- dataPath ++ hostID ++ "/final/tth/" ++ mid ++ "/" ++ suffix ++ "/" ++ tagKey -/
def tagsTreeFileOld (d : List Seg) (H : Seg) (v : Str) : Option NPath :=
  some (cleanN (dataPath d ++ joinSegs [H, "final".toList, "tth".toList, MID, ['0'], v]))

def tagsTreeFile (d : List Seg) (H : Seg) (v : Str) : Option NPath :=
  if simpleName v then tagsTreeFileOld d H v else none

/-- the READER of the tags tree (tagstreereader.go tagTreeFileExists: os.Stat, initTagsTreeReader: os.OpenFile + flock + ReadAt):
    baseDir ++ tagKey with baseDir = the tags tree directory of a rotated segment (same string as the writer's) and tagKey =
    the key of a tag filter of a QUERY.  BEFORE the repair: no check at all (the empty key names the directory itself). -/
def tagsTreeReadOld (d : List Seg) (H : Seg) (v : Str) : Option NPath := tagsTreeFileOld d H v

/-- as repaired: both functions answer "no such tags tree" for a key that is not utils.IsSimpleFileName -/
def tagsTreeRead (d : List Seg) (H : Seg) (v : Str) : Option NPath :=
  if simpleName v then tagsTreeReadOld d H v else none

/-- dataPath ++ "querynodes/" ++ hostID ++ "/dashboards/details/" ++ id ++ ".json" -/
def dashboardDetails (d : List Seg) (H : Seg) (v : Str) : Option NPath :=
  if routeParamOK v then
    some (cleanN (dataPath d ++ joinSegs ["querynodes".toList, H, "dashboards".toList, "details".toList, v ++ ".json".toList]))
  else none

/-- GetScrollRecord: `known` = ids in the server-side table (all server-generated UUIDs); an unknown client id is
    replaced by the fresh UUID `fresh` before any file name is built -/
def scrollId (known : List Str) (fresh v : Str) : Str := if v ∈ known then v else fresh

/-- dataPath ++ hostID ++ "/scroll/" ++ id ++ ".csv" -/
def scrollResults (d : List Seg) (H : Seg) (known : List Str) (fresh v : Str) : Option NPath :=
  some (cleanN (dataPath d ++ joinSegs [H, "scroll".toList, scrollId known fresh v ++ ".csv".toList]))

end SigModel.Path
