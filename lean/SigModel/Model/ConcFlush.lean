/-
Model for C11 (concurrent flushes of DIFFERENT segstores) — the block-summary part of a flush as a concurrent state
machine.

Mirrored Go code, pkg/segment/writer/segstore.go:
  * AppendWipToSegfile (543-…) runs with the lock of ITS OWN SegStore held and nothing else that excludes other
    stores: the flush timers (FlushWipBufferToFile, segwriter.go) hold allSegStoresLock only for READING, an
    ingest-triggered flush (AddEntry) does not hold it at all.  Flushes of two different stores — two indexes, or
    two streams of one index — may therefore be at any two program points at the same instant.
  * flushBlockSummary (1236-1262), called once per flushed block:
        fd := OpenFile(<segkey>.bsu, O_APPEND|O_WRONLY|O_CREATE)
        blkSumBuf := make([]byte, BLOCK_SUMMARY_SIZE)                      -- a buffer of THIS call   (`Th.buf`)
        packedLen, blkSumBuf, err := EncodeBlocksum(&wipBlock.blockSummary, blkSumBuf[0:], …)   step "encode"
        fd.Write(blkSumBuf[:packedLen])                                                         step "write"
    Everything the two steps touch belongs to the store (wipBlock, SegmentKey) or to the call (the buffer, fd):
    there is NO cell shared between the flushes of different stores — regenerated fact `C11.flush.bsu.pkgvars`
    (tools/go2lean: the package-level variables flushBlockSummary and EncodeBlocksum refer to: none).
    `Cfg.sharedWorkBuf` is the variant in which the buffer is ONE package-level cell (kept across flushes "because
    the function runs with the segstore lock held" — the lock is per store): the counterexample theorems are about it.

A thread = the flush of one store in the current round; its program: idle → (started, about to encode) → (encoded,
about to write) → done.  A schedule is a list of store numbers "whose flush moves next"; a token for a finished
flush does nothing.  `cur j` = the summary (time range, record count) of the block store j is flushing.  At the end
of a round the flushes are completed one after the other in store order (`drain`).
Core Lean only.
-/
namespace SigModel.ConcFlush

/-- what a block summary says: time range and record count of the block -/
structure Sum where
  lo : Nat
  hi : Nat
  cnt : Nat
deriving DecidableEq, Repr

inductive Pc where
  | idle | atEnc | atWr | done
deriving DecidableEq, Repr

/-- the flush of one store: program counter, the call's work buffer, the segment's .bsu file -/
structure Th where
  pc : Pc := .idle
  buf : Option Sum := none
  file : List Sum := []
deriving DecidableEq, Repr

structure Cfg where
  sharedBuf : Bool

/-- the code as it is: the buffer is allocated by the call -/
def Cfg.real : Cfg := ⟨false⟩

/-- one package-level work buffer for every store -/
def Cfg.sharedWorkBuf : Cfg := ⟨true⟩

structure St where
  th : Nat → Th
  shared : Option Sum := none

def init : St := { th := fun _ => {} }

def St.set (s : St) (j : Nat) (t : Th) : St := { s with th := fun k => if k = j then t else s.th k }

/-- the next step of the flush of store `j` -/
def step (c : Cfg) (cur : Nat → Sum) (s : St) (j : Nat) : St :=
  match (s.th j).pc with
  | .idle => s.set j { s.th j with pc := .atEnc }
  | .atEnc =>
    if c.sharedBuf then { (s.set j { s.th j with pc := .atWr }) with shared := some (cur j) }
    else s.set j { s.th j with pc := .atWr, buf := some (cur j) }
  | .atWr =>
    s.set j { s.th j with pc := .done,
                          file := (s.th j).file ++ (if c.sharedBuf then s.shared else (s.th j).buf).toList }
  | .done => s

def run (c : Cfg) (cur : Nat → Sum) (s : St) (sched : List Nat) : St := sched.foldl (step c cur) s

/-- the flush of store `j` runs to completion -/
def finish (c : Cfg) (cur : Nat → Sum) (s : St) (j : Nat) : St := step c cur (step c cur (step c cur s j) j) j

def drain (c : Cfg) (cur : Nat → Sum) (s : St) (n : Nat) : St := (List.range n).foldl (finish c cur) s

/-- a new round: every store has a new block to flush (files and the shared cell stay) -/
def newRound (s : St) : St := { s with th := fun k => { s.th k with pc := .idle, buf := none } }

/-- one round: the schedule, then the remaining flushes one after the other -/
def round (c : Cfg) (cur : Nat → Sum) (n : Nat) (s : St) (sched : List Nat) : St :=
  drain c cur (run c cur (newRound s) sched) n

/-- several rounds; `cur r j` = the block store j flushes in round r (rounds numbered from `r0`) -/
def rounds (c : Cfg) (cur : Nat → Nat → Sum) (n : Nat) : Nat → St → List (List Nat) → St
  | _, s, [] => s
  | r0, s, sched :: rest => rounds c cur n (r0 + 1) (round c (cur r0) n s sched) rest

/-- the blocks of the replay harness (harness/cmd/corr/c11_flush.go): store j receives 1 + (j+r) mod 3 events in
round r, with the timestamps j·1 000 000 + r·1000 + e -/
def harnessCur (r j : Nat) : Sum :=
  let cnt := 1 + (j + r) % 3
  { lo := j * 1000000 + r * 1000, hi := j * 1000000 + r * 1000 + (cnt - 1), cnt := cnt }

end SigModel.ConcFlush
