/-
Segment selection by time: which segments of the queried indexes a query has to read.

Mirrors (as they are):
  pkg/segment/metadata/metadata.go   bulkAddSegmentMicroIndex  (append the new segments to their table's slice, then sort every
                                     table's slice by LatestEpochMS DESCENDING: sort.Slice, not stable — `sortDesc`)
                                     FilterSegmentsByTime      (for every queried index that has a table: walk the WHOLE slice,
                                     keep the segments whose [EarliestEpochMS, LatestEpochMS] overlaps the range
                                     (TimeRange.CheckRangeOverLap, regenerated kernel) and whose org is the query's;
                                     counts: kept, walked — `filterRotated`)
  pkg/segment/writer/unrotatedquery.go FilterUnrotatedSegmentsInQuery (every open segment of a queried index — counted as
                                     checked — whose tsRange overlaps the range and whose org is the query's — `filterUnrotated`)
  pkg/segment/query/segquery.go      getAllSegmentsInQuery / getAllSegmentsInAggs: the unrotated requests first, then the
                                     rotated ones; an unrotated request whose key is also among the rotated ones is dropped
                                     (removeQSRsAlsoRotated; nothing is dropped when one of the two lists is empty — the same
                                     thing) — `collect`.  getAllUnrotatedSegments[InAggs] consult NOTHING but
                                     FilterUnrotatedSegmentsInQuery (facts C11.query.unrotated.steps / C11.aggs.unrotated.steps).

Two variants that are NOT the code are kept for the counterexample theorems of Props/C02.lean and Props/C11.lean:
`filterRotatedEarlyExit` (stop at the first non-overlapping segment of a table once an overlapping one was seen) and
`collectSkipUnrotated` (no unrotated requests when every queried index has rotated data ending at or after the range's end —
metadata.IsUnrotatedQueryNeeded, which no caller uses).
Core Lean only.
-/
import SigModel.Gen.TimeRange

namespace SigModel.SegSelect
open SigModel.Gen

/-- what the selection reads of a segment's metadata (rotated: SegMeta; open: UnrotatedSegmentInfo) -/
structure Seg where
  key : Nat
  table : Nat
  earliest : Int
  latest : Int
  org : Int
deriving Repr, DecidableEq

/-- sort.Slice(less = a.latest > b.latest) as an insertion sort; the order among equal `latest` is not fixed by Go — nothing
below depends on it -/
def insertDesc (s : Seg) : List Seg → List Seg
  | [] => [s]
  | x :: xs => if s.latest > x.latest then s :: x :: xs else x :: insertDesc s xs

def sortDesc (l : List Seg) : List Seg := l.foldr insertDesc []

/-- bulkAddSegmentMicroIndex on the slice of one table (new keys only: a key that is already known is merged into its entry
and keeps its time range) -/
def bulkAdd (tbl new : List Seg) : List Seg :=
  sortDesc (tbl ++ new.filter (fun s => !(tbl.any (·.key == s.key))))

/-- the slice of a table after the segments were added in the given bulks -/
def tableOf (bulks : List (List Seg)) (table : Nat) : List Seg :=
  bulks.foldl (fun tbl b => bulkAdd tbl (b.filter (·.table == table))) []

def overlaps (qs qe : Int) (s : Seg) : Bool := TimeRange_CheckRangeOverLap qe qs s.earliest s.latest

def keep (qs qe org : Int) (s : Seg) : Bool := overlaps qs qe s && s.org == org

/-- FilterSegmentsByTime over the given table slices -/
def filterRotated (qs qe org : Int) (indexes : List Nat) (tables : Nat → List Seg) : List Seg :=
  indexes.flatMap (fun ix => (tables ix).filter (keep qs qe org))

/-- its third result: the lengths of the slices walked -/
def checkedRotated (indexes : List Nat) (tables : Nat → List Seg) : Nat :=
  (indexes.map (fun ix => (tables ix).length)).sum

/-- FilterUnrotatedSegmentsInQuery -/
def filterUnrotated (qs qe org : Int) (indexes : List Nat) (open_ : List Seg) : List Seg :=
  open_.filter (fun u => indexes.contains u.table && keep qs qe org u)

def checkedUnrotated (indexes : List Nat) (open_ : List Seg) : Nat :=
  (open_.filter (fun u => indexes.contains u.table)).length

/-- getAllSegmentsInQuery / getAllSegmentsInAggs: (unrotated requests not also rotated) ++ rotated requests -/
def collect (qs qe org : Int) (indexes : List Nat) (tables : Nat → List Seg) (open_ : List Seg) : List Seg × List Seg :=
  let r := filterRotated qs qe org indexes tables
  let u := filterUnrotated qs qe org indexes open_
  (u.filter (fun x => !(r.any (·.key == x.key))), r)

/-! ### variants that are not the code (counterexample theorems only) -/

/-- the walk of one table that stops at the first segment not overlapping once an overlapping one was seen -/
def walkEarlyExit (qs qe org : Int) : Bool → List Seg → List Seg
  | _, [] => []
  | reached, s :: r =>
    if !overlaps qs qe s then (if reached then [] else walkEarlyExit qs qe org false r)
    else (if s.org == org then [s] else []) ++ walkEarlyExit qs qe org true r

def filterRotatedEarlyExit (qs qe org : Int) (indexes : List Nat) (tables : Nat → List Seg) : List Seg :=
  indexes.flatMap (fun ix => walkEarlyExit qs qe org false (tables ix))

/-- metadata.IsUnrotatedQueryNeeded -/
def unrotatedNeeded (qe : Int) (indexes : List Nat) (tables : Nat → List Seg) : Bool :=
  indexes.any (fun ix => match tables ix with
    | [] => true
    | s :: _ => decide (qe > s.latest))

def collectSkipUnrotated (qs qe org : Int) (indexes : List Nat) (tables : Nat → List Seg) (open_ : List Seg) : List Seg × List Seg :=
  if unrotatedNeeded qe indexes tables then collect qs qe org indexes tables open_
  else ([], filterRotated qs qe org indexes tables)

end SigModel.SegSelect
