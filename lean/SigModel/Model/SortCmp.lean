/-
Model of the `sort` comparator (C05), mirroring pkg/segment/query/processor/sortcommand.go AS IT IS:

  compareFloat (121-141)    exact: a == b → EQUAL, a < b → LESS, NaN after every number and equal to NaN,
                            otherwise GREATER.  (Until the fix of C05 it was `dtypeutils.AlmostEquals(a, b)`, i.e.
                            math.Abs(a - b) < 0.0001, → EQUAL; that comparator is kept below as `compareFloatOld`
                            only to state what was wrong with it.)
  compareString (133-143)   byte-wise string order
  getRank (145-182)         numeric < string < other; strings that look like floats (utils.MightBeFloat +
                            strconv.ParseFloat) are numeric under num / auto / ""
  compareValues (185-243)   rank OTHER always last (before the asc/desc flip), then rank, then value; flip for desc
  sortProcessor.less (255-267)  first key whose comparison is not EQUAL decides

Values (`sutils.CValueEnclosure`): signed/unsigned integers, float64, strings, bool, backfill.
float64 arithmetic is not re-implemented in the statements: the rounding function `rnd : Rat → Rat`
(round-to-nearest-even to binary64; used by `float64(int)`, and by `a - b` and the literal 0.0001 of the OLD
comparator) is a PARAMETER of the model.  The Oracle instantiates it with `roundF64` below; the correspondence run checks that
instance against the Go arithmetic.  Overflow to ±Inf inside `a - b` is not modelled (generators stay far
below 2^1000).  External library results travel with the value: `strconv.ParseFloat(s, 64)` for a string
(`pf`, none = error) and `fmt.Sprintf("%f", f)` for a float (`txt`).
Strings are byte lists.  Core Lean only.
-/
namespace SigModel.SortCmp

/-- a float64 value -/
inductive Flt where
  | nan
  | pinf
  | ninf
  | fin (q : Rat)
deriving DecidableEq, Repr

/-- Go `a < b` on float64 -/
def Flt.lt : Flt → Flt → Bool
  | .nan, _ => false
  | _, .nan => false
  | .pinf, _ => false
  | _, .pinf => true
  | _, .ninf => false
  | .ninf, _ => true
  | .fin a, .fin b => decide (a < b)

/-- Go `a == b` on float64 (NaN is equal to nothing, -0 == +0) -/
def Flt.eq : Flt → Flt → Bool
  | .pinf, .pinf => true
  | .ninf, .ninf => true
  | .fin a, .fin b => decide (a = b)
  | _, _ => false

def Flt.isNaN : Flt → Bool
  | .nan => true
  | _ => false

inductive Cmp where
  | equal
  | less
  | greater
deriving DecidableEq, Repr

/-- `compareFloat` -/
def compareFloat (a b : Flt) : Cmp :=
  if a.eq b then .equal
  else if a.lt b then .less
  else if a.isNaN || b.isNaN then
    (if a.isNaN && b.isNaN then .equal else if b.isNaN then .less else .greater)
  else .greater

/-! #### the comparator before the fix (kept for the counterexample theorems only) -/

def absR (x : Rat) : Rat := if x < 0 then -x else x

/-- the literal `tolerance := 0.0001` in dtypeutils.AlmostEquals -/
def tolerance : Rat := 1 / 10000

/-- `dtypeutils.AlmostEquals`: `math.Abs(left - right) < tolerance`; any NaN/Inf operand gives a NaN/Inf
difference, which is not below the tolerance -/
def almostEq (rnd : Rat → Rat) : Flt → Flt → Bool
  | .fin a, .fin b => decide (absR (rnd (a - b)) < rnd tolerance)
  | _, _ => false

/-- `compareFloat` as it was: EQUAL when AlmostEquals -/
def compareFloatOld (rnd : Rat → Rat) (a b : Flt) : Cmp :=
  if almostEq rnd a b then .equal else if a.lt b then .less else .greater

def bytesLt : List Nat → List Nat → Bool
  | [], [] => false
  | [], _ :: _ => true
  | _ :: _, [] => false
  | a :: as, b :: bs => if a < b then true else if b < a then false else bytesLt as bs

/-- `compareString` -/
def compareString (a b : List Nat) : Cmp :=
  if a = b then .equal else if bytesLt a b then .less else .greater

inductive Val where
  | int (i : Int)                                 -- SS_DT_SIGNED_NUM / SS_DT_UNSIGNED_NUM
  | float (f : Flt) (txt : List Nat)              -- SS_DT_FLOAT, txt = fmt.Sprintf("%f", f)
  | str (b : List Nat) (pf : Option Flt)          -- SS_DT_STRING, pf = strconv.ParseFloat(b, 64)
  | bool (b : Bool)                               -- SS_DT_BOOL
  | null                                          -- SS_DT_BACKFILL / SS_INVALID
deriving DecidableEq, Repr

/-- the sort option of one key: "num" | "auto" | "" ; "str" ; anything else -/
inductive SortOp where
  | num
  | str
  | other
deriving DecidableEq, Repr

inductive Rank where
  | numeric
  | string
  | other
deriving DecidableEq, Repr

def Rank.toNat : Rank → Nat
  | .numeric => 1
  | .string => 2
  | .other => 3

def asciiBytes (s : String) : List Nat := s.toUTF8.toList.map (·.toNat)

/-- `utils.MightBeFloat` (pkg/utils/stringutils.go:81) -/
def mightBeFloat (b : List Nat) : Bool :=
  if b.isEmpty then false
  else if b = asciiBytes "NaN" || b = asciiBytes "nan" || b = asciiBytes "Inf" || b = asciiBytes "inf"
       || b = asciiBytes "-Inf" || b = asciiBytes "-inf" then true
  else b.all (fun c => (48 ≤ c && c ≤ 57) || c = 46 || c = 45 || c = 43 || c = 101 || c = 69)

/-- `getRank` -/
def getRank (v : Val) (op : SortOp) : Rank :=
  match v with
  | .null => .other
  | .int _ | .float _ _ =>
    match op with
    | .str => .string
    | _ => .numeric
  | .str b pf =>
    match op with
    | .num => if mightBeFloat b && pf.isSome then .numeric else .string
    | _ => .string
  | .bool _ => .string

/-- `GetFloatValueIfPossible` -/
def floatOf (rnd : Rat → Rat) : Val → Option Flt
  | .str b pf => if mightBeFloat b then pf else none
  | .int i => some (.fin (rnd i))
  | .float f _ => some f
  | _ => none

/-- `GetValueAsString` (never fails for the modelled dtypes) -/
def strOf : Val → List Nat
  | .str b _ => b
  | .int i => asciiBytes (toString i)
  | .float _ txt => txt
  | .bool b => asciiBytes (if b then "true" else "false")
  | .null => []

def Cmp.flip : Cmp → Cmp
  | .less => .greater
  | .greater => .less
  | .equal => .equal

/-- `compareValues`, with the float comparison it calls as a parameter -/
def compareValuesWith (cf : Flt → Flt → Cmp) (rnd : Rat → Rat) (a b : Val) (asc : Bool) (op : SortOp) : Cmp :=
  let ra := getRank a op
  let rb := getRank b op
  if ra = .other && rb = .other then .equal
  else if ra = .other then .greater
  else if rb = .other then .less
  else
    let flipIf (c : Cmp) : Cmp := if asc then c else c.flip
    if ra.toNat < rb.toNat then flipIf .less
    else if ra.toNat > rb.toNat then flipIf .greater
    else match ra with
      | .numeric =>
        match floatOf rnd a, floatOf rnd b with
        | none, _ => .greater          -- early `return GREATER`, not flipped (unreachable for rank numeric)
        | some _, none => .less        -- early `return LESS`
        | some fa, some fb => flipIf (cf fa fb)
      | .string => flipIf (compareString (strOf a) (strOf b))
      | .other => flipIf .less

/-- `compareValues` -/
def compareValues (rnd : Rat → Rat) (a b : Val) (asc : Bool) (op : SortOp) : Cmp :=
  compareValuesWith compareFloat rnd a b asc op

/-- `sortProcessor.less`: records are the lists of their sort-key values, parallel to the keys -/
def lessWith (cf : Flt → Flt → Cmp) (rnd : Rat → Rat) : List (Bool × SortOp) → List Val → List Val → Bool
  | (asc, op) :: ks, a :: as, b :: bs =>
    match compareValuesWith cf rnd a b asc op with
    | .equal => lessWith cf rnd ks as bs
    | c => c == .less
  | _, _, _ => false

def less (rnd : Rat → Rat) : List (Bool × SortOp) → List Val → List Val → Bool := lessWith compareFloat rnd

/-- `less` before the fix -/
def lessOld (rnd : Rat → Rat) : List (Bool × SortOp) → List Val → List Val → Bool :=
  lessWith (compareFloatOld rnd) rnd

/-! ### the concrete rounding used by the Oracle -/

def pow2 (e : Int) : Rat := if e ≥ 0 then ((2 ^ e.toNat : Nat) : Rat) else 1 / ((2 ^ (-e).toNat : Nat) : Rat)

/-- ⌊log2 a⌋ for a positive rational -/
def floorLog2 (a : Rat) : Int :=
  let n := a.num.toNat
  let d := a.den
  let e0 : Int := (Nat.log2 n : Int) - (Nat.log2 d : Int)
  -- 2^(e0-1) < a < 2^(e0+1)
  if pow2 e0 ≤ a then e0 else e0 - 1

/-- round to nearest binary64, ties to even (normal and subnormal range; no overflow) -/
def roundF64 (x : Rat) : Rat :=
  if x = 0 then 0 else
  let neg := decide (x < 0)
  let a := if neg then -x else x
  let e := floorLog2 a
  let u : Int := if e - 52 < -1074 then -1074 else e - 52
  let q := a / pow2 u
  let fl := q.floor
  let rem := q - (fl : Rat)
  let r : Int := if rem < 1 / 2 then fl else if rem > 1 / 2 then fl + 1 else if fl % 2 = 0 then fl else fl + 1
  let res := (r : Rat) * pow2 u
  if neg then -res else res

end SigModel.SortCmp
