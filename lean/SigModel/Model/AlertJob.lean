/-
Model of the alert evaluation state machine ACROSS JOB LIFETIMES (C20): which copy of the alert each
decision reads.  Three copies of an alert exist at run time:

  (J) the `*alertutils.AlertDetails` object a cron job holds — the argument `AddCronJob(alertDataObj)`
      hands to `s.Every(..).DoWithJobDetails(evaluateFunc, alertDataObj)` (cronJobHandler.go 52-75).  It is a
      copy of the all_alerts row taken when the job was created and is NEVER refreshed afterwards:
        · `ProcessCreateAlertRequest`  (alertsHandler.go 171-177)  the struct `CreateAlert` returned (State Inactive)
        · `InitAlertingService`        (alertsHandler.go 645-672)  `GetAlert(id)` at start-up  → restart
        · `ProcessUpdateAlertRequest`  (alertsHandler.go 406-459)  `GetAlert(id)` + the edited fields, saved with
          `UpdateAlert`, one history row "Config Modified" (AlertState = zero value = Inactive), then
          `RemoveCronJob` + `AddCronJob(alertToBeUpdated)`                                       → edit
  (R) the all_alerts row:  eval_window, eval_interval, silence_minutes, state
  (H) the tables alert_history_details (one row per evaluation / config change) and notification_details
      (cooldown_period, last_sent_time, last_alert_state).

One evaluation = `handleAlertCondition(J, matched, msg)` (cronJobHandler.go 185-227):
  · `shouldUpdateAlertStateToFiring(J, Pending)` reads  J.EvalWindow / J.EvalInterval  and the newest
    N-1 rows of (H) for J.AlertId — it does NOT read J.State, nor (R);
  · `NotifyAlertHandlerRequest(J.AlertId, …)` re-reads (R) with `GetAlert` (notificationHandler.go 45) and takes
    SilenceMinutes from THAT, cool-down / last sent time / last sent state from (H);
  · `updateAlertStateAndCreateAlertHistory` writes R.state, one row of (H) and — only when a notification was
    delivered — the notification row.
`ProcessSilenceAlertRequest` / `ProcessUnsilenceAlertRequest` (alertsHandler.go 188-252) write R.silence_minutes
and do not touch the job (a request for 0 minutes is refused).  `ProcessUpdateAlertRequest` refuses
EvalWindow < EvalInterval before anything is written.

The per-evaluation kernel is `SigModel.Alert.evalStep` (Model/Alert.lean) applied to the configuration the
code reads at that moment (`jobCfg`).  `Job.state` and `Job.silence` are carried although no decision reads
them: that nothing depends on them is a THEOREM (Props.C20 `state_independent_of_job_recreation`).
Core Lean only.
-/
import SigModel.Model.Alert

namespace SigModel.AlertJob
open SigModel.Alert

/-- (J) the object captured by the cron job -/
structure Job where
  window   : Nat      -- J.EvalWindow
  interval : Nat      -- J.EvalInterval
  silence  : Nat      -- J.SilenceMinutes   (stale copy)
  state    : AState   -- J.State            (stale copy)
deriving Repr, DecidableEq

structure World where
  st       : St := {}   -- R.state, history rows, notification row (last sent state / time)
  window   : Nat        -- R.eval_window
  interval : Nat        -- R.eval_interval
  silence  : Nat := 0   -- R.silence_minutes
  cooldown : Nat := 0   -- notification_details.cooldown_period
  job      : Job        -- (J)
  now      : Nat := 0
deriving Repr, DecidableEq

/-- `GetAlert(id)`: the copy of the row a new job is given -/
def capture (w : World) : Job :=
  { window := w.window, interval := w.interval, silence := w.silence, state := w.st.state }

/-- the configuration one evaluation reads: N from (J); silence from (R); cool-down from (H) -/
def jobCfg (w : World) : Cfg :=
  { window := w.job.window, interval := w.job.interval, cooldown := w.cooldown, silence := w.silence }

inductive Op where
  | eval (matched sendOk : Bool)    -- the job runs once: handleAlertCondition(J, matched, _)
  | tick (minutes : Nat)            -- time passes
  | restart                         -- new process: InitAlertingService re-creates the job from (R)
  | edit (window interval : Nat)    -- ProcessUpdateAlertRequest
  | silence (minutes : Nat)         -- ProcessSilenceAlertRequest
  | unsilence                       -- ProcessUnsilenceAlertRequest
deriving Repr, DecidableEq

/-- `ProcessUpdateAlertRequest`: "EvalWindow should be greater than or equal to EvalInterval" -/
def editAccepted (window interval : Nat) : Bool := !decide (window < interval)

/-- `processAlertSilence`: "SilenceMinutes must be greater than zero" -/
def silenceAccepted (minutes : Nat) : Bool := !decide (minutes = 0)

def step (w : World) : Op → World × Option Out
  | .eval m ok =>
    let r := evalStep (jobCfg w) w.st w.now m ok
    ({ w with st := r.1 }, some r.2)
  | .tick k => ({ w with now := w.now + k }, none)
  | .restart => ({ w with job := capture w }, none)
  | .edit win int =>
    if editAccepted win int then
      let w1 : World := { w with window := win, interval := int, st := configChange w.st }
      ({ w1 with job := capture w1 }, none)
    else (w, none)
  | .silence k => if silenceAccepted k then ({ w with silence := k }, none) else (w, none)
  | .unsilence => ({ w with silence := 0 }, none)

/-- run an operation list; evaluation outputs in chronological order -/
def run : World → List Op → World × List Out
  | w, [] => (w, [])
  | w, op :: ops =>
    let r := step w op
    let r2 := run r.1 ops
    (r2.1, r.2.toList ++ r2.2)

/-- `ProcessCreateAlertRequest` at clock `t0` (the cool-down is a column no request sets; the harness sets it
right after the creation) -/
def create (window interval cooldown t0 : Nat) : World :=
  { window := window, interval := interval, cooldown := cooldown, now := t0,
    job := { window := window, interval := interval, silence := 0, state := .inactive } }

end SigModel.AlertJob
