/-
Model of the Elasticsearch bulk handler (C15), mirroring pkg/es/writer/esBulkHandler.go HandleBulkBody
(after the two `fix:` commits: loop exit only when the body is exhausted; oversize flag per action, 413 counts as error).

Part 1, lines 156-263 — the per-line loop: action parsing, per-item status, the flags `success`,
`overallError`, `maxRecordSizeExceeded` with their ACTUAL lifetimes, the loop-exit test on the remaining bytes,
the index-name gate (`vtable.IsValidIndexName`) and the slice `allPLEs` of accepted documents, each carrying the
index name of ITS action (`ple.GetIndexName()`).
Part 2, lines 265-277 + ProcessIndexRequestPle (lines 369-425) — what happens to the accepted documents after the
loop: `utils.ConvertSliceToMap(allPLEs, GetIndexName)` groups them into one batch per index name (each batch in
slice order), every batch is handed to `ProcessIndexRequestPle`, which re-checks that every event of the batch
carries the batch's index name, re-checks the name, resolves an alias to the real index
(`AddAndGetRealIndexName`) and calls the store (`writer.AddEntryToInMemBuf`).  An error of that call is ONLY
LOGGED (line 274, `// TODO: update atleastOneSuccess`): the items and the `errors` flag were fixed in the loop.
The store is a PARAMETER (`Env.store`), so are the index-name predicate and the alias table.
Go iterates the map of batches in arbitrary order; the model lists the batches in order of first occurrence —
every theorem is per index, and the suites print per index.

A body is the list of its lines (split at '\n'); each line is abstracted to what the loop looks at.  An index
name is a number (its slot in the request's table of names).  `.kibana` index names (a hook-only path that never
produces a PLE) are outside the model.
Core Lean only.
-/
namespace SigModel.Bulk

/-- result of `ExtractIndexAndValidateAction` on a line -/
inductive Kind where
  | index | create | update | other
deriving Repr, DecidableEq

structure Line where
  kind  : Kind      -- how the line classifies when read in action position
  len   : Nat       -- byte length
  docOk : Bool      -- `GetNewPLE` accepts it when read in document position
  id    : Nat       -- identity of the document (for `ples`)
  idx   : Nat       -- index name the line carries when read in action position (`_index`; absent = a name of its own)
deriving Repr, DecidableEq

inductive Status where
  | created   -- 201
  | failed    -- 400
  | tooLarge  -- 413
deriving Repr, DecidableEq

/-- what the handler's surroundings decide: the parameters of the model -/
structure Env where
  valid   : Nat → Bool                -- `vtable.IsValidIndexName` on the index name
  resolve : Nat → Nat                 -- `AddAndGetRealIndexName`: an alias is replaced by its index, any other name is kept
  store   : Nat → List Nat → Bool     -- `writer.AddEntryToInMemBuf(real index, documents)`: true = no error

/-- `utils.ReadLine` on the list-of-lines view: returns the line and the rest -/
def readLine : List Line → Line × List Line
  | [] => ({ kind := .other, len := 0, docOk := false, id := 0, idx := 0 }, [])
  | l :: r => (l, r)

/-- `len(remainingPostBody) == 0`: no bytes remain — nothing, or a single empty line -/
def remEmpty : List Line → Bool
  | [] => true
  | [l] => l.len == 0
  | _ => false

structure St where
  overallError : Bool := false
  success : Bool := false
  maxExceeded : Bool := false
  items : List Status := []          -- in order
  ples : List (Nat × Nat) := []      -- allPLEs: (index name of the action, document id), in order
  processed : Nat := 0
deriving Repr, DecidableEq

/-- code constant `MAX_RECORD_SIZE` (tied by go2lean facts) -/
def maxRecordSize : Nat := 63000

/-- one iteration of the `for` loop after the exit test (`maxRecordSizeExceeded` is reset per action) -/
def stepAction (env : Env) (s0 : St) (line : Line) (rest : List Line) : St × List Line :=
  let s := { s0 with maxExceeded := false }
  let (s1, rest1) : St × List Line :=
    match line.kind with
    | .index | .create =>
      let (doc, rest') := readLine rest
      if doc.len == 0 && remEmpty rest' then ({ s with success := false }, rest')
      else if !env.valid line.idx then ({ s with success := false }, rest')
      else if doc.len < maxRecordSize then
        let s' := { s with processed := s.processed + 1, success := true }
        if doc.docOk then ({ s' with ples := s'.ples ++ [(line.idx, doc.id)] }, rest')
        else ({ s' with success := false }, rest')
      else ({ s with success := false, maxExceeded := true }, rest')
    | .update =>
      let (_, rest') := readLine rest
      ({ s with success := false }, rest')
    | .other => ({ s with success := false }, rest)
  if !s1.success then
    if s1.maxExceeded then ({ s1 with overallError := true, items := s1.items ++ [.tooLarge] }, rest1)
    else ({ s1 with overallError := true, items := s1.items ++ [.failed] }, rest1)
  else ({ s1 with items := s1.items ++ [.created] }, rest1)

def loop (env : Env) : Nat → St → List Line → St
  | 0, s, _ => s
  | fuel+1, s, body =>
    let (line, rest) := readLine body
    if line.len == 0 && remEmpty rest then s
    else
      let (s', rest') := stepAction env s line rest
      loop env fuel s' rest'

/-- the loop of `HandleBulkBody` on a body given as its lines -/
def handle (env : Env) (body : List Line) : St := loop env (body.length + 1) {} body

/-! ### after the loop: batches per index, ProcessIndexRequestPle, the store -/

/-- the distinct values of a list in order of first occurrence (the keys of the map `ConvertSliceToMap` builds) -/
def keysOf : List Nat → List Nat
  | [] => []
  | k :: r => k :: (keysOf r).filter (· != k)

/-- `utils.ConvertSliceToMap(allPLEs, ple.GetIndexName)`: per index name the events carrying it, in slice order -/
def batches (ples : List (Nat × Nat)) : List (Nat × List (Nat × Nat)) :=
  (keysOf (ples.map (·.1))).map (fun k => (k, ples.filter (·.1 == k)))

/-- how a call of `ProcessIndexRequestPle` ends -/
inductive PleResult where
  | mismatch                 -- an event of the batch carries another index name: whole batch rejected, nothing stored
  | invalidIndex             -- the batch's index name is not a valid name: nothing stored
  | stored (real : Nat)      -- handed to the store under `real`, the store took it
  | refused (real : Nat)     -- handed to the store under `real`, the store returned an error
deriving Repr, DecidableEq

/-- `ProcessIndexRequestPle(indexNameIn, pleArray)` -/
def processPle (env : Env) (idx : Nat) (batch : List (Nat × Nat)) : PleResult :=
  if batch.any (·.1 != idx) then .mismatch
  else if !env.valid idx then .invalidIndex
  else
    let real := env.resolve idx
    if env.store real (batch.map (·.2)) then .stored real else .refused real

/-- one iteration of `for indexName, plesInBatch := range pleBatches` -/
structure Call where
  idx  : Nat                   -- the index name the batch is processed under
  docs : List (Nat × Nat)      -- the events of the batch, each with the index name IT carries
  res  : PleResult
deriving Repr, DecidableEq

structure Resp where
  st    : St                   -- `items`, `errors` and `processedCount` are those of the loop: no call changes them
  calls : List Call

/-- `HandleBulkBody` -/
def handleReq (env : Env) (body : List Line) : Resp :=
  let st := handle env body
  { st := st, calls := (batches st.ples).map (fun kb => { idx := kb.1, docs := kb.2, res := processPle env kb.1 kb.2 }) }

def Call.accepted (c : Call) : Bool :=
  match c.res with
  | .stored _ => true
  | _ => false

/-- the documents the store took for request index name `x`, in the order it got them -/
def Resp.storedUnder (r : Resp) (x : Nat) : List Nat :=
  ((r.calls.filter (fun c => c.idx == x && c.accepted)).flatMap (·.docs)).map (·.2)

/-- everything handed to `ProcessIndexRequestPle` under index name `x` -/
def Resp.handedUnder (r : Resp) (x : Nat) : List (Nat × Nat) :=
  (r.calls.filter (·.idx == x)).flatMap (·.docs)

end SigModel.Bulk
