/-
Model of the Elasticsearch bulk handler (C15), mirroring pkg/es/writer/esBulkHandler.go HandleBulkBody
(after the two `fix:` commits: loop exit only when the body is exhausted; oversize flag per action, 413 counts as error;
and with the repairs c15-3 — the items of a batch the store refused are answered 503 — and c15-5 — a `.kibana`
document that nothing stores is answered 400; the behaviour before them is `Version.old`).

Part 1, lines 156-263 — the per-line loop: action parsing, per-item status, the flags `success`,
`overallError`, `maxRecordSizeExceeded` with their ACTUAL lifetimes, the loop-exit test on the remaining bytes,
the index-name gate (`vtable.IsValidIndexName`) and the slice `allPLEs` of accepted documents, each carrying the
index name of ITS action (`ple.GetIndexName()`).
Part 2, lines 265-277 + ProcessIndexRequestPle (lines 369-425) — what happens to the accepted documents after the
loop: `utils.ConvertSliceToMap(allPLEs, GetIndexName)` groups them into one batch per index name (each batch in
slice order), every batch is handed to `ProcessIndexRequestPle`, which re-checks that every event of the batch
carries the batch's index name, re-checks the name, resolves an alias to the real index
(`AddAndGetRealIndexName`) and calls the store (`writer.AddEntryToInMemBuf`).  When that call returns an error the
item of every event of the batch (`itemOfPLE`) is overwritten with a 503 item, `errors` becomes true and the
events are taken off `numCreated` (the request as a whole fails when no created item is left).  Before c15-3
the error was only logged (`// TODO: update atleastOneSuccess`): `Version.old`.
The store is a PARAMETER (`Env.store`), so are the index-name predicate and the alias table.
Go iterates the map of batches in arbitrary order; the model lists the batches in order of first occurrence —
every theorem is per index, and the suites print per index.

A body is the list of its lines (split at '\n'); each line is abstracted to what the loop looks at.  An index
name is a number (its slot in the request's table of names).  `.kibana` index names never produce a PLE: the
document goes to `EsBulkIngestInternalHook` only; the model is the build without that hook (both callers pass
useIngestHook=false), where the item fails (before c15-5 it was answered created and the document dropped).
Core Lean only.
-/
namespace SigModel.Bulk

/-- result of `ExtractIndexAndValidateAction` on a line -/
inductive Kind where
  | index | create | update | other
deriving Repr, DecidableEq

structure Line where
  kind  : Kind      -- how the line classifies when read in action position
  len   : Nat       -- byte length
  docOk : Bool      -- `GetNewPLE` accepts it when read in document position
  id    : Nat       -- identity of the document (for `ples`)
  idx   : Nat       -- index name the line carries when read in action position (`_index`; absent = a name of its own)
deriving Repr, DecidableEq

inductive Status where
  | created      -- 201
  | failed       -- 400
  | tooLarge     -- 413
  | unavailable  -- 503: the store refused the batch of the item's index
deriving Repr, DecidableEq

/-- which code: the repaired one, or the behaviours before the repairs c15-3 / c15-5 -/
structure Version where
  kibanaAcked : Bool          -- before c15-5: a `.kibana` document was answered created and dropped
  storeErrorIgnored : Bool    -- before c15-3: an error of the store call was only logged
deriving Repr, DecidableEq

def Version.fixed : Version := { kibanaAcked := false, storeErrorIgnored := false }
def Version.old : Version := { kibanaAcked := true, storeErrorIgnored := true }

/-- an accepted event: (index name of its action, document id, position of its response item) -/
abbrev Ple := Nat × Nat × Nat

/-- what the handler's surroundings decide: the parameters of the model -/
structure Env where
  valid   : Nat → Bool                -- `vtable.IsValidIndexName` on the index name
  kibana  : Nat → Bool                -- `strings.Contains(indexName, ".kibana")`
  resolve : Nat → Nat                 -- `AddAndGetRealIndexName`: an alias is replaced by its index, any other name is kept
  store   : Nat → List Nat → Bool     -- `writer.AddEntryToInMemBuf(real index, documents)`: true = no error

/-- `utils.ReadLine` on the list-of-lines view: returns the line and the rest -/
def readLine : List Line → Line × List Line
  | [] => ({ kind := .other, len := 0, docOk := false, id := 0, idx := 0 }, [])
  | l :: r => (l, r)

/-- `len(remainingPostBody) == 0`: no bytes remain — nothing, or a single empty line -/
def remEmpty : List Line → Bool
  | [] => true
  | [l] => l.len == 0
  | _ => false

structure St where
  overallError : Bool := false
  success : Bool := false
  maxExceeded : Bool := false
  items : List Status := []          -- in order
  ples : List Ple := []              -- allPLEs with `itemOfPLE`, in order
  processed : Nat := 0
  numCreated : Nat := 0
deriving Repr, DecidableEq

/-- code constant `MAX_RECORD_SIZE` (tied by go2lean facts) -/
def maxRecordSize : Nat := 63000

/-- one iteration of the `for` loop after the exit test (`maxRecordSizeExceeded` is reset per action) -/
def stepAction (v : Version) (env : Env) (s0 : St) (line : Line) (rest : List Line) : St × List Line :=
  let s := { s0 with maxExceeded := false }
  let (s1, rest1) : St × List Line :=
    match line.kind with
    | .index | .create =>
      let (doc, rest') := readLine rest
      if doc.len == 0 && remEmpty rest' then ({ s with success := false }, rest')
      else if !env.valid line.idx then ({ s with success := false }, rest')
      else if doc.len < maxRecordSize then
        let s' := { s with processed := s.processed + 1, success := true }
        if env.kibana line.idx then
          -- no PLE; nothing stores the document (before c15-5: created unless the JSON decoder failed — `docOk`)
          if v.kibanaAcked && doc.docOk then (s', rest') else ({ s' with success := false }, rest')
        else if doc.docOk then ({ s' with ples := s'.ples ++ [(line.idx, doc.id, s'.items.length)] }, rest')
        else ({ s' with success := false }, rest')
      else ({ s with success := false, maxExceeded := true }, rest')
    | .update =>
      let (_, rest') := readLine rest
      ({ s with success := false }, rest')
    | .other => ({ s with success := false }, rest)
  if !s1.success then
    if s1.maxExceeded then ({ s1 with overallError := true, items := s1.items ++ [.tooLarge] }, rest1)
    else ({ s1 with overallError := true, items := s1.items ++ [.failed] }, rest1)
  else ({ s1 with items := s1.items ++ [.created], numCreated := s1.numCreated + 1 }, rest1)

def loop (v : Version) (env : Env) : Nat → St → List Line → St
  | 0, s, _ => s
  | fuel+1, s, body =>
    let (line, rest) := readLine body
    if line.len == 0 && remEmpty rest then s
    else
      let (s', rest') := stepAction v env s line rest
      loop v env fuel s' rest'

/-- the loop of `HandleBulkBody` on a body given as its lines -/
def handle (v : Version) (env : Env) (body : List Line) : St := loop v env (body.length + 1) {} body

/-! ### after the loop: batches per index, ProcessIndexRequestPle, the store -/

/-- the distinct values of a list in order of first occurrence (the keys of the map `ConvertSliceToMap` builds) -/
def keysOf : List Nat → List Nat
  | [] => []
  | k :: r => k :: (keysOf r).filter (· != k)

/-- `utils.ConvertSliceToMap(allPLEs, ple.GetIndexName)`: per index name the events carrying it, in slice order -/
def batches (ples : List Ple) : List (Nat × List Ple) :=
  (keysOf (ples.map (·.1))).map (fun k => (k, ples.filter (·.1 == k)))

/-- how a call of `ProcessIndexRequestPle` ends -/
inductive PleResult where
  | mismatch                 -- an event of the batch carries another index name: whole batch rejected, nothing stored
  | invalidIndex             -- the batch's index name is not a valid name: nothing stored
  | stored (real : Nat)      -- handed to the store under `real`, the store took it
  | refused (real : Nat)     -- handed to the store under `real`, the store returned an error
deriving Repr, DecidableEq

/-- `ProcessIndexRequestPle(indexNameIn, pleArray)` -/
def processPle (env : Env) (idx : Nat) (batch : List Ple) : PleResult :=
  if batch.any (·.1 != idx) then .mismatch
  else if !env.valid idx then .invalidIndex
  else
    let real := env.resolve idx
    if env.store real (batch.map (·.2.1)) then .stored real else .refused real

/-- one iteration of `for indexName, plesInBatch := range pleBatches` -/
structure Call where
  idx  : Nat                   -- the index name the batch is processed under
  docs : List Ple              -- the events of the batch, each with the index name IT carries
  res  : PleResult
deriving Repr, DecidableEq

def Call.accepted (c : Call) : Bool :=
  match c.res with
  | .stored _ => true
  | _ => false

/-- `for _, ple := range plesInBatch { items[itemOfPLE[ple]] = <503 item> }` -/
def markUnavailable (items : List Status) (batch : List Ple) : List Status :=
  batch.foldl (fun its p => its.set p.2.2 .unavailable) items

structure Resp where
  st    : St                   -- the state the loop left
  calls : List Call
  items : List Status          -- response["items"]
  errors : Bool                -- response["errors"]
  numCreated : Nat             -- the request as a whole fails ("all bulk requests failed") when this is 0

def callsOf (env : Env) (ples : List Ple) : List Call :=
  (batches ples).map (fun kb => { idx := kb.1, docs := kb.2, res := processPle env kb.1 kb.2 })

/-- `HandleBulkBody` -/
def handleReqV (v : Version) (env : Env) (body : List Line) : Resp :=
  let st := handle v env body
  let calls := callsOf env st.ples
  if v.storeErrorIgnored then
    { st := st, calls := calls, items := st.items, errors := st.overallError, numCreated := st.numCreated }
  else
    let failed := calls.filter (fun c => !c.accepted)
    { st := st, calls := calls
      items := failed.foldl (fun its c => markUnavailable its c.docs) st.items
      errors := st.overallError || !failed.isEmpty
      numCreated := failed.foldl (fun n c => n - c.docs.length) st.numCreated }

/-- the code as repaired -/
def handleReq (env : Env) (body : List Line) : Resp := handleReqV Version.fixed env body

/-- the code before the repairs c15-3 and c15-5 -/
def handleReqOld (env : Env) (body : List Line) : Resp := handleReqV Version.old env body

/-- the documents the store took for request index name `x`, in the order it got them -/
def Resp.storedUnder (r : Resp) (x : Nat) : List Nat :=
  ((r.calls.filter (fun c => c.idx == x && c.accepted)).flatMap (·.docs)).map (·.2.1)

/-- everything handed to `ProcessIndexRequestPle` under index name `x` -/
def Resp.handedUnder (r : Resp) (x : Nat) : List Ple :=
  (r.calls.filter (·.idx == x)).flatMap (·.docs)

end SigModel.Bulk
