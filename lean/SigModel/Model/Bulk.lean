/-
Model of the Elasticsearch bulk loop (C15), mirroring pkg/es/writer/esBulkHandler.go HandleBulkBody
lines 156-262 (after the two `fix:` commits: loop exit only when the body is exhausted; oversize flag per action, 413 counts as error): per-line action parsing, per-item status, the flags `success`, `overallError`,
`maxRecordSizeExceeded` with their ACTUAL lifetimes, and the loop-exit test on the remaining bytes.
A body is the list of its lines (split at '\n'); each line is abstracted to what the loop looks at.
Core Lean only.
-/
namespace SigModel.Bulk

/-- result of `ExtractIndexAndValidateAction` on a line -/
inductive Kind where
  | index | create | update | other
deriving Repr, DecidableEq

structure Line where
  kind  : Kind      -- how the line classifies when read in action position
  len   : Nat       -- byte length
  docOk : Bool      -- `GetNewPLE` accepts it when read in document position
  id    : Nat       -- identity of the document (for `stored`)
deriving Repr, DecidableEq

inductive Status where
  | created   -- 201
  | failed    -- 400
  | tooLarge  -- 413
deriving Repr, DecidableEq

/-- `utils.ReadLine` on the list-of-lines view: returns the line and the rest -/
def readLine : List Line → Line × List Line
  | [] => ({ kind := .other, len := 0, docOk := false, id := 0 }, [])
  | l :: r => (l, r)

/-- `len(remainingPostBody) == 0`: no bytes remain — nothing, or a single empty line -/
def remEmpty : List Line → Bool
  | [] => true
  | [l] => l.len == 0
  | _ => false

structure St where
  overallError : Bool := false
  success : Bool := false
  maxExceeded : Bool := false
  items : List Status := []      -- in order
  stored : List Nat := []        -- ids handed to ProcessIndexRequestPle, in order
  processed : Nat := 0
deriving Repr, DecidableEq

/-- code constant `MAX_RECORD_SIZE` (tied by go2lean facts) -/
def maxRecordSize : Nat := 63000

/-- one iteration of the `for` loop after the exit test (`maxRecordSizeExceeded` is reset per action) -/
def stepAction (s0 : St) (line : Line) (rest : List Line) : St × List Line :=
  let s := { s0 with maxExceeded := false }
  let (s1, rest1) : St × List Line :=
    match line.kind with
    | .index | .create =>
      let (doc, rest') := readLine rest
      if doc.len == 0 && remEmpty rest' then ({ s with success := false }, rest')
      else if doc.len < maxRecordSize then
        let s' := { s with processed := s.processed + 1, success := true }
        if doc.docOk then ({ s' with stored := s'.stored ++ [doc.id] }, rest')
        else ({ s' with success := false }, rest')
      else ({ s with success := false, maxExceeded := true }, rest')
    | .update =>
      let (_, rest') := readLine rest
      ({ s with success := false }, rest')
    | .other => ({ s with success := false }, rest)
  if !s1.success then
    if s1.maxExceeded then ({ s1 with overallError := true, items := s1.items ++ [.tooLarge] }, rest1)
    else ({ s1 with overallError := true, items := s1.items ++ [.failed] }, rest1)
  else ({ s1 with items := s1.items ++ [.created] }, rest1)

def loop : Nat → St → List Line → St
  | 0, s, _ => s
  | fuel+1, s, body =>
    let (line, rest) := readLine body
    if line.len == 0 && remEmpty rest then s
    else
      let (s', rest') := stepAction s line rest
      loop fuel s' rest'

/-- `HandleBulkBody` on a body given as its lines -/
def handle (body : List Line) : St := loop (body.length + 1) {} body

end SigModel.Bulk
