/-
C12 — trace views (kernel part).  Core Lean only (linked into the `oracle` executable).

Mirrors, quirks included:
  * pkg/segment/tracing/utils/buildspantree.go        `BuildSpanTree`                       (l. 28-101)
  * pkg/segment/tracing/utils/lineartimefinding.go    `FindPercentileData`, `quickSelect`,
      `pickPivot`, `nLogNMedian`, `QuickSelectMedian`, `chunked`                            (l. 33-150)
  * pkg/segment/tracing/handler/tracehandler.go       the fold of `MakeTracesDependancyGraph`
      (l. 713-735) and the fold of `ProcessRedTracesIngest` (l. 527-616)

Conventions
  * span ids / service names are strings in Go; here they are `Nat`s.  The harness maps id `n>0` to the
    16-digit lower-case hex string (string order = numeric order, as for real 8-byte span ids) and
    id / parent `0` to the empty string "" (parent "" = no parent).
  * `noEntry = true`: the span id has no entry in `idToParentId` (reachable through the kernel function
    only; the handler always fills the entry).
  * the two Go maps `spanMap` / `idToParentId` are built from the span list with "last one wins"
    (`toMap`), as map assignment in `ProcessGanttChartRequest` does.
  * uint64 arithmetic wraps (`wsub`).  float64 arithmetic is modelled EXACTLY: a non-negative double is
    the dyadic rational `m·2^e` (`Dy`), every operation is the exact rational operation followed by
    round-to-nearest-even to 53 bits (`rnd`; operands < 2^4096).  Domain: finite, non-negative, normal range (everything the
    kernels compute from durations < 2^63 is in that range); `Dy.bits` gives the IEEE-754 bit pattern.
  * Go's `range` over a map is unordered: when several spans have an empty parent, "the last one visited"
    becomes the root.  The model takes the choice as the parameter `pick` (an index into the candidates in
    (start,id) order); everything else of `BuildSpanTree` does not depend on map order.
  * the `op`(eration name) of a span is carried through untouched by all four kernels and is left out.
-/
namespace SigModel.Trace

structure Span where
  id : Nat
  parent : Nat
  noEntry : Bool := false
  service : Nat
  start : Nat
  end_ : Nat
  error : Bool
deriving Repr, DecidableEq, Inhabited

def W : Nat := 2 ^ 64

/-- uint64 subtraction -/
def wsub (a b : Nat) : Nat := (a % W + (W - b % W)) % W

/-! ## generic helpers (structural, so that closed examples evaluate by `decide`) -/

def insertBy {α} (le : α → α → Bool) (a : α) : List α → List α
  | [] => [a]
  | b :: l => if le a b then a :: b :: l else b :: insertBy le a l

/-- insertion sort; the Go code uses `sort.Slice` with comparators that are total orders on the data at
hand (keys are unique or equal elements are indistinguishable), so every correct sort gives this result -/
def isort {α} (le : α → α → Bool) : List α → List α
  | [] => []
  | a :: l => insertBy le a (isort le l)

/-- distinct elements (the last occurrence is kept) -/
def uniq {α} [BEq α] : List α → List α
  | [] => []
  | a :: l => if l.contains a then uniq l else a :: uniq l

/-- ⌊log₂ n⌋ for n < 2^fuel (0 for n = 0) -/
def lg2 : Nat → Nat → Nat
  | 0, _ => 0
  | f + 1, n => if n ≥ 2 then lg2 f (n / 2) + 1 else 0

/-! ## span map, sort order -/

/-- map assignment, last one wins; the result has one span per id (its order is irrelevant: Go map) -/
def toMap : List Span → List Span
  | [] => []
  | s :: r => if r.any (fun t => t.id == s.id) then toMap r else s :: toMap r

/-- `sort.Slice` comparator of BuildSpanTree: by start time, ties by span id (made reflexive/total) -/
def spanLe (a b : Span) : Bool := a.start < b.start || (a.start == b.start && a.id ≤ b.id)

def sortSpans (m : List Span) : List Span := isort spanLe m

/-- spans that the first loop of BuildSpanTree accepts as root: entry present and parent = "" -/
def isCand (s : Span) : Bool := !s.noEntry && s.parent == 0

def cands (m : List Span) : List Span := (sortSpans m).filter isCand

/-- the span that ends up in `res` (none: no candidate) -/
def pickRoot (m : List Span) (pick : Nat) : Option Span :=
  let cs := cands m
  if cs.isEmpty then none else cs[pick % cs.length]?

/-- second loop: span `c` is appended to `spanMap[pid].Children` -/
def attachedTo (m : List Span) (pid : Nat) (c : Span) : Bool :=
  c.parent == pid && !c.noEntry && c.parent != 0 && m.any (fun p => p.id == pid)

/-- `Children` of span `pid` after BuildSpanTree, in append order (= (start,id) order);
`srt` is the sorted span slice -/
def kidsOfS (srt m : List Span) (pid : Nat) : List Nat :=
  (srt.filter (attachedTo m pid)).map (·.id)

def kidsOf (m : List Span) (pid : Nat) : List Nat := kidsOfS (sortSpans m) m pid

structure Node where
  id : Nat
  actual : Nat
  relStart : Nat
  relEnd : Nat
  anom : Bool
  kids : List Nat
deriving Repr, DecidableEq

/-- `IsAnomalous` as computed in the second loop.  The parent's fields have already been rewritten iff the
parent sorts at or before the child (`spanLe p c`; a self-parent reads its own rewritten fields). -/
def anomOf (m : List Span) (rootStart : Nat) (c : Span) : Bool :=
  if c.noEntry || c.parent == 0 then false else
  match m.find? (fun p => p.id == c.parent) with
  | none => false
  | some p =>
    let pst := if spanLe p c then (if p.start != 0 then p.start else wsub p.start rootStart) else p.start
    c.start < pst || c.start < rootStart

def nodeOf (srt m : List Span) (rootStart : Nat) (s : Span) : Node :=
  { id := s.id, actual := s.start, relStart := wsub s.start rootStart, relEnd := wsub s.end_ rootStart,
    anom := anomOf m rootStart s, kids := kidsOfS srt m s.id }

/-- BuildSpanTree on the maps built from `spans`.  `none` = error "can not find a root span" (nothing was
rewritten); otherwise the root id and all spans of the map (in (start,id) order) as rewritten. -/
def buildTree (spans : List Span) (pick : Nat) : Option (Nat × List Node) :=
  let m := toMap spans
  match pickRoot m pick with
  | none => none
  | some r =>
    if r.id == 0 then none          -- `res.SpanID == ""`
    else let srt := sortSpans m; some (r.id, srt.map (nodeOf srt m r.start))

/-- what a recursive walk over `Children` (JSON marshalling) visits, as (parent, id) pairs in preorder;
fuel-bounded because the pointer graph as a whole may be cyclic. The parent slot of the root is 0. -/
def render (kids : Nat → List Nat) : Nat → Nat → Nat → List (Nat × Nat)
  | 0, _, _ => []
  | f + 1, p, x => (p, x) :: (kids x).flatMap (render kids f x)

/-- the view returned to the client: preorder (parent,id) pairs from the root -/
def treeView (spans : List Span) (pick : Nat) : Option (List (Nat × Nat)) :=
  match buildTree spans pick with
  | none => none
  | some (r, _) =>
    let m := toMap spans
    let srt := sortSpans m
    some (render (kidsOfS srt m) (m.length + 1) 0 r)

/-! ## quick-select as coded -/

def sortN (l : List Nat) : List Nat := isort (fun a b => decide (a ≤ b)) l

/-- effect of `pickPivot`'s in-place sorts of the full 5-chunks on the array (len ≥ 5) -/
def chunkSort : List Nat → List Nat
  | a :: b :: c :: d :: e :: rest => sortN [a, b, c, d, e] ++ chunkSort rest
  | l => l

/-- `medians[i] = group[2]` over the full 5-chunks -/
def medians5 : List Nat → List Nat
  | a :: b :: c :: d :: e :: rest => (sortN [a, b, c, d, e]).getD 2 0 :: medians5 rest
  | _ => []

/-- the array after `pickPivot` returned (len < 5: `nLogNMedian` sorts all of it) -/
def mutate (arr : List Nat) : List Nat := if arr.length < 5 then sortN arr else chunkSort arr

/-- `nLogNMedian` on the sorted array -/
def medianSmall (s : List Nat) : Nat :=
  if s.length % 2 == 1 then s.getD (s.length / 2) 0 else (s.getD (s.length / 2 - 1) 0 + s.getD (s.length / 2) 0) / 2

/-- `pickPivot(arr)` for len ≥ 2; `sel` = the recursive `quickSelect` (one level less fuel).
`QuickSelectMedian` runs its second selection on the slice as the first one left it (`mutate`). -/
def pivotOf (sel : List Nat → Nat → Option Nat) (arr : List Nat) : Option Nat :=
  if arr.length < 5 then some (medianSmall (sortN arr))
  else
    let ms := medians5 arr
    let n := ms.length
    if n % 2 == 1 then sel ms (n / 2)
    else match sel ms (n / 2 - 1), sel (mutate ms) (n / 2) with
      | some a, some b => some ((a + b) / 2)
      | _, _ => none

/-- the partition loop and the three-way branch of `quickSelect` -/
def partStep (sel : List Nat → Nat → Option Nat) (arr' : List Nat) (k pivot : Nat) : Option Nat :=
  let lows := arr'.filter (fun el => decide (el < pivot))
  let highs := arr'.filter (fun el => decide (pivot < el))
  let pivots := arr'.filter (fun el => !(decide (el < pivot)) && !(decide (pivot < el)))
  if k < lows.length then sel lows k
  else if k < lows.length + pivots.length then pivots.head?
  else sel highs (k - lows.length - pivots.length)

/-- `quickSelect(arr, k, _)`; the `rand` argument is unused by the Go code, the pivot is deterministic.
`none`: fuel exhausted (= the Go recursion would not return) or empty array (Go: index panic).
Elements are `Nat`: the Oracle admits values < 2^63 only, so `(a+b)/2` never wraps. -/
def qsel : Nat → List Nat → Nat → Option Nat
  | 0, _, _ => none
  | _ + 1, [], _ => none
  | _ + 1, [x], _ => some x
  | f + 1, x :: y :: rest, k =>
    match pivotOf (qsel f) (x :: y :: rest) with
    | none => none
    | some pivot => partStep (qsel f) (mutate (x :: y :: rest)) k pivot

def quickSelect (arr : List Nat) (k : Nat) : Option Nat := qsel arr.length arr k

/-- the caller's slice after `quickSelect` returned -/
def afterSelect (arr : List Nat) : List Nat := if arr.length ≤ 1 then arr else mutate arr

/-! ## exact float64 arithmetic on non-negative values -/

/-- the non-negative dyadic rational `m·2^e` -/
structure Dy where
  m : Nat
  e : Int
deriving Repr, DecidableEq

namespace Dy
def zero : Dy := ⟨0, 0⟩

def pow2 (n : Nat) : Nat := 2 ^ n

/-- round-to-nearest-even of `num/den · 2^e` to a 53-bit significand (den > 0) -/
def rnd (num den : Nat) (e : Int) : Dy :=
  if num == 0 || den == 0 then zero else
  -- first guess of the shift s with 2^52 ≤ num·2^s/den < 2^53
  let s0 : Int := 52 - ((lg2 4096 num : Int) - (lg2 4096 den : Int))
  let q0 := (num * pow2 s0.toNat) / (den * pow2 (-s0).toNat)
  let s : Int := if q0 ≥ pow2 53 then s0 - 1 else if q0 < pow2 52 then s0 + 1 else s0
  let n' := num * pow2 s.toNat
  let d' := den * pow2 (-s).toNat
  let q := n' / d'
  let r := n' % d'
  let q := if 2 * r > d' || (2 * r == d' && q % 2 == 1) then q + 1 else q
  ⟨q, e - s⟩

def ofNat (n : Nat) : Dy := rnd n 1 0

/-- common exponent -/
def align (a b : Dy) : Nat × Nat × Int :=
  let e := if a.e ≤ b.e then a.e else b.e
  (a.m * pow2 (a.e - e).toNat, b.m * pow2 (b.e - e).toNat, e)

def add (a b : Dy) : Dy := let (x, y, e) := align a b; rnd (x + y) 1 e
/-- a - b for a ≥ b (saturating at 0: negative intermediate values do not occur in the kernels) -/
def sub (a b : Dy) : Dy := let (x, y, e) := align a b; rnd (x - y) 1 e
def mul (a b : Dy) : Dy := rnd (a.m * b.m) 1 (a.e + b.e)
def div (a b : Dy) : Dy := rnd a.m b.m (a.e - b.e)

def floor (a : Dy) : Nat := if a.e ≥ 0 then a.m * pow2 a.e.toNat else a.m / pow2 (-a.e).toNat
def ceil (a : Dy) : Nat :=
  if a.e ≥ 0 then a.m * pow2 a.e.toNat else (a.m + pow2 (-a.e).toNat - 1) / pow2 (-a.e).toNat

/-- IEEE-754 binary64 bit pattern (normal range) -/
def bits (a : Dy) : Nat :=
  if a.m == 0 then 0 else
  let l := lg2 4096 a.m
  let mant := if l ≤ 52 then a.m * pow2 (52 - l) else a.m / pow2 (l - 52)
  let ex : Int := (l : Int) + a.e + 1023
  ex.toNat * pow2 52 + (mant - pow2 52)
end Dy

/-- `FindPercentileData(arr, p)` for uint64 elements: the returned float64 and the caller's slice afterwards.
Non-termination / index panic of the selection shows as `none`. -/
def pct (arr : List Nat) (p : Nat) : Option Dy × List Nat :=
  if arr.isEmpty then (some Dy.zero, arr)
  else if p > 100 then (some Dy.zero, arr)
  else
    let k := Dy.div (Dy.ofNat (p * (arr.length - 1))) (Dy.ofNat 100)
    let fk := k.floor
    let ck := k.ceil
    if fk == ck then ((quickSelect arr fk).map Dy.ofNat, afterSelect arr)
    else
      let arr1 := afterSelect arr
      match quickSelect arr fk, quickSelect arr1 ck with
      | some lo, some hi =>
        let lower := Dy.ofNat lo
        let upper := Dy.ofNat hi
        let weight := Dy.sub k (Dy.ofNat fk)
        (some (Dy.add lower (Dy.mul (Dy.sub upper lower) weight)), afterSelect arr1)
      | _, _ => (none, afterSelect arr1)

/-! ## dependency graph and RED folds -/

/-- `spanIdToServiceName[id]` after the first loop (last assignment wins) -/
def svcOf (spans : List Span) (id : Nat) : Option Nat :=
  (spans.reverse.find? (fun s => s.id == id)).map (·.service)

/-- the (parentService, childService) increments of the second loop of MakeTracesDependancyGraph, in order -/
def depPairs (spans : List Span) : List (Nat × Nat) :=
  spans.filterMap (fun c =>
    if c.parent == 0 then none else
    match svcOf spans c.parent with
    | none => none
    | some ps => if ps == c.service then none else some (ps, c.service))

def pairLe (a b : Nat × Nat) : Bool := a.1 < b.1 || (a.1 == b.1 && a.2 ≤ b.2)

/-- the dependency matrix as a sorted association list -/
def depGraph (spans : List Span) : List ((Nat × Nat) × Nat) :=
  let ps := depPairs spans
  (isort pairLe (uniq ps)).map (fun k => (k, ps.count k))

/-- `dropRedeliveredSpans` (patch c12-11) on the spans of ONE trace: of the spans with one span id the first is kept
(a span delivered more than once is stored once per delivery); `seen` = the ids met so far (the Go map) -/
def dedupAux (seen : List Nat) : List Span → List Span
  | [] => []
  | s :: r => if seen.contains s.id then dedupAux seen r else s :: dedupAux (s.id :: seen) r

def dedupIds (spans : List Span) : List Span := dedupAux [] spans

/-- MakeTracesDependancyGraph on the collected spans: re-delivered spans are dropped, then the fold -/
def depGraphOf (spans : List Span) : List ((Nat × Nat) × Nat) := depGraph (dedupIds spans)

/-- entry-span rule of ProcessRedTracesIngest -/
def isEntry (spans : List Span) (s : Span) : Bool :=
  if s.parent == 0 then true else
  match svcOf spans s.parent with
  | some ps => ps != s.service
  | none => true

/-- `Duration` as stored at ingest (end − start, uint64) converted "from nanoseconds to milliseconds" -/
def durMs (s : Span) : Nat := wsub s.end_ s.start / 1000000

/-- the window ProcessRedTracesIngest collects its spans from: the last 5 minutes (`StartEpoch: "now-5m"`,
`redMetricsWindowMins`), in seconds.  `Rate` is the number of entry spans PER SECOND over that window (the unit the
service-health page prints: "Rate (Request per Second)"). -/
def redWindowSecs : Nat := 5 * 60

/-- BEFORE the repair c12-8 the count of the 5-minute window was divided by 60 -/
def redDivisorOld : Nat := 60

structure RedRow where
  service : Nat
  cnt : Nat
  err : Nat
  rate : Dy
  errRate : Dy
  p50 : Option Dy
  p90 : Option Dy
  p95 : Option Dy
  p99 : Option Dy
deriving Repr, DecidableEq

def redRow (spans : List Span) (svc : Nat) : RedRow :=
  let es := (spans.filter (isEntry spans)).filter (fun s => s.service == svc)
  let cnt := es.length
  let err := (es.filter (·.error)).length
  let d0 := es.map durMs
  let (p50, d1) := pct d0 50
  let (p90, d2) := pct d1 90
  let (p95, d3) := pct d2 95
  let (p99, _) := pct d3 99
  { service := svc, cnt := cnt, err := err,
    rate := Dy.div (Dy.ofNat cnt) (Dy.ofNat redWindowSecs),
    errRate := Dy.mul (Dy.div (Dy.ofNat err) (Dy.ofNat cnt)) (Dy.ofNat 100),
    p50 := p50, p90 := p90, p95 := p95, p99 := p99 }

/-- one row per service that has an entry span, sorted by service -/
def red (spans : List Span) : List RedRow :=
  let svcs := sortN (uniq ((spans.filter (isEntry spans)).map (·.service)))
  svcs.map (redRow spans)

/-- ProcessRedTracesIngest on the collected spans: re-delivered spans are dropped (c12-11), then the fold -/
def redOfSpans (spans : List Span) : List RedRow := red (dedupIds spans)

end SigModel.Trace
