/-
Model of retention / deletion (C14), mirroring pkg/retention/retention.go as it is:

  * `GetRetentionTimeMs` (l.199-203): `time.Duration(hours) * time.Hour` wraps in int64 nanoseconds,
    `currTime.Add(-retDur)`, `uint64(UnixMilli())` wraps for a negative horizon.
  * `DoRetentionBasedDeletion` (l.80-160): candidates = metrics metas and segmeta.json entries of the
    given org; victim test `uint64(LatestEpochSec)*1000 <= deleteBefore` for metrics segments,
    `LatestEpochMS <= deleteBefore` for log segments.  The preceding `sort.Slice` has no observable
    effect (victims go into maps) and is not modelled.
  * `DeleteSegmentData` (l.330-400): early return for an empty victim map, then five phases in this
    order (after the repair c14-6): empty-PQ meta (`deleteSegmentsFromEmptyPqMetaFiles`, which ranges
    over the `AllPQIDs` of the SegMeta values it was handed, queues one removal per (pqid, segment) and
    then WAITS until the writer's listener has written them: `writer.FlushPqsRequests`) → blob objects
    → local files (`RemoveSegBasedirs`) → in-memory metadata (`DeleteSegmentKey`) → segmeta.json
    (`RemoveSegMetas` → `removeSegmetas`, pkg/segment/writer/segmetarw.go l.501-606, one atomic
    tmp+rename rewrite).  The order is tied to the source by the go2lean call-order facts
    `DeleteSegmentData.order` and `deleteSegmentsFromEmptyPqMetaFiles.order` (lib/props.py).
    Phases 1-4 work segment by segment, so the step list below has one micro-step per (phase, victim);
    cutting it after any prefix models a crash at any point of the function.
    (Before the repair c14-6 the empty-PQ phase came FOURTH — after the local files, and with them the
    .sfm files that hold the pqids, were gone — and its removals were only queued, a channel drained every
    10 s or every 100 requests: kept as `deleteOrderOld`.)
  * `ReadLocalSegmeta(false)` (segmetarw.go l.156): segmeta.json does not carry `AllPQIDs`
    (`json:"-"`), so the metas every pass hands to `DeleteSegmentData` have no pqids.  After the
    repair c14-1 `DeleteSegmentData` therefore starts with a loop that reads the pqids of every victim that
    carries none from the victim's `.sfm` file (`writer.ReadSfm`, which lives in the segment's base
    directory: readable only while the local files exist) — `withSfmPqids`.  (Before that repair the
    empty-PQ phase ranged over the empty `AllPQIDs` and was dead code: kept as `deleteSegmentDataOld` / `passOld`.)
  * `pqsmeta.BulkAddEmptyResults` / `writeEmptyPqsMapToFile` (pkg/segment/query/pqs/meta/pqsmeta.go), the
    record a rotation makes for a persistent query without a match in the segment (`AddToEmptyPqmetaChan`):
    read the pqid's file (absent = empty), merge the key, write the file — after the repair c14-5 the writer
    creates the pqmeta directory when it is missing (`os.MkdirAll`): `recordEmpty`.  (Before: the directory
    is removed together with its last file by `removePqmrFilesAndDirectory`, i.e. by a retention pass that
    removes the last empty-PQ entry, the write failed with ENOENT, the error was only logged, and every
    record was dropped until a restart re-created the directory: `recordEmptyOld`.)
  * `doVolumeBasedDeletion` (l.212-300): `allowedVolumeGB*1000*1000*1000` (uint64), warning-counter
    gate, candidates = metrics metas ++ segmeta entries (all orgs), `sort.Slice` by
    `LatestEpochMS` resp. `uint64(LatestEpochSec) * 1000`, then the loop
    `if size < volumeToDelete { mark; volumeToDelete -= size } else { break deleteLoop }`.
    (Before the fix the key was the wrapping uint32 product `uint64(LatestEpochSec * 1000)` and the
    `break` left only the `switch`; that behaviour is kept as `volKeyOld` / `volLoopOld` / `volPassOld`.)
    `sort.Slice` is not stable in general; for ≤ 12 elements Go's pdqsort is an insertion sort and hence
    stable, and without ties every sort gives the same result.  The model uses the stable insertion
    sort; the correspondence generator produces ties only in inputs of ≤ 12 entries, and never between
    two metrics segments (metricmeta.json is read into a Go map, so their input order is random).
  * `doInodeBasedDeletion` (l.431-546), selection loop only (not tied: it depends on statfs).

  * `removeSegmetas` / `AddOrReplaceRotatedSegmeta` (pkg/segment/writer/segmetarw.go l.427-434, l.511-616),
    the rewrite of segmeta.json itself, line by line (section "the segmeta.json rewrite" below): a
    `bufio.Scanner` with a 1 MiB buffer and 1 MiB maximal token (a line of ≥ 1 MiB ends the scan with
    ErrTooLong → `return nil`, nothing rewritten); a line `json.Unmarshal` rejects is logged and skipped
    (it is neither preserved nor a victim: the rewrite drops it); a line is removed when its
    VirtualTableName equals the index name (index mode) resp. its SegmentKey is in the map (key mode);
    `len(segbaseDirs) == 0` → nothing rewritten; no line preserved → the file is removed; else the
    preserved entries are re-marshalled one per line into segmeta.json.tmp which is renamed over the
    file.  The lines are those `BulkAddRotatedSegmetas` writes (`json.Marshal` of a SegMeta + "\n"), for
    which Unmarshal→Marshal is the identity (tied byte for byte by the suite `retsm`).

Keys are abstract naturals (one per SegmentKey / MSegmentDir, assumed distinct as in the Go maps).
Core Lean only.
-/
namespace SigModel.Retention

inductive Kind where
  | log | metrics
deriving DecidableEq, Repr

/-- one segmeta.json line (`kind = log`, `latest`/`earliest` = LatestEpochMS/EarliestEpochMS, uint64 ms) or one
metricmeta.json line (`kind = metrics`, `latest`/`earliest` = LatestEpochSec/EarliestEpochSec, uint32 s) -/
structure Meta where
  key : Nat
  latest : Nat
  earliest : Nat := 0
  kind : Kind
  size : Nat := 0          -- BytesReceivedCount
  org : Nat := 0           -- OrgId
  pqids : List Nat := []   -- AllPQIDs carried by the in-memory struct (never by segmeta.json)
deriving DecidableEq, Repr

def two64 : Nat := 18446744073709551616
def two63 : Nat := 9223372036854775808
def two32 : Nat := 4294967296

def wrap64 (n : Nat) : Nat := n % two64
def wrap32 (n : Nat) : Nat := n % two32
/-- int64 wrap-around -/
def wrapS64 (x : Int) : Int := (x + (two63 : Int)) % (two64 : Int) - (two63 : Int)
/-- `uint64(x)` of an int64 -/
def toU64 (x : Int) : Nat := (x % (two64 : Int)).toNat

def nsPerHour : Int := 3600000000000
def nsPerMs : Int := 1000000
def msPerHour : Nat := 3600000

/-- `time.Duration(retentionHours) * time.Hour` -/
def retDurNs (hours : Int) : Int := wrapS64 (hours * nsPerHour)

/-- `GetRetentionTimeMs(hours, currTime)` with `currTime` given in Unix nanoseconds -/
def horizonNs (nowNs : Nat) (hours : Int) : Nat :=
  toU64 (((nowNs : Int) + wrapS64 (- retDurNs hours)) / nsPerMs)

/-- `GetRetentionTimeMs` for a clock reading that is a whole number of milliseconds -/
def horizon (nowMs : Nat) (hours : Int) : Nat := horizonNs (nowMs * 1000000) hours

/-- the time the time-based pass compares with the horizon: `LatestEpochMS` resp. `uint64(LatestEpochSec) * 1000` -/
def timeMs (m : Meta) : Nat :=
  match m.kind with
  | .log => m.latest
  | .metrics => wrap64 (m.latest * 1000)

/-- the victim test of `DoRetentionBasedDeletion` -/
def expired (h : Nat) (m : Meta) : Bool := decide (timeMs m ≤ h)

/-- victim selection of `DoRetentionBasedDeletion(_, hours, org)` at clock reading `nowMs` -/
def victims (nowMs : Nat) (hours : Int) (org : Nat) (metas : List Meta) : List Meta :=
  metas.filter (fun m => decide (m.org = org) && expired (horizon nowMs hours) m)

/-! ### the delete protocol over an abstract store -/

/-- what exists about segments, store by store -/
structure Store where
  blob : List Nat := []              -- keys with objects in the blob store
  files : List Nat := []             -- keys whose segment base directory exists locally
  memMeta : List Nat := []           -- keys present in the in-memory metadata
  pqMeta : List (Nat × Nat) := []    -- (pqid, key) entries of the empty-PQ meta files
  segmetaJson : List Meta := []      -- the lines of segmeta.json
  sfmPq : List (Nat × Nat) := []     -- (pqid, key): pqid is in AllPQIDs of key's .sfm file (written at rotation)
deriving DecidableEq, Repr

inductive Phase where
  | blob | files | mem | pq | segmeta
deriving DecidableEq, Repr

/-- the phase order of `DeleteSegmentData` (tied by the call-order fact): the empty-PQ meta files first — the
pqids come from the victims' .sfm files, which go with the local files -/
def deleteOrder : List Phase := [.pq, .blob, .files, .mem, .segmeta]

/-- the phase order before the repair c14-6: the empty-PQ meta files after the local files were removed -/
def deleteOrderOld : List Phase := [.blob, .files, .mem, .pq, .segmeta]

/-- the order the code comment at step 5 warns against: segmeta.json first -/
def segmetaFirstOrder : List Phase := [.segmeta, .pq, .blob, .files, .mem]

inductive Step where
  | blob (k : Nat)
  | files (k : Nat)
  | mem (k : Nat)
  | pq (k : Nat) (pqids : List Nat)
  | segmeta (ks : List Nat)
deriving DecidableEq, Repr

def applyStep (s : Store) : Step → Store
  | .blob k => { s with blob := s.blob.filter (fun x => decide (x ≠ k)) }
  | .files k => { s with files := s.files.filter (fun x => decide (x ≠ k)) }
  | .mem k => { s with memMeta := s.memMeta.filter (fun x => decide (x ≠ k)) }
  | .pq k ps => { s with pqMeta := s.pqMeta.filter (fun e => !(decide (e.2 = k) && decide (e.1 ∈ ps))) }
  | .segmeta ks => { s with segmetaJson := s.segmetaJson.filter (fun m => decide (m.key ∉ ks)) }

def phaseSteps (vs : List Meta) : Phase → List Step
  | .blob => vs.map (fun v => Step.blob v.key)
  | .files => vs.map (fun v => Step.files v.key)
  | .mem => vs.map (fun v => Step.mem v.key)
  | .pq => vs.map (fun v => Step.pq v.key v.pqids)
  | .segmeta => [Step.segmeta (vs.map (·.key))]

/-- the ordered micro-step list of `DeleteSegmentData(vs)` for a phase order -/
def stepsFor (order : List Phase) (vs : List Meta) : List Step := order.flatMap (phaseSteps vs)

def runSteps (s : Store) (steps : List Step) : Store := steps.foldl applyStep s

/-- `writer.ReadSfm(key).AllPQIDs`: the .sfm file lives in the segment's base directory, so it can be
read only while the local files exist (otherwise: error, logged, the victim keeps `AllPQIDs == nil`) -/
def sfmPqids (s : Store) (k : Nat) : List Nat :=
  if k ∈ s.files then (s.sfmPq.filter (fun e => decide (e.2 = k))).map (·.1) else []

/-- the loop at the head of `DeleteSegmentData` (the repair): a victim without pqids gets those of its
.sfm file.  (`pqids = []` models `AllPQIDs == nil`.) -/
def withSfmPqids (s : Store) (vs : List Meta) : List Meta :=
  vs.map (fun v => if v.pqids.isEmpty then { v with pqids := sfmPqids s v.key } else v)

/-- `DeleteSegmentData(vs)` interrupted after `cut` micro-steps (`cut ≥ length` = not interrupted) -/
def deleteSegmentData (order : List Phase) (vs : List Meta) (s : Store) (cut : Nat) : Store :=
  if vs.isEmpty then s else runSteps s ((stepsFor order (withSfmPqids s vs)).take cut)

/-- `DeleteSegmentData` before the repair: the pqids are those the metas carry (none, for every pass) -/
def deleteSegmentDataOld (order : List Phase) (vs : List Meta) (s : Store) (cut : Nat) : Store :=
  if vs.isEmpty then s else runSteps s ((stepsFor order vs).take cut)

/-- `ReadLocalSegmeta(false)`: the lines of segmeta.json, without pqids -/
def readLocal (s : Store) : List Meta := s.segmetaJson.map (fun m => { m with pqids := [] })

/-- the log-segment part of one time-based pass, interrupted after `cut` micro-steps of the delete -/
def passCut (order : List Phase) (nowMs : Nat) (hours : Int) (s : Store) (cut : Nat) : Store :=
  deleteSegmentData order (victims nowMs hours 0 (readLocal s)) s cut

/-- an uninterrupted pass -/
def pass (order : List Phase) (nowMs : Nat) (hours : Int) (s : Store) : Store :=
  let vs := victims nowMs hours 0 (readLocal s)
  deleteSegmentData order vs s (stepsFor order vs).length

/-- the pass before the repair (interrupted / uninterrupted) -/
def passCutOld (order : List Phase) (nowMs : Nat) (hours : Int) (s : Store) (cut : Nat) : Store :=
  deleteSegmentDataOld order (victims nowMs hours 0 (readLocal s)) s cut

def passOld (order : List Phase) (nowMs : Nat) (hours : Int) (s : Store) : Store :=
  let vs := victims nowMs hours 0 (readLocal s)
  deleteSegmentDataOld order vs s (stepsFor order vs).length

/-! ### records made after a pass (`BulkAddEmptyResults`) -/

/-- `BulkAddEmptyResults(pqid, {key})` after the repair c14-5: the entry is merged into the pqid's file (a map:
an entry that is already there stays once), whether or not the pqmeta directory still exists -/
def recordEmpty (s : Store) (e : Nat × Nat) : Store :=
  if e ∈ s.pqMeta then s else { s with pqMeta := s.pqMeta ++ [e] }

def recordAll (s : Store) (es : List (Nat × Nat)) : Store := es.foldl recordEmpty s

/-- before the repair: did the run from `before` to `after` remove the pqmeta directory?  (`InitPqsMeta`
creates it at start-up; `removePqmrFilesAndDirectory` removes a pqid's file with its last entry and the
directory with its last file; nothing re-creates it while the process runs) -/
def pqDirRemovedOld (before after : Store) : Bool := !before.pqMeta.isEmpty && after.pqMeta.isEmpty

/-- `BulkAddEmptyResults` before the repair: without the directory `os.OpenFile(…O_CREATE…)` fails, the
error is logged, the record is dropped -/
def recordAllOld (dirRemoved : Bool) (s : Store) (es : List (Nat × Nat)) : Store :=
  if dirRemoved then s else recordAll s es

/-- a store without its empty-PQ meta files (the other four stores and the .sfm contents) -/
def withoutPq (s : Store) : Store := { s with pqMeta := [] }

/-- keys of a store that have local files but no segmeta.json line: nothing will ever delete them -/
def orphans (s : Store) : List Nat := s.files.filter (fun k => decide (k ∉ s.segmetaJson.map (·.key)))

/-! ### the segmeta.json rewrite (`removeSegmetas`, `AddOrReplaceRotatedSegmeta`) -/

/-- `ONE_MiB`: size of the scanner's buffer and its maximal token size -/
def smScanLimit : Nat := 1048576

/-- one line of segmeta.json.  `entry`: a line `json.Unmarshal` accepts (`key` = SegmentKey, `idx` =
VirtualTableName, `uid` = identity of the line's content, `len` = its length in bytes without the newline);
`junk`: a line `json.Unmarshal` rejects (empty line, truncated line, …) -/
inductive SmLine where
  | entry (key idx uid len : Nat)
  | junk (uid len : Nat)
deriving DecidableEq, Repr

def SmLine.len : SmLine → Nat
  | .entry _ _ _ n => n
  | .junk _ n => n

def SmLine.uid : SmLine → Nat
  | .entry _ _ u _ => u
  | .junk u _ => u

def SmLine.isEntry : SmLine → Bool
  | .entry .. => true
  | .junk .. => false

/-- `bufio.Scanner.Scan` with maximal token size `limit`: a line whose length reaches the limit cannot be
delivered (the buffer is full before its newline is seen): the scan stops with ErrTooLong.
Returns the lines delivered, and whether `Err()` is ErrTooLong afterwards. -/
def smScanWith (limit : Nat) : List SmLine → List SmLine × Bool
  | [] => ([], false)
  | l :: r => if limit ≤ l.len then ([], true) else ((smScanWith limit r).1.cons l, (smScanWith limit r).2)

/-- the scanner of `removeSegmetas` / `readSegMetaEntries`: `Buffer(make([]byte, ONE_MiB), ONE_MiB)` -/
def SmLine.tooLong (l : SmLine) : Bool := decide (smScanLimit ≤ l.len)

/-- the `for reader.Scan()` loop of `removeSegmetas` -/
def smScan (ls : List SmLine) : List SmLine × Bool := smScanWith smScanLimit ls

/-- segmeta.json: absent, or its lines in file order -/
inductive SmFile where
  | missing
  | lines (ls : List SmLine)
deriving DecidableEq, Repr

/-- the value `removeSegmetas` returns: `nil`, an empty map, or a map with at least one segbase directory -/
inductive SmRet where
  | nil | empty | dirs
deriving DecidableEq, Repr

/-- the arguments of `removeSegmetas(segkeysToRemove, indexName)`: `nilMap` = the map is nil, `victim k` = key
`k` is in the map, `anyValid` = `GetSegBaseDirFromFilename` succeeds for at least one key of the map (the
initial `segbaseDirs` is not empty), `index` = `some i` for a non-empty indexName -/
structure SmArgs where
  nilMap : Bool := false
  victim : Nat → Bool
  anyValid : Bool
  index : Option Nat := none

/-- does the loop of `removeSegmetas` drop this (parsed) line?  index mode looks at the index only -/
def SmArgs.removes (a : SmArgs) : SmLine → Bool
  | .entry k i _ _ =>
    match a.index with
    | some x => decide (i = x)
    | none => a.victim k
  | .junk .. => false

/-- `preservedSmEntries`: the parsed lines that are not removed (a junk line is skipped by `continue`) -/
def smPreserved (a : SmArgs) (ls : List SmLine) : List SmLine :=
  ls.filter (fun l => l.isEntry && !a.removes l)

/-- `removeSegmetas`: the new state of segmeta.json and the returned value -/
def smRemove (a : SmArgs) (f : SmFile) : SmFile × SmRet :=
  if a.nilMap && a.index.isNone then (f, .nil)              -- l.512
  else match f with
  | .missing => (f, if a.anyValid then .dirs else .empty)    -- l.532-536: open fails, `return segbaseDirs`
  | .lines ls =>
    let sc := smScan ls
    if sc.2 then (f, .nil)                                   -- l.567-571: scanning error, `return nil`
    else
      -- l.556: in index mode the SegbaseDir of every removed entry is added
      let dirs := a.anyValid || (a.index.isSome && sc.1.any (fun l => l.isEntry && a.removes l))
      if !dirs then (f, .empty)                              -- l.574
      else
        let keep := smPreserved a sc.1
        if keep.isEmpty then (.missing, .nil)                -- l.579-584: the file is removed
        else (.lines keep, .dirs)                            -- l.586-615: tmp file, rename

/-- `BulkAddRotatedSegmetas([m])`: append one line (O_APPEND|O_CREATE) -/
def smAppend (l : SmLine) : SmFile → SmFile
  | .missing => .lines [l]
  | .lines ls => .lines (ls ++ [l])

/-- `AddOrReplaceRotatedSegmeta(m)`: `removeSegmetas({m.SegmentKey}, "")`, then append m's line -/
def smAddOrReplace (key idx uid len : Nat) (f : SmFile) : SmFile :=
  smAppend (.entry key idx uid len)
    (smRemove { victim := fun k => decide (k = key), anyValid := true } f).1

/-- the entries `ReadLocalSegmeta` finds in the file (it uses the same scanner settings; junk is skipped) -/
def smEntries : SmFile → List SmLine
  | .missing => []
  | .lines ls => (smScan ls).1.filter (·.isEntry)

def SmLine.key : SmLine → Nat
  | .entry k _ _ _ => k
  | .junk .. => 0

def SmLine.idx : SmLine → Nat
  | .entry _ i _ _ => i
  | .junk .. => 0

/-- the segmeta.json of the abstract store as a file of short lines (bridge to `applyStep (.segmeta ks)`) -/
def smOfMetas (ms : List Meta) : SmFile := .lines (ms.map (fun m => SmLine.entry m.key m.org m.key 300))

/-- every line is shorter than `limit` -/
def AllShorter (limit : Nat) (ls : List SmLine) : Prop := ∀ l ∈ ls, l.len < limit

/-- guard of the rewrite theorems: every line is shorter than the scanner's limit (a SegMeta line holds the
segment key, the segbase directory — two paths — and the index name: a few hundred bytes) -/
def AllShort (ls : List SmLine) : Prop := AllShorter smScanLimit ls

def FileShort : SmFile → Prop
  | .missing => True
  | .lines ls => AllShort ls

/-! #### metricmeta.json (`ReadMetricsMeta`, `removeMetricsSegmentsByList`, pkg/segment/writer/metrics/meta/metricsmeta.go)

The same kind of file (one `json.Marshal` of a MetricsMeta per line, `key` = MSegmentDir) and the same kind of
rewrite.  A MetricsMeta line carries the segment's whole `tagKeys` set, so it has no small bound.  After the
two repairs both functions scan with `Buffer(nil, maxMetaLineBytes)` (64 MiB, the buffer grows on demand) and
`removeMetricsSegmentsByList` RETURNS when the scan ended with an error — no directory removed, no rewrite —
as `removeSegmetas` does.  (Before: a default `bufio.Scanner`, 64 KiB, and the rewrite only LOGGED the
scanner's error and went on with the lines it had got; kept as `mmReadOld` / `mmRemoveOld` / `mmPassOld`.) -/

/-- `maxMetaLineBytes` -/
def mmScanLimit : Nat := 67108864

/-- `bufio.MaxScanTokenSize`, the limit before the repair -/
def mmScanLimitOld : Nat := 65536

/-- `ReadMetricsMeta` with a scanner of maximal token size `limit`: the entries before the first line the
scanner cannot deliver (the map it returns), and whether it returns an error -/
def mmReadWith (limit : Nat) : SmFile → List SmLine × Bool
  | .missing => ([], false)
  | .lines ls => ((smScanWith limit ls).1.filter (·.isEntry), (smScanWith limit ls).2)

def mmRead (f : SmFile) : List SmLine × Bool := mmReadWith mmScanLimit f
def mmReadOld (f : SmFile) : List SmLine × Bool := mmReadWith mmScanLimitOld f

/-- `removeMetricsSegmentsByList(file, map)`; `victim k` = MSegmentDir k is in the map -/
def mmRemove (nilMap : Bool) (victim : Nat → Bool) (f : SmFile) : SmFile :=
  if nilMap then f                                                     -- `metricsSegmentsToDelete == nil`
  else match f with
  | .missing => f                                                      -- open fails
  | .lines ls =>
    let sc := smScanWith mmScanLimit ls
    if sc.2 then f                                                     -- `reader.Err() != nil`: return, nothing touched
    else
      let es := sc.1.filter (·.isEntry)
      if !(es.any (fun l => victim l.key)) then f                      -- entriesRemoved == 0
      else
        let keep := es.filter (fun l => !victim l.key)
        if keep.isEmpty then .missing else .lines keep

/-- the function before the repairs: 64 KiB scanner, and the scan error is only logged -/
def mmRemoveOld (nilMap : Bool) (victim : Nat → Bool) (f : SmFile) : SmFile :=
  if nilMap then f
  else match f with
  | .missing => f
  | .lines ls =>
    let sc := (smScanWith mmScanLimitOld ls).1
    let es := sc.filter (·.isEntry)
    if !(es.any (fun l => victim l.key)) then f
    else
      let keep := es.filter (fun l => !victim l.key)
      if keep.isEmpty then .missing else .lines keep

/-- `ReadMetricsMeta` returns a map keyed by MSegmentDir (a later line of the same key replaces an earlier
one); the pass applies its victim test to the map's values -/
def mmExpiredKey (expired : SmLine → Bool) (es : List SmLine) (k : Nat) : Bool :=
  match (es.filter (fun l => decide (l.key = k))).getLast? with
  | some l => expired l
  | none => false

/-- the metrics half of a pass (`DoRetentionBasedDeletion`, `doVolumeBasedDeletion`, `doInodeBasedDeletion`):
the victims are chosen among the entries `ReadMetricsMeta` returns; when it returns an error the pass RETURNS
(nothing is deleted, log segments included).  `expired` = the pass's victim test. -/
def mmPass (expired : SmLine → Bool) (f : SmFile) : SmFile :=
  let rd := mmRead f
  if rd.2 then f
  else mmRemove false (mmExpiredKey expired rd.1) f

def mmPassOld (expired : SmLine → Bool) (f : SmFile) : SmFile :=
  let rd := mmReadOld f
  if rd.2 then f
  else mmRemoveOld false (mmExpiredKey expired rd.1) f

/-- the lines of a file (none when it is absent) -/
def SmFile.lineList : SmFile → List SmLine
  | .missing => []
  | .lines ls => ls

/-! #### the file as bytes: what the scanner's lines are -/

/-- `dropCR` of bufio: one trailing '\r' is not part of the line -/
def smDropCR (l : List Nat) : List Nat := if l.getLast? = some 13 then l.dropLast else l

/-- `bufio.ScanLines` applied to a whole file (bytes as naturals): the tokens in order.  `acc` = the bytes of
the current line seen so far, reversed.  A last line without a newline is a token unless it is empty. -/
def smSplitAux : List Nat → List Nat → List (List Nat)
  | [], acc => if acc.isEmpty then [] else [smDropCR acc.reverse]
  | b :: r, acc => if b = 10 then smDropCR acc.reverse :: smSplitAux r [] else smSplitAux r (b :: acc)

def smSplitLines (bs : List Nat) : List (List Nat) := smSplitAux bs []

/-- the file `removeSegmetas` / `BulkAddRotatedSegmetas` write: every line followed by '\n' -/
def smJoinLines (ls : List (List Nat)) : List Nat := ls.flatMap (· ++ [10])

/-! ### the volume-based pass -/

def maxWarnings : Nat := 5

/-- sort key of `doVolumeBasedDeletion` / `doInodeBasedDeletion`: `LatestEpochMS` resp.
`uint64(LatestEpochSec) * 1000` (the same expression as in the time-based pass) -/
def volKey (m : Meta) : Nat := timeMs m

/-- the sort key before the fix: `uint64(LatestEpochSec * 1000)`, a uint32 product that wraps -/
def volKeyOld (m : Meta) : Nat :=
  match m.kind with
  | .log => m.latest
  | .metrics => wrap32 (m.latest * 1000)

/-- the newest event in ms as a mathematical number -/
def trueTimeMs (m : Meta) : Nat :=
  match m.kind with
  | .log => m.latest
  | .metrics => m.latest * 1000

/-- insert before the first element whose key is not smaller -/
def insertBy (key : Meta → Nat) (x : Meta) : List Meta → List Meta
  | [] => [x]
  | y :: r => if key x ≤ key y then x :: y :: r else y :: insertBy key x r

/-- the stable sort by `key` (insertion sort; equal keys keep their input order) -/
def sortBy (key : Meta → Nat) : List Meta → List Meta
  | [] => []
  | x :: r => insertBy key x (sortBy key r)

def volSort (l : List Meta) : List Meta := sortBy volKey l
def volSortOld (l : List Meta) : List Meta := sortBy volKeyOld l

/-- the marking loop (`deleteLoop:`): mark while the segment is smaller than what is still to be deleted,
`break deleteLoop` at the first segment that is not -/
def volLoop : Nat → List Meta → List Meta
  | _, [] => []
  | rem, m :: r => if m.size < rem then m :: volLoop (rem - m.size) r else []

/-- the loop before the fix: its `break` left only the `switch`, so it went on with the next entry -/
def volLoopOld : Nat → List Meta → List Meta
  | _, [] => []
  | rem, m :: r => if m.size < rem then m :: volLoopOld (rem - m.size) r else volLoopOld rem r

def totalSize (l : List Meta) : Nat := (l.map (·.size)).sum

/-- `systemVolumeBytes - allowedVolumeBytes` if the pass is going to delete at all, else 0 -/
def volExcess (limitGB counter : Nat) (system : Nat) : Nat :=
  let allowed := wrap64 (limitGB * 1000000000)
  if system = 0 then 0
  else if system > allowed then (if counter < maxWarnings then 0 else system - allowed)
  else 0

/-- `getSystemVolumeBytes` (l.300-328): `GetVTableCountsForAll(0, …)` counts the log segments of org 0 only,
the metrics segments of every org are added; the candidates of the pass are the segments of all orgs -/
def volSystem (metrics logs : List Meta) : Nat :=
  wrap64 (totalSize (logs.filter (fun m => decide (m.org = 0))) + totalSize metrics)

/-- segments marked by `doVolumeBasedDeletion(_, limitGB, counter)`, in marking order.
`metrics` = metricmeta.json entries, `logs` = segmeta.json lines in file order. -/
def volPass (limitGB counter : Nat) (metrics logs : List Meta) : List Meta :=
  let ex := volExcess limitGB counter (volSystem metrics logs)
  if ex = 0 then [] else volLoop ex (volSort (metrics ++ logs))

/-- the volume pass before the two fixes (kept for the record: Props.C14 shows what was wrong with it) -/
def volPassOld (limitGB counter : Nat) (metrics logs : List Meta) : List Meta :=
  let ex := volExcess limitGB counter (volSystem metrics logs)
  if ex = 0 then [] else volLoopOld ex (volSortOld (metrics ++ logs))

/-! ### the inode-based pass (selection loop only) -/

/-- `inodes m` = `calculateSegmentInodeCount`; skips what does not fit and goes on, stops when enough is marked -/
def inodeLoop (inodes : Meta → Nat) (toFree : Nat) : Nat → List Meta → List Meta
  | _, [] => []
  | marked, m :: r =>
    if marked ≥ toFree then []
    else if marked + inodes m ≤ toFree then m :: inodeLoop inodes toFree (marked + inodes m) r
    else inodeLoop inodes toFree marked r


/-! ### metricmeta.json: a retention pass against rotations (interleaving machine)

Mirrors pkg/segment/writer/metrics/meta/metricsmeta.go as it is: `RemoveMetricsSegments` takes `mMetaLock`
(write lock, released by a deferred Unlock when it returns) and calls `removeMetricsSegmentsByList`: open + scan the
file into `preservedEntries` / `removedSegmentDirs`, remove the directory of every removed entry, rewrite the file from
`preservedEntries` (only when an entry was removed; tmp + rename).  `AddMetricsMetaEntry` (the rotation of a metrics
segment): Lock, append one line, fsync, deferred Unlock.  `ReadMetricsMeta`: RLock, scan, deferred RUnlock.
A thread's step = what runs between two pause points of the instrumented copy (harness/cmd/overlaygen/c14.go):
pass `lock, scan, rmdir × removed entries, rewrite`; rotation `lock, write`; reader `rlock, read`.  A step that would
wait for the lock is not taken (`Ev.blocked`).  Entries are their keys (the lines are tied byte for byte by suite retsm). -/
namespace MmConc

inductive Tid where
  | pass
  | app (i : Nat)
  | rd (j : Nat)
  deriving DecidableEq, Repr

inductive PPc where
  | lock | scan | rmdir | rewrite | done
  deriving DecidableEq, Repr

inductive TPc where
  | lock | work | done
  deriving DecidableEq, Repr

inductive Ev where
  | exec (label : String)
  | blocked
  | noop
  deriving DecidableEq, Repr

structure St where
  file : List Nat
  dirs : List Nat
  writer : Option Tid := none
  readers : List Nat := []
  ppc : PPc := .lock
  preserved : List Nat := []
  removed : List Nat := []
  todo : List Nat := []
  apc : Nat → TPc := fun _ => .lock
  rpc : Nat → TPc := fun _ => .lock
  rres : Nat → Option (List Nat) := fun _ => none

def upd {α : Type} (f : Nat → α) (i : Nat) (v : α) : Nat → α := fun j => if j = i then v else f j

/-- one step of thread `t`; `victim` = membership in metricsSegmentsToDelete, `key i` = the entry rotation `i` appends -/
def step (victim : Nat → Bool) (key : Nat → Nat) (s : St) : Tid → St × Ev
  | .pass =>
    match s.ppc with
    | .lock =>
      if s.writer.isNone && s.readers.isEmpty then ({ s with writer := some .pass, ppc := .scan }, .exec "lock")
      else (s, .blocked)
    | .scan =>
      let rm := s.file.filter victim
      ({ s with preserved := s.file.filter (fun k => !victim k), removed := rm, todo := rm,
                ppc := if rm.isEmpty then .rewrite else .rmdir }, .exec "scan")
    | .rmdir =>
      match s.todo with
      | [] => ({ s with ppc := .rewrite }, .noop)
      | d :: r => ({ s with dirs := s.dirs.filter (· ≠ d), todo := r, ppc := if r.isEmpty then .rewrite else .rmdir }, .exec "rmdir")
    | .rewrite =>
      ({ s with file := if s.removed.isEmpty then s.file else s.preserved,
                writer := if s.writer = some .pass then none else s.writer, ppc := .done }, .exec "rewrite")
    | .done => (s, .noop)
  | .app i =>
    match s.apc i with
    | .lock =>
      if s.writer.isNone && s.readers.isEmpty then ({ s with writer := some (.app i), apc := upd s.apc i .work }, .exec "lock")
      else (s, .blocked)
    | .work =>
      ({ s with file := s.file ++ [key i], writer := if s.writer = some (.app i) then none else s.writer,
                apc := upd s.apc i .done }, .exec "write")
    | .done => (s, .noop)
  | .rd j =>
    match s.rpc j with
    | .lock =>
      if s.writer.isNone then ({ s with readers := j :: s.readers, rpc := upd s.rpc j .work }, .exec "rlock")
      else (s, .blocked)
    | .work =>
      ({ s with rres := upd s.rres j (some s.file), readers := s.readers.filter (· ≠ j), rpc := upd s.rpc j .done }, .exec "read")
    | .done => (s, .noop)

def run (victim : Nat → Bool) (key : Nat → Nat) (s : St) (sched : List Tid) : St :=
  sched.foldl (fun s t => (step victim key s t).1) s

/-- rotation `i` has returned (its entry is acknowledged) -/
def acked (s : St) (i : Nat) : Bool := s.apc i == .done

end MmConc

/-! ### the directory of a segment from its key (`utils.GetSegBaseDirFromFilename`, pkg/utils/segutils.go)

`pos := strings.Index(filename, "/final/")` (the FIRST occurrence), error when there is none; then three more path
components, each ended by its "/" (error when there are fewer); result `filename[:pos]`.  Coupled to
`config.GetBaseSegDir`: `<data path><host id>/final/<index>/<stream id>/<suffix>/`, the segment key repeats the suffix. -/
namespace SegDir

/-- index of the first occurrence of `pat` (strings.Index) -/
def findSub (pat : List Char) : List Char → Option Nat
  | [] => if pat.isEmpty then some 0 else none
  | c :: r => if pat.isPrefixOf (c :: r) then some 0 else (findSub pat r).map (· + 1)

/-- the prefix of the string up to and including its `k`-th "/" -/
def takeParts : Nat → List Char → Option (List Char)
  | 0, _ => some []
  | _ + 1, [] => none
  | k + 1, c :: r => if c = '/' then (takeParts k r).map (c :: ·) else (takeParts (k + 1) r).map (c :: ·)

def finalStr : List Char := "/final/".toList

def depthAfterFinal : Nat := 3

def segBaseDir (s : List Char) : Option (List Char) :=
  match findSub finalStr s with
  | none => none
  | some p =>
    let q := p + finalStr.length
    (takeParts depthAfterFinal (s.drop q)).map (s.take q ++ ·)

/-- `config.GetSegKey`: `pre` = data path + host id -/
def segKey (pre index stream suffix : List Char) : List Char :=
  pre ++ finalStr ++ index ++ ['/'] ++ stream ++ ['/'] ++ suffix ++ ['/'] ++ suffix

def baseSegDir (pre index stream suffix : List Char) : List Char :=
  pre ++ finalStr ++ index ++ ['/'] ++ stream ++ ['/'] ++ suffix ++ ['/']

end SegDir

end SigModel.Retention
