/-
Model of retention / deletion (C14), mirroring pkg/retention/retention.go as it is:

  * `GetRetentionTimeMs` (l.199-203): `time.Duration(hours) * time.Hour` wraps in int64 nanoseconds,
    `currTime.Add(-retDur)`, `uint64(UnixMilli())` wraps for a negative horizon.
  * `DoRetentionBasedDeletion` (l.80-160): candidates = metrics metas and segmeta.json entries of the
    given org; victim test `uint64(LatestEpochSec)*1000 <= deleteBefore` for metrics segments,
    `LatestEpochMS <= deleteBefore` for log segments.  The preceding `sort.Slice` has no observable
    effect (victims go into maps) and is not modelled.
  * `DeleteSegmentData` (l.330-394): early return for an empty victim map, then five phases in this
    order: blob objects → local files (`RemoveSegBasedirs`) → in-memory metadata (`DeleteSegmentKey`)
    → empty-PQ meta (`deleteSegmentsFromEmptyPqMetaFiles`, which ranges over the `AllPQIDs` of the
    SegMeta values it was handed) → segmeta.json (`RemoveSegMetas` → `removeSegmetas`,
    pkg/segment/writer/segmetarw.go l.501-606, one atomic tmp+rename rewrite).  The order is tied to
    the source by the go2lean call-order fact `DeleteSegmentData.order` (lib/props.py).
    Phases 1-4 work segment by segment, so the step list below has one micro-step per (phase, victim);
    cutting it after any prefix models a crash at any point of the function.
  * `ReadLocalSegmeta(false)` (segmetarw.go l.156): segmeta.json does not carry `AllPQIDs`
    (`json:"-"`), so the metas every pass hands to `DeleteSegmentData` have no pqids.  After the
    repair `DeleteSegmentData` therefore starts with a loop that reads the pqids of every victim that
    carries none from the victim's `.sfm` file (`writer.ReadSfm`, which lives in the segment's base
    directory: readable only while the local files exist) — `withSfmPqids`.  (Before the repair step 4
    ranged over the empty `AllPQIDs` and was dead code: kept as `deleteSegmentDataOld` / `passOld`.)
    `RemoveSegmentFromEmptyPqmeta` only queues the removal (a channel drained every 10 s or every
    100 requests); the model treats step 4 as done when it is queued, the harness drains the queue.
  * `doVolumeBasedDeletion` (l.212-300): `allowedVolumeGB*1000*1000*1000` (uint64), warning-counter
    gate, candidates = metrics metas ++ segmeta entries (all orgs), `sort.Slice` by
    `LatestEpochMS` resp. `uint64(LatestEpochSec) * 1000`, then the loop
    `if size < volumeToDelete { mark; volumeToDelete -= size } else { break deleteLoop }`.
    (Before the fix the key was the wrapping uint32 product `uint64(LatestEpochSec * 1000)` and the
    `break` left only the `switch`; that behaviour is kept as `volKeyOld` / `volLoopOld` / `volPassOld`.)
    `sort.Slice` is not stable in general; for ≤ 12 elements Go's pdqsort is an insertion sort and hence
    stable, and without ties every sort gives the same result.  The model uses the stable insertion
    sort; the correspondence generator produces ties only in inputs of ≤ 12 entries, and never between
    two metrics segments (metricmeta.json is read into a Go map, so their input order is random).
  * `doInodeBasedDeletion` (l.431-546), selection loop only (not tied: it depends on statfs).

Keys are abstract naturals (one per SegmentKey / MSegmentDir, assumed distinct as in the Go maps).
Core Lean only.
-/
namespace SigModel.Retention

inductive Kind where
  | log | metrics
deriving DecidableEq, Repr

/-- one segmeta.json line (`kind = log`, `latest`/`earliest` = LatestEpochMS/EarliestEpochMS, uint64 ms) or one
metricmeta.json line (`kind = metrics`, `latest`/`earliest` = LatestEpochSec/EarliestEpochSec, uint32 s) -/
structure Meta where
  key : Nat
  latest : Nat
  earliest : Nat := 0
  kind : Kind
  size : Nat := 0          -- BytesReceivedCount
  org : Nat := 0           -- OrgId
  pqids : List Nat := []   -- AllPQIDs carried by the in-memory struct (never by segmeta.json)
deriving DecidableEq, Repr

def two64 : Nat := 18446744073709551616
def two63 : Nat := 9223372036854775808
def two32 : Nat := 4294967296

def wrap64 (n : Nat) : Nat := n % two64
def wrap32 (n : Nat) : Nat := n % two32
/-- int64 wrap-around -/
def wrapS64 (x : Int) : Int := (x + (two63 : Int)) % (two64 : Int) - (two63 : Int)
/-- `uint64(x)` of an int64 -/
def toU64 (x : Int) : Nat := (x % (two64 : Int)).toNat

def nsPerHour : Int := 3600000000000
def nsPerMs : Int := 1000000
def msPerHour : Nat := 3600000

/-- `time.Duration(retentionHours) * time.Hour` -/
def retDurNs (hours : Int) : Int := wrapS64 (hours * nsPerHour)

/-- `GetRetentionTimeMs(hours, currTime)` with `currTime` given in Unix nanoseconds -/
def horizonNs (nowNs : Nat) (hours : Int) : Nat :=
  toU64 (((nowNs : Int) + wrapS64 (- retDurNs hours)) / nsPerMs)

/-- `GetRetentionTimeMs` for a clock reading that is a whole number of milliseconds -/
def horizon (nowMs : Nat) (hours : Int) : Nat := horizonNs (nowMs * 1000000) hours

/-- the time the time-based pass compares with the horizon: `LatestEpochMS` resp. `uint64(LatestEpochSec) * 1000` -/
def timeMs (m : Meta) : Nat :=
  match m.kind with
  | .log => m.latest
  | .metrics => wrap64 (m.latest * 1000)

/-- the victim test of `DoRetentionBasedDeletion` -/
def expired (h : Nat) (m : Meta) : Bool := decide (timeMs m ≤ h)

/-- victim selection of `DoRetentionBasedDeletion(_, hours, org)` at clock reading `nowMs` -/
def victims (nowMs : Nat) (hours : Int) (org : Nat) (metas : List Meta) : List Meta :=
  metas.filter (fun m => decide (m.org = org) && expired (horizon nowMs hours) m)

/-! ### the delete protocol over an abstract store -/

/-- what exists about segments, store by store -/
structure Store where
  blob : List Nat := []              -- keys with objects in the blob store
  files : List Nat := []             -- keys whose segment base directory exists locally
  memMeta : List Nat := []           -- keys present in the in-memory metadata
  pqMeta : List (Nat × Nat) := []    -- (pqid, key) entries of the empty-PQ meta files
  segmetaJson : List Meta := []      -- the lines of segmeta.json
  sfmPq : List (Nat × Nat) := []     -- (pqid, key): pqid is in AllPQIDs of key's .sfm file (written at rotation)
deriving DecidableEq, Repr

inductive Phase where
  | blob | files | mem | pq | segmeta
deriving DecidableEq, Repr

/-- the phase order of `DeleteSegmentData` (tied by the call-order fact) -/
def deleteOrder : List Phase := [.blob, .files, .mem, .pq, .segmeta]

/-- the order the code comment at step 5 warns against: segmeta.json first -/
def segmetaFirstOrder : List Phase := [.segmeta, .blob, .files, .mem, .pq]

inductive Step where
  | blob (k : Nat)
  | files (k : Nat)
  | mem (k : Nat)
  | pq (k : Nat) (pqids : List Nat)
  | segmeta (ks : List Nat)
deriving DecidableEq, Repr

def applyStep (s : Store) : Step → Store
  | .blob k => { s with blob := s.blob.filter (fun x => decide (x ≠ k)) }
  | .files k => { s with files := s.files.filter (fun x => decide (x ≠ k)) }
  | .mem k => { s with memMeta := s.memMeta.filter (fun x => decide (x ≠ k)) }
  | .pq k ps => { s with pqMeta := s.pqMeta.filter (fun e => !(decide (e.2 = k) && decide (e.1 ∈ ps))) }
  | .segmeta ks => { s with segmetaJson := s.segmetaJson.filter (fun m => decide (m.key ∉ ks)) }

def phaseSteps (vs : List Meta) : Phase → List Step
  | .blob => vs.map (fun v => Step.blob v.key)
  | .files => vs.map (fun v => Step.files v.key)
  | .mem => vs.map (fun v => Step.mem v.key)
  | .pq => vs.map (fun v => Step.pq v.key v.pqids)
  | .segmeta => [Step.segmeta (vs.map (·.key))]

/-- the ordered micro-step list of `DeleteSegmentData(vs)` for a phase order -/
def stepsFor (order : List Phase) (vs : List Meta) : List Step := order.flatMap (phaseSteps vs)

def runSteps (s : Store) (steps : List Step) : Store := steps.foldl applyStep s

/-- `writer.ReadSfm(key).AllPQIDs`: the .sfm file lives in the segment's base directory, so it can be
read only while the local files exist (otherwise: error, logged, the victim keeps `AllPQIDs == nil`) -/
def sfmPqids (s : Store) (k : Nat) : List Nat :=
  if k ∈ s.files then (s.sfmPq.filter (fun e => decide (e.2 = k))).map (·.1) else []

/-- the loop at the head of `DeleteSegmentData` (the repair): a victim without pqids gets those of its
.sfm file.  (`pqids = []` models `AllPQIDs == nil`.) -/
def withSfmPqids (s : Store) (vs : List Meta) : List Meta :=
  vs.map (fun v => if v.pqids.isEmpty then { v with pqids := sfmPqids s v.key } else v)

/-- `DeleteSegmentData(vs)` interrupted after `cut` micro-steps (`cut ≥ length` = not interrupted) -/
def deleteSegmentData (order : List Phase) (vs : List Meta) (s : Store) (cut : Nat) : Store :=
  if vs.isEmpty then s else runSteps s ((stepsFor order (withSfmPqids s vs)).take cut)

/-- `DeleteSegmentData` before the repair: the pqids are those the metas carry (none, for every pass) -/
def deleteSegmentDataOld (order : List Phase) (vs : List Meta) (s : Store) (cut : Nat) : Store :=
  if vs.isEmpty then s else runSteps s ((stepsFor order vs).take cut)

/-- `ReadLocalSegmeta(false)`: the lines of segmeta.json, without pqids -/
def readLocal (s : Store) : List Meta := s.segmetaJson.map (fun m => { m with pqids := [] })

/-- the log-segment part of one time-based pass, interrupted after `cut` micro-steps of the delete -/
def passCut (order : List Phase) (nowMs : Nat) (hours : Int) (s : Store) (cut : Nat) : Store :=
  deleteSegmentData order (victims nowMs hours 0 (readLocal s)) s cut

/-- an uninterrupted pass -/
def pass (order : List Phase) (nowMs : Nat) (hours : Int) (s : Store) : Store :=
  let vs := victims nowMs hours 0 (readLocal s)
  deleteSegmentData order vs s (stepsFor order vs).length

/-- the pass before the repair (interrupted / uninterrupted) -/
def passCutOld (order : List Phase) (nowMs : Nat) (hours : Int) (s : Store) (cut : Nat) : Store :=
  deleteSegmentDataOld order (victims nowMs hours 0 (readLocal s)) s cut

def passOld (order : List Phase) (nowMs : Nat) (hours : Int) (s : Store) : Store :=
  let vs := victims nowMs hours 0 (readLocal s)
  deleteSegmentDataOld order vs s (stepsFor order vs).length

/-- a store without its empty-PQ meta files (the other four stores and the .sfm contents) -/
def withoutPq (s : Store) : Store := { s with pqMeta := [] }

/-- keys of a store that have local files but no segmeta.json line: nothing will ever delete them -/
def orphans (s : Store) : List Nat := s.files.filter (fun k => decide (k ∉ s.segmetaJson.map (·.key)))

/-! ### the volume-based pass -/

def maxWarnings : Nat := 5

/-- sort key of `doVolumeBasedDeletion` / `doInodeBasedDeletion`: `LatestEpochMS` resp.
`uint64(LatestEpochSec) * 1000` (the same expression as in the time-based pass) -/
def volKey (m : Meta) : Nat := timeMs m

/-- the sort key before the fix: `uint64(LatestEpochSec * 1000)`, a uint32 product that wraps -/
def volKeyOld (m : Meta) : Nat :=
  match m.kind with
  | .log => m.latest
  | .metrics => wrap32 (m.latest * 1000)

/-- the newest event in ms as a mathematical number -/
def trueTimeMs (m : Meta) : Nat :=
  match m.kind with
  | .log => m.latest
  | .metrics => m.latest * 1000

/-- insert before the first element whose key is not smaller -/
def insertBy (key : Meta → Nat) (x : Meta) : List Meta → List Meta
  | [] => [x]
  | y :: r => if key x ≤ key y then x :: y :: r else y :: insertBy key x r

/-- the stable sort by `key` (insertion sort; equal keys keep their input order) -/
def sortBy (key : Meta → Nat) : List Meta → List Meta
  | [] => []
  | x :: r => insertBy key x (sortBy key r)

def volSort (l : List Meta) : List Meta := sortBy volKey l
def volSortOld (l : List Meta) : List Meta := sortBy volKeyOld l

/-- the marking loop (`deleteLoop:`): mark while the segment is smaller than what is still to be deleted,
`break deleteLoop` at the first segment that is not -/
def volLoop : Nat → List Meta → List Meta
  | _, [] => []
  | rem, m :: r => if m.size < rem then m :: volLoop (rem - m.size) r else []

/-- the loop before the fix: its `break` left only the `switch`, so it went on with the next entry -/
def volLoopOld : Nat → List Meta → List Meta
  | _, [] => []
  | rem, m :: r => if m.size < rem then m :: volLoopOld (rem - m.size) r else volLoopOld rem r

def totalSize (l : List Meta) : Nat := (l.map (·.size)).sum

/-- `systemVolumeBytes - allowedVolumeBytes` if the pass is going to delete at all, else 0 -/
def volExcess (limitGB counter : Nat) (system : Nat) : Nat :=
  let allowed := wrap64 (limitGB * 1000000000)
  if system = 0 then 0
  else if system > allowed then (if counter < maxWarnings then 0 else system - allowed)
  else 0

/-- `getSystemVolumeBytes` (l.300-328): `GetVTableCountsForAll(0, …)` counts the log segments of org 0 only,
the metrics segments of every org are added; the candidates of the pass are the segments of all orgs -/
def volSystem (metrics logs : List Meta) : Nat :=
  wrap64 (totalSize (logs.filter (fun m => decide (m.org = 0))) + totalSize metrics)

/-- segments marked by `doVolumeBasedDeletion(_, limitGB, counter)`, in marking order.
`metrics` = metricmeta.json entries, `logs` = segmeta.json lines in file order. -/
def volPass (limitGB counter : Nat) (metrics logs : List Meta) : List Meta :=
  let ex := volExcess limitGB counter (volSystem metrics logs)
  if ex = 0 then [] else volLoop ex (volSort (metrics ++ logs))

/-- the volume pass before the two fixes (kept for the record: Props.C14 shows what was wrong with it) -/
def volPassOld (limitGB counter : Nat) (metrics logs : List Meta) : List Meta :=
  let ex := volExcess limitGB counter (volSystem metrics logs)
  if ex = 0 then [] else volLoopOld ex (volSortOld (metrics ++ logs))

/-! ### the inode-based pass (selection loop only) -/

/-- `inodes m` = `calculateSegmentInodeCount`; skips what does not fit and goes on, stops when enough is marked -/
def inodeLoop (inodes : Meta → Nat) (toFree : Nat) : Nat → List Meta → List Meta
  | _, [] => []
  | marked, m :: r =>
    if marked ≥ toFree then []
    else if marked + inodes m ≤ toFree then m :: inodeLoop inodes toFree (marked + inodes m) r
    else inodeLoop inodes toFree marked r

end SigModel.Retention
