/-
Model of the on-disk value codecs of a log column (C01 kernel).  Core Lean only.

Mirrors, as they are (quirks included):
  writer  pkg/segment/writer/logpacker.go   parseSingleString / parseSingleBool / parseSingleNull /
                                            parseSingleNumber / parsedEncJsonNumber (value → type+len header)
          pkg/segment/writer/segwriter.go   doLogEventFilling :337-452 (header+payload appended to the ColWip;
                                            string payload cut to the uint16 length; trailing back-fill loop)
          pkg/segment/writer/packer.go      initAndBackFillColumn/backFillPastRecords :549-628,
                                            updateColValueSizeInAllSeenColumns :694-714, checkAddDictEnc :1541-1563,
                                            PackDictEnc :1576-1614, GetCvalFromRec :734-865
          pkg/segment/writer/segstore.go    WipBlock.adjustEarliestLatestTimes :1084, encodeTimestamps :1309-1366
  reader  pkg/segment/reader/segread/segreader/segreader.go
                                            unpackRawCsg (state reset; since 42015c5 the consistent length is verified against the first record),
                                            ReadRecord, iterateNextRecord, getCurrentRecordLength / getCurrentRecordLengthFromEncoding
                                            (incl. the consistent-length shortcut; out-of-range = ErrBadEncoding since 42015c5),
                                            ReadDictEnc :541, deGetRec :721
          pkg/segment/reader/segread/timereader.go  convertRawRecordsToTimestamps :261

Bytes are `List Nat` (every element < 256 on real data).  A Go run-time panic (index/slice out of range)
is the outcome `Res.panic`; slices are modelled with cap = len (the harness clips the reader's buffers so).
Offsets are uint32 in the code; blocks are far below 4 GiB (WIP_SIZE = 2 MB), so offsets are plain `Nat`.
The type tags come from the regenerated constants (`SigModel.Gen.TlvConsts`, tools/go2lean).
-/
import SigModel.Gen.TlvConsts

namespace SigModel.Tlv

abbrev Bytes := List Nat

/-- outcome of a Go call: value, returned error (small enum), or run-time panic -/
inductive Res (α : Type) where
  | ok (a : α)
  | err (e : String)
  | panic
deriving Repr, DecidableEq

/-! ### little-endian integers -/

/-- `w` bytes, little endian, of `n` (the value is cut to `w` bytes as the Go casts do) -/
def leN : Nat → Nat → Bytes
  | 0, _ => []
  | w+1, n => n % 256 :: leN w (n / 256)

/-- read `w` bytes little endian; `none` when fewer than `w` bytes are present -/
def rdN : Nat → Bytes → Option (Nat × Bytes)
  | 0, bs => some (0, bs)
  | _+1, [] => none
  | w+1, b :: r =>
    match rdN w r with
    | some (v, r') => some (b + 256 * v, r')
    | none => none

/-! ### type tags (regenerated from pkg/segment/utils/segconsts.go) -/

def tBool : Nat := Gen.VALTYPE_ENC_BOOL.toNat
def tStr : Nat := Gen.VALTYPE_ENC_SMALL_STRING.toNat
def tU8 : Nat := Gen.VALTYPE_ENC_UINT8.toNat
def tU16 : Nat := Gen.VALTYPE_ENC_UINT16.toNat
def tU32 : Nat := Gen.VALTYPE_ENC_UINT32.toNat
def tU64 : Nat := Gen.VALTYPE_ENC_UINT64.toNat
def tI8 : Nat := Gen.VALTYPE_ENC_INT8.toNat
def tI16 : Nat := Gen.VALTYPE_ENC_INT16.toNat
def tI32 : Nat := Gen.VALTYPE_ENC_INT32.toNat
def tI64 : Nat := Gen.VALTYPE_ENC_INT64.toNat
def tF64 : Nat := Gen.VALTYPE_ENC_FLOAT64.toNat
def tBackfill : Nat := Gen.VALTYPE_ENC_BACKFILL.toNat
def tDictArr : Nat := Gen.VALTYPE_DICT_ARRAY.toNat
def tRawJson : Nat := Gen.VALTYPE_RAW_JSON.toNat

def encColumnar : Nat := Gen.ZSTD_COMLUNAR_BLOCK.toNat
def encDict : Nat := Gen.ZSTD_DICTIONARY_BLOCK.toNat
def encTsTopdiff : Nat := Gen.TIMESTAMP_TOPDIFF_VARENC.toNat
def cardLimit : Nat := Gen.wipCardLimit.toNat
def maxRecsPerWip : Nat := Gen.MAX_RECS_PER_WIP.toNat
def maxRecordSize : Nat := Gen.MAX_RECORD_SIZE.toNat

/-- `INCONSISTENT_CVAL_SIZE = math.MaxUint32` -/
def inconsistent : Nat := 4294967295

/-! ### values -/

inductive NumKind where
  | u8 | u16 | u32 | u64 | i8 | i16 | i32 | i64 | f64
deriving Repr, DecidableEq

def NumKind.width : NumKind → Nat
  | .u8 | .i8 => 1
  | .u16 | .i16 => 2
  | .u32 | .i32 => 4
  | .u64 | .i64 | .f64 => 8

def NumKind.tag : NumKind → Nat
  | .u8 => tU8 | .u16 => tU16 | .u32 => tU32 | .u64 => tU64
  | .i8 => tI8 | .i16 => tI16 | .i32 => tI32 | .i64 => tI64 | .f64 => tF64

def kindOfTag (t : Nat) : Option NumKind :=
  if t = tU8 then some .u8 else if t = tU16 then some .u16 else if t = tU32 then some .u32
  else if t = tU64 then some .u64 else if t = tI8 then some .i8 else if t = tI16 then some .i16
  else if t = tI32 then some .i32 else if t = tI64 then some .i64 else if t = tF64 then some .f64
  else none

/-- One stored column value.  `num k bits`: the `k.width`-byte two's-complement / IEEE bit pattern.
The log writer itself only emits `str`, `bool`, `num i64`, `num u64`, `num f64`, `backfill`;
the narrow kinds exist on the reader side only. -/
inductive Val where
  | str (s : Bytes)
  | bool (b : Bool)
  | num (k : NumKind) (bits : Nat)
  | backfill
deriving Repr, DecidableEq

/-- well-formed: what the 2-byte length field / the `k.width` value bytes can hold -/
def wf : Val → Prop
  | .str s => s.length < 65536
  | .num k bits => bits < 256 ^ k.width
  | _ => True

instance : DecidablePred wf := fun v => by
  cases v <;> unfold wf <;> infer_instance

/-- the writer: `parseSingleString` computes `n := uint16(len(val))`, `doLogEventFilling` appends the 3 header
bytes and `val[:n]` (so a string of ≥ 65536 bytes is CUT to `len mod 65536` bytes); bool: tag, 0/1;
numbers: tag, 8 (or `width`) bytes LE; null / absent: the back-fill tag alone. -/
def encTLV : Val → Bytes
  | .str s => tStr :: (leN 2 (s.length % 65536) ++ s.take (s.length % 65536))
  | .bool b => [tBool, if b then 1 else 0]
  | .num k bits => k.tag :: leN k.width bits
  | .backfill => [tBackfill]

def encCol (vs : List Val) : Bytes := (vs.map encTLV).flatten

/-- fixed record length by tag (`getCurrentRecordLength`, non-string cases) -/
def fixedLen (t : Nat) : Option Nat :=
  if t = tBool ∨ t = tI8 ∨ t = tU8 then some 2
  else if t = tI16 ∨ t = tU16 then some 3
  else if t = tI32 ∨ t = tU32 then some 5
  else if t = tI64 ∨ t = tU64 ∨ t = tF64 then some 9
  else if t = tBackfill then some 1
  else none

/-- `getCurrentRecordLengthFromEncoding` on the bytes from the current offset on (no consistent length known).
Since fix 42015c5 an offset at the end of the buffer and a variable-length record without its two length bytes are
`ErrBadEncoding` (they were index / slice panics before: `recLenOld`). -/
def recLen : Bytes → Res Nat
  | [] => .err "bad-encoding"                      -- currOffset >= len(currRawBlockBuffer)
  | t :: rest =>
    if t = tStr ∨ t = tDictArr ∨ t = tRawJson then
      match rdN 2 rest with
      | some (n, _) => .ok (3 + n)
      | none => .err "bad-encoding"                -- currOffset+3 > len(currRawBlockBuffer)
    else match fixedLen t with
      | some l => .ok l
      | none => .err "bad-encoding"

/-- `getCurrentRecordLength` BEFORE fix 42015c5: no bounds checks -/
def recLenOld : Bytes → Res Nat
  | [] => .panic                                   -- currRawBlockBuffer[currOffset] out of range
  | t :: rest =>
    if t = tStr ∨ t = tDictArr ∨ t = tRawJson then
      match rdN 2 rest with
      | some (n, _) => .ok (3 + n)
      | none => .panic                             -- binary.LittleEndian.Uint16 on < 2 bytes
    else match fixedLen t with
      | some l => .ok l
      | none => .err "bad-encoding"

/-- structural decoder of one record at the head of a byte string (the framing of `GetCvalFromRec`,
keeping the stored kind) -/
def decTLV : Bytes → Option (Val × Bytes)
  | [] => none
  | t :: rest =>
    if t = tStr then
      match rdN 2 rest with
      | some (n, r) => if n ≤ r.length then some (.str (r.take n), r.drop n) else none
      | none => none
    else if t = tBool then
      match rest with
      | b :: r => some (.bool (b != 0), r)
      | [] => none
    else if t = tBackfill then some (.backfill, rest)
    else match kindOfTag t with
      | some k =>
        match rdN k.width rest with
        | some (v, r) => some (.num k v, r)
        | none => none
      | none => none

/-! ### `GetCvalFromRec`: what the query side sees -/

/-- `CValueEnclosure` (Dtype + CVal) -/
inductive CVal where
  | str (s : Bytes)       -- SS_DT_STRING
  | bool (b : Bool)       -- SS_DT_BOOL
  | signed (i : Int)      -- SS_DT_SIGNED_NUM, int64
  | unsigned (n : Nat)    -- SS_DT_UNSIGNED_NUM, uint64
  | float (bits : Nat)    -- SS_DT_FLOAT, float64 bits
  | backfill              -- SS_DT_BACKFILL
deriving Repr, DecidableEq

/-- two's complement value of a `w`-byte pattern (`int64(int8(b))` etc.) -/
def sext (w bits : Nat) : Int :=
  if bits < 256 ^ w / 2 then (bits : Int) else (bits : Int) - (256 ^ w : Nat)

def cvalOfNum : NumKind → Nat → CVal
  | .u8, b | .u16, b | .u32, b | .u64, b => .unsigned b
  | .i8, b => .signed (sext 1 b)
  | .i16, b => .signed (sext 2 b)
  | .i32, b => .signed (sext 4 b)
  | .i64, b => .signed (sext 8 b)
  | .f64, b => .float b

def cvalOf : Val → CVal
  | .str s => .str s
  | .bool b => .bool b
  | .num k bits => cvalOfNum k bits
  | .backfill => .backfill

/-- `GetCvalFromRec(rec)` → (enclosure, endIdx).  `endIdx` is a uint16: `strlen + 3` WRAPS for strings of
65533..65535 bytes and `rec[3:endIdx]` then panics.  RAW_JSON / DICT_ARRAY records are not modelled
(`err "unmodelled"`; the harness does not send them). -/
def getCval (rec : Bytes) : Res (CVal × Nat) :=
  match rec with
  | [] => .err "empty"
  | t :: rest =>
    if t = tStr then
      match rdN 2 rest with
      | none => .panic
      | some (n, r) =>
        let e := (n + 3) % 65536
        if e < 3 then .panic else
        if e ≤ rec.length then .ok (.str (r.take n), e) else .panic
    else if t = tBool then
      match rest with
      | b :: _ => .ok (.bool (b != 0), 2)
      | [] => .panic
    else if t = tBackfill then .ok (.backfill, 1)
    else if t = tRawJson ∨ t = tDictArr then .err "unmodelled"
    else match kindOfTag t with
      | some k =>
        match rdN k.width rest with
        | some (v, _) => .ok (cvalOfNum k v, 1 + k.width)
        | none => .panic
      | none => .err "invalid-rec-type"

/-! ### per-segment record size of a column (`updateColValueSizeInAllSeenColumns`) -/

/-- fold over the sizes reported for one column; `firstRec` = number of records the segment already had when
the column was first seen (> 0 ⇒ earlier records are back-filled ⇒ inconsistent) -/
def seenSize (firstRec : Nat) : List Nat → Option Nat
  | [] => none
  | s :: rest =>
    some (rest.foldl (fun cur sz => if cur = inconsistent then cur else if cur ≠ sz then inconsistent else cur)
      (if firstRec > 0 then inconsistent else s))

/-! ### the raw (columnar) block reader -/

structure Rd where
  buf : Bytes            -- currRawBlockBuffer (uncompressed block), len = currUncompressedBlockLen
  constLen : Nat         -- consistentColValueLen
  recNum : Nat           -- currRecordNum
  off : Nat              -- currOffset
  recLen : Nat           -- currRecLen
deriving Repr, DecidableEq

/-- `getCurrentRecordLength()` at offset `off` -/
def curRecLen (buf : Bytes) (constLen off : Nat) : Res Nat :=
  if constLen > 0 ∧ constLen ≠ inconsistent then .ok constLen else recLen (buf.drop off)

/-- the consistent length that `unpackRawCsg` keeps (fix 42015c5): a usable length from the segment meta is compared
with the length that the block's FIRST record has by its own encoding; when they differ (or that record cannot be
measured) the reader forgets it and reads the lengths from the records (`INCONSISTENT_CVAL_SIZE`) -/
def checkedLen (buf : Bytes) (constLen : Nat) : Nat :=
  if constLen > 0 ∧ constLen ≠ inconsistent then
    match recLen buf with
    | .ok l => if l = constLen then constLen else inconsistent
    | _ => inconsistent
  else constLen

/-- `unpackRawCsg` after decompression: the consistent length is checked against the first record, then
offset 0, first record's length, record number 0 -/
def Rd.init (buf : Bytes) (constLen : Nat) : Res Rd :=
  let c := checkedLen buf constLen
  match curRecLen buf c 0 with
  | .ok l => .ok { buf := buf, constLen := c, recNum := 0, off := 0, recLen := l }
  | .err _ => .err "reset-reader"
  | .panic => .panic

/-- `unpackRawCsg` BEFORE fix 42015c5: the length from the segment meta was used as it came, and the length of
the first record was taken without bounds checks -/
def Rd.initOld (buf : Bytes) (constLen : Nat) : Res Rd :=
  match (if constLen > 0 ∧ constLen ≠ inconsistent then .ok constLen else recLenOld buf) with
  | .ok l => .ok { buf := buf, constLen := constLen, recNum := 0, off := 0, recLen := l }
  | .err _ => .err "reset-reader"
  | .panic => .panic

/-- `currRawBlockBuffer[currOffset : currOffset+currRecLen]` -/
def Rd.cur (st : Rd) : Res Bytes :=
  if st.off + st.recLen ≤ st.buf.length then .ok ((st.buf.drop st.off).take st.recLen) else .panic

/-- `iterateNextRecord()`: `none` = returned an error (state as the code leaves it) -/
def Rd.next (st : Rd) : Res Rd :=
  let nextOff := st.off + st.recLen
  if nextOff ≥ st.buf.length then .err "eof"
  else match curRecLen st.buf st.constLen nextOff with
    | .ok l => .ok { st with off := nextOff, recLen := l, recNum := st.recNum + 1 }
    | .err e => .err e            -- currOffset restored
    | .panic => .panic

/-- the `for` loop of `ReadRecord` -/
def Rd.scan : Nat → Rd → Nat → Rd × Res Bytes
  | 0, st, _ => (st, .err "record-not-found")
  | fuel+1, st, n =>
    if st.recNum = n then (st, st.cur)
    else if st.recNum > n then (st, .err "record-not-found")
    else match st.next with
      | .ok st' => Rd.scan fuel st' n
      | .err _ => (st, .err "record-not-found")
      | .panic => (st, .panic)

/-- `ReadRecord(n)` on a columnar block: going backwards restarts from offset 0 -/
def Rd.readRecord (st : Rd) (n : Nat) : Rd × Res Bytes :=
  if st.recNum > n then
    match curRecLen st.buf st.constLen 0 with
    | .ok l => Rd.scan (n + 2) { st with off := 0, recLen := l, recNum := 0 } n
    | .err e => ({ st with off := 0 }, .err e)
    | .panic => ({ st with off := 0 }, .panic)
  else Rd.scan (n - st.recNum + 2) st n

/-- any sequence of `ReadRecord` calls on one reader; stops after a panic -/
def Rd.readMany : Rd → List Nat → List (Res Bytes)
  | _, [] => []
  | st, n :: ns =>
    match st.readRecord n with
    | (_, .panic) => [.panic]
    | (st', r) => r :: Rd.readMany st' ns

/-- record `i` of a block by the forward scan (fresh reader, no consistent length) -/
def seek (buf : Bytes) (i : Nat) : Option Bytes :=
  match Rd.init buf 0 with
  | .ok st => match (st.readRecord i).2 with
    | .ok r => some r
    | _ => none
  | _ => none

/-- record `i` of a block by the consistent-length shortcut -/
def seekConst (len : Nat) (buf : Bytes) (i : Nat) : Option Bytes :=
  match Rd.init buf len with
  | .ok st => match (st.readRecord i).2 with
    | .ok r => some r
    | _ => none
  | _ => none

/-- the shortcut BEFORE fix 42015c5 (the hint was not checked against the first record) -/
def seekConstOld (len : Nat) (buf : Bytes) (i : Nat) : Option Bytes :=
  match Rd.initOld buf len with
  | .ok st => match (st.readRecord i).2 with
    | .ok r => some r
    | _ => none
  | _ => none

/-! ### dictionary block -/

/-- the column's dictionary while the block is filled: (word TLV, record numbers), insertion order.
`checkAddDictEnc`: nothing at all is recorded once `deCount` has reached the limit. -/
abbrev Dict := List (Bytes × List Nat)

def Dict.add (limit : Nat) (d : Dict) (w : Bytes) (rec : Nat) : Dict :=
  if d.length < limit then
    if d.any (fun e => e.1 == w) then d.map (fun e => if e.1 == w then (e.1, e.2 ++ [rec]) else e)
    else d ++ [(w, [rec])]
  else d

/-- one column through `doLogEventFilling`: `none` = the event lacks the column.
State: bytes, dictionary, sizes reported, record number at which the column first appeared. -/
structure ColSt where
  buf : Bytes := []
  dict : Dict := []
  sizes : List Nat := []
  seen : Bool := false
  firstRec : Nat := 0
deriving Repr

def ColSt.step (limit : Nat) (st : ColSt) (recNum : Nat) (v : Option Val) : ColSt :=
  match v, st.seen with
  | some v, true =>
    let e := encTLV v
    { st with buf := st.buf ++ e, dict := Dict.add limit st.dict e recNum, sizes := st.sizes ++ [e.length] }
  | some v, false =>
    -- initAndBackFillColumn / backFillPastRecords: a column new to the block at recNum > 0 is back-filled
    -- first (recNum back-fill bytes, one dictionary word listing the records 0..recNum-1)
    let e := encTLV v
    let d0 : Dict := if recNum ≠ 0 then st.dict ++ [([tBackfill], List.range recNum)] else st.dict
    { buf := st.buf ++ List.replicate recNum tBackfill ++ e, dict := Dict.add limit d0 e recNum,
      sizes := st.sizes ++ [e.length], seen := true, firstRec := recNum }
  | none, true =>
    -- the trailing loop of doLogEventFilling: a known column absent from this event gets a back-fill record
    { st with buf := st.buf ++ [tBackfill], dict := Dict.add limit st.dict [tBackfill] recNum,
              sizes := st.sizes ++ [1] }
  | none, false => st

def fillCol (limit : Nat) (vs : List (Option Val)) : ColSt :=
  (vs.zipIdx).foldl (fun st (v, i) => st.step limit i v) {}

/-- `PackDictEnc`: number of words, then per word: the TLV, number of records (uint16), the record numbers -/
def packDict (d : Dict) : Bytes :=
  leN 2 d.length ++ (d.map (fun e => e.1 ++ leN 2 e.2.length ++ (e.2.take (e.2.length % 65536)).flatMap (leN 2))).flatten

/-- result of `ReadDictEnc`: `deTlv`, `deRecToTlv`, and whether an out-of-range record number was skipped -/
structure DictRd where
  words : List Bytes
  recToWord : List Nat
  badRec : Bool
deriving Repr, DecidableEq

/-- length of the dictionary word at the head (`switch buf[idx]` of `ReadDictEnc`); the string length is
`3 + uint32(uint16)` (patch c16-5: the length is widened BEFORE 3 is added) -/
def dictWordLen : Bytes → Res Nat
  | [] => .panic
  | t :: rest =>
    if t = tStr then
      match rdN 2 rest with
      | some (n, _) => .ok (3 + n)
      | none => .panic
    else if t = tBool then .ok 2
    else if t = tI64 ∨ t = tF64 then .ok 9
    else if t = tBackfill then .ok 1
    else .err "bad-encoding"

/-- BEFORE patch c16-5 the string length was `uint32(3 + uint16)`: the sum was taken in uint16 and WRAPPED for a
string of 65533..65535 bytes (the reader went on in the middle of the word: the column came back empty, or the
slice expression ran past the buffer and the process died) -/
def dictWordLenOld : Bytes → Res Nat
  | [] => .panic
  | t :: rest =>
    if t = tStr then
      match rdN 2 rest with
      | some (n, _) => .ok ((3 + n) % 65536)
      | none => .panic
    else dictWordLen (t :: rest)

/-- the record numbers of one word -/
def readRecNums (w recCount : Nat) : Nat → Bytes → List Nat → Bool → Res (Bytes × List Nat × Bool)
  | 0, bs, tbl, bad => .ok (bs, tbl, bad)
  | k+1, bs, tbl, bad =>
    match rdN 2 bs with
    | none => .panic
    | some (r, rest) =>
      if r ≥ recCount then readRecNums w recCount k rest tbl true
      else readRecNums w recCount k rest (tbl.set r w) bad

def readWords (recCount : Nat) : Nat → Nat → Bytes → List Bytes → List Nat → Bool → Res DictRd
  | 0, _, _, words, tbl, bad => .ok { words := words, recToWord := tbl, badRec := bad }
  | k+1, w, bs, words, tbl, bad =>
    match dictWordLen bs with
    | .panic => .panic
    | .err e => .err e
    | .ok l =>
      if l > bs.length then .panic           -- buf[soffW:idx]
      else
        match rdN 2 (bs.drop l) with
        | none => .panic
        | some (numRecs, rest) =>
          match readRecNums w recCount numRecs rest tbl bad with
          | .ok (rest', tbl', bad') => readWords recCount k (w + 1) rest' (words ++ [bs.take l]) tbl' bad'
          | .err e => .err e
          | .panic => .panic

/-- `ReadDictEnc(buf, blockNum)` on a fresh reader, `recCount` = the block summary's record count -/
def readDict (buf : Bytes) (recCount : Nat) : Res DictRd :=
  match rdN 2 buf with
  | none => .panic
  | some (numWords, rest) => readWords recCount numWords 0 rest [] (List.replicate recCount 0) false

/-- `deGetRec(rn)` -/
def DictRd.getRec (d : DictRd) (rn : Nat) : Res Bytes :=
  match d.recToWord[rn]? with
  | none => .err "record-not-found"
  | some w =>
    match d.words[w]? with
    | none => .err "invalid-index"
    | some t => .ok t

/-! ### flush-time type consolidation of a column (AppendWipToSegfile → consolidateColumnTypes, segstore.go:342-527)

Modelled for the value class of op `tlv mix`: int64 numbers, strings that are either decimal integers of at
most 18 digits (`strconv.ParseInt` succeeds, in range) or that neither `ParseInt` nor `ParseFloat` accepts,
null / absent.  Floats, bools and uint64 are outside the class (FormatFloat / ParseFloat are not modelled). -/

def isDigit (b : Nat) : Bool := 48 ≤ b && b ≤ 57

/-- `strconv.ParseInt(s, 10, 64)` on `-?[0-9]{1,18}`; `none` = not of that form -/
def parseDec? (s : Bytes) : Option Int :=
  let neg := s.head? == some 45
  let ds := if neg then s.drop 1 else s
  if ds.isEmpty || ds.length > 18 || !ds.all isDigit then none
  else
    let n : Nat := ds.foldl (fun a d => 10 * a + (d - 48)) 0
    some (if neg then - (n : Int) else (n : Int))

def digitsAux : Nat → Nat → Bytes → Bytes
  | 0, _, acc => acc
  | f+1, n, acc => if n < 10 then (48 + n) :: acc else digitsAux f (n / 10) ((48 + n % 10) :: acc)

/-- decimal digits of a uint64-sized natural (at most 20 digits) -/
def decNat (n : Nat) : Bytes := digitsAux 20 n []

/-- `strconv.FormatInt(i, 10)` for an int64 -/
def decText (i : Int) : Bytes := if i < 0 then 45 :: decNat (-i).toNat else decNat i.toNat

/-- `convertColumnToNumbers`: every string must parse; numbers and back-fills are copied -/
def toNumbers : List Val → Option (List Val)
  | [] => some []
  | v :: vs =>
    match toNumbers vs with
    | none => none
    | some r =>
      match v with
      | .str s => (parseDec? s).map (fun i => .num .i64 (i % 18446744073709551616).toNat :: r)
      | .num .i64 b => some (.num .i64 b :: r)
      | .num .f64 b => some (.num .f64 b :: r)
      | .backfill => some (.backfill :: r)
      | _ => none

/-- `convertColumnToStrings`: int64 → decimal text, bool → "true"/"false" (float64 → FormatFloat is not
modelled: left as it is, outside the class) -/
def toStrings (vs : List Val) : List Val :=
  vs.map (fun v => match v with
    | .num .i64 b => .str (decText (sext 8 b))
    | .bool true => .str [116, 114, 117, 101]
    | .bool false => .str [102, 97, 108, 115, 101]
    | v => v)

/-- `consolidateColumnTypes` for one column that has both a bloom and a range index -/
def consolidate (vs : List Val) : List Val :=
  match toNumbers vs with
  | some r => r
  | none => toStrings vs

/-- the column has both a bloom (a string was filled) and a range index (a number was filled) in the block -/
def isMixed (evs : List (Option Val)) : Bool :=
  evs.any (fun v => match v with | some (.str _) => true | _ => false) &&
  evs.any (fun v => match v with | some (.num _ _) => true | _ => false)

/-- record length advertised for the column after the flush: AppendWipToSegfile marks a column that is about
to be rewritten as inconsistent (fix 59208af) -/
def storedHint (mixed : Bool) (st : ColSt) : Nat :=
  if mixed then inconsistent else (seenSize st.firstRec st.sizes).getD inconsistent

/-- the behaviour before fix 59208af: the size seen at ingest was kept -/
def storedHintOld (_mixed : Bool) (st : ColSt) : Nat := (seenSize st.firstRec st.sizes).getD inconsistent

/-- the column's stored values after the flush -/
def storedVals (mixed : Bool) (vals : List Val) : List Val := if mixed then consolidate vals else vals

/-! ### timestamp column -/

def u64 : Nat := 18446744073709551616

/-- `WipBlock.adjustEarliestLatestTimes`: 0 means "not set yet" for both bounds -/
def adjustLowHigh (lh : Nat × Nat) (ts : Nat) : Nat × Nat :=
  (if lh.1 = 0 then ts else if ts < lh.1 then ts else lh.1,
   if lh.2 = 0 then ts else if ts > lh.2 then ts else lh.2)

def blockLowHigh (tss : List Nat) : Nat × Nat := tss.foldl adjustLowHigh (0, 0)

/-- TS_TYPE chosen from `HighTs - LowTs` (uint64 subtraction) -/
def tsType (low high : Nat) : Nat :=
  let diff := (high + u64 - low) % u64
  if diff ≤ 255 then Gen.TS_Type8.toNat else if diff ≤ 65535 then Gen.TS_Type16.toNat
  else if diff ≤ 4294967295 then Gen.TS_Type32.toNat else Gen.TS_Type64.toNat

def tsWidth (ty : Nat) : Option Nat :=
  if ty = Gen.TS_Type8.toNat then some 1 else if ty = Gen.TS_Type16.toNat then some 2
  else if ty = Gen.TS_Type32.toNat then some 4 else if ty = Gen.TS_Type64.toNat then some 8 else none

/-- `encodeTimestamps`: type byte, low (8 bytes), then `ts - low` (uint64 subtraction) cut to the width -/
def encTs (low high : Nat) (tss : List Nat) : Bytes :=
  let ty := tsType low high
  let w := (tsWidth ty).getD 8
  ty :: (leN 8 low ++ tss.flatMap (fun ts => leN w ((ts + u64 - low) % u64)))

/-- the block as `writeWip` stores it: encoding byte first -/
def tsBlock (low high : Nat) (tss : List Nat) : Bytes := encTsTopdiff :: encTs low high tss

def rdMany (w : Nat) (low : Nat) : Nat → Bytes → List Nat
  | 0, _ => []
  | k+1, bs =>
    match rdN w bs with
    | some (v, r) => ((v + low) % u64) :: rdMany w low k r
    | none => []

/-- `convertRawRecordsToTimestamps(rawRec, numRecs, nil)`: (timestamps, error) -/
def decTs (raw : Bytes) (numRecs : Nat) : Res (List Nat) :=
  if raw.length < 10 then .err "buffer-too-small" else
  match raw with
  | e :: ty :: rest =>
    if e ≠ encTsTopdiff then .err "bad-encoding" else
    match rdN 8 rest with
    | none => .panic
    | some (low, body) =>
      match tsWidth ty with
      | none => .ok (List.replicate numRecs 0)      -- unknown TS_TYPE: buffer returned untouched, no error
      | some w =>
        let valid := min numRecs ((body.length / w) % 65536)
        if valid ≠ numRecs then .err "too-few-records" else .ok (rdMany w low numRecs body)
  | _ => .err "buffer-too-small"

end SigModel.Tlv
