/-
Model of the log-segment write protocol and of what a restart adopts (C07), at the level of completed
file-system calls (process-crash model: a completed call persists, the operating system survives, no
torn writes).  Core Lean only.

Mirrors (Go, /repo/pkg):
  segment/writer/segstore.go   AppendWipToSegfile      per column: writeWip (.csg chunk) + flushBloomIndex /
                                                       flushBlockRangeIndex (.cmi), in parallel goroutines;
                                                       allColsToFlush.Wait(); flushBlockSummary (.bsu append);
                                                       FlushSegStats (.sst.tmp, rename to .sst);
                                                       WriteRunningSegMeta → WriteSfm (running .sfm)
                               checkAndRotateColFiles  addSegmeta → BulkAddRotatedSegmetas: WriteSfm, then append
                                                       to segmeta.json; CleanupUnrotatedSegment → resetSegStore
                               resetSegStore           suffix.GetNextSuffix (tmp + rename), MkdirAll(segment dir)
  segment/writer/segmetarw.go  WriteSfm                OpenFile(<segkey>.sfm.tmp, O_CREATE|O_TRUNC) ; Write ; Sync ;
                                                       os.Rename onto <segkey>.sfm  (atomic replace)
                                                       [before the repair: OpenFile(<segkey>.sfm, O_TRUNC) ; Write ; Sync —
                                                        kept below as the `…Old` protocol, for the counterexample theorem]
                               BulkAddRotatedSegmetas  OpenFile(O_APPEND) ; Write ; Sync
  segment/writer/suffix/suffix.go  getAndIncrementSuffixFromFile / writeSuffix
  segment/query/segquery.go + queryrefresh.go          startup: populateMicroIndices (ReadLocalSegmeta: every
                               entry of segmeta.json is a segment) and syncSegMetaWithSegFullMeta (every entry
                               of the index directory that is not yet known and whose .sfm can be read and
                               parsed is adopted; an empty or missing .sfm = "Error populating segfullmeta", skipped)
  segment/reader/microreader   ReadBlockSummaries reads EVERY summary present in the .bsu (not NumBlocks of them)

Abstractions: a flush is identified by its number (0,1,2,…; it stands for the events of that buffer flush);
the column files of one flush are an arbitrary list `ws` of "column-file appends" (csg chunks and cmi
entries alike), written in list order — the theorems quantify over all such lists, i.e. over every order in
which the parallel column writers may complete.  Block summaries reference the chunks they need.
-/
namespace SigModel.Crash

/-- content of `<segkey>.sfm`: missing, zero bytes (after O_TRUNC, before the write), or a JSON record whose
NumBlocks / RecordCount describe the listed flushes -/
inductive Sfm where
  | absent
  | empty
  | json (blocks : List Nat)
deriving Repr, DecidableEq, Inhabited

/-- the files of one segment directory -/
structure SegSt where
  /-- column-file chunks on disk: (flush, chunk id) -/
  chunks : List (Nat × Nat) := []
  /-- block summaries in file order: (flush, chunk ids the block consists of) -/
  bsu : List (Nat × List Nat) := []
  /-- `<segkey>.sst.tmp` (never read by anything) -/
  sstTmp : Option (List Nat) := none
  /-- `<segkey>.sst`: segment statistics over the listed flushes -/
  sst : Option (List Nat) := none
  /-- `<segkey>.sfm.tmp` (never read by anything) -/
  sfmTmp : Option (List Nat) := none
  sfm : Sfm := .absent
deriving Repr, Inhabited

/-- the data directory -/
structure FS where
  suffixTmp : Option Nat := none
  /-- the suffix file: number of the NEXT segment to create -/
  suffix : Option Nat := none
  /-- existing segment directories -/
  dirs : List Nat := []
  seg : Nat → SegSt := fun _ => {}
  /-- lines of segmeta.json: (segment, flushes its RecordCount covers) -/
  segmeta : List (Nat × List Nat) := []

instance : Inhabited FS := ⟨{}⟩

/-- one completed file-system call (or group of calls on a file that nothing reads in between) -/
inductive Step where
  | suffixTmp (n : Nat)                    -- os.WriteFile(suffix.tmp, {"suffix": n})
  | suffixRename                           -- os.Rename(suffix.tmp, suffix file)
  | mkdir (s : Nat)                        -- os.MkdirAll(segment dir)
  | chunk (s f w : Nat)                    -- one column-file append of flush f
  | bsu (s f : Nat) (ws : List Nat)        -- append the block summary of flush f
  | sstTmp (s : Nat) (fls : List Nat)      -- create/truncate + write .sst.tmp
  | sstRename (s : Nat)                    -- rename .sst.tmp → .sst
  | sfmTmp (s : Nat) (fls : List Nat)      -- create/truncate + write .sfm.tmp
  | sfmRename (s : Nat)                    -- rename .sfm.tmp → .sfm
  | sfmTrunc (s : Nat)                     -- OLD protocol: OpenFile(.sfm, O_CREATE|O_TRUNC)
  | sfmWrite (s : Nat) (fls : List Nat)    -- OLD protocol: Write(json) into the truncated .sfm
  | segmetaAppend (s : Nat) (fls : List Nat)
deriving Repr, DecidableEq, Inhabited

def FS.setSeg (fs : FS) (s : Nat) (f : SegSt → SegSt) : FS :=
  { fs with seg := fun x => if x = s then f (fs.seg x) else fs.seg x }

def apply (fs : FS) : Step → FS
  | .suffixTmp n => { fs with suffixTmp := some n }
  | .suffixRename => match fs.suffixTmp with
    | some n => { fs with suffix := some n, suffixTmp := none }
    | none => fs
  | .mkdir s => if fs.dirs.contains s then fs else { fs with dirs := s :: fs.dirs }
  | .chunk s f w => fs.setSeg s (fun st => { st with chunks := st.chunks ++ [(f, w)] })
  | .bsu s f ws => fs.setSeg s (fun st => { st with bsu := st.bsu ++ [(f, ws)] })
  | .sstTmp s fls => fs.setSeg s (fun st => { st with sstTmp := some fls })
  | .sstRename s => fs.setSeg s (fun st => { st with sst := (st.sstTmp <|> st.sst), sstTmp := none })
  | .sfmTmp s fls => fs.setSeg s (fun st => { st with sfmTmp := some fls })
  | .sfmRename s => fs.setSeg s (fun st => { st with sfm := (st.sfmTmp.map Sfm.json).getD st.sfm, sfmTmp := none })
  | .sfmTrunc s => fs.setSeg s (fun st => { st with sfm := .empty })
  | .sfmWrite s fls => fs.setSeg s (fun st => { st with sfm := .json fls })
  | .segmetaAppend s fls => { fs with segmeta := fs.segmeta ++ [(s, fls)] }

def run (fs : FS) (ss : List Step) : FS := ss.foldl apply fs

/-! ### the writer -/

/-- in-memory state of the segment writer (`SegStore`): open segment, its blocks so far, next flush number -/
structure W where
  cur : Nat := 0
  fls : List Nat := []
  nf : Nat := 0
deriving Repr, DecidableEq, Inhabited

inductive Cmd where
  /-- a buffer flush whose column files are written in the order `ws` -/
  | fl (ws : List Nat)
  /-- a forced/size/time rotation of the open segment (nothing buffered) -/
  | ro
deriving Repr, DecidableEq, Inhabited

abbrev Hist := List Cmd

/-- `resetSegStore`: take the next suffix (the file is bumped BEFORE the directory exists), create the dir -/
def openSteps (n : Nat) : List Step := [.suffixTmp (n + 1), .suffixRename, .mkdir n]

/-- `AppendWipToSegfile` with a non-empty buffer -/
def flushSteps (w : W) (ws : List Nat) : List Step :=
  ws.map (fun c => Step.chunk w.cur w.nf c) ++
  [.bsu w.cur w.nf ws, .sstTmp w.cur (w.fls ++ [w.nf]), .sstRename w.cur, .sfmTmp w.cur (w.fls ++ [w.nf]), .sfmRename w.cur]

/-- `checkAndRotateColFiles` when it rotates (only called when the segment has at least one block) -/
def rotateSteps (w : W) : List Step :=
  if w.fls = [] then [] else
  [.sfmTmp w.cur w.fls, .sfmRename w.cur, .segmetaAppend w.cur w.fls] ++ openSteps (w.cur + 1)

def cmdSteps (w : W) : Cmd → List Step
  | .fl ws => flushSteps w ws
  | .ro => rotateSteps w

def next (w : W) : Cmd → W
  | .fl _ => { w with fls := w.fls ++ [w.nf], nf := w.nf + 1 }
  | .ro => if w.fls = [] then w else { cur := w.cur + 1, fls := [], nf := w.nf }

def stepsFrom (w : W) : Hist → List Step
  | [] => []
  | c :: h => cmdSteps w c ++ stepsFrom (next w c) h

/-- every file-system step of a history, in program order (the segment store is created by the first ingest) -/
def steps (h : Hist) : List Step := openSteps 0 ++ stepsFrom {} h

/-- the data directory after a crash that let exactly the first `k` steps complete -/
def crashAfter (h : Hist) (k : Nat) : FS := run {} ((steps h).take k)

/-- the flush (if any) that a command performs -/
def cmdFlush (w : W) : Cmd → List Nat
  | .fl _ => [w.nf]
  | .ro => []

/-- flushes all of whose steps lie within the first `k` steps of `stepsFrom w h` -/
def completedFrom (w : W) : Hist → Nat → List Nat
  | [], _ => []
  | c :: h, k =>
    let n := (cmdSteps w c).length
    if n ≤ k then cmdFlush w c ++ completedFrom (next w c) h (k - n) else []

/-- flushes that had completed (their running .sfm in place) when the crash hit after `k` steps -/
def completed (h : Hist) (k : Nat) : List Nat := completedFrom {} h (k - 3)

/-- the flush that was cut by the crash (at least one of its steps done, not all) -/
def inflightFrom (w : W) : Hist → Nat → Option Nat
  | [], _ => none
  | c :: h, k =>
    let n := (cmdSteps w c).length
    if n ≤ k then inflightFrom (next w c) h (k - n)
    else match c with
      | .fl _ => if 0 < k then some w.nf else none
      | .ro => none

def inflight (h : Hist) (k : Nat) : Option Nat := inflightFrom {} h (k - 3)

/-! ### the protocol before the repair of `WriteSfm` (truncate in place, then write) -/

def flushStepsOld (w : W) (ws : List Nat) : List Step :=
  ws.map (fun c => Step.chunk w.cur w.nf c) ++
  [.bsu w.cur w.nf ws, .sstTmp w.cur (w.fls ++ [w.nf]), .sstRename w.cur, .sfmTrunc w.cur, .sfmWrite w.cur (w.fls ++ [w.nf])]

def rotateStepsOld (w : W) : List Step :=
  if w.fls = [] then [] else
  [.sfmTrunc w.cur, .sfmWrite w.cur w.fls, .segmetaAppend w.cur w.fls] ++ openSteps (w.cur + 1)

def cmdStepsOld (w : W) : Cmd → List Step
  | .fl ws => flushStepsOld w ws
  | .ro => rotateStepsOld w

def stepsFromOld (w : W) : Hist → List Step
  | [] => []
  | c :: h => cmdStepsOld w c ++ stepsFromOld (next w c) h

def stepsOld (h : Hist) : List Step := openSteps 0 ++ stepsFromOld {} h

def crashAfterOld (h : Hist) (k : Nat) : FS := run {} ((stepsOld h).take k)

def completedFromOld (w : W) : Hist → Nat → List Nat
  | [], _ => []
  | c :: h, k =>
    let n := (cmdStepsOld w c).length
    if n ≤ k then cmdFlush w c ++ completedFromOld (next w c) h (k - n) else []

def completedOld (h : Hist) (k : Nat) : List Nat := completedFromOld {} h (k - 3)

/-! ### restart -/

def Sfm.parsable : Sfm → Bool
  | .json _ => true
  | _ => false

def Sfm.blocks : Sfm → List Nat
  | .json b => b
  | _ => []

def segIds (fs : FS) : List Nat := fs.segmeta.map (·.1)

/-- directories adopted through their .sfm by `syncSegMetaWithSegFullMeta` -/
def sfmAdopted (fs : FS) : List Nat :=
  fs.dirs.filter (fun s => !(segIds fs).contains s && (fs.seg s).sfm.parsable)

/-- segments known to the query node after startup -/
def adopted (fs : FS) : List Nat := segIds fs ++ sfmAdopted fs

/-- a block all of whose column chunks are on disk -/
def whole (st : SegSt) (b : Nat × List Nat) : Bool := b.2.all (fun w => st.chunks.contains (b.1, w))

/-- flushes served from a segment: every block summary in the .bsu whose chunks exist -/
def segVisible (st : SegSt) : List Nat := (st.bsu.filter (whole st)).map (·.1)

/-- block summaries that point at chunks which are not there (a query would fail or return partial rows) -/
def segTorn (st : SegSt) : List Nat := (st.bsu.filter (fun b => !whole st b)).map (·.1)

/-- `recover`: the flushes whose events a match-all search returns after the restart -/
def visible (fs : FS) : List Nat := (adopted fs).flatMap (fun s => segVisible (fs.seg s))

def torn (fs : FS) : List Nat := (adopted fs).flatMap (fun s => segTorn (fs.seg s))

/-- flushes covered by the segment statistics used for `| stats sum(..)`: the .sst when present, else the blocks -/
def statted (fs : FS) : List Nat :=
  (adopted fs).flatMap (fun s => match (fs.seg s).sst with
    | some c => c
    | none => segVisible (fs.seg s))

/-- `coverBlockSummaries` (queryrefresh.go): the flushes the record of a segment adopted through its .sfm is made to
cover — those the .sfm was built from, and every further block summary the .bsu holds (the block summary of a
flush is appended before the running .sfm is replaced; the restart widens the time range by every summary and,
when the summaries hold more records than the .sfm counts, takes record count and columns from them) -/
def reconciled (st : SegSt) : List Nat :=
  st.sfm.blocks ++ (st.bsu.map (·.1)).filter (fun f => !st.sfm.blocks.contains f)

/-- the segment metadata records the query node holds after startup, in adoption order, each with the flushes the
record was BUILT FROM (its time range, record count and column set are those of the SegStore after these flushes,
see Model/CrashMeta.lean): the lines of segmeta.json, then the record of every directory adopted through its .sfm
(`readSegFullMetaFileAndPopulate`: the .sfm content, made to cover the block summaries).
`adopted = metas.map (·.1)`. -/
def metas (fs : FS) : List (Nat × List Nat) :=
  fs.segmeta ++ (sfmAdopted fs).map (fun s => (s, reconciled (fs.seg s)))

/-- BEFORE the repair of `readSegFullMetaFileAndPopulate`: the adopted record was the .sfm content as it is (kept
for the counterexample theorems) -/
def metasOld (fs : FS) : List (Nat × List Nat) :=
  fs.segmeta ++ (sfmAdopted fs).map (fun s => (s, (fs.seg s).sfm.blocks))

/-- flushes counted by the metadata (RecordCount of the records): what `| stats count` answers for segments that
are not open -/
def counted (fs : FS) : List Nat := (metas fs).flatMap (·.2)

/-- the suffix the restarted writer gives its first segment (`getSuffix`: missing file = 0) -/
def nextSuffix (fs : FS) : Nat := fs.suffix.getD 0

end SigModel.Crash
