/-
Model for C11 (segstore table) — the GET-OR-CREATE of a stream's SegStore in the table `allSegStores`, as a
concurrent state machine at the granularity of the lock acquisitions and of the statements of createSegStore.

Mirrored Go code, pkg/segment/writer/segwriter.go (protocol only; the contents of a SegStore are a list of
event ids):
  * AddEntryToInMemBuf (323-335):   segstore := getOrCreateSegStore(streamid, …) ; segstore.AddEntry(…)
        AddEntry (454-513) takes ONLY the store's own lock, appends the events and returns nil = acknowledged.
  * getOrCreateSegStore (692-699):  getSegStore(streamid) ; nil → createSegStore(…)
  * getSegStore (701-711):          allSegStoresLock.RLock ; allSegStores[streamid] ; RUnlock   (one step `get`)
  * createSegStore (713-740), in program order (`Cfg.real.prog`, tied by the go2lean fact C11.create.order):
        allSegStoresLock.Lock() ; defer Unlock          CStep.lock    (waits while another call holds the lock)
        len check ; ss, present := allSegStores[id]     CStep.recheck (present → return ss; deferred Unlock)
        NewSegStore ; initWipBlock ; resetSegStore →
          suffix.GetNextSuffix: getSuffix(file)         CStep.sufRead   (suffix.go 97-101: read the suffix file)
          … writeSuffix(file, suffix+1) ; mkdir ; …     CStep.sufWrite  (suffix.go 118-121; the store now exists)
        allSegStores[streamid] = segstore               CStep.insert
        return (deferred Unlock)                        CStep.unlock
    GetNextSuffix takes no lock of its own: its read and its write are two steps, atomic only through the lock
    the CALLER holds.
  * flush + rotation of the REGISTERED store of a stream (FlushWipBufferToFile 642-671 under
    allSegStoresLock.RLock, ForceRotateSegmentsForTest 620-633 under allSegStoresLock.Lock; the idle / max-wait
    timers and the shutdown flush iterate over `allSegStores` only): Label.flush — the store's events become
    persistent and the store takes the next suffix (resetSegStore).  A store that is not in the table is never
    reached by any of them.
  * removeStaleSegments (588-618): Label.evict — a registered store without records (RecordCount = 0) is deleted
    from the table under allSegStoresLock.Lock.  The idle horizon is not modelled: in the code as it is
    `isSegstoreUnusedSinceTime(STALE_SEGMENT_DELETION_SECONDS)` passes 900 as a time.Duration, i.e. 900 ns — every
    store without records qualifies (known finding create/lost-ack/evicted-before-append); the harness moves
    lastUpdated into the past all the same, so that the replay survives a repair of the unit.

`get`, `lock`, `flush`, `evict` need allSegStoresLock and are NOT ENABLED while a call holds it (`St.lock`); a
label whose step is not enabled leaves the state unchanged.  Every other step is always enabled.
One "thread" = one ingest call carrying one event (event id = thread id).  Schedules are lists of labels
"who moves next".  `Cfg.prog` is the program order of createSegStore: `Cfg.real` as extracted from the source;
the other configurations are the variants the counterexample theorems are about.
Core Lean only.
-/
namespace SigModel.ConcCreate

inductive CStep where
  | lock | recheck | sufRead | sufWrite | insert | unlock
deriving DecidableEq, Repr

structure Cfg where
  prog : List CStep

/-- createSegStore as it is -/
def Cfg.real : Cfg := ⟨[.lock, .recheck, .sufRead, .sufWrite, .insert, .unlock]⟩

/-- the store is set up BEFORE the lock is taken and inserted without a re-check -/
def Cfg.buildOutsideLock : Cfg := ⟨[.sufRead, .sufWrite, .lock, .insert, .unlock]⟩

/-- everything under the lock, but no re-check of the table -/
def Cfg.noRecheck : Cfg := ⟨[.lock, .sufRead, .sufWrite, .insert, .unlock]⟩

/-- the lock is released before the insert -/
def Cfg.unlockBeforeInsert : Cfg := ⟨[.lock, .recheck, .sufRead, .sufWrite, .unlock, .insert]⟩

inductive Pc where
  | idle                          -- the call has not started
  | create (todo : List CStep)    -- inside createSegStore, remaining statements
  | append                        -- getOrCreateSegStore returned `ret`; AddEntry is next
  | done
deriving DecidableEq, Repr

structure Thread where
  stream : Nat := 0
  pc : Pc := .idle
  suf : Nat := 0              -- local of GetNextSuffix: the suffix read from the file
  mine : Option Nat := none   -- the store this call has built
  ret : Option Nat := none    -- the store this call appends to

structure Store where
  stream : Nat := 0
  suffix : Nat := 0             -- suffix of the open segment
  events : List Nat := []       -- events appended and not yet persistent

structure St where
  table : Nat → Option Nat := fun _ => none   -- allSegStores: stream ↦ store
  lock : Option Nat := none                   -- the call holding allSegStoresLock.Lock
  store : Nat → Store := fun _ => {}          -- every store ever built, by number
  nstores : Nat := 0
  sufFile : Nat → Nat := fun _ => 0           -- the suffix file of a stream: next suffix
  handed : List (Nat × Nat) := []             -- ghost: (stream, suffix) handed out, in order
  thread : Nat → Thread := fun _ => {}
  started : List Nat := []                    -- ghost: the calls that have started
  acked : List (Nat × Nat) := []              -- ghost: (event, store) acknowledged, in order
  persisted : List Nat := []                  -- events that flush + rotation have made persistent

def init : St := {}

def upd {α : Type} (f : Nat → α) (i : Nat) (v : α) : Nat → α := fun j => if j = i then v else f j

/-- leaving createSegStore: the caller goes on to AddEntry -/
def afterCreate : List CStep → Pc
  | [] => .append
  | todo => .create todo

/-- one statement of createSegStore by call `t` (its `todo` is `a :: rest`) -/
def createStep (s : St) (t : Nat) (a : CStep) (rest : List CStep) : St :=
  let th := s.thread t
  match a with
  | .lock =>
    match s.lock with
    | some _ => s                                                   -- waits
    | none => { s with lock := some t, thread := upd s.thread t { th with pc := afterCreate rest } }
  | .recheck =>
    match s.table th.stream with
    | some r =>                                                     -- `return ss, nil` (+ deferred Unlock)
      let todo : List CStep := if s.lock = some t then [.unlock] else []
      { s with thread := upd s.thread t { th with ret := some r, pc := afterCreate todo } }
    | none => { s with thread := upd s.thread t { th with pc := afterCreate rest } }
  | .sufRead =>
    { s with thread := upd s.thread t { th with suf := s.sufFile th.stream, pc := afterCreate rest } }
  | .sufWrite =>
    { s with sufFile := upd s.sufFile th.stream (th.suf + 1),
             store := upd s.store s.nstores { stream := th.stream, suffix := th.suf, events := [] },
             nstores := s.nstores + 1,
             handed := s.handed ++ [(th.stream, th.suf)],
             thread := upd s.thread t { th with mine := some s.nstores, pc := afterCreate rest } }
  | .insert =>
    match th.mine with
    | some m => { s with table := upd s.table th.stream (some m),
                         thread := upd s.thread t { th with ret := some m, pc := afterCreate rest } }
    | none => { s with thread := upd s.thread t { th with pc := afterCreate rest } }
  | .unlock =>
    { s with lock := if s.lock = some t then none else s.lock,
             thread := upd s.thread t { th with pc := afterCreate rest } }

/-- label `call t i`: the next step of call `t`; its first step starts it on stream `i` with getSegStore -/
def callStep (cfg : Cfg) (s : St) (t i : Nat) : St :=
  let th := s.thread t
  match th.pc with
  | .idle =>
    match s.lock with
    | some _ => s                                                   -- RLock waits
    | none =>
      match s.table i with
      | some r => { s with started := s.started ++ [t],
                           thread := upd s.thread t { th with stream := i, ret := some r, pc := .append } }
      | none => { s with started := s.started ++ [t],
                         thread := upd s.thread t { th with stream := i, pc := afterCreate cfg.prog } }
  | .create [] => { s with thread := upd s.thread t { th with pc := .append } }
  | .create (a :: rest) => createStep s t a rest
  | .append =>
    match th.ret with
    | some r => { s with store := upd s.store r { s.store r with events := (s.store r).events ++ [t] },
                         acked := s.acked ++ [(t, r)],
                         thread := upd s.thread t { th with pc := .done } }
    | none => { s with thread := upd s.thread t { th with pc := .done } }  -- createSegStore returned an error
  | .done => s

/-- label `flush i`: flush + rotation of the registered store of stream `i` -/
def flushStep (s : St) (i : Nat) : St :=
  match s.lock with
  | some _ => s
  | none =>
    match s.table i with
    | none => s
    | some r =>
      if (s.store r).events = [] then s else
      { s with persisted := s.persisted ++ (s.store r).events,
               store := upd s.store r { s.store r with events := [], suffix := s.sufFile i },
               sufFile := upd s.sufFile i (s.sufFile i + 1),
               handed := s.handed ++ [(i, s.sufFile i)] }

/-- label `evict i`: removeStaleSegments deletes the registered store of stream `i` if it holds no records -/
def evictStep (s : St) (i : Nat) : St :=
  match s.lock with
  | some _ => s
  | none =>
    match s.table i with
    | none => s
    | some r => if (s.store r).events = [] then { s with table := upd s.table i none } else s

inductive Label where
  | call (t i : Nat)
  | flush (i : Nat)
  | evict (i : Nat)
deriving DecidableEq, Repr

def step (cfg : Cfg) (s : St) : Label → St
  | .call t i => callStep cfg s t i
  | .flush i => flushStep s i
  | .evict i => evictStep s i

def run (cfg : Cfg) (s : St) (l : List Label) : St := l.foldl (step cfg) s

/-- the acknowledged event `e` of store `r` is lost: not persistent, and its store is not the registered store of
its stream — no flush timer, forced rotation or shutdown flush will ever reach it -/
def Lost (s : St) (e r : Nat) : Prop :=
  (e, r) ∈ s.acked ∧ e ∉ s.persisted ∧ s.table (s.store r).stream ≠ some r

instance (s : St) (e r : Nat) : Decidable (Lost s e r) := by unfold Lost; infer_instance

/-- a call that already holds a pointer to the registered store of stream `i` and has not appended yet -/
def holdsRegistered (s : St) (i t : Nat) : Bool :=
  (s.thread t).pc == .append && (s.table i).isSome && (s.thread t).ret == s.table i

/-- schedule guard: no `evict i` is taken while a call holds a pointer to the registered store of `i` that it
has not appended to yet -/
def evictSafe (cfg : Cfg) (s : St) : List Label → Bool
  | [] => true
  | l :: ls =>
    (match l with
     | .evict i => s.started.all (fun t => !holdsRegistered s i t)
     | _ => true) && evictSafe cfg (step cfg s l) ls

/-- the schedule contains no eviction at all -/
def evictFree : List Label → Bool
  | [] => true
  | .evict _ :: _ => false
  | _ :: ls => evictFree ls

end SigModel.ConcCreate
