/-
Model for C11 (segstore table) — the GET-OR-CREATE of a stream's SegStore in the table `allSegStores`, as a
concurrent state machine at the granularity of the lock acquisitions and of the statements of createSegStore.

Mirrored Go code, pkg/segment/writer/segwriter.go (protocol only; the contents of a SegStore are a list of
event ids):
  * AddEntryToInMemBuf:   for { segstore := getOrCreateSegStore(streamid, …) ; err := segstore.AddEntry(…) ;
                                 err ≠ errSegStoreRemoved → return err }
        AddEntry takes ONLY the store's own lock; a store marked `removed` answers errSegStoreRemoved without
        appending (the caller starts over with getSegStore: Pc.retry); otherwise it appends the events and returns
        nil = acknowledged.  (`Cfg.retry = true`.  Before the repair — `Cfg.realOld`, `retry = false` — there was
        no mark and no loop: the call appended to whatever store it held.)
  * getOrCreateSegStore (692-699):  getSegStore(streamid) ; nil → createSegStore(…)
  * getSegStore (701-711):          allSegStoresLock.RLock ; allSegStores[streamid] ; RUnlock   (one step `get`)
  * createSegStore (713-740), in program order (`Cfg.real.prog`, tied by the go2lean fact C11.create.order):
        allSegStoresLock.Lock() ; defer Unlock          CStep.lock    (waits while another call holds the lock)
        len check ; ss, present := allSegStores[id]     CStep.recheck (present → return ss; deferred Unlock)
        NewSegStore ; initWipBlock ; resetSegStore →
          suffix.GetNextSuffix: getSuffix(file)         CStep.sufRead   (suffix.go 97-101: read the suffix file)
          … writeSuffix(file, suffix+1) ; mkdir ; …     CStep.sufWrite  (suffix.go 118-121; the store now exists)
        allSegStores[streamid] = segstore               CStep.insert
        return (deferred Unlock)                        CStep.unlock
    GetNextSuffix takes no lock of its own: its read and its write are two steps, atomic only through the lock
    the CALLER holds.
  * flush + rotation of the REGISTERED store of a stream (FlushWipBufferToFile 642-671 under
    allSegStoresLock.RLock, ForceRotateSegmentsForTest 620-633 under allSegStoresLock.Lock; the idle / max-wait
    timers and the shutdown flush iterate over `allSegStores` only): Label.flush — the store's events become
    persistent and the store takes the next suffix (resetSegStore).  A store that is not in the table is never
    reached by any of them.
  * removeStaleSegments: Label.evict — under allSegStoresLock.Lock AND the store's lock a registered store without
    records (RecordCount = 0) that has been idle for STALE_SEGMENT_DELETION_SECONDS is marked `removed` and deleted
    from the table (fact C11.evict.order).  The idle horizon is not modelled (the harness moves lastUpdated into
    the past): the theorems hold for an eviction at ANY moment.  (Before the repairs the horizon was 900 ns instead
    of 900 s — every store without records qualified — and the store was neither locked nor marked.)

`get`, `lock`, `flush`, `evict` need allSegStoresLock and are NOT ENABLED while a call holds it (`St.lock`); a
label whose step is not enabled leaves the state unchanged.  Every other step is always enabled.
One "thread" = one ingest call carrying one event (event id = thread id).  Schedules are lists of labels
"who moves next".  `Cfg.prog` is the program order of createSegStore: `Cfg.real` as extracted from the source;
the other configurations are the variants the counterexample theorems are about.
Core Lean only.
-/
namespace SigModel.ConcCreate

inductive CStep where
  | lock | recheck | sufRead | sufWrite | insert | unlock
deriving DecidableEq, Repr

structure Cfg where
  prog : List CStep
  retry : Bool   -- removeStaleSegments marks the store it deletes; AddEntry on a marked store makes the caller start over

/-- the code as it is -/
def Cfg.real : Cfg := ⟨[.lock, .recheck, .sufRead, .sufWrite, .insert, .unlock], true⟩

/-- the code before the repair of removeStaleSegments / AddEntryToInMemBuf: no mark, no retry -/
def Cfg.realOld : Cfg := ⟨[.lock, .recheck, .sufRead, .sufWrite, .insert, .unlock], false⟩

/-- the store is set up BEFORE the lock is taken and inserted without a re-check -/
def Cfg.buildOutsideLock : Cfg := ⟨[.sufRead, .sufWrite, .lock, .insert, .unlock], true⟩

/-- everything under the lock, but no re-check of the table -/
def Cfg.noRecheck : Cfg := ⟨[.lock, .sufRead, .sufWrite, .insert, .unlock], true⟩

/-- the lock is released before the insert -/
def Cfg.unlockBeforeInsert : Cfg := ⟨[.lock, .recheck, .sufRead, .sufWrite, .unlock, .insert], true⟩

inductive Pc where
  | idle                          -- the call has not started
  | create (todo : List CStep)    -- inside createSegStore, remaining statements
  | append                        -- getOrCreateSegStore returned `ret`; AddEntry is next
  | retry                         -- AddEntry answered errSegStoreRemoved; getSegStore (same stream) is next
  | done
deriving DecidableEq, Repr

structure Thread where
  stream : Nat := 0
  pc : Pc := .idle
  suf : Nat := 0              -- local of GetNextSuffix: the suffix read from the file
  mine : Option Nat := none   -- the store this call has built
  ret : Option Nat := none    -- the store this call appends to

structure Store where
  stream : Nat := 0
  suffix : Nat := 0             -- suffix of the open segment
  events : List Nat := []       -- events appended and not yet persistent
  removed : Bool := false       -- removeStaleSegments has deleted it from the table

structure St where
  table : Nat → Option Nat := fun _ => none   -- allSegStores: stream ↦ store
  lock : Option Nat := none                   -- the call holding allSegStoresLock.Lock
  store : Nat → Store := fun _ => {}          -- every store ever built, by number
  nstores : Nat := 0
  sufFile : Nat → Nat := fun _ => 0           -- the suffix file of a stream: next suffix
  handed : List (Nat × Nat) := []             -- ghost: (stream, suffix) handed out, in order
  thread : Nat → Thread := fun _ => {}
  started : List Nat := []                    -- ghost: the calls that have started
  acked : List (Nat × Nat) := []              -- ghost: (event, store) acknowledged, in order
  persisted : List Nat := []                  -- events that flush + rotation have made persistent

def init : St := {}

def upd {α : Type} (f : Nat → α) (i : Nat) (v : α) : Nat → α := fun j => if j = i then v else f j

/-- leaving createSegStore: the caller goes on to AddEntry -/
def afterCreate : List CStep → Pc
  | [] => .append
  | todo => .create todo

/-- one statement of createSegStore by call `t` (its `todo` is `a :: rest`) -/
def createStep (s : St) (t : Nat) (a : CStep) (rest : List CStep) : St :=
  let th := s.thread t
  match a with
  | .lock =>
    match s.lock with
    | some _ => s                                                   -- waits
    | none => { s with lock := some t, thread := upd s.thread t { th with pc := afterCreate rest } }
  | .recheck =>
    match s.table th.stream with
    | some r =>                                                     -- `return ss, nil` (+ deferred Unlock)
      let todo : List CStep := if s.lock = some t then [.unlock] else []
      { s with thread := upd s.thread t { th with ret := some r, pc := afterCreate todo } }
    | none => { s with thread := upd s.thread t { th with pc := afterCreate rest } }
  | .sufRead =>
    { s with thread := upd s.thread t { th with suf := s.sufFile th.stream, pc := afterCreate rest } }
  | .sufWrite =>
    { s with sufFile := upd s.sufFile th.stream (th.suf + 1),
             store := upd s.store s.nstores { stream := th.stream, suffix := th.suf, events := [], removed := false },
             nstores := s.nstores + 1,
             handed := s.handed ++ [(th.stream, th.suf)],
             thread := upd s.thread t { th with mine := some s.nstores, pc := afterCreate rest } }
  | .insert =>
    match th.mine with
    | some m => { s with table := upd s.table th.stream (some m),
                         thread := upd s.thread t { th with ret := some m, pc := afterCreate rest } }
    | none => { s with thread := upd s.thread t { th with pc := afterCreate rest } }
  | .unlock =>
    { s with lock := if s.lock = some t then none else s.lock,
             thread := upd s.thread t { th with pc := afterCreate rest } }

/-- getSegStore of call `t` on stream `i` (first step of the call, and first step after errSegStoreRemoved) -/
def getStep (cfg : Cfg) (s : St) (t i : Nat) : St :=
  let th := s.thread t
  match s.lock with
  | some _ => s                                                   -- RLock waits
  | none =>
    match s.table i with
    | some r => { s with started := s.started ++ [t],
                         thread := upd s.thread t { th with stream := i, ret := some r, pc := .append } }
    | none => { s with started := s.started ++ [t],
                       thread := upd s.thread t { th with stream := i, pc := afterCreate cfg.prog } }

/-- label `call t i`: the next step of call `t`; its first step starts it on stream `i` with getSegStore -/
def callStep (cfg : Cfg) (s : St) (t i : Nat) : St :=
  let th := s.thread t
  match th.pc with
  | .idle => getStep cfg s t i
  | .retry => getStep cfg s t th.stream
  | .create [] => { s with thread := upd s.thread t { th with pc := .append } }
  | .create (a :: rest) => createStep s t a rest
  | .append =>
    match th.ret with
    | some r =>
      if cfg.retry = true ∧ (s.store r).removed = true then
        { s with thread := upd s.thread t { th with pc := .retry } }   -- errSegStoreRemoved: nothing appended
      else
        { s with store := upd s.store r { s.store r with events := (s.store r).events ++ [t] },
                 acked := s.acked ++ [(t, r)],
                 thread := upd s.thread t { th with pc := .done } }
    | none => { s with thread := upd s.thread t { th with pc := .done } }  -- createSegStore returned an error
  | .done => s

/-- label `flush i`: flush + rotation of the registered store of stream `i` -/
def flushStep (s : St) (i : Nat) : St :=
  match s.lock with
  | some _ => s
  | none =>
    match s.table i with
    | none => s
    | some r =>
      if (s.store r).events = [] then s else
      { s with persisted := s.persisted ++ (s.store r).events,
               store := upd s.store r { s.store r with events := [], suffix := s.sufFile i },
               sufFile := upd s.sufFile i (s.sufFile i + 1),
               handed := s.handed ++ [(i, s.sufFile i)] }

/-- label `evict i`: removeStaleSegments deletes the registered store of stream `i` if it holds no records (and,
`cfg.retry`, marks it under the store's lock) -/
def evictStep (cfg : Cfg) (s : St) (i : Nat) : St :=
  match s.lock with
  | some _ => s
  | none =>
    match s.table i with
    | none => s
    | some r =>
      if (s.store r).events = [] then
        { s with table := upd s.table i none,
                 store := upd s.store r { s.store r with removed := cfg.retry } }
      else s

inductive Label where
  | call (t i : Nat)
  | flush (i : Nat)
  | evict (i : Nat)
deriving DecidableEq, Repr

def step (cfg : Cfg) (s : St) : Label → St
  | .call t i => callStep cfg s t i
  | .flush i => flushStep s i
  | .evict i => evictStep cfg s i

def run (cfg : Cfg) (s : St) (l : List Label) : St := l.foldl (step cfg) s

/-- the acknowledged event `e` of store `r` is lost: not persistent, and its store is not the registered store of
its stream — no flush timer, forced rotation or shutdown flush will ever reach it -/
def Lost (s : St) (e r : Nat) : Prop :=
  (e, r) ∈ s.acked ∧ e ∉ s.persisted ∧ s.table (s.store r).stream ≠ some r

instance (s : St) (e r : Nat) : Decidable (Lost s e r) := by unfold Lost; infer_instance

/-- the schedule contains no eviction at all -/
def evictFree : List Label → Bool
  | [] => true
  | .evict _ :: _ => false
  | _ :: ls => evictFree ls

end SigModel.ConcCreate
