/-
C07, second layer: WHAT the segment metadata records on disk (running `<segkey>.sfm`, lines of segmeta.json) SAY
at every step of the write protocol of Model/Crash.lean, and what the restarted query node does with it — the
time-range pruning of whole segments, the block filter and the record filter of a (time-bounded, column) search,
and the `stats count` short cut.  Core Lean only.

Mirrors (Go, /repo/pkg):
  segment/writer/segstore.go   SegStore.earliest_millis / latest_millis   `adjustEarliestLatestTimes` (per ingested
                               record: 0 means "no record yet", else min / max), RecordCount++ per record,
                               AllSeenColumnSizes[col] per column of the record; all four are reset by resetSegStore
                               AppendWipToSegfile      var segmeta = structs.SegMeta{EarliestEpochMS: segstore.earliest_millis,
                                                       LatestEpochMS: segstore.latest_millis, RecordCount: segstore.RecordCount,
                                                       ColumnNames: segstore.getAllColsSizes(), …}; WriteRunningSegMeta(&segmeta)
                                                       — a FRESH record from the running fields at EVERY flush (facts
                                                       AppendWipToSegfile.segmeta / checkAndRotateColFiles.segmeta)
                               checkAndRotateColFiles  the same literal, handed to addSegmeta (→ WriteSfm + segmeta.json line)
                               WipBlock.adjustEarliestLatestTimes  the block summary's LowTs / HighTs, same rule per block
  segment/query/queryrefresh.go readSegFullMetaFileAndPopulate: the adopted record is the .sfm content, made to cover
                               every block summary of the segment (coverBlockSummaries: `reconciled` in Model/Crash.lean;
                               before that repair: the .sfm content as it is, `metasOld`)
  segment/metadata             FilterSegmentsByTime → timeRange.CheckRangeOverLap(seg.EarliestEpochMS, seg.LatestEpochMS)
                               (the regenerated kernel Gen.TimeRange_CheckRangeOverLap); blocks: the same test on the block
                               summary; records: CheckInRange
  segment/query/processor/searcher.go  record searches (default order `recentFirst`): initializeQSRs sorts the segment
                               requests by advertised END descending (ties: segment key); getQSRSToProcess works in
                               rounds: cut-off = advertised START of the first unprocessed request; every request
                               whose END >= cut-off is read in this round (shouldProcessQSR), but only its blocks
                               with HighTs >= cut-off (shouldProcessBlock); every request whose START >= cut-off
                               is then dropped from the list (willProcessQSRCompletely) — with it every block it
                               still had below the cut-off.  So a block is read iff its HighTs reaches the cut-off
                               of the round that drops its segment (`removalCutoff`, always <= the segment's
                               advertised start): a block OLDER than its segment's advertised start is never read,
                               not even by an all-time search.
  segment/query/segquery.go    applyAggOpOnSegments: match-all `stats count` over a window that fully encloses the
                               segment's advertised range (AreTimesFullyEnclosed) answers RecordCount without reading a block

The payload `fls` of the steps `.sfmTmp s fls` / `.segmetaAppend s fls` of Model/Crash.lean is the list of flushes
whose records the SegStore had seen when the record was built; `metaOf evs fls` is the record: the fold of the
per-record update rule over exactly these records.  (NumBlocks — the running .sfm says one less than there are
blocks — is read by nothing but size estimates and is not modelled.)
-/
import SigModel.Model.Crash
import SigModel.Gen.TimeRange

namespace SigModel.Crash

/-- an ingested event, as far as metadata and the time / column filters are concerned -/
structure Ev where
  id : Nat
  /-- epoch milliseconds -/
  ts : Nat
  /-- the columns the record carries -/
  cols : List String
deriving Repr, DecidableEq, Inhabited

/-- the events of flush 0, 1, 2, … -/
abbrev Evs := Nat → List Ev

/-- the SegStore fields a SegMeta record is built from -/
structure SM where
  lo : Nat := 0
  hi : Nat := 0
  recs : Nat := 0
  cols : List String := []
deriving Repr, DecidableEq, Inhabited

/-- one ingested record: `adjustEarliestLatestTimes`, `RecordCount++`, `AllSeenColumnSizes[c] = …` -/
def SM.addEv (m : SM) (e : Ev) : SM :=
  { lo := if m.lo = 0 then e.ts else if e.ts < m.lo then e.ts else m.lo
    hi := if m.hi = 0 then e.ts else if e.ts > m.hi then e.ts else m.hi
    recs := m.recs + 1
    cols := m.cols ++ e.cols }

def SM.ofEvents (es : List Ev) : SM := es.foldl SM.addEv {}

def evsOf (evs : Evs) (fls : List Nat) : List Ev := fls.flatMap evs

/-- the SegMeta record built after the flushes `fls` of a segment (the real code) -/
def metaOf (evs : Evs) (fls : List Nat) : SM := SM.ofEvents (evsOf evs fls)

/-- VARIANT (not the code; kept for the counterexample theorem): the record is cached in the SegStore when the
first block of the segment is flushed and later flushes refresh only the record count and the columns — the time
range stays that of the first block -/
def metaOfCachedRange (evs : Evs) (fls : List Nat) : SM :=
  let first := SM.ofEvents (evsOf evs (fls.take 1))
  let all := metaOf evs fls
  { all with lo := first.lo, hi := first.hi }

/-- a search: time window (inclusive, epoch ms) and optionally a column that must be present -/
structure Query where
  lo : Nat
  hi : Nat
  col : Option String := none
deriving Repr, DecidableEq, Inhabited

/-- segment / block pruning: `timeRange.CheckRangeOverLap(earliest, latest)` -/
def rangePass (m : SM) (q : Query) : Bool :=
  Gen.TimeRange_CheckRangeOverLap (q.hi : Int) (q.lo : Int) (m.lo : Int) (m.hi : Int)

/-- record filter: `timeRange.CheckInRange(ts)` and the column condition -/
def evPass (q : Query) (e : Ev) : Bool :=
  Gen.TimeRange_CheckInRange (q.hi : Int) (q.lo : Int) (e.ts : Int) &&
    (match q.col with
     | none => true
     | some c => e.cols.contains c)

/-- `initializeQSRs`: insertion of a request into the list sorted by advertised end, descending; ties by segment -/
def insertQ (x : SM × Nat) : List (SM × Nat) → List (SM × Nat)
  | [] => [x]
  | y :: l => if x.1.hi > y.1.hi || (x.1.hi == y.1.hi && x.2 ≤ y.2) then x :: y :: l else y :: insertQ x l

def sortQ (l : List (SM × Nat)) : List (SM × Nat) := l.foldr insertQ []

/-- the cut-off of the round of `getQSRSToProcess` that drops a request with the advertised range `m` from the
sorted list `l` of unprocessed requests (`fuel` ≥ length of `l`: every round drops at least its first request) -/
def removalCutoff : Nat → List SM → SM → Nat
  | 0, _, m => m.lo
  | _ + 1, [], m => m.lo
  | fuel + 1, F :: rest, m =>
    if F.lo ≤ m.lo then F.lo
    else removalCutoff fuel ((F :: rest).filter (fun x => !(decide (F.lo ≤ x.lo)))) m

/-- the blocks (flushes) a record search reads when the node holds the metadata records `ml` (segment, flushes the
record was built from), for a given rule `mf` of building a record: the requests are the segments whose advertised
range overlaps the window; a request is read when its advertised end reaches the cut-off of the round that drops
it; therein every block summary with all its chunks whose own range overlaps the window and whose HighTs reaches
that cut-off -/
def searchFlushesOn (ml : List (Nat × List Nat)) (mf : Evs → List Nat → SM) (evs : Evs) (fs : FS) (q : Query) : List Nat :=
  let cand := ml.filter (fun p => rangePass (mf evs p.2) q)
  let order := (sortQ (cand.map (fun p => (mf evs p.2, p.1)))).map (·.1)
  ml.flatMap (fun p =>
    let m := mf evs p.2
    let c := removalCutoff order.length order m
    if rangePass m q && decide (c ≤ m.hi) then
      (segVisible (fs.seg p.1)).filter (fun f =>
        rangePass (SM.ofEvents (evs f)) q && decide (c ≤ (SM.ofEvents (evs f)).hi))
    else [])

/-- … after the restart (records: `metas`) -/
def searchFlushesWith (mf : Evs → List Nat → SM) (evs : Evs) (fs : FS) (q : Query) : List Nat :=
  searchFlushesOn (metas fs) mf evs fs q

def searchFlushes (evs : Evs) (fs : FS) (q : Query) : List Nat := searchFlushesWith metaOf evs fs q

/-- the cut-off of the LAST round of `getQSRSToProcess` over the sorted list `l` (the cut-offs fall from round to
round: what is left after a round advertises a start below that round's cut-off) -/
def lastCutoff : Nat → List SM → Nat → Nat
  | 0, _, c => c
  | _ + 1, [], c => c
  | fuel + 1, F :: rest, _ => lastCutoff fuel ((F :: rest).filter (fun x => !(decide (F.lo ≤ x.lo)))) F.lo

/-- the events of the blocks read that satisfy the search -/
def searchOn (ml : List (Nat × List Nat)) (mf : Evs → List Nat → SM) (evs : Evs) (fs : FS) (q : Query) : List Ev :=
  (searchFlushesOn ml mf evs fs q).flatMap (fun f => (evs f).filter (evPass q))

def searchWith (mf : Evs → List Nat → SM) (evs : Evs) (fs : FS) (q : Query) : List Ev :=
  searchOn (metas fs) mf evs fs q

/-- the events a search returns after the restart -/
def search (evs : Evs) (fs : FS) (q : Query) : List Ev := searchWith metaOf evs fs q

/-- the records of the blocks read that lie below the cut-off of the LAST round (searcher.go fetchRRCs: while
rounds are left a record is handed out only when its timestamp has reached the current cut-off, `unsentRRCs` keeps
the rest for a later round).  With records that cover their blocks there are none. -/
def keptBackOn (ml : List (Nat × List Nat)) (mf : Evs → List Nat → SM) (evs : Evs) (fs : FS) (q : Query) : List Ev :=
  let cand := ml.filter (fun p => rangePass (mf evs p.2) q)
  let order := (sortQ (cand.map (fun p => (mf evs p.2, p.1)))).map (·.1)
  (searchOn ml mf evs fs q).filter (fun e => decide (e.ts < lastCutoff order.length order 0))

def keptBack (evs : Evs) (fs : FS) (q : Query) : List Ev := keptBackOn (metas fs) metaOf evs fs q

/-- the answer of a record search of the restarted node; `none` = the search never returns.
fetchRRCs: once every segment has given its blocks and the last of them are being read, everything kept back is
handed out (`lastBlocks`), so the search ends whatever the records advertise. -/
def answer (evs : Evs) (fs : FS) (q : Query) : Option (List Ev) := some (search evs fs q)

/-- BEFORE the two repairs (records as the .sfm had them, `metasOld`; fetchRRCs without `lastBlocks`): a record kept
back after the last round was never handed out, the search ended only when `unsentRRCs` was empty —
`QueryProcessor.GetFullResult` never saw io.EOF and the query span for ever -/
def answerOld (evs : Evs) (fs : FS) (q : Query) : Option (List Ev) :=
  if (keptBackOn (metasOld fs) metaOf evs fs q).isEmpty then some (searchOn (metasOld fs) metaOf evs fs q) else none

/-- `* | stats count` over a window after the restart: per adopted segment nothing when the advertised range misses
the window, the advertised RecordCount when the window encloses the advertised range, else the records found by
reading the blocks -/
def countQ (evs : Evs) (fs : FS) (q : Query) : Nat :=
  ((metas fs).map (fun p =>
    let m := metaOf evs p.2
    if !rangePass m q then 0
    else if Gen.TimeRange_AreTimesFullyEnclosed (q.hi : Int) (q.lo : Int) (m.lo : Int) (m.hi : Int) then m.recs
    else (((segVisible (fs.seg p.1)).filter (fun f => rangePass (SM.ofEvents (evs f)) q)).flatMap
            (fun f => (evs f).filter (evPass q))).length)).foldl (· + ·) 0

/-- events that come back from a search WITHOUT one of their columns, when the node holds the records `ml`: the
record reader reads the columns the segment's metadata record names, so an event served from a segment whose
advertised column set misses one of its columns loses that field -/
def alteredOn (ml : List (Nat × List Nat)) (evs : Evs) (fs : FS) (res : List Ev) : List Nat :=
  ml.flatMap (fun p => (segVisible (fs.seg p.1)).flatMap (fun f =>
    ((evs f).filter (fun e => res.contains e && !(e.cols.all (fun c => (metaOf evs p.2).cols.contains c)))).map (·.id)))

def alteredIn (evs : Evs) (fs : FS) (res : List Ev) : List Nat := alteredOn (metas fs) evs fs res

/-- a metadata record covers an event: its time range contains the timestamp, its column set the columns -/
def SM.covers (m : SM) (e : Ev) : Prop := m.lo ≤ e.ts ∧ e.ts ≤ m.hi ∧ ∀ c ∈ e.cols, c ∈ m.cols

end SigModel.Crash
