/-
Model of the segment-number ("suffix") allocation protocol at the level of single SYSTEM CALLS (C07: later
ingestion does not overwrite recovered data).  Core Lean only.

Mirrors (Go, /repo/pkg/segment/writer/suffix/suffix.go):
  getSuffix                       os.ReadFile(<stream>.suffix): file missing → 0 ; ZERO BYTES → 0 (deliberate, logged
                                  as a warning) ; else the JSON number {"suffix": n}
  getAndIncrementSuffixFromFile   r := getSuffix ; writeSuffix(r + 1) ; return r
  writeSuffix                     os.WriteFile(<file>.tmp, json, 0644)  =  open(tmp, O_WRONLY|O_CREATE|O_TRUNC) ; write(tmp)
                                  os.Rename(<file>.tmp, <file>)
  segstore.go resetSegStore       GetNextSuffix → the number of the segment directory the SegStore writes into; the
                                  restarted writer asks for the number of its first segment the same way

`Model/Crash.lean` has the two calls of writeSuffix as the steps `suffixTmp n` / `suffixRename` (a completed
os.WriteFile is one step there).  Here the os.WriteFile is split into its two system calls, so that "the process died
between the open(O_TRUNC) and the write" is a state of the model: the correspondence harness produces that state on the
real code (crash points `…|~open`, harness/cmd/overlaygen/crash.go).  `project` / `project_*` (Lemmas/C07f.lean) tie the
two models.

The variant that rewrites the suffix file IN PLACE (os.WriteFile(<file>, json)) is `allocInPlace`; it is not the code,
it is there for the counterexample theorem that shows what the temp file + rename is needed for.
-/
namespace SigModel.CrashSuffix

/-- content of one of the two small files: missing, zero bytes, or the JSON number -/
inductive File where
  | missing
  | empty
  | num (n : Nat)
deriving Repr, DecidableEq, Inhabited

/-- the suffix file of one stream and its temp file -/
structure Disk where
  file : File := .missing
  tmp : File := .missing
deriving Repr, DecidableEq, Inhabited

/-- one completed system call -/
inductive Sys where
  | tmpOpen                 -- open(<file>.tmp, O_WRONLY|O_CREATE|O_TRUNC)
  | tmpWrite (n : Nat)      -- write(<file>.tmp, {"suffix": n})
  | rename                  -- rename(<file>.tmp, <file>)   (ENOENT when there is no temp file: nothing changes)
  | fileOpen                -- IN-PLACE variant: open(<file>, O_WRONLY|O_CREATE|O_TRUNC)
  | fileWrite (n : Nat)     -- IN-PLACE variant: write(<file>, {"suffix": n})
deriving Repr, DecidableEq, Inhabited

def apply (d : Disk) : Sys → Disk
  | .tmpOpen => { d with tmp := .empty }
  | .tmpWrite n => { d with tmp := .num n }
  | .rename => match d.tmp with
    | .missing => d
    | t => { file := t, tmp := .missing }
  | .fileOpen => { d with file := .empty }
  | .fileWrite n => { d with file := .num n }

def run (d : Disk) (ss : List Sys) : Disk := ss.foldl apply d

/-- `getSuffix`: a missing and an EMPTY file both read as 0 -/
def getSuffix (d : Disk) : Nat :=
  match d.file with
  | .num n => n
  | _ => 0

/-- the system calls of one `getAndIncrementSuffixFromFile` that read `r` (code: temp file, then rename) -/
def allocTmpRename (r : Nat) : List Sys := [.tmpOpen, .tmpWrite (r + 1), .rename]

/-- the in-place variant (NOT the code): os.WriteFile on the suffix file itself -/
def allocInPlace (r : Nat) : List Sys := [.fileOpen, .fileWrite (r + 1)]

/-- the system calls of `j` successive allocations of one process that starts on disk `d` (every allocation reads
the file as the previous one left it) -/
def allocs (proto : Nat → List Sys) : Nat → Disk → List Sys
  | 0, _ => []
  | j + 1, d => proto (getSuffix d) ++ allocs proto j (run d (proto (getSuffix d)))

/-- the segment numbers HANDED OUT (the allocation returned, its caller may create the directory and flush data into
it) by the first `k` system calls of these allocations -/
def handed (proto : Nat → List Sys) : Nat → Disk → Nat → List Nat
  | 0, _, _ => []
  | j + 1, d, k =>
    if (proto (getSuffix d)).length ≤ k then
      getSuffix d :: handed proto j (run d (proto (getSuffix d))) (k - (proto (getSuffix d)).length)
    else []

/-- the disk after a crash that let exactly the first `k` system calls of `j` allocations complete -/
def crashAfter (proto : Nat → List Sys) (j : Nat) (d : Disk) (k : Nat) : Disk :=
  run d ((allocs proto j d).take k)

/-- a life of the node: process after process, each doing `j` allocations and dying after `k` system calls (a process
that does all its calls and is then stopped is the case `k ≥` their number) -/
def life (proto : Nat → List Sys) (d : Disk) : List (Nat × Nat) → Disk
  | [] => d
  | (j, k) :: rest => life proto (crashAfter proto j d k) rest

/-- every segment number handed out during a life -/
def lifeHanded (proto : Nat → List Sys) (d : Disk) : List (Nat × Nat) → List Nat
  | [] => []
  | (j, k) :: rest => handed proto j d k ++ lifeHanded proto (crashAfter proto j d k) rest

end SigModel.CrashSuffix
