/-
Model of the RESULTS LAYER of metric queries (C09), mirroring

  pkg/segment/results/mresults/tsid/tsidtracker.go : BulkAdd / BulkAddStar          (series-id string)
  pkg/segment/results/mresults/metricresults.go    : ExtractGroupByFieldsFromSeriesId (296-316),
        GetSeriesIdWithoutFields (318-353), getAggSeriesId (361-380), ExtractMetricNameFromGroupID (705-712, with the
        pending repair c09-14: the name ends at the first "{"),
        DownsampleResults (139-191), AggregateResults (199-292), computeAggCount (1182-1232)
  pkg/segment/results/mresults/seriesresult.go     : InitSeriesHolder (avg → sum conversion), AddEntry
        (bucket = (ts / dsSeconds) * dsSeconds), Series.Downsample, reduceEntries (874-939),
        reduceRunningEntries (941-1002)

Strings are Go byte strings: `Str = List Nat` (bytes).  The series id of a time series is
    <metric> "{" k1 ":" v1 "," k2 ":" v2 "," …          (every label followed by a comma, no closing brace)
and the group key of an aggregation is computed FROM THAT STRING (`strings.Index`, `strings.Split`,
`strings.SplitN`) — the model does exactly the same, quirks included.  As of the fix for C09
(label-name-is-suffix-of-another / metric-name-contains-colon) `ExtractGroupByFieldsFromSeriesId` looks
only at the part after the first "{", splits it on "," and compares the text before the first ":" of a
part with the field for EQUALITY.  computeAggCount is unchanged: it never looks at `Without`
(known finding count-without-empty-list; the repo's Test_GetResults_AggFn_Count and the OTSDB query
parser, which sets Without on every query, rely on it).
Sample values are integers (the correspondence run uses integer-valued float64 with |sums| < 2^53, so the
Go float arithmetic is exact; with the repair c09-2 reduceEntries / reduceRunningEntries start their running sum
from the first value instead of +0 — the same integer sum, the sign of a zero sum is outside this model and is
checked end to end by e2e_metrics); `avg` is the exact quotient, `f64div` is the correctly rounded float64
quotient the Oracle prints for it.  Core Lean only.

NOT modelled: tags-tree lookup, PromQL parser, range/math/label functions, topk/bottomk/stddev/stdvar/
quantile/group; the second aggregation stage (`results2`) is tied by correspondence only, no theorem.
-/
namespace SigModel.Promql

abbrev Str := List Nat
abbrev Labels := List (Str × Str)

abbrev cComma : Nat := 44   -- ','
abbrev cColon : Nat := 58   -- ':'
abbrev cBrace : Nat := 123  -- '{'

/-! ### series id (tsidtracker.BulkAdd: `metric{` then `key:value` + `,` per tag filter, in filter order) -/

/-- `fmt.Sprintf("%+v:%+v", tagKey, tagValue)` -/
def kvStr (kv : Str × Str) : Str := kv.1 ++ cColon :: kv.2
/-- … followed by TAG_VALUE_DELIMITER_BYTE -/
def labelStr (kv : Str × Str) : Str := kvStr kv ++ [cComma]
def seriesIdOf (name : Str) (labels : Labels) : Str := name ++ cBrace :: labels.flatMap labelStr

/-! ### string primitives -/

/-- `strings.Split(s, string(c))` (always at least one part) -/
def splitOn (c : Nat) : Str → List Str
  | [] => [[]]
  | x :: s =>
    if x = c then [] :: splitOn c s
    else match splitOn c s with
      | [] => [[x]]
      | p :: ps => (x :: p) :: ps

/-- `strings.SplitN(s, string(c), 2)` when `c` occurs: (before, after) -/
def splitFirst (c : Nat) : Str → Option (Str × Str)
  | [] => none
  | x :: s => if x = c then some ([], s) else (splitFirst c s).map (fun p => (x :: p.1, p.2))

/-- `strings.Join(parts, string(c))` -/
def joinWith (c : Nat) : List Str → Str
  | [] => []
  | [x] => x
  | x :: y :: r => x ++ c :: joinWith c (y :: r)

/-! ### group keys -/

/-- the tags of an id: everything after the first "{" (the whole id when there is none) -/
def labelPart (sid : Str) : Str :=
  match splitFirst cBrace sid with
  | some (_, r) => r
  | none => sid

/-- ExtractGroupByFieldsFromSeriesId, one field: the comma-parts of the tags are scanned in order; the
first part that has a ':' and whose text before its first ':' EQUALS the field gives the value (the
rest of the part). -/
def fieldValue (field sid : Str) : Option Str :=
  (splitOn cComma (labelPart sid)).findSome? (fun part =>
    match splitFirst cColon part with
    | some (k, v) => if k = field then some v else none
    | none => none)

/-- the `field:value` strings of the fields that were found, in `groupByFields` order -/
def extractPairs (fields : List Str) (sid : Str) : List Str :=
  fields.filterMap (fun f => (fieldValue f sid).map (fun v => f ++ cColon :: v))

/-- ExtractMetricNameFromGroupID (with the repair c09-14): the id up to its FIRST "{", the whole id without one -/
def metricNameOf (sid : Str) : Str := sid.takeWhile (· != cBrace)

/-- ExtractMetricNameFromGroupID BEFORE the repair: `strings.Split(id, "{")`; exactly two parts → the first, else the
    whole id — with a "{" inside a label value the whole id was taken for the metric name -/
def metricNameOfOld (sid : Str) : Str :=
  if sid.count cBrace = 1 then sid.takeWhile (· != cBrace) else sid

/-- getAggSeriesId, `by` branch -/
def byKey (fields : List Str) (sid : Str) : Str :=
  metricNameOf sid ++ cBrace :: joinWith cComma (extractPairs fields sid)

/-- a comma-part is dropped iff it has a ':' and the text before its first ':' is one of the fields -/
def keepPart (fields : List Str) (part : Str) : Bool :=
  match splitFirst cColon part with
  | some (k, _) => !fields.contains k
  | none => true

/-- GetSeriesIdWithoutFields -/
def withoutKey (fields : List Str) (sid : Str) : Str :=
  if fields.isEmpty then sid else
  match splitOn cComma sid with
  | [] => sid
  | p0 :: ps =>
    let mp := match splitFirst cBrace p0 with
      | some (m, r) => (m, r)
      | none => (p0, p0)
    mp.1 ++ cBrace :: joinWith cComma ((mp.2 :: ps).filter (keepPart fields))

/-- getAggSeriesId (aggregation non-nil) -/
def extractGroupKey (fields : List Str) (without : Bool) (sid : Str) : Str :=
  if without then withoutKey fields sid else byKey fields sid

/-! ### what PromQL means (computed from the label SET, no strings involved) -/

/-- `by (fields)`: the (field, value) pairs of the fields the series has, in `fields` order;
`without (fields)`: the labels whose name is not listed -/
def specGroupKey (fields : List Str) (without : Bool) (labels : Labels) : Labels :=
  if without then labels.filter (fun kv => !fields.contains kv.1)
  else fields.filterMap (fun f => (labels.lookup f).map (fun v => (f, v)))

/-- how a group key is written into the result map (the two branches of getAggSeriesId use different
formats: `by` joins with commas, `without` keeps the trailing comma of the series id) -/
def render (without : Bool) (name : Str) (key : Labels) : Str :=
  if without then seriesIdOf name key else name ++ cBrace :: joinWith cComma (key.map kvStr)

/-! ### the guard under which the string-derived key IS the PromQL key -/

def isSep (c : Nat) : Bool := c == cComma || c == cColon || c == cBrace
/-- no ',' ':' '{' inside (label names) -/
def clean (s : Str) : Bool := s.all (fun c => !isSep c)
/-- no ',' '{' inside (metric names; ':' is harmless there) -/
def cleanV (s : Str) : Bool := s.all (fun c => !(c == cComma || c == cBrace))
/-- no ',' inside (label values; ':' is harmless there, and so is '{' since the repair c09-14) -/
def cleanVal (s : Str) : Bool := s.all (fun c => !(c == cComma))

/-- the metric name contains neither ',' nor '{', the label values contain no ',', the label names contain none of
',' ':' '{'.  Nothing is demanded of the grouping fields or of how label names relate to each other. -/
def labelSafe (name : Str) (labels : Labels) : Bool :=
  cleanV name && labels.all (fun kv => clean kv.1 && cleanVal kv.2)

def LabelSafe (name : Str) (labels : Labels) : Prop := labelSafe name labels = true

instance (name : Str) (labels : Labels) : Decidable (LabelSafe name labels) := by
  unfold LabelSafe; infer_instance

/-! ### downsampling -/

/-- Series.AddEntry: `(ts / s.dsSeconds) * s.dsSeconds` (uint32, cannot overflow) -/
def bucket (ts step : Nat) : Nat := ts / step * step

inductive Fn where
  | sum | min | max | avg | count
deriving DecidableEq, Repr

/-- InitSeriesHolder: a downsampler `avg` is executed as `sum` (+ running count) -/
def dsFn : Fn → Fn
  | .avg => .sum
  | f => f

/-- the `i == 0 || v < ret` loops -/
def minL : List Int → Int
  | [] => 0
  | x :: xs => xs.foldl (fun r v => if v < r then v else r) x
def maxL : List Int → Int
  | [] => 0
  | x :: xs => xs.foldl (fun r v => if v > r then v else r) x

/-- reduceEntries (avg never arrives here, see `dsFn`; count ignores the values) -/
def reduceVals : Fn → List Int → Int
  | .sum, vs => vs.sum
  | .avg, vs => vs.sum
  | .min, vs => minL vs
  | .max, vs => maxL vs
  | .count, _ => 0

/-- RunningEntry -/
structure Entry where
  t : Nat
  val : Int
  cnt : Nat
deriving DecidableEq, Repr

def dedup {α} [DecidableEq α] : List α → List α
  | [] => []
  | x :: xs => if x ∈ xs then dedup xs else x :: dedup xs

/-- values of the samples whose timestamp falls into bucket `t` -/
def samplesAt (step t : Nat) (pts : List (Nat × Int)) : List Int :=
  (pts.filter (fun p => bucket p.1 step == t)).map (·.2)

/-- Series.Downsample: one RunningEntry per occupied bucket -/
def dsSeries (fn : Fn) (step : Nat) (pts : List (Nat × Int)) : List Entry :=
  (dedup (pts.map (fun p => bucket p.1 step))).map (fun b =>
    { t := b, val := reduceVals (dsFn fn) (samplesAt step b pts), cnt := (samplesAt step b pts).length })

/-! ### aggregation -/

structure Series where
  labels : Labels
  pts : List (Nat × Int)
deriving DecidableEq, Repr

/-- one aggregation `fn by|without (fields) (name{…})` evaluated with downsample interval `step`; the
downsampler's aggregator is the same function (parser.handleVectorSelector) -/
structure Query where
  fn : Fn
  without : Bool
  fields : List Str
  step : Nat
  name : Str
deriving Repr

def sidOf (q : Query) (s : Series) : Str := seriesIdOf q.name s.labels

/-- the key under which a series' entries end up in `r.Results`.
`count` with NO grouping fields puts everything under `MetricName + "{"` (computeAggCount's else branch,
also when `without` is set). -/
def groupOf (q : Query) (sid : Str) : Str :=
  if q.fn = .count ∧ q.fields = [] then q.name ++ [cBrace]
  else extractGroupKey q.fields q.without sid

/-- all running entries (tagged with the series id they came from) of group `g` at bucket `t` -/
def entriesAt (q : Query) (ss : List Series) (g : Str) (t : Nat) : List (Str × Entry) :=
  ss.flatMap (fun s =>
    if groupOf q (sidOf q s) = g then
      ((dsSeries q.fn q.step s.pts).filter (fun e => e.t = t)).map (fun e => (sidOf q s, e))
    else [])

def sumVals (es : List Entry) : Int := (es.map (·.val)).sum
def sumCnts (es : List Entry) : Nat := (es.map (·.cnt)).sum

/-- reduceRunningEntries -/
def reduceRunning : Fn → List Entry → Rat
  | .avg, es => (sumVals es : Rat) / (sumCnts es : Rat)
  | .sum, es => (sumVals es : Rat)
  | .min, es => (minL (es.map (·.val)) : Rat)
  | .max, es => (maxL (es.map (·.val)) : Rat)
  | .count, _ => 0

/-- value of group `g` at bucket `t`; `none` = no such (group, timestamp) in the result.
count: every entry (= the downsampled value of one series in the bucket) is counted — with grouping fields through
the `grpID-i` ids, without fields `timestampToCount[ts] += len(entries)` (patch c09-26). -/
def aggAt (q : Query) (ss : List Series) (g : Str) (t : Nat) : Option Rat :=
  let es := entriesAt q ss g t
  if es.isEmpty then none
  else some (match q.fn with
    | .count => (es.length : Rat)
    | fn => reduceRunning fn (es.map (·.2)))

/-- BEFORE patch c09-26: without grouping fields `timestampToCount[ts]++` ran once per DISTINCT series id, so series
that share an id (the ids carry only the labels of the query's filters, and "*" for a regex on the metric name)
were counted once -/
def aggAtOld (q : Query) (ss : List Series) (g : Str) (t : Nat) : Option Rat :=
  let es := entriesAt q ss g t
  if es.isEmpty then none
  else some (match q.fn with
    | .count => if q.fields = [] then ((dedup (es.map (·.1))).length : Rat) else (es.length : Rat)
    | fn => reduceRunning fn (es.map (·.2)))

/-- the (group, timestamp) pairs present in the result -/
def keys (q : Query) (ss : List Series) : List (Str × Nat) :=
  dedup (ss.flatMap (fun s => (dsSeries q.fn q.step s.pts).map (fun e => (groupOf q (sidOf q s), e.t))))

def results (q : Query) (ss : List Series) : List (Str × Nat × Rat) :=
  (keys q ss).filterMap (fun gt => (aggAt q ss gt.1 gt.2).map (fun v => (gt.1, gt.2, v)))

/-! ### a second aggregation over the result map (ApplyAggregationToResults, 382-474; correspondence only)

Every (key, timestamp, value) of the first result becomes one RunningEntry with runningCount 1 under
`getAggSeriesId(key)`; `count` goes through computeAggCount again (one entry per first-stage key). -/

def group2 (q : Query) (g1 : Str) : Str :=
  if q.fn = .count ∧ q.fields = [] then q.name ++ [cBrace]
  else extractGroupKey q.fields q.without g1

def ratSum : List Rat → Rat
  | [] => 0
  | x :: xs => x + ratSum xs

def ratMin : List Rat → Rat
  | [] => 0
  | x :: xs => xs.foldl (fun r v => if v < r then v else r) x
def ratMax : List Rat → Rat
  | [] => 0
  | x :: xs => xs.foldl (fun r v => if v > r then v else r) x

def results2 (q : Query) (r1 : List (Str × Nat × Rat)) : List (Str × Nat × Rat) :=
  let ks := dedup (r1.map (fun e => (group2 q e.1, e.2.1)))
  ks.map (fun gt =>
    let vs := (r1.filter (fun e => group2 q e.1 = gt.1 ∧ e.2.1 = gt.2)).map (·.2.2)
    let v : Rat := match q.fn with
      | .sum => ratSum vs
      | .min => ratMin vs
      | .max => ratMax vs
      | .count => (vs.length : Rat)
      | .avg => ratSum vs / (vs.length : Rat)
    (gt.1, gt.2, v))

/-! ### what the property demands (no strings: membership is decided on the label sets) -/

/-- the series of PromQL group `k` (a `specGroupKey`) that have at least one sample in bucket `t` -/
def specMembers (q : Query) (ss : List Series) (k : Labels) (t : Nat) : List Series :=
  ss.filter (fun s => decide (specGroupKey q.fields q.without s.labels = k) && !(samplesAt q.step t s.pts).isEmpty)

/-- aggregate over the member series; a member's value in the bucket is the same function over its own
samples (siglens' downsampling).  `avg` is the POOLED mean (sum of all samples / number of samples),
which is the mean of the members' values exactly when every member has one sample in the bucket. -/
def specValue (fn : Fn) (step t : Nat) (ms : List Series) : Rat :=
  let vs := ms.map (fun s => samplesAt step t s.pts)
  match fn with
  | .sum => (((vs.map List.sum).sum : Int) : Rat)
  | .min => ((minL (vs.map minL) : Int) : Rat)
  | .max => ((maxL (vs.map maxL) : Int) : Rat)
  | .count => ((ms.length : Nat) : Rat)
  | .avg => (((vs.map List.sum).sum : Int) : Rat) / (((vs.map List.length).sum : Nat) : Rat)

def specAt (q : Query) (ss : List Series) (k : Labels) (t : Nat) : Option Rat :=
  let ms := specMembers q ss k t
  if ms.isEmpty then none else some (specValue q.fn q.step t ms)

/-- every series has at most one sample per bucket (then "the value of the series at the evaluation
timestamp" is unambiguous) -/
def SingleSample (q : Query) (ss : List Series) : Prop :=
  ∀ s ∈ ss, (s.pts.map (fun p => bucket p.1 q.step)).Nodup

/-- the same label SET (order in the id string does not matter to PromQL) -/
def sameLabelSet (l1 l2 : Labels) : Bool := l1.all (fun kv => l2.contains kv) && l2.all (fun kv => l1.contains kv)

/-! ### float64 division (Oracle only: what `ret / float64(count)` yields for integers below 2^53) -/

/-- correctly rounded (nearest, ties to even) float64 value of `n / d`, as an exact rational.
Valid for 0 < d, |n|, d < 2^53 (no overflow, no subnormals). -/
def f64div (n : Int) (d : Nat) : Rat :=
  if d = 0 ∨ n = 0 then 0 else
  let a := n.natAbs
  -- k with 2^52 ≤ a·2^k/d < 2^53 (k may be negative): start from the bit lengths, then adjust
  let k0 : Int := 52 - (Nat.log2 a : Int) + (Nat.log2 d : Int)
  let scaled (k : Int) : Nat × Nat :=   -- numerator, denominator of a·2^k/d
    if k ≥ 0 then (a * 2 ^ k.toNat, d) else (a, d * 2 ^ (-k).toNat)
  let k : Int :=
    let (x, y) := scaled k0
    if x / y < 2 ^ 52 then k0 + 1 else if x / y ≥ 2 ^ 53 then k0 - 1 else k0
  let (x, y) := scaled k
  let m := x / y
  let r := x % y
  let m' := if 2 * r > y then m + 1 else if 2 * r = y then (if m % 2 = 1 then m + 1 else m) else m
  let v : Rat := if k ≥ 0 then (m' : Rat) / ((2 ^ k.toNat : Nat) : Rat) else (m' : Rat) * ((2 ^ (-k).toNat : Nat) : Rat)
  if n < 0 then -v else v

end SigModel.Promql
