/- machine-integer wrap functions used by the regenerated kernels (SigModel/Gen). Core only. -/
namespace SigModel.MachInt

def wrapU8 (x : Int) : Int := x % 256
def wrapU16 (x : Int) : Int := x % 65536
def wrapU32 (x : Int) : Int := x % 4294967296
def wrapU64 (x : Int) : Int := x % 18446744073709551616
def wrapS8 (x : Int) : Int := (x + 128) % 256 - 128
def wrapS16 (x : Int) : Int := (x + 32768) % 65536 - 32768
def wrapS32 (x : Int) : Int := (x + 2147483648) % 4294967296 - 2147483648
def wrapS64 (x : Int) : Int := (x + 9223372036854775808) % 18446744073709551616 - 9223372036854775808

end SigModel.MachInt
