/-
Model of the running / waiting query tables (C17), mirroring pkg/segment/query/querystatus.go:
  StartQuery / withLockInitializeQuery / addToWaitingQueriesQueue / withLockRunQuery /
  getNextWaitStateData + canRunQuery (one PullQueriesToRun iteration) / CancelQuery / DeleteQuery.
Each StartQuery creates a fresh RunningQueryState object (identified by `obj`); its StateChan is a
bounded buffer of capacity `chanCap` whose occupancy is tracked (a send on a full channel blocks).

Lifecycle extension (querystatus.go, same file):
  setupTimeoutCancelFunc (called by withLockRunQuery, i.e. AT ADMISSION, never by withLockInitializeQuery):
    arms a one-shot timer goroutine for the qid; when it fires it looks the qid up in allRunningQueries and,
    if present, sends TIMEOUT on the object's StateChan (no lock held) and then performs CancelQuery(qid).
    `timeoutArmed` = the object's timeoutCancelFunc is set; `timerLive` = that goroutine has neither fired
    nor been stopped.  Timer goroutines are modelled per running object: a timer that outlives its object
    (cancelled, then deleted: withLockDeleteQuery calls timeoutCancelFunc only for un-cancelled objects) could
    reach a later object only if the qid were re-used, which rutils.GetNextQid excludes.
  StartQueryAsCoordinator (op `startc`): StartQuery plus isCoordinator.
  (*RunningQueryState).RestartQuery(forceRun) (op `restart q nq force`, `nq` = the qid rutils.GetNextQid hands
    out): holds the OLD object's rqsLock for the whole call; cancelled → error, nothing changes; else
    arqMapLock.Lock, withLockDeleteQuery (takes NO further lock: timeoutCancelFunc(), cleanupCallback, delete
    from the map), arqMapLock.Unlock; not a coordinator → error (the entry is gone); else
    StartQueryAsCoordinator(nq, …, the OLD object's StateChan, forceRun): the new object shares the channel
    (its occupancy carries over; messages are tagged with the qid, so `sent` starts empty).
  SendQueryStateComplete (op `complete`) / the ERROR send of segexecution.go (op `error`): one send by the
    query goroutine, no table lock held; on a full channel that goroutine just waits (modelled as no-op).
  canRunQuery: `GetActiveQueryCount() < MAX_RUNNING_QUERIES` where GetActiveQueryCount = len(allRunningQueries):
    EVERY entry of the running table counts, cancelled-but-not-yet-deleted ones included (op `pull`).
Core Lean only.
-/
namespace SigModel.QTable

/-- `queryStateChanSize` and `MAX_WAITING_QUERIES` (tied by go2lean facts) -/
def chanCap : Nat := 10
def maxWaiting : Nat := 500

/-- one RunningQueryState object -/
structure RQ where
  obj : Nat            -- identity of the object (creation counter)
  qid : Nat
  cancelled : Bool := false
  chanLen : Nat := 0   -- messages sitting in StateChan
  sent : List Nat := []  -- state names sent so far for this qid (1 READY 2 RUNNING 4 COMPLETE 5 CANCELLED 6 TIMEOUT 7 ERROR)
  coord : Bool := false         -- isCoordinator
  timeoutArmed : Bool := false  -- timeoutCancelFunc is set (done by withLockRunQuery at the admission instant)
  timerLive : Bool := false     -- the timer goroutine of this admission has neither fired nor been stopped
deriving Repr, DecidableEq

structure St where
  maxRunning : Nat
  next : Nat := 0                  -- object counter
  running : List (Nat × RQ) := []  -- allRunningQueries: qid ↦ object (at most one entry per qid)
  waiting : List RQ := []          -- waitingQueries, FIFO
  blocked : Bool := false          -- some send found its channel full while a table lock was held
deriving Repr, DecidableEq

def lookup (q : Nat) : List (Nat × RQ) → Option RQ
  | [] => none
  | (k, v) :: r => if k = q then some v else lookup q r

def erase (q : Nat) : List (Nat × RQ) → List (Nat × RQ)
  | [] => []
  | (k, v) :: r => if k = q then erase q r else (k, v) :: erase q r

def put (q : Nat) (v : RQ) (m : List (Nat × RQ)) : List (Nat × RQ) := (q, v) :: erase q m

/-- a send on the object's StateChan -/
def send (r : RQ) (msg : Nat) : RQ × Bool :=
  if r.chanLen < chanCap then ({ r with chanLen := r.chanLen + 1, sent := r.sent ++ [msg] }, false)
  else (r, true)

/-- `rQuery.timeoutCancelFunc = setupTimeoutCancelFunc(qid)`: the timer of this admission starts -/
def arm (r : RQ) : RQ := { r with timeoutArmed := true, timerLive := true }

/-- `withLockRunQuery` -/
def runQuery (s : St) (r : RQ) : St :=
  if r.cancelled then s
  else
    let (r1, b1) := send (arm r) 1
    let (r2, b2) := send r1 2
    { s with running := put r.qid r2 s.running, blocked := s.blocked || b1 || b2 }

inductive Op where
  | start (qid : Nat) (force : Bool)
  | pull
  | cancel (qid : Nat)
  | delete (qid : Nat)
  | drain (qid : Nat)      -- the consumer empties the running object's channel
  | startc (qid : Nat) (force : Bool)                 -- StartQueryAsCoordinator (fresh StateChan)
  | timeout (qid : Nat)                               -- the timer goroutine armed for `qid` fires
  | restart (qid : Nat) (newQid : Nat) (force : Bool) -- RestartQuery(force) on the running object of `qid`
  | complete (qid : Nat)                              -- SendQueryStateComplete by the query goroutine
  | error (qid : Nat)                                 -- the query goroutine reports ERROR
deriving Repr, DecidableEq

/-- forced starts bypass `canRunQuery` (a forced `restart` replaces an entry of the running table and
does not enlarge it) -/
def Op.forced : Op → Bool
  | .start _ f => f | .startc _ f => f | _ => false

/-- operations whose only sends are READY/RUNNING of a FRESH channel at admission -/
def Op.admissionOnly : Op → Bool
  | .start _ _ => true | .startc _ _ => true | .pull => true | .delete _ => true | .drain _ => true | _ => false

inductive Out where
  | ok | rejected | noop
deriving Repr, DecidableEq

def removeFirstWaiting (q : Nat) : List RQ → List RQ
  | [] => []
  | r :: rs => if r.qid = q then rs else r :: removeFirstWaiting q rs

/-- `CancelQuery(q)` -/
def cancelQuery (s : St) (q : Nat) : St × Out :=
  match lookup q s.running with
  | none =>
    -- not running: it may be waiting for admission (`removeFromWaitingQueries`, fix 015df40);
    -- then it leaves the queue, is marked cancelled and CANCELLED is sent on its channel
    match s.waiting.find? (fun r => r.qid == q) with
    | none => (s, .noop)
    | some r =>
      let (_, b) := send { r with cancelled := true } 5
      ({ s with waiting := removeFirstWaiting q s.waiting, blocked := s.blocked || b }, .ok)
  | some r =>
    let (r1, b) := send { r with cancelled := true } 5
    ({ s with running := put q r1 s.running, waiting := removeFirstWaiting q s.waiting, blocked := s.blocked || b }, .ok)

/-- `StartQuery` / `StartQueryAsCoordinator` with a fresh channel -/
def startQuery (s : St) (q : Nat) (force coord : Bool) : St × Out :=
  match lookup q s.running with
  | some _ => (s, .rejected)                     -- "qid already exists"
  | none =>
    let r : RQ := { obj := s.next, qid := q, coord := coord }
    let s1 := { s with next := s.next + 1 }
    if force then (runQuery s1 r, .ok)
    else if s1.waiting.length ≥ maxWaiting then (s1, .rejected)
    else ({ s1 with waiting := s1.waiting ++ [r] }, .ok)

/-- one send by the query goroutine itself (COMPLETE = 4, ERROR = 7); no table lock is held -/
def selfSend (s : St) (q msg : Nat) : St × Out :=
  match lookup q s.running with
  | none => (s, .noop)
  | some r =>
    if r.chanLen < chanCap then ({ s with running := put q (send r msg).1 s.running }, .ok)
    else (s, .noop)

/-- the timer goroutine armed by `setupTimeoutCancelFunc` for `q` fires -/
def fireTimeout (s : St) (q : Nat) : St × Out :=
  match lookup q s.running with
  | none => (s, .noop)                           -- the goroutine finds no entry and ends
  | some r =>
    if !r.timerLive then (s, .noop)              -- no pending timer for this admission
    else if r.chanLen < chanCap then
      -- TIMEOUT is sent without any lock, then CancelQuery(q)
      let r1 := (send { r with timerLive := false } 6).1
      cancelQuery { s with running := put q r1 s.running } q
    else (s, .noop)                              -- the goroutine waits on its own send; nothing else is held up

/-- `RestartQuery(force)` on the running object of `q`; `nq` is the qid handed out by `GetNextQid` -/
def restartQuery (s : St) (q nq : Nat) (force : Bool) : St × Out :=
  match lookup q s.running with
  | none => (s, .noop)                           -- only running queries receive QUERY_RESTART
  | some r =>
    if r.cancelled then (s, .rejected)           -- "query is cancelled"
    else
      let s1 := { s with running := erase q s.running }   -- withLockDeleteQuery (stops the timer)
      if !r.coord then (s1, .rejected)           -- "query is not a coordinator" (after the delete)
      else
        match lookup nq s1.running with
        | some _ => (s1, .rejected)              -- withLockInitializeQuery: "qid already exists"
        | none =>
          let n : RQ := { obj := s1.next, qid := nq, coord := true, chanLen := r.chanLen }
          let s2 := { s1 with next := s1.next + 1 }
          if force then (runQuery s2 n, .ok)
          else if s2.waiting.length ≥ maxWaiting then (s2, .rejected)
          else ({ s2 with waiting := s2.waiting ++ [n] }, .ok)

def step (s : St) : Op → St × Out
  | .start q force => startQuery s q force false
  | .pull =>
    if s.running.length < s.maxRunning then
      match s.waiting with
      | [] => (s, .noop)
      | r :: rs => (runQuery { s with waiting := rs } r, .ok)
    else (s, .noop)
  | .cancel q => cancelQuery s q
  | .delete q =>
    match lookup q s.running with
    | none => (s, .noop)
    | some _ => ({ s with running := erase q s.running }, .ok)
  | .drain q =>
    match lookup q s.running with
    | none => (s, .noop)
    | some r => ({ s with running := put q { r with chanLen := 0 } s.running }, .ok)
  | .startc q force => startQuery s q force true
  | .timeout q => fireTimeout s q
  | .restart q nq force => restartQuery s q nq force
  | .complete q => selfSend s q 4
  | .error q => selfSend s q 7

/-- terminal state names: COMPLETE 4, CANCELLED 5, TIMEOUT 6, ERROR 7 -/
def isTerminal (m : Nat) : Bool := m == 4 || m == 5 || m == 6 || m == 7

/-- the terminal state of a query object = the first terminal state name sent on its channel (the consumer
loop of RunQueryForNewPipeline returns on the first one it reads) -/
def terminalOf (r : RQ) : Option Nat := r.sent.find? isTerminal

def run (s : St) : List Op → St
  | [] => s
  | op :: ops => run (step s op).1 ops

end SigModel.QTable
