/-
Model of the running / waiting query tables (C17), mirroring pkg/segment/query/querystatus.go:
  StartQuery / withLockInitializeQuery / addToWaitingQueriesQueue / withLockRunQuery /
  getNextWaitStateData + canRunQuery (one PullQueriesToRun iteration) / CancelQuery / DeleteQuery.
Each StartQuery creates a fresh RunningQueryState object (identified by `obj`); its StateChan is a
bounded buffer of capacity `chanCap` whose occupancy is tracked (a send on a full channel blocks).
Core Lean only.
-/
namespace SigModel.QTable

/-- `queryStateChanSize` and `MAX_WAITING_QUERIES` (tied by go2lean facts) -/
def chanCap : Nat := 10
def maxWaiting : Nat := 500

/-- one RunningQueryState object -/
structure RQ where
  obj : Nat            -- identity of the object (creation counter)
  qid : Nat
  cancelled : Bool := false
  chanLen : Nat := 0   -- messages sitting in StateChan
  sent : List Nat := []  -- state names sent so far (1 READY 2 RUNNING 5 CANCELLED)
deriving Repr, DecidableEq

structure St where
  maxRunning : Nat
  next : Nat := 0                  -- object counter
  running : List (Nat × RQ) := []  -- allRunningQueries: qid ↦ object (at most one entry per qid)
  waiting : List RQ := []          -- waitingQueries, FIFO
  blocked : Bool := false          -- some send found its channel full while a table lock was held
deriving Repr, DecidableEq

def lookup (q : Nat) : List (Nat × RQ) → Option RQ
  | [] => none
  | (k, v) :: r => if k = q then some v else lookup q r

def erase (q : Nat) : List (Nat × RQ) → List (Nat × RQ)
  | [] => []
  | (k, v) :: r => if k = q then erase q r else (k, v) :: erase q r

def put (q : Nat) (v : RQ) (m : List (Nat × RQ)) : List (Nat × RQ) := (q, v) :: erase q m

/-- a send on the object's StateChan -/
def send (r : RQ) (msg : Nat) : RQ × Bool :=
  if r.chanLen < chanCap then ({ r with chanLen := r.chanLen + 1, sent := r.sent ++ [msg] }, false)
  else (r, true)

/-- `withLockRunQuery` -/
def runQuery (s : St) (r : RQ) : St :=
  if r.cancelled then s
  else
    let (r1, b1) := send r 1
    let (r2, b2) := send r1 2
    { s with running := put r.qid r2 s.running, blocked := s.blocked || b1 || b2 }

inductive Op where
  | start (qid : Nat) (force : Bool)
  | pull
  | cancel (qid : Nat)
  | delete (qid : Nat)
  | drain (qid : Nat)      -- the consumer empties the running object's channel
deriving Repr, DecidableEq

inductive Out where
  | ok | rejected | noop
deriving Repr, DecidableEq

def removeFirstWaiting (q : Nat) : List RQ → List RQ
  | [] => []
  | r :: rs => if r.qid = q then rs else r :: removeFirstWaiting q rs

def step (s : St) : Op → St × Out
  | .start q force =>
    match lookup q s.running with
    | some _ => (s, .rejected)                     -- "qid already exists"
    | none =>
      let r : RQ := { obj := s.next, qid := q }
      let s1 := { s with next := s.next + 1 }
      if force then (runQuery s1 r, .ok)
      else if s1.waiting.length ≥ maxWaiting then (s1, .rejected)
      else ({ s1 with waiting := s1.waiting ++ [r] }, .ok)
  | .pull =>
    if s.running.length < s.maxRunning then
      match s.waiting with
      | [] => (s, .noop)
      | r :: rs => (runQuery { s with waiting := rs } r, .ok)
    else (s, .noop)
  | .cancel q =>
    match lookup q s.running with
    | none =>
      -- not running: it may be waiting for admission (`removeFromWaitingQueries`, fix 015df40);
      -- then it leaves the queue, is marked cancelled and CANCELLED is sent on its channel
      match s.waiting.find? (fun r => r.qid == q) with
      | none => (s, .noop)
      | some r =>
        let (_, b) := send { r with cancelled := true } 5
        ({ s with waiting := removeFirstWaiting q s.waiting, blocked := s.blocked || b }, .ok)
    | some r =>
      let (r1, b) := send { r with cancelled := true } 5
      ({ s with running := put q r1 s.running, waiting := removeFirstWaiting q s.waiting, blocked := s.blocked || b }, .ok)
  | .delete q =>
    match lookup q s.running with
    | none => (s, .noop)
    | some _ => ({ s with running := erase q s.running }, .ok)
  | .drain q =>
    match lookup q s.running with
    | none => (s, .noop)
    | some r => ({ s with running := put q { r with chanLen := 0 } s.running }, .ok)

def run (s : St) : List Op → St
  | [] => s
  | op :: ops => run (step s op).1 ops

end SigModel.QTable
