/-
Model of the RUNNING STATISTICS behind `stats` / `stats … by` and of their MERGE (property C04), mirroring

  pkg/segment/writer/stats/segstats.go   : AddSegStatsNums (49-98), processStats (218-351), AddSegStatsStr (353-427),
                                           MergeSegStats (430-440), GetDefaultNumStats (30-36)          [query time]
  pkg/segment/writer/packer.go           : addSegStatsStrIngestion (1616-1645), addSegStatsNums (1665-1690),
                                           processStats (1692-1732)                                      [ingest time]
  pkg/utils/numutils.go                  : FastParseFloat (29-113)            ("is this string a number", both paths)
  strconv.ParseFloat                     : decimal grammar only               (the query path's rule before c04-4)
  pkg/segment/structs/segstructs.go      : UpdateMinMax (819-832), SegStats.Merge (834-869), NumericStats.Merge (916-938)
  pkg/segment/utils/aggutils.go          : Reduce (27-164, Min/Max only), ReduceMinMax (279-311), GetMinMaxString
  pkg/segment/writer/segstore.go         : writeSstToBuf (1592-1702)  +  segread/segstatsreader.go readSingleSst (113-232)
  pkg/segment/reader/segread/segstatsreader.go : GetSegCount / GetSegSum / GetSegMin / GetSegMax / GetSegAvg / getAverage /
                                           GetSegRange / getRange with runningSegStat = nil — the branch
                                           SearchResults.UpdateSegmentStats takes when it is handed the final merged map
  pkg/segment/results/blockresults/runningstats.go : AddMeasureResults → ProcessReduce (427-471), MergeRunningBuckets /
                                           mergeRunningStats (256-425);  pkg/segment/utils/number.go Number.ReduceFast (156-232)
  pkg/segment/results/blockresults/blockresult.go  : updateEValFromRunningBuckets — count (757), avg (823-826), range (899-917),
                                           sum/min/max (1023-1035);  GroupByBuckets.MergeBuckets (1049-1069)

The code is mirrored AS IT IS, quirks included.  Five defects found with this slice were repaired (patches
build/patches/c04-1..4, c04-7 committed; c04-11, c04-13 pending); the model follows the FIXED code and keeps the former behaviour under
explicitly named `…Old` definitions (with counterexample theorems in Props/C04.lean):
  * c04-1 `SegStats.Merge` now ORs `IsNumeric` (`SegStats.mergeOld` / `mergeOOld`: the receiver's flag was kept, so a
    text-only first part made GetSegSum / GetSegAvg refuse the merged statistics);
  * c04-2 `FastParseFloat` now wants a mantissa digit (`parseFastOld`: "-", "+", ".", "e5" were the number 0);
  * c04-3 `Reduce` (group-by min/max) lets a number beat a running string (`reduceMMOld`: it returned an error and
    ProcessReduce kept the string, so the answer depended on the order of the events);
  * c04-4 `AddSegStatsStr` now uses FastParseFloat like the ingest path (`addStrQOld` / `foldQOld`: strconv.ParseFloat,
    which also reads "nan", "inf", "1_000", "0x1p-2" as numbers).
  * c04-7 the group-by bucket divides avg by the number of records that had a NUMERIC value (`RB.nc`; `resultRBOld`:
    by the number of records of the bucket).
  * c04-11 count(x) of a group is a Count cell that counts the records having a value for x (`RB.cx`; `resultRBCountOld`:
    the number of records of the bucket);
  * c04-13 a string that FastParseFloat reads as a number is that number for the Sum / Min / Max cells of the bucket
    (`Val.toCVWith (parseFast rnd)`; `foldRBStrOld`: every string was text — sum and avg ignored it, min / max compared it
    as text — while the statistics without a by clause counted it as a number).
  * c04-15 an integer sum that leaves int64 is continued as a float64, as at the first float (`addInt`; `addSumOld`: it
    wrapped around), and getRange answers with a float64 when max − min does not fit (`rangeOfOld`: wrapped).

Numbers.  `Num.int` is an int64 (the additions test the int64 range explicitly: `fitsI64`, `wrapS64`).  float64 values are EXACT
RATIONALS; every float64 operation of the code is `rnd (exact result)` where `rnd : Rat → Rat` is a parameter of
the model: the Oracle instantiates it with `roundF64` (IEEE-754 round-to-nearest-even, below), the theorems in
Props/C04.lean with the identity (exact arithmetic — the rounding latitude the property statement grants for
floating sums).  `roundF64` is the identity on every value k/2^j with |k| < 2^53 in the normal range, so on the
dyadic inputs the generators mostly use the two instantiations coincide; NaN, ±Inf, −0 and overflow to ±Inf are
outside the model (no fixed path produces them any more: "nan" / "inf" strings are text for FastParseFloat).
uint64 inputs (`SS_UINT64`, cast to int64 by processStats) and bools (`addSegStatsBool`: Count only) are not modelled.
Strings are Go byte strings (`List Nat`), compared bytewise like Go's `<`.  Core Lean only.
-/
import SigModel.Model.MachInt

namespace SigModel.Stats
open SigModel.MachInt

abbrev Str := List Nat

/-! ### float64 rounding of an exact rational -/

def pow2 (e : Int) : Rat :=
  if 0 ≤ e then ((2 ^ e.toNat : Nat) : Rat) else 1 / ((2 ^ (-e).toNat : Nat) : Rat)

/-- IEEE-754 binary64 round-to-nearest, ties-to-even, of an exact rational (subnormals included; no overflow to ±Inf) -/
def roundF64 (q : Rat) : Rat :=
  if q = 0 then 0 else
  let a := if q < 0 then -q else q
  let e0 : Int := (Nat.log2 a.num.natAbs : Int) - (Nat.log2 a.den : Int) - 52
  let e1 := if a / pow2 e0 < ((2 ^ 52 : Nat) : Rat) then e0 - 1 else e0
  let e := if e1 < -1074 then -1074 else e1
  let s := a / pow2 e
  let m := s.floor
  let r := s - (m : Rat)
  let m' := if (1 : Rat) / 2 < r ∨ (r = (1 : Rat) / 2 ∧ m % 2 = 1) then m + 1 else m
  let v := (m' : Rat) * pow2 e
  if q < 0 then -v else v

/-- exact arithmetic (the instantiation used by the theorems) -/
def exact (q : Rat) : Rat := q

/-! ### values -/

/-- `NumTypeEnclosure` (only the member selected by Ntype is meaningful) -/
inductive Num where
  | int (i : Int)
  | flt (q : Rat)
deriving DecidableEq, Repr

/-- one event's value of the measure field -/
inductive Val where
  | absent
  | int (i : Int)
  | flt (q : Rat)
  | str (s : Str)
deriving DecidableEq, Repr

/-- `CValueEnclosure` as far as min/max/sum cells use it -/
inductive CV where
  | invalid            -- SS_INVALID (zero value)
  | backfill           -- SS_DT_BACKFILL
  | int (i : Int)      -- SS_DT_SIGNED_NUM
  | flt (q : Rat)      -- SS_DT_FLOAT
  | str (s : Str)      -- SS_DT_STRING
deriving DecidableEq, Repr

def CV.isNumeric : CV → Bool
  | .int _ => true
  | .flt _ => true
  | _ => false

def Num.toCV : Num → CV
  | .int i => .int i
  | .flt q => .flt q

/-! ### "is this string a number": the two parsers -/

/-- what the control flow of FastParseFloat reads: `[+-]? digit* ( '.' digit* )? ( [eE] [+-]? digit+ )?` over the WHOLE string
(non-empty); digits are kept as their values -/
structure Dec where
  neg : Bool
  ip : List Nat
  fp : List Nat
  exp : Option (Bool × List Nat)     -- exponent: (negative?, digits), at least one digit
deriving DecidableEq, Repr

def isDigit (c : Nat) : Bool := 48 ≤ c && c ≤ 57

def takeDigits : Str → List Nat × Str
  | [] => ([], [])
  | c :: r => if isDigit c then let (d, r') := takeDigits r; ((c - 48) :: d, r') else ([], c :: r)

def scanDec (s : Str) : Option Dec :=
  match s with
  | [] => none
  | c :: r =>
    let (neg, s1) := if c = 45 then (true, r) else if c = 43 then (false, r) else (false, c :: r)
    let (ip, s2) := takeDigits s1
    let (fp, s3) := match s2 with
      | 46 :: r2 => takeDigits r2
      | _ => ([], s2)
    match s3 with
    | [] => some ⟨neg, ip, fp, none⟩
    | e :: r3 =>
      if e = 101 ∨ e = 69 then
        match r3 with
        | [] => none
        | c3 :: r4 =>
          let (eneg, s4) := if c3 = 45 then (true, r4) else if c3 = 43 then (false, r4) else (false, c3 :: r4)
          let (ed, s5) := takeDigits s4
          if ed = [] then none else if s5 = [] then some ⟨neg, ip, fp, some (eneg, ed)⟩ else none
      else none

def digitsNat (ds : List Nat) : Nat := ds.foldl (fun a d => a * 10 + d) 0

/-- `math.Pow(10, e)` for |e| ≤ 22: 10^e is exact, 10^-e is the correctly rounded reciprocal -/
def pow10f (rnd : Rat → Rat) (e : Int) : Rat :=
  if 0 ≤ e then rnd ((10 ^ e.toNat : Nat) : Rat) else rnd (1 / ((10 ^ (-e).toNat : Nat) : Rat))

/-- the float64 computation of FastParseFloat on a scanned numeral -/
def valFast (rnd : Rat → Rat) (d : Dec) : Rat :=
  let acc := fun (ds : List Nat) => ds.foldl (fun (a : Rat) (x : Nat) => rnd (rnd (a * 10) + (x : Rat))) (0 : Rat)
  let divisor := d.fp.foldl (fun (a : Rat) (_ : Nat) => rnd (a * 10)) (1 : Rat)
  let mant := rnd (acc d.ip + rnd (acc d.fp / divisor))
  let r := if d.neg then -mant else mant
  match d.exp with
  | none => r
  | some (eneg, ed) =>
    let e : Int := if eneg then -(digitsNat ed : Int) else (digitsNat ed : Int)
    rnd (r * pow10f rnd e)

/-- the exact value of the numeral -/
def valExact (d : Dec) : Rat :=
  let mant : Rat := (digitsNat (d.ip ++ d.fp) : Rat) / ((10 ^ d.fp.length : Nat) : Rat)
  let r := if d.neg then -mant else mant
  match d.exp with
  | none => r
  | some (eneg, ed) =>
    if eneg then r / ((10 ^ digitsNat ed : Nat) : Rat) else r * ((10 ^ digitsNat ed : Nat) : Rat)

/-- utils.FastParseFloat (as FIXED, patch c04-2: `sawDigit`): a scanned string is a number when its mantissa has at least
one digit; the value is the function's own float64 computation -/
def parseFast (rnd : Rat → Rat) (s : Str) : Option Rat :=
  match scanDec s with
  | some d => if d.ip = [] ∧ d.fp = [] then none else some (valFast rnd d)
  | none => none

/-- utils.FastParseFloat BEFORE the fix: every scanned string is a number, mantissa digits or not ("-", ".", "e5" = 0) -/
def parseFastOld (rnd : Rat → Rat) (s : Str) : Option Rat := (scanDec s).map (valFast rnd)

/-- strconv.ParseFloat restricted to strings over the decimal alphabet: at least one mantissa digit, correctly rounded.
(inf / nan / hexadecimal / underscore forms are numbers for it too: not modelled).  Used by AddSegStatsStr BEFORE the
fix (patch c04-4 switched it to FastParseFloat): only `addStrQOld` refers to it. -/
def parseStd (rnd : Rat → Rat) (s : Str) : Option Rat :=
  match scanDec s with
  | some d => if d.ip = [] ∧ d.fp = [] then none else some (rnd (valExact d))
  | none => none

/-! ### min / max cells -/

def strMin (a b : Str) : Str := if a < b then a else b
def strMax (a b : Str) : Str := if b < a then a else b

def pickI (isMin : Bool) (a b : Int) : Int := if isMin then min a b else max a b
def pickQ (isMin : Bool) (a b : Rat) : Rat := if isMin then min a b else max a b
def pickS (isMin : Bool) (a b : Str) : Str := if isMin then strMin a b else strMax a b

/-- sutils.ReduceMinMax(e1, e2, isMin): never fails on these types; a number beats a string; int with float → float -/
def reduceMinMax (rnd : Rat → Rat) (isMin : Bool) (e1 e2 : CV) : CV :=
  match e1 with
  | .invalid => e2
  | .backfill => e2
  | .int a =>
    match e2 with
    | .invalid => e1
    | .backfill => e1
    | .int b => .int (pickI isMin a b)
    | .flt b => .flt (pickQ isMin (rnd a) b)
    | .str _ => e1
  | .flt a =>
    match e2 with
    | .invalid => e1
    | .backfill => e1
    | .int b => .flt (pickQ isMin a (rnd b))
    | .flt b => .flt (pickQ isMin a b)
    | .str _ => e1
  | .str a =>
    match e2 with
    | .invalid => e1
    | .backfill => e1
    | .int _ => e2
    | .flt _ => e2
    | .str b => .str (pickS isMin a b)

/-- sutils.Reduce(e1, e2, Min|Max) BEFORE the fix: `none` = the error return ("unsupported … Dtype") when e1 is a string and
e2 a number -/
def reduceMMOld (rnd : Rat → Rat) (isMin : Bool) (e1 e2 : CV) : Option CV :=
  match e1 with
  | .invalid => some e2
  | .backfill =>
    match e2 with
    | .invalid => some e1
    | .backfill => some e1
    | _ => some e2
  | .int a =>
    match e2 with
    | .invalid => some e1
    | .backfill => some e1
    | .int b => some (.int (pickI isMin a b))
    | .flt b => some (.flt (pickQ isMin (rnd a) b))
    | .str _ => some e1
  | .flt a =>
    match e2 with
    | .invalid => some e1
    | .backfill => some e1
    | .int b => some (.flt (pickQ isMin a (rnd b)))
    | .flt b => some (.flt (pickQ isMin a b))
    | .str _ => some e1
  | .str a =>
    match e2 with
    | .invalid => some e1
    | .backfill => some e1
    | .int _ => none
    | .flt _ => none
    | .str b => some (.str (pickS isMin a b))

/-- sutils.Reduce(e1, e2, Min|Max) (as FIXED, patch c04-3): a running string and an incoming number go to ReduceMinMax
like the opposite case — the number wins; no error remains on these types (`some` always) -/
def reduceMM (rnd : Rat → Rat) (isMin : Bool) (e1 e2 : CV) : Option CV :=
  match e1 with
  | .invalid => some e2
  | .backfill =>
    match e2 with
    | .invalid => some e1
    | .backfill => some e1
    | _ => some e2
  | .int a =>
    match e2 with
    | .invalid => some e1
    | .backfill => some e1
    | .int b => some (.int (pickI isMin a b))
    | .flt b => some (.flt (pickQ isMin (rnd a) b))
    | .str _ => some e1
  | .flt a =>
    match e2 with
    | .invalid => some e1
    | .backfill => some e1
    | .int b => some (.flt (pickQ isMin a (rnd b)))
    | .flt b => some (.flt (pickQ isMin a b))
    | .str _ => some e1
  | .str a =>
    match e2 with
    | .invalid => some e1
    | .backfill => some e1
    | .int _ => some e2
    | .flt _ => some e2
    | .str b => some (.str (pickS isMin a b))

/-! ### per-column segment statistics (`structs.SegStats`) -/

/-- `structs.NumericStats` (Sumsq is never written by the adders and not modelled) -/
structure NumStats where
  ncount : Nat        -- NumericCount
  sum : Num           -- Sum
deriving DecidableEq, Repr

structure SegStats where
  isNumeric : Bool
  count : Nat
  min : CV
  max : CV
  num : Option NumStats     -- NumStats pointer (none = nil)
deriving DecidableEq, Repr

/-- GetDefaultNumStats -/
def defaultNum : NumStats := ⟨0, .int 0⟩

/-- the value is an int64 -/
def fitsI64 (x : Int) : Bool := decide (-9223372036854775808 ≤ x ∧ x ≤ 9223372036854775807)

/-- NumTypeEnclosure.AddToIntSum / the Sum case of Number.ReduceFast on two int64 (patch c04-15): `AddInt64` reports the
overflow exactly when the exact sum is no int64; the sum is then continued as float64(a) + float64(i) -/
def addInt (rnd : Rat → Rat) (a i : Int) : Num :=
  if fitsI64 (a + i) then .int (a + i) else .flt (rnd (rnd a + rnd i))

/-- the Sum update of processStats, which is also the Sum rule of NumericStats.Merge (stored `s`, incoming `v`) -/
def addSum (rnd : Rat → Rat) (s v : Num) : Num :=
  match s, v with
  | .flt a, .flt f => .flt (rnd (a + f))
  | .int a, .flt f => .flt (rnd (rnd a + f))
  | .flt a, .int i => .flt (rnd (a + rnd i))
  | .int a, .int i => addInt rnd a i

/-- BEFORE patch c04-15 the int64 sum wrapped around -/
def addSumOld (rnd : Rat → Rat) (s v : Num) : Num :=
  match s, v with
  | .int a, .int i => .int (wrapS64 (a + i))
  | _, _ => addSum rnd s v

/-- processStats (both files): Count++, NumericCount++, UpdateMinMax, Sum -/
def procNum (rnd : Rat → Rat) (st : SegStats) (ns : NumStats) (v : Num) : SegStats :=
  { st with
    count := st.count + 1
    min := reduceMinMax rnd true st.min v.toCV
    max := reduceMinMax rnd false st.max v.toCV
    num := some ⟨ns.ncount + 1, addSum rnd ns.sum v⟩ }

/-- UpdateMinMax + Count++ of the non-numeric string branches -/
def procStr (rnd : Rat → Rat) (st : SegStats) (s : Str) : SegStats :=
  { st with
    count := st.count + 1
    min := reduceMinMax rnd true st.min (.str s)
    max := reduceMinMax rnd false st.max (.str s) }

def newNumeric : SegStats := ⟨true, 0, .invalid, .invalid, some defaultNum⟩
def newText : SegStats := ⟨false, 0, .invalid, .invalid, none⟩

/-- stats.AddSegStatsNums: a non-numeric entry is switched to numeric with FRESH NumStats -/
def addNumQ (rnd : Rat → Rat) (o : Option SegStats) (v : Num) : Option SegStats :=
  let st := o.getD newNumeric
  if st.isNumeric then
    -- (IsNumeric with NumStats = nil would be a nil dereference in Go; no adder or merge produces it)
    some (procNum rnd st (st.num.getD defaultNum) v)
  else
    some (procNum rnd { st with isNumeric := true } defaultNum v)

/-- stats.AddSegStatsStr with the string rule `parse` -/
def addStrQWith (parse : Str → Option Rat) (rnd : Rat → Rat) (o : Option SegStats) (s : Str) : Option SegStats :=
  let st := o.getD newText
  match parse s with
  | some f => addNumQ rnd (some st) (.flt f)
  | none => some (procStr rnd st s)

/-- stats.AddSegStatsStr (as FIXED, patch c04-4): utils.FastParseFloat, the rule of the ingest path -/
def addStrQ (rnd : Rat → Rat) : Option SegStats → Str → Option SegStats := addStrQWith (parseFast rnd) rnd
/-- … BEFORE the fix: strconv.ParseFloat -/
def addStrQOld (rnd : Rat → Rat) : Option SegStats → Str → Option SegStats := addStrQWith (parseStd rnd) rnd

/-- writer.addSegStatsNums: NumStats created when missing -/
def addNumI (rnd : Rat → Rat) (o : Option SegStats) (v : Num) : Option SegStats :=
  let st := o.getD newNumeric
  match st.num with
  | some ns => some (procNum rnd st ns v)
  | none => some (procNum rnd { st with isNumeric := true } defaultNum v)

/-- writer.addSegStatsStrIngestion with the string rule `parse` -/
def addStrIWith (parse : Str → Option Rat) (rnd : Rat → Rat) (o : Option SegStats) (s : Str) : Option SegStats :=
  let st := o.getD newText
  match parse s with
  | some f => addNumI rnd (some { st with isNumeric := true }) (.flt f)
  | none => some (procStr rnd st s)

/-- writer.addSegStatsStrIngestion: utils.FastParseFloat (fixed) -/
def addStrI (rnd : Rat → Rat) : Option SegStats → Str → Option SegStats := addStrIWith (parseFast rnd) rnd
/-- … with FastParseFloat as it was BEFORE the fix -/
def addStrIOld (rnd : Rat → Rat) : Option SegStats → Str → Option SegStats := addStrIWith (parseFastOld rnd) rnd

def stepQWith (parse : Str → Option Rat) (rnd : Rat → Rat) (o : Option SegStats) : Val → Option SegStats
  | .absent => o
  | .int i => addNumQ rnd o (.int i)
  | .flt q => addNumQ rnd o (.flt q)
  | .str s => addStrQWith parse rnd o s

def stepIWith (parse : Str → Option Rat) (rnd : Rat → Rat) (o : Option SegStats) : Val → Option SegStats
  | .absent => o
  | .int i => addNumI rnd o (.int i)
  | .flt q => addNumI rnd o (.flt q)
  | .str s => addStrIWith parse rnd o s

def foldQWith (parse : Str → Option Rat) (rnd : Rat → Rat) (vs : List Val) : Option SegStats := vs.foldl (stepQWith parse rnd) none
def foldIWith (parse : Str → Option Rat) (rnd : Rat → Rat) (vs : List Val) : Option SegStats := vs.foldl (stepIWith parse rnd) none

/-- query-time statistics of one column over a list of events (none = the map has no entry for the column) -/
def foldQ (rnd : Rat → Rat) (vs : List Val) : Option SegStats := foldQWith (parseFast rnd) rnd vs
/-- ingest-time statistics -/
def foldI (rnd : Rat → Rat) (vs : List Val) : Option SegStats := foldIWith (parseFast rnd) rnd vs
/-- the two paths BEFORE the fixes c04-2 / c04-4: strconv.ParseFloat at query time, the digit-less FastParseFloat at ingest -/
def foldQOld (rnd : Rat → Rat) (vs : List Val) : Option SegStats := foldQWith (parseStd rnd) rnd vs
def foldIOld (rnd : Rat → Rat) (vs : List Val) : Option SegStats := foldIWith (parseFastOld rnd) rnd vs

/-- NumericStats.Merge / the nil cases of SegStats.Merge -/
def mergeNum (rnd : Rat → Rat) : Option NumStats → Option NumStats → Option NumStats
  | none, b => b
  | some a, none => some a
  | some a, some b => some ⟨a.ncount + b.ncount, addSum rnd a.sum b.sum⟩

/-- SegStats.Merge (as FIXED, patch c04-1): Count, IsNumeric (numeric as soon as one side is), UpdateMinMax(other.Min),
UpdateMinMax(other.Max), NumStats -/
def SegStats.merge (rnd : Rat → Rat) (a b : SegStats) : SegStats :=
  let mn1 := reduceMinMax rnd true a.min b.min
  let mx1 := reduceMinMax rnd false a.max b.min
  { isNumeric := a.isNumeric || b.isNumeric
    count := a.count + b.count
    min := reduceMinMax rnd true mn1 b.max
    max := reduceMinMax rnd false mx1 b.max
    num := mergeNum rnd a.num b.num }

/-- SegStats.Merge BEFORE the fix: IsNumeric of the receiver is kept, the other side's is ignored -/
def SegStats.mergeOld (rnd : Rat → Rat) (a b : SegStats) : SegStats :=
  { a.merge rnd b with isNumeric := a.isNumeric }

/-- stats.MergeSegStats restricted to one column: a missing entry adopts the other side's -/
def mergeO (rnd : Rat → Rat) : Option SegStats → Option SegStats → Option SegStats
  | none, b => b
  | some a, none => some a
  | some a, some b => some (a.merge rnd b)

def mergeOOld (rnd : Rat → Rat) : Option SegStats → Option SegStats → Option SegStats
  | none, b => b
  | some a, none => some a
  | some a, some b => some (a.mergeOld rnd b)

/-- writeSstToBuf → readSingleSst of one column (strings shorter than 65536 bytes).  `none`: the writer panics
(type assertion on a non-number Min/Max or nil NumStats of a numeric column; no adder or merge produces that). -/
def sstRT (s : SegStats) : Option SegStats :=
  if s.isNumeric then
    match s.num with
    | none => none
    | some ns =>
      if s.min.isNumeric ∧ s.max.isNumeric then some ⟨true, s.count, s.min, s.max, some ns⟩ else none
  else
    match s.min, s.max with
    | .str a, .str b => some ⟨false, s.count, .str a, .str b, none⟩
    | _, _ => some ⟨false, s.count, .invalid, .invalid, none⟩

def sstRTO : Option SegStats → Option (Option SegStats)
  | none => some none
  | some s => (sstRT s).map some

/-! ### derivation of the answers from the final statistics (GetSeg*(nil, s)) -/

/-- one cell of the result: `none` = no entry in measureResults (the function returned an error) -/
structure Derived where
  count : Option CV
  sum : Option CV
  avg : Option CV
  min : Option CV
  max : Option CV
  range : Option CV
deriving DecidableEq, Repr

/-- getAverage(Sum, NumericCount) -/
def avgOf (rnd : Rat → Rat) (sum : Num) (n : Nat) : Option Rat :=
  if n = 0 then none else
  match sum with
  | .flt s => some (rnd (s / rnd (n : Rat)))
  | .int s => some (rnd (rnd (s : Rat) / rnd (n : Rat)))

/-- getRange(max, min) once min is numeric -/
def rangeOf (rnd : Rat → Rat) (mx mn : CV) : Option CV :=
  match mx, mn with
  | .flt a, .flt b => some (.flt (rnd (a - b)))
  | .flt a, .int b => some (.flt (rnd (a - rnd b)))
  | .int a, .flt b => some (.flt (rnd (rnd a - b)))
  | .int a, .int b =>
    -- patch c04-15: `diff := max - min` (int64, wraps); a negative diff means it did not fit
    let d := wrapS64 (a - b)
    if d < 0 then some (.flt (rnd (rnd a - rnd b))) else some (.int d)
  | _, _ => none

/-- BEFORE patch c04-15: the wrapped int64 difference -/
def rangeOfOld (rnd : Rat → Rat) (mx mn : CV) : Option CV :=
  match mx, mn with
  | .int a, .int b => some (.int (wrapS64 (a - b)))
  | _, _ => rangeOf rnd mx mn

def derive (rnd : Rat → Rat) : Option SegStats → Derived
  | none => ⟨none, none, none, none, none, none⟩
  | some s =>
    { count := some (.int s.count)
      -- GetSegSum / GetSegAvg: "current segStats is non-numeric"
      sum := if s.isNumeric then s.num.map (fun ns => ns.sum.toCV) else none
      avg := if s.isNumeric then (s.num.bind (fun ns => avgOf rnd ns.sum ns.ncount)).map CV.flt else none
      min := some s.min
      max := some s.max
      range := if s.min.isNumeric then rangeOf rnd s.max s.min else some .invalid }

/-! ### group-by bucket (`RunningBucketResults` for the measures sum(x), min(x), max(x), avg(x), count(x), range(x)):
avg(x) is tracked as a second sum cell, range(x) as a second min and max cell — equal to the first ones, kept once here -/

structure RB where
  n : Nat          -- bucket.count: records added to the bucket
  sum : CV         -- the Sum cell (rawVal after syncRawValue): invalid | backfill | int | flt
  min : CV
  max : CV
  nc : Nat         -- numCount of the Sum cell (patch c04-7): records whose value was numeric
  cx : Nat         -- the Count cell of count(x) (patch c04-11): records that have a value for x
deriving DecidableEq, Repr

/-- ProcessReduce for Sum: the first call turns an INVALID cell into BACKFILL (runningstats.go:432-434); then
Number.ReduceFast; a string cannot be converted to a Number (error, cell otherwise unchanged); an INVALID incoming
value is treated as BACKFILL -/
def sumStep (rnd : Rat → Rat) (s e : CV) : CV :=
  let s0 := match s with
    | .invalid => CV.backfill
    | _ => s
  match e with
  | .str _ => s0
  | .invalid => s0
  | .backfill => s0
  | .int i =>
    match s0 with
    | .int a => (addInt rnd a i).toCV
    | .flt a => .flt (rnd (a + rnd i))
    | _ => .int i
  | .flt f =>
    match s0 with
    | .int a => .flt (rnd (rnd a + f))
    | .flt a => .flt (rnd (a + f))
    | _ => .flt f

/-- ProcessReduce for Min / Max: on the error of Reduce the cell is kept -/
def mmStep (rnd : Rat → Rat) (isMin : Bool) (s e : CV) : CV := (reduceMM rnd isMin s e).getD s
def mmStepOld (rnd : Rat → Rat) (isMin : Bool) (s e : CV) : CV := (reduceMMOld rnd isMin s e).getD s

/-- the value the Sum / Min / Max cells of the bucket are fed with (AddMeasureResults, patch c04-13): a string that the
rule `parse` reads as a number is that float64, like in the statistics without a by clause (AddSegStatsStr) -/
def Val.toCVWith (parse : Str → Option Rat) : Val → CV
  | .absent => .backfill
  | .int i => .int i
  | .flt q => .flt q
  | .str s => match parse s with
    | some q => .flt q
    | none => .str s

/-- BEFORE patch c04-13 no string was a number for the group-by bucket -/
def noParse : Str → Option Rat := fun _ => none

def Val.toCV : Val → CV := Val.toCVWith noParse

def Val.isAbsent : Val → Bool
  | .absent => true
  | _ => false

def newRB : RB := ⟨0, .invalid, .invalid, .invalid, 0, 0⟩

/-- AddMeasureResultsToKey of one record, `parse` = the bucket's "is this string a number" -/
def stepRBWith (parse : Str → Option Rat) (rnd : Rat → Rat) (o : Option RB) (v : Val) : Option RB :=
  let b := o.getD newRB
  let e := v.toCVWith parse
  some ⟨b.n + 1, sumStep rnd b.sum e, mmStep rnd true b.min e, mmStep rnd false b.max e, b.nc + (if e.isNumeric then 1 else 0),
    b.cx + (if v.isAbsent then 0 else 1)⟩

def foldRBWith (parse : Str → Option Rat) (rnd : Rat → Rat) (vs : List Val) : Option RB := vs.foldl (stepRBWith parse rnd) none

/-- the bucket as FIXED (patch c04-13): the string rule is FastParseFloat, the rule of the statistics without by -/
def stepRB (rnd : Rat → Rat) : Option RB → Val → Option RB := stepRBWith (parseFast rnd) rnd
def foldRB (rnd : Rat → Rat) (vs : List Val) : Option RB := foldRBWith (parseFast rnd) rnd vs

/-- the bucket BEFORE patch c04-13: every string is text (sum ignores it, min / max compare it as text) -/
def foldRBStrOld (rnd : Rat → Rat) (vs : List Val) : Option RB := foldRBWith noParse rnd vs

/-- the bucket with `Reduce` as it was BEFORE the fix c04-3 (and before c04-13: strings are text) -/
def stepRBOld (rnd : Rat → Rat) (o : Option RB) (v : Val) : Option RB :=
  let b := o.getD newRB
  let e := v.toCV
  some ⟨b.n + 1, sumStep rnd b.sum e, mmStepOld rnd true b.min e, mmStepOld rnd false b.max e, b.nc + (if e.isNumeric then 1 else 0),
    b.cx + (if v.isAbsent then 0 else 1)⟩
def foldRBOld (rnd : Rat → Rat) (vs : List Val) : Option RB := vs.foldl (stepRBOld rnd) none

/-- GroupByBuckets.MergeBuckets for one key / MergeRunningBuckets -/
def mergeRB (rnd : Rat → Rat) : Option RB → Option RB → Option RB
  | none, b => b
  | some a, none => some a
  | some a, some b => some ⟨a.n + b.n, sumStep rnd a.sum b.sum, mmStep rnd true a.min b.min, mmStep rnd false a.max b.max, a.nc + b.nc, a.cx + b.cx⟩

def mergeRBOld (rnd : Rat → Rat) : Option RB → Option RB → Option RB
  | none, b => b
  | some a, none => some a
  | some a, some b => some ⟨a.n + b.n, sumStep rnd a.sum b.sum, mmStepOld rnd true a.min b.min, mmStepOld rnd false a.max b.max, a.nc + b.nc, a.cx + b.cx⟩

/-- CValueEnclosure.GetFloatValue -/
def CV.float? (rnd : Rat → Rat) : CV → Option Rat
  | .int i => some (rnd i)
  | .flt q => some q
  | _ => none

structure RBResult where
  n : Nat
  sum : CV
  min : CV
  max : CV
  avg : CV       -- invalid = no value
  count : Nat    -- count(x)
  range : CV
deriving DecidableEq, Repr

/-- updateEValFromRunningBuckets (as FIXED, patches c04-7 and c04-11): avg = sum / numCount of the Sum cell (bucket.count
only when the cell carries no count), count(x) = the Count cell = the records that have a value for x,
range = float(max) − float(min) -/
def resultRB (rnd : Rat → Rat) (b : RB) : RBResult :=
  { n := b.n
    sum := b.sum
    min := b.min
    max := b.max
    avg := match b.sum.float? rnd with
      | none => .invalid
      | some s =>
        let d := if b.nc = 0 then b.n else b.nc
        if d = 0 then .flt 0 else .flt (rnd (s / rnd (d : Rat)))
    count := b.cx
    range := match b.min.float? rnd, b.max.float? rnd with
      | some mn, some mx => .flt (rnd (mx - mn))
      | _, _ => .invalid }

/-- BEFORE the fix c04-7: avg = sum / bucket.count, the number of RECORDS of the group -/
def resultRBOld (rnd : Rat → Rat) (b : RB) : RBResult :=
  { resultRB rnd b with
    avg := match b.sum.float? rnd with
      | none => .invalid
      | some s => if b.n = 0 then .flt 0 else .flt (rnd (s / rnd (b.n : Rat))) }

/-- BEFORE the fix c04-11: count(x) = bucket.count, the number of RECORDS of the group (there was no Count cell) -/
def resultRBCountOld (rnd : Rat → Rat) (b : RB) : RBResult := { resultRB rnd b with count := b.n }

end SigModel.Stats
