/-
Model of the READER STATE above the checksummed chunk reader (C18), mirroring
  pkg/segment/reader/segread/segreader/segreader.go
    SegmentFileReader.readBlock            (l.327-343: load, `if !validBlock`, `if err != nil { isBlockLoaded = false }`, THEN currBlockNum/isBlockLoaded)
    SegmentFileReader.loadBlockUsingBuffer (l.347-409: block metadata, ChecksumFile.ReadAt into the re-used buffers, decode)
    SegmentFileReader.ValidateAndReadBlock (l.768-…: skip the load when `isBlockLoaded && currBlockNum == blockNum`;
                                            a block without data for the column forgets the loaded block)
    SegmentFileReader.IsBlkDictEncoded     (l.523-539: same skip test, no reset)
    SegmentFileReader.ReadRecord           (serves from the buffers, whatever they hold)
  pkg/segment/reader/segread/timereader.go
    TimeRangeReader.readAllTimestampsForBlock / GetTimeStampForRecord (l.152-226)

The buffers are abstracted to what `ReadRecord i` would return from them (`Contents`).  A load attempt is
`Load`: the column has no data in the block / the load succeeds with the block's contents / the load fails and
leaves the buffers in a state that is a function of their previous state (`clobber`: the code reads the chunk into
the re-used file buffer BEFORE the checksum is compared, and dictionary words alias that buffer).
`loadOf` builds `Load` from the chunk reader model `SigModel.Checksum.readAt`.  Core Lean only.
-/
import SigModel.Model.Checksum

namespace SigModel.SegReader
open SigModel.Wal (Bytes)
open SigModel.Checksum

/-- what `ReadRecord i` returns from the current buffers -/
abbrev Contents := List Bytes

inductive Load where
  | absent                                  -- ColBlockOffAndLen.Length == 0: (validBlock = false, nil)
  | ok (c : Contents)                       -- chunk read, checksum verified, decoded
  | fail (clobber : Contents → Contents)    -- ErrReadFile / ErrBadEncoding / ErrDecompress / ErrBlockNotFound

structure St where
  curr : Nat          -- currBlockNum
  loaded : Bool       -- isBlockLoaded
  buf : Contents      -- what the buffers serve
deriving Repr, DecidableEq

def St.init : St := { curr := 0, loaded := false, buf := [] }

inductive RB where | invalid | err | ok
deriving Repr, DecidableEq

/-- `readBlock(blockNum)` as coded (after the repair c18-1): a failed load forgets the loaded block; the error is
    checked BEFORE the block number is recorded -/
def readBlock (load : Nat → Load) (st : St) (b : Nat) : St × RB :=
  match load b with
  | .absent => (st, .invalid)
  | .fail cl => ({ st with loaded := false, buf := cl st.buf }, .err)
  | .ok c => ({ curr := b, loaded := true, buf := c }, .ok)

/-- `readBlock` BEFORE the repair: a failed load left `isBlockLoaded`/`currBlockNum` pointing at the block loaded
    before, although the attempt may have overwritten the buffers (kept for the counterexample theorem) -/
def readBlockOld (load : Nat → Load) (st : St) (b : Nat) : St × RB :=
  match load b with
  | .absent => (st, .invalid)
  | .fail cl => ({ st with buf := cl st.buf }, .err)
  | .ok c => ({ curr := b, loaded := true, buf := c }, .ok)

/-- the seeded variant (A) of the old code: the block number is recorded before the error check -/
def readBlockEarly (load : Nat → Load) (st : St) (b : Nat) : St × RB :=
  match load b with
  | .absent => (st, .invalid)
  | .fail cl => ({ st with curr := b, buf := cl st.buf }, .err)
  | .ok c => ({ curr := b, loaded := true, buf := c }, .ok)

/-- `ValidateAndReadBlock(blockNum)`: (state, error?) -/
def validate (rb : St → Nat → St × RB) (st : St) (b : Nat) : St × Bool :=
  if !st.loaded || st.curr != b then
    match rb st b with
    | (st', .invalid) => ({ st' with loaded := false, buf := [] }, false)   -- column absent: forget, no error
    | (st', .err) => (st', true)
    | (st', .ok) => (st', false)
  else (st, false)

/-- `IsBlkDictEncoded(blockNum)`: same skip test; an invalid block and an error both return an error, no reset -/
def probe (rb : St → Nat → St × RB) (st : St) (b : Nat) : St × Bool :=
  if !st.loaded || st.curr != b then
    match rb st b with
    | (st', .ok) => (st', false)
    | (st', _) => (st', true)
  else (st, false)

inductive Op where
  | ld (b : Nat)            -- ValidateAndReadBlock b
  | pr (b : Nat)            -- IsBlkDictEncoded b
  | rd (b i : Nat)          -- ValidateAndReadBlock b; ReadRecord i
deriving Repr, DecidableEq

inductive Res where
  | ok | err
  | data (r : Bytes)        -- ReadRecord returned these bytes
  | norec                   -- ReadRecord returned an error / nothing
deriving Repr, DecidableEq

def step (rb : St → Nat → St × RB) (st : St) : Op → St × Res
  | .ld b => let (s, e) := validate rb st b; (s, if e then .err else .ok)
  | .pr b => let (s, e) := probe rb st b; (s, if e then .err else .ok)
  | .rd b i =>
    let (s, e) := validate rb st b
    if e then (s, .err) else
    match s.buf[i]? with
    | some r => (s, .data r)
    | none => (s, .norec)

/-- results of a whole op sequence from a state -/
def run (rb : St → Nat → St × RB) : St → List Op → List Res
  | _, [] => []
  | st, o :: os => let (s, r) := step rb st o; r :: run rb s os

/-! ### `Load` from the chunk reader model -/

structure BlkMeta where
  off : Nat
  len : Nat     -- 0 = the column has no data in this block

/-- `loadBlockUsingBuffer`: metadata lookup, one `ChecksumFile.ReadAt` of `len` bytes at `off`, decode.
    `decode` = `ReadDictEnc` / `unpackRawCsg` seen as a function from the verified payload to what `ReadRecord`
    serves afterwards; `clob b` = what the buffers serve after a failed attempt on block `b`. -/
def loadOf (crc : Bytes → Nat) (f : Bytes) (metas : List BlkMeta) (decode : Bytes → Option Contents)
    (clob : Nat → Contents → Contents) (b : Nat) : Load :=
  match metas[b]? with
  | none => .fail id                      -- ErrBlockNotFound: returned before any buffer is touched
  | some m =>
    if m.len = 0 then .absent else
    match readAt crc f m.len m.off with
    | (_, true) => .fail (clob b)
    | (d, false) =>
      match decode d with
      | some c => .ok c
      | none => .fail (clob b)

/-! ### the timestamp reader (TimeRangeReader) -/

/-- `readAllTimestampsForBlock`: a read error other than io.EOF forgets the loaded block; io.EOF (a short read whose
    checksum happened to match, or the legacy fallback) returns nil WITHOUT decoding — `eof`; an unknown block
    number is an error that leaves the state alone — `nometa`.  (A decode error after a verified read needs a
    checksum accident and is not modelled.) -/
inductive TLoad where
  | ok (c : List Nat)
  | fail                -- ReadAt error ≠ io.EOF: loadedBlock := false, error
  | eof                 -- ReadAt returned io.EOF: nil is returned, state untouched
  | nometa              -- ErrInvalidBlockNum / ErrBlockNotFound: error, state untouched

structure TSt where
  curr : Nat
  loaded : Bool
  ts : List Nat
deriving Repr, DecidableEq

def TSt.init : TSt := { curr := 0, loaded := false, ts := [] }

/-- `GetTimeStampForRecord(b, i)` -/
def tsRead (load : Nat → TLoad) (st : TSt) (b i : Nat) : TSt × Option Nat :=
  if !st.loaded || st.curr != b then
    match load b with
    | .ok c => ({ curr := b, loaded := true, ts := c }, c[i]?)
    | .fail => ({ st with loaded := false }, none)
    | .eof => (st, st.ts[i]?)                    -- nil error: falls through to the record lookup
    | .nometa => (st, none)
  else (st, st.ts[i]?)

def tsRun (load : Nat → TLoad) : TSt → List (Nat × Nat) → List (Option Nat)
  | _, [] => []
  | st, (b, i) :: os => let (s, r) := tsRead load st b i; r :: tsRun load s os

end SigModel.SegReader

/-! ### vocabulary of the statements about the reader state (used by Props/C18 and Lemmas/C18E) -/
namespace SigModel.SegReader
open SigModel.Wal (Bytes)

/-- `r` is record `i` of the verified contents of block `b` (a successful load OF THAT BLOCK) -/
def Genuine (load : Nat → Load) (b i : Nat) (r : Bytes) : Prop :=
  ∃ c, load b = .ok c ∧ c[i]? = some r

/-- every `ValidateAndReadBlock b; ReadRecord i` of the sequence that returns bytes returns record `i` of block `b` -/
def ServesOnlyRequestedBlock (rb : St → Nat → St × RB) (load : Nat → Load) (st : St) (ops : List Op) : Prop :=
  ∀ (k b i : Nat) (r : Bytes), ops[k]? = some (Op.rd b i) → (run rb st ops)[k]? = some (Res.data r) → Genuine load b i r

/-- failed load attempts leave what the buffers serve alone -/
def FailKeeps (load : Nat → Load) : Prop := ∀ b cl, load b = .fail cl → ∀ c, cl c = c

def Op.block : Op → Nat
  | .ld b => b | .pr b => b | .rd b _ => b

/-- GUARD for the OLD `readBlock` (decidable, computed along the run): the sequence never touches the block recorded
    as loaded while a failed attempt on another block has happened since that block was loaded (`t` = such an
    attempt happened). -/
def noStaleReturn (load : Nat → Load) : St → Bool → List Op → Bool
  | _, _, [] => true
  | st, t, o :: os =>
    let b := o.block
    if st.loaded && st.curr == b then
      if t then false else noStaleReturn load (step (readBlockOld load) st o).1 t os
    else
      let t' := match load b with | .ok _ => false | .fail _ => true | .absent => t
      noStaleReturn load (step (readBlockOld load) st o).1 t' os

/-- every timestamp served for `(b, i)` is timestamp `i` of the verified contents of block `b` -/
def TsServesOnlyRequestedBlock (load : Nat → TLoad) (st : TSt) (ops : List (Nat × Nat)) : Prop :=
  ∀ (k b i v : Nat), ops[k]? = some (b, i) → (tsRun load st ops)[k]? = some (some v) →
    ∃ c : List Nat, load b = .ok c ∧ c[i]? = some v

/-- the chunk reader never passes an io.EOF through for this file -/
def NoEof (load : Nat → TLoad) : Prop := ∀ b, load b ≠ .eof

end SigModel.SegReader
