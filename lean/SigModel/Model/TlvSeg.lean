/-
Model of one log column over a SEGMENT OF SEVERAL BLOCKS (C01 kernel, second part).  Core Lean only.

`Model/Tlv.lean` models one block: the filling of a column (`ColSt.step`, `fillCol`), the size hint
(`seenSize`) and the raw reader.  There the record number inside the block and the number of records the
SEGMENT already has coincide.  Here they are kept apart, as the code keeps them apart:

  per SEGMENT (survives the flush of a block; reset by resetSegStore, segstore.go:249-334)
      SegStore.AllSeenColumnSizes[col]   absent / size / INCONSISTENT_CVAL_SIZE          → `SegSt.size`
      SegStore.RecordCount               incremented per event in AddEntry (segwriter.go:490)  → `SegSt.recordCount`
  per BLOCK (reset by resetWipBlock, segstore.go:197-240, at the end of AppendWipToSegfile)
      wipBlock.blockSummary.RecCount     (segwriter.go:489)                               → `SegSt.blkRec`
      wipBlock.columnsInBlock[col], colWip.cbuf / cbufidx, colWip.deData                  → `SegSt.col` (a `ColSt`)
      wipBlock.columnRangeIndexes[col]   (cleared)                                        → `SegSt.range`
  NOT reset by resetWipBlock (only `uniqueWordCount = 0`), nor by resetSegStore
      wipBlock.columnBlooms[col]                                                          → `SegSt.bloom`

Mirrors, as they are now (HEAD b7f8683):
  pkg/segment/writer/packer.go     updateColValueSizeInAllSeenColumns :698-718 (`updSize`),
                                   initAndBackFillColumn :549-574, backFillPastRecords :603-633 incl. the call
                                   `updateColValueSizeInAllSeenColumns(key, 1)` added by fix b7f8683 and
                                   initMicroIndices :576-601 (which index a back-filled column gets)
  pkg/segment/writer/segwriter.go  doLogEventFilling :337-452 (size reported per value; trailing back-fill loop
                                   over columnsInBlock), AddEntry :476-491 (both counters incremented after the event)
  pkg/segment/writer/segstore.go   AppendWipToSegfile :529-546 (marking of a column that has a bloom and a range
                                   index, consolidateColumnTypes :342-367; a successful convertColumnToNumbers deletes
                                   the bloom :445), :583-599 (a column without bytes in the block is not written;
                                   block encoding chosen from deCount of the colWip AFTER the consolidation, which is a
                                   fresh colWip with deCount 0), resetWipBlock.
The behaviour before fix b7f8683 (backFillPastRecords did not report the 1-byte records) is kept as the
explicitly named `…Old` definitions.
-/
import SigModel.Model.Tlv

namespace SigModel.Tlv

/-- `updateColValueSizeInAllSeenColumns(col, sz)` with `SegStore.RecordCount = recordCount`: a column the segment
has not seen yet gets `sz` only if the segment has no record yet -/
def updSize (recordCount : Nat) (cur : Option Nat) (sz : Nat) : Option Nat :=
  match cur with
  | none => some (if recordCount > 0 then inconsistent else sz)
  | some c => if c = inconsistent then some c else if c ≠ sz then some inconsistent else some c

/-- which micro index `initMicroIndices` creates for a column that is back-filled, by the type of its first value
(string and bool: a bloom; numbers: a range index; null: none, the call fails and only logs) -/
def backfillBloom : Val → Bool
  | .str _ | .bool _ => true
  | _ => false

def isNumVal : Val → Bool
  | .num _ _ => true
  | _ => false

def isStrVal : Val → Bool
  | .str _ => true
  | _ => false

/-- one flushed block of the column: was it rewritten by the type consolidation, the column bytes handed to
`writeWip`, the dictionary size `deCount` of the colWip handed to `writeWip` -/
structure BlockOut where
  mixed : Bool
  buf : Bytes
  de : Nat
deriving Repr, DecidableEq

structure SegSt where
  size : Option Nat := none
  recordCount : Nat := 0
  blkRec : Nat := 0
  col : ColSt := {}
  bloom : Bool := false
  range : Bool := false
  blocks : List BlockOut := []
deriving Repr

/-- one event through `doLogEventFilling` + the counter updates of `AddEntry`; `none` = the event lacks the column.
`fixed = false` is the code before fix b7f8683. -/
def SegSt.eventWith (fixed : Bool) (lim : Nat) (st : SegSt) (v : Option Val) : SegSt :=
  let rc := st.recordCount
  let rn := st.blkRec
  let upd : Option Nat × Bool × Bool :=
    match v with
    | some x =>
      -- initAndBackFillColumn: a column new to the BLOCK at block record number ≠ 0 → backFillPastRecords
      let pre : Option Nat × Bool × Bool :=
        if !st.col.seen && rn ≠ 0 then
          (if fixed then updSize rc st.size 1 else st.size, st.bloom || backfillBloom x, st.range || isNumVal x)
        else (st.size, st.bloom, st.range)
      (updSize rc pre.1 (encTLV x).length, pre.2.1 || isStrVal x, pre.2.2 || isNumVal x)
    | none =>
      -- trailing loop: a column of the block absent from the event gets a 1-byte record
      if st.col.seen then (updSize rc st.size 1, st.bloom, st.range) else (st.size, st.bloom, st.range)
  { st with size := upd.1, bloom := upd.2.1, range := upd.2.2, col := st.col.step lim rn v,
            blkRec := rn + 1, recordCount := rc + 1 }

def SegSt.event (lim : Nat) (st : SegSt) (v : Option Val) : SegSt := st.eventWith true lim v
def SegSt.eventOld (lim : Nat) (st : SegSt) (v : Option Val) : SegSt := st.eventWith false lim v

/-- `AppendWipToSegfile` for the block just filled with the events `evs`: marking + consolidation, the column is
handed to `writeWip` iff it has bytes, `resetWipBlock` -/
def SegSt.flush (st : SegSt) (evs : List (Option Val)) : SegSt :=
  let mixed := st.col.seen && st.bloom && st.range
  let vals := evs.map (fun v => v.getD .backfill)
  let out : BlockOut :=
    if mixed then { mixed := true, buf := encCol (consolidate vals), de := 0 }
    else { mixed := false, buf := st.col.buf, de := st.col.dict.length }
  { st with size := if mixed then some inconsistent else st.size,
            bloom := if mixed && (toNumbers vals).isSome then false else st.bloom,
            range := false, blkRec := 0, col := {}, blocks := st.blocks ++ [out] }

def SegSt.blockWith (fixed : Bool) (lim : Nat) (st : SegSt) (evs : List (Option Val)) : SegSt :=
  (evs.foldl (fun s v => s.eventWith fixed lim v) st).flush evs

/-- a fresh SegStore (createSegStore → resetSegStore) fed the blocks of `seg`, every block flushed -/
def writeSegWith (fixed : Bool) (lim : Nat) (seg : List (List (Option Val))) : SegSt :=
  seg.foldl (fun s evs => s.blockWith fixed lim evs) {}

def writeSeg (lim : Nat) (seg : List (List (Option Val))) : SegSt := writeSegWith true lim seg
def writeSegOld (lim : Nat) (seg : List (List (Option Val))) : SegSt := writeSegWith false lim seg

/-- events filled after the last flush (an open block): the state a flush timer or a query would find -/
def SegSt.fillOpen (lim : Nat) (st : SegSt) (tail : List (Option Val)) : SegSt :=
  tail.foldl (fun s v => s.event lim v) st

/-- the record length the segment advertises for the column (`SegMeta.ColumnNames[col].ConsistentCvalSize`,
copied from AllSeenColumnSizes by getAllColsSizes); a column the segment never saw is not listed -/
def SegSt.hint (st : SegSt) : Nat := st.size.getD inconsistent

/-- block encoding chosen by AppendWipToSegfile for a block that has the column -/
def BlockOut.isDict (lim : Nat) (b : BlockOut) : Bool := decide (0 < b.de) && decide (b.de < lim)

end SigModel.Tlv
