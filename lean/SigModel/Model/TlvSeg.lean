/-
Model of one log column over a SEGMENT OF SEVERAL BLOCKS (C01 kernel, second part).  Core Lean only.

`Model/Tlv.lean` models one block: the filling of a column (`ColSt.step`, `fillCol`), the size hint
(`seenSize`) and the raw reader.  There the record number inside the block and the number of records the
SEGMENT already has coincide.  Here they are kept apart, as the code keeps them apart:

  per SEGMENT (survives the flush of a block; reset by resetSegStore, segstore.go:249-334)
      SegStore.AllSeenColumnSizes[col]   absent / size / INCONSISTENT_CVAL_SIZE          → `SegSt.size`
      SegStore.RecordCount               incremented per event in AddEntry (segwriter.go:490)  → `SegSt.recordCount`
  per BLOCK (reset by resetWipBlock, segstore.go:197-240, at the end of AppendWipToSegfile)
      wipBlock.blockSummary.RecCount     (segwriter.go:489)                               → `SegSt.blkRec`
      wipBlock.columnsInBlock[col], colWip.cbuf / cbufidx, colWip.deData                  → `SegSt.col` (a `ColSt`)
      wipBlock.columnRangeIndexes[col]   (cleared)                                        → `SegSt.range`
  NOT reset by resetWipBlock (only `uniqueWordCount = 0`), nor by resetSegStore
      wipBlock.columnBlooms[col]                                                          → `SegSt.bloom`

Mirrors, as they are now (HEAD b7f8683):
  pkg/segment/writer/packer.go     updateColValueSizeInAllSeenColumns :698-718 (`updSize`),
                                   initAndBackFillColumn :549-574, backFillPastRecords :603-633 incl. the call
                                   `updateColValueSizeInAllSeenColumns(key, 1)` added by fix b7f8683 and
                                   initMicroIndices :576-601 (which index a back-filled column gets)
  pkg/segment/writer/segwriter.go  doLogEventFilling :337-452 (size reported per value; trailing back-fill loop
                                   over columnsInBlock), AddEntry :476-491 (both counters incremented after the event)
  pkg/segment/writer/segstore.go   AppendWipToSegfile :529-546 (marking of a column that has a bloom and a range
                                   index, consolidateColumnTypes :342-367; a successful convertColumnToNumbers deletes
                                   the bloom :445), :583-599 (a column without bytes in the block is not written;
                                   block encoding chosen from deCount of the colWip AFTER the consolidation, which is a
                                   fresh colWip with deCount 0), resetWipBlock.
The behaviour before fix b7f8683 (backFillPastRecords did not report the 1-byte records) is kept as the
explicitly named `…Old` definitions.
-/
import SigModel.Model.Tlv

namespace SigModel.Tlv

/-- `updateColValueSizeInAllSeenColumns(col, sz)` with `SegStore.RecordCount = recordCount`: a column the segment
has not seen yet gets `sz` only if the segment has no record yet -/
def updSize (recordCount : Nat) (cur : Option Nat) (sz : Nat) : Option Nat :=
  match cur with
  | none => some (if recordCount > 0 then inconsistent else sz)
  | some c => if c = inconsistent then some c else if c ≠ sz then some inconsistent else some c

/-- which micro index `initMicroIndices` creates for a column that is back-filled, by the type of its first value
(string and bool: a bloom; numbers: a range index; null: none, the call fails and only logs) -/
def backfillBloom : Val → Bool
  | .str _ | .bool _ => true
  | _ => false

def isNumVal : Val → Bool
  | .num _ _ => true
  | _ => false

def isStrVal : Val → Bool
  | .str _ => true
  | _ => false

/-- one flushed block of the column: was it rewritten by the type consolidation, the column bytes handed to
`writeWip`, the dictionary size `deCount` of the colWip handed to `writeWip` -/
structure BlockOut where
  mixed : Bool
  buf : Bytes
  de : Nat
deriving Repr, DecidableEq

structure SegSt where
  size : Option Nat := none
  recordCount : Nat := 0
  blkRec : Nat := 0
  col : ColSt := {}
  bloom : Bool := false
  range : Bool := false
  blocks : List BlockOut := []
deriving Repr

/-- one event through `doLogEventFilling` + the counter updates of `AddEntry`; `none` = the event lacks the column.
`fixed = false` is the code before fix b7f8683. -/
def SegSt.eventWith (fixed : Bool) (lim : Nat) (st : SegSt) (v : Option Val) : SegSt :=
  let rc := st.recordCount
  let rn := st.blkRec
  let upd : Option Nat × Bool × Bool :=
    match v with
    | some x =>
      -- initAndBackFillColumn: a column new to the BLOCK at block record number ≠ 0 → backFillPastRecords
      let pre : Option Nat × Bool × Bool :=
        if !st.col.seen && rn ≠ 0 then
          (if fixed then updSize rc st.size 1 else st.size, st.bloom || backfillBloom x, st.range || isNumVal x)
        else (st.size, st.bloom, st.range)
      (updSize rc pre.1 (encTLV x).length, pre.2.1 || isStrVal x, pre.2.2 || isNumVal x)
    | none =>
      -- trailing loop: a column of the block absent from the event gets a 1-byte record
      if st.col.seen then (updSize rc st.size 1, st.bloom, st.range) else (st.size, st.bloom, st.range)
  { st with size := upd.1, bloom := upd.2.1, range := upd.2.2, col := st.col.step lim rn v,
            blkRec := rn + 1, recordCount := rc + 1 }

def SegSt.event (lim : Nat) (st : SegSt) (v : Option Val) : SegSt := st.eventWith true lim v
def SegSt.eventOld (lim : Nat) (st : SegSt) (v : Option Val) : SegSt := st.eventWith false lim v

/-- `AppendWipToSegfile` for the block just filled with the events `evs`: marking + consolidation, the column is
handed to `writeWip` iff it has bytes, `resetWipBlock` -/
def SegSt.flush (st : SegSt) (evs : List (Option Val)) : SegSt :=
  let mixed := st.col.seen && st.bloom && st.range
  let vals := evs.map (fun v => v.getD .backfill)
  let out : BlockOut :=
    if mixed then { mixed := true, buf := encCol (consolidate vals), de := 0 }
    else { mixed := false, buf := st.col.buf, de := st.col.dict.length }
  { st with size := if mixed then some inconsistent else st.size,
            bloom := if mixed && (toNumbers vals).isSome then false else st.bloom,
            range := false, blkRec := 0, col := {}, blocks := st.blocks ++ [out] }

def SegSt.blockWith (fixed : Bool) (lim : Nat) (st : SegSt) (evs : List (Option Val)) : SegSt :=
  (evs.foldl (fun s v => s.eventWith fixed lim v) st).flush evs

/-- a fresh SegStore (createSegStore → resetSegStore) fed the blocks of `seg`, every block flushed -/
def writeSegWith (fixed : Bool) (lim : Nat) (seg : List (List (Option Val))) : SegSt :=
  seg.foldl (fun s evs => s.blockWith fixed lim evs) {}

def writeSeg (lim : Nat) (seg : List (List (Option Val))) : SegSt := writeSegWith true lim seg
def writeSegOld (lim : Nat) (seg : List (List (Option Val))) : SegSt := writeSegWith false lim seg

/-- events filled after the last flush (an open block): the state a flush timer or a query would find -/
def SegSt.fillOpen (lim : Nat) (st : SegSt) (tail : List (Option Val)) : SegSt :=
  tail.foldl (fun s v => s.event lim v) st

/-- the record length the segment advertises for the column (`SegMeta.ColumnNames[col].ConsistentCvalSize`,
copied from AllSeenColumnSizes by getAllColsSizes); a column the segment never saw is not listed -/
def SegSt.hint (st : SegSt) : Nat := st.size.getD inconsistent

/-- block encoding chosen by AppendWipToSegfile for a block that has the column -/
def BlockOut.isDict (lim : Nat) (b : BlockOut) : Bool := decide (0 < b.de) && decide (b.de < lim)

/-! ### block bookkeeping of `AppendWipToSegfile` (all columns of the segment together)

Mirrors the step order of AppendWipToSegfile (segstore.go:547-713): nothing happens when the WIP block is empty
(`maxIdx = 0`; the timestamp column has bytes as soon as the block has a record); otherwise the columns are written,
`flushBlockSummary(numBlocks)` appends (block number, RecCount) to the `.bsu` file, then `FlushSegStats`, the running
segmeta, and only then `resetWipBlock` and `numBlocks += 1`.  An error of FlushSegStats returns BEFORE the reset.
As the code is now (fix PENDING-FLUSHSEGSTATS) FlushSegStats has no error for "nothing to write"; before, it
returned "no segstats to flush" when `AllSst` was empty and no column other than the timestamp had bytes — i.e. when
every event of the segment so far carried only a timestamp — kept as `fixed = false` / the `…Old` names.
Reader: `ReadBlockSummaries` appends the entries of the file in file order; the searchers take the summary of
block `b` from POSITION `b` of that list. -/

/-- what an event carries besides its timestamp: nothing, only null values (column bytes, no statistics), or at
least one value (an entry in `AllSst`) -/
inductive EvKind where
  | bare | nulls | vals
deriving Repr, DecidableEq

structure BlkSt where
  numBlocks : Nat := 0          -- SegStore.numBlocks
  blkRec : Nat := 0             -- wipBlock.blockSummary.RecCount
  colBytes : Bool := false      -- some colWip other than the timestamp has cbufidx > 0
  hasStats : Bool := false      -- len(SegStore.AllSst) > 0 (per segment)
  bsu : List (Nat × Nat) := []  -- the entries appended to the .bsu file: (block number, RecCount)
deriving Repr, DecidableEq

def BlkSt.ev (st : BlkSt) (k : EvKind) : BlkSt :=
  { st with blkRec := st.blkRec + 1, colBytes := st.colBytes || decide (k ≠ .bare),
            hasStats := st.hasStats || decide (k = .vals) }

def BlkSt.flushWith (fixed : Bool) (st : BlkSt) : BlkSt :=
  if st.blkRec = 0 then st
  else
    let st1 := { st with bsu := st.bsu ++ [(st.numBlocks, st.blkRec)] }
    if !fixed && !st.hasStats && !st.colBytes then st1      -- FlushSegStats error: return before resetWipBlock
    else { st1 with blkRec := 0, colBytes := false, numBlocks := st.numBlocks + 1 }

inductive BlkOp where
  | ev (k : EvKind)
  | flush
deriving Repr, DecidableEq

def BlkSt.opWith (fixed : Bool) (st : BlkSt) : BlkOp → BlkSt
  | .ev k => st.ev k
  | .flush => st.flushWith fixed

def runBlkWith (fixed : Bool) (ops : List BlkOp) : BlkSt := ops.foldl (BlkSt.opWith fixed) {}
def runBlk (ops : List BlkOp) : BlkSt := runBlkWith true ops
def runBlkOld (ops : List BlkOp) : BlkSt := runBlkWith false ops

/-- specification: the record counts of the non-empty blocks cut by the flushes, in order (and the open rest) -/
def cutStep (acc : List Nat × Nat) : BlkOp → List Nat × Nat
  | .ev _ => (acc.1, acc.2 + 1)
  | .flush => if acc.2 = 0 then acc else (acc.1 ++ [acc.2], 0)

def cutBlocks (ops : List BlkOp) : List Nat × Nat := ops.foldl cutStep ([], 0)

/-- the record count the searchers use for block `b`: position `b` of the list read from the .bsu file -/
def BlkSt.readerRecCount (st : BlkSt) (b : Nat) : Option Nat := (st.bsu[b]?).map (·.2)

end SigModel.Tlv
