/-
C19 — the COMPOSITION around the path builders: how a client value travels from the request to the builder.
Core Lean only (linked into the `oracle_C19` executable).

Model/Path.lean decides the kernels (Clean/Join and the validators).  What this file adds is the shape of the code
AROUND them, as it is in /repo:

  * `Pipe`  "pre-process, validate, post-process, join": the value the validator sees and the value that is joined
    need not be the same string.  Every handler below is written as such a pipeline, and the call-order facts
    regenerated from the source by tools/go2lean (`C19.<function>.flow`, expectations in lib/props.py) pin
    (i) that the validator call precedes the join / the os.* call, (ii) which assignments to the validated variable
    and which decoding calls (url.PathUnescape, url.QueryUnescape, filepath.Clean, strings.Replace…, Trim…) sit
    between the two: none, except the extension append of the lookup upload (`uploadName`).

      handler (Go)                                              pre   validate                     post         build
      --------------------------------------------------------  ----  ---------------------------  -----------  ------------------
      lookups.UploadLookupFile                                  id    simpleName                   uploadName   lookupJoin
      inputlookupProcessor.Process / PerformInputLookup         id    csv extension ∧ simpleName   id           lookupJoin
      vtable.AddAliases / RemoveAliases / GetAliases            id    simpleName (IsValidIndexName) id          aliases/<v>.json
      es/writer.ProcessIndexRequestPle, vtable.AddVirtualTable  id    simpleName                   id           final/<v>/<sid>/0/
      metrics.EncodeDatapoint (per tag key)                     id    simpleName                   id           tth/<mid>/0/<v>
      sortindex.getFilename (write, Exists, ReadSortIndex)      id    simpleName                   id           final/<idx>/<sid>/0/0/<v>_auto.srt

  * COLUMN names (client-chosen: the JSON keys of ingested events, the `columns` of POST /api/sort-columns, the sort
    column of a query) reach a file name in exactly one place that does not hash them: the sort index
    (pkg/segment/sortindex/sortindex.go getFilename = filepath.Join(segkey, cname ++ suffix ++ ".srt")), which since the
    repair refuses a name that is not utils.IsSimpleFileName (`sortIndexFile`; `sortIndexFileOld` = before).  Every
    other per-column file is named by xxhash.Sum64String(cname) printed in decimal: <segkey>_<hash>.csg / .cmi,
    rups/<hash>.crup (tied by the call-order facts `C19.col.*`: Sum64String precedes the Sprintf of the name).

  * `pctDecode` = net/url.PathUnescape (percent-decoding; an invalid escape is an error), `decodeOrKeep` = "decode, on
    error keep the string" — the transformation a `decode after validate` change puts between check and use.

  * metrics tag keys: `checkTagKeys` is STATELESS (pkg/segment/writer/metrics/tagsholder.go checkTagKeys: a loop over
    the keys of the holder, no field of the holder is written), so every datapoint of a series that re-uses one
    TagsHolder (prometheus remote write: all samples of a time series) gets the same verdict.
    `encodeSeriesMemo` is the variant that remembers "keys already checked" in the holder with the flag set before the
    walk (kept for its counterexample theorem).

  * delete-index: es/writer.deleteIndex touches the directories of a name only behind
    `vtable.IsVirtualTablePresent` (membership in the table of names, each of which passed IsValidIndexName when it was
    added).  `cands` is WHATEVER vtable.ExpandAndReturnIndexNames makes of the request value (comma pieces, the part
    after a "cluster:" prefix, wildcard matches, alias targets) — the theorems quantify over every list.
-/
import SigModel.Model.Path
namespace SigModel.Path

/-! ### percent decoding (net/url.PathUnescape) -/

def hexVal (c : Char) : Option Nat :=
  if '0' ≤ c ∧ c ≤ '9' then some (c.toNat - 48)
  else if 'a' ≤ c ∧ c ≤ 'f' then some (c.toNat - 87)
  else if 'A' ≤ c ∧ c ≤ 'F' then some (c.toNat - 55)
  else none

/-- one byte of url.PathUnescape; state = (output so far, reversed; 0 = plain, 1 = after '%', 2 = after the first hex
    digit; value of that digit); `none` = error -/
def pctStep (st : Option (Str × Nat × Nat)) (c : Char) : Option (Str × Nat × Nat) :=
  match st with
  | none => none
  | some (acc, 0, _) => if c = '%' then some (acc, 1, 0) else some (c :: acc, 0, 0)
  | some (acc, 1, _) => (hexVal c).map (fun x => (acc, 2, x))
  | some (acc, _, hi) => (hexVal c).map (fun y => (Char.ofNat (16 * hi + y) :: acc, 0, 0))

/-- url.PathUnescape on a byte string: "%XY" → the byte, '%' not followed by two hex digits → error; '+' stays -/
def pctDecode (s : Str) : Option Str :=
  match s.foldl pctStep (some ([], 0, 0)) with
  | some (acc, 0, _) => some acc.reverse
  | _ => none

/-- `if d, err := url.PathUnescape(v); err == nil { v = d }` -/
def decodeOrKeep (v : Str) : Str := (pctDecode v).getD v

/-! ### validate-then-use pipelines -/

structure Pipe where
  /-- applied BEFORE the validator sees the value -/
  pre : Str → Str
  validate : Str → Bool
  /-- applied AFTER validation, before the join -/
  post : Str → Str
  build : Str → NPath

def Pipe.run (p : Pipe) (v : Str) : Option NPath :=
  let w := p.pre v
  if p.validate w then some (p.build (p.post w)) else none

def isCsvName (v : Str) : Bool := endsWith v csvExt ∨ endsWith v csvGzExt

def uploadPipe (d : List Seg) : Pipe := ⟨id, simpleName, uploadName, lookupJoin d⟩

/-- the upload handler with `decodeOrKeep` put between the check and the extension append (seeded change C19-1) -/
def uploadPipeDecodeAfter (d : List Seg) : Pipe := ⟨id, simpleName, fun v => uploadName (decodeOrKeep v), lookupJoin d⟩

/-- the same decoding done BEFORE the check -/
def uploadPipeDecodeBefore (d : List Seg) : Pipe := ⟨decodeOrKeep, simpleName, uploadName, lookupJoin d⟩

def inputlookupPipe (d : List Seg) : Pipe := ⟨id, fun v => isCsvName v ∧ simpleName v, id, lookupJoin d⟩

def aliasPipe (d : List Seg) (H : Seg) : Pipe :=
  ⟨id, simpleName, id, fun v => cleanN (dataPath d ++ joinSegs ["ingestnodes".toList, H, "vtabledata".toList, "aliases".toList, v ++ ".json".toList])⟩

def segDirPipe (d : List Seg) (H : Seg) : Pipe :=
  ⟨id, simpleName, id, fun v => cleanN (dataPath d ++ joinSegs [H, "final".toList, v, SID, ['0'], []])⟩

def tagKeyPipe (d : List Seg) (H : Seg) : Pipe :=
  ⟨id, simpleName, id, fun v => cleanN (dataPath d ++ joinSegs [H, "final".toList, "tth".toList, MID, ['0'], v])⟩

/-! ### sort index of a column -/

/-- index name used by the harness (validated where it enters, see baseSegDir) -/
def IDX : Str := "c19i".toList

/-- filepath.Join(segkey, cname ++ suf) with segkey = config.GetSegKey = dataPath ++ host ++ "/final/" ++ index ++ "/" ++
    streamid ++ "/" ++ suffix ++ "/" ++ suffix; `suf` = "_auto.srt" | "_num.srt" | "_str.srt" (never empty, so the joined
    element is never empty and Join is Clean of the concatenation) — BEFORE the repair: no check of the column name -/
def sortIndexFileOld (d : List Seg) (H : Seg) (suf : Str) (v : Str) : Option NPath :=
  some (cleanN (dataPath d ++ joinSegs [H, "final".toList, IDX, SID, ['0'], ['0'], v ++ suf]))

/-- sortindex.getFilename as repaired: a column name that is not a simple file name has no sort index file -/
def sortIndexFile (d : List Seg) (H : Seg) (suf : Str) (v : Str) : Option NPath :=
  if simpleName v then sortIndexFileOld d H suf v else none

def sortIndexPipe (d : List Seg) (H : Seg) (suf : Str) : Pipe :=
  ⟨id, simpleName, id, fun v => cleanN (dataPath d ++ joinSegs [H, "final".toList, IDX, SID, ['0'], ['0'], v ++ suf])⟩

/-- every other per-column file: the name is the decimal print of a hash of the column name -/
def hashedColumnFile (d : List Seg) (H : Seg) (hash : Str → Nat) (ext : Str) (v : Str) : NPath :=
  cleanN (dataPath d ++ joinSegs [H, "final".toList, IDX, SID, ['0'], ['0', '_'] ++ (Nat.toDigits 10 (hash v)) ++ ext])

/-! ### metrics: tag keys of a datapoint / of a series -/

/-- TagsHolder.checkTagKeys: every key of the holder is a simple file name -/
def checkTagKeys (keys : List Str) : Bool := keys.all simpleName

/-- EncodeDatapoint, as far as files are concerned: rejected, or the tags-tree file of every key -/
def encodeDatapoint (d : List Seg) (H : Seg) (keys : List Str) : Option (List NPath) :=
  if checkTagKeys keys then some (keys.filterMap (tagsTreeFileOld d H)) else none

/-- n samples sent with ONE holder (prometheus remote write) or with one holder each (OTSDB, OTLP): the check has no
    state, so both are n times the same datapoint -/
def encodeSeries (d : List Seg) (H : Seg) (keys : List Str) (n : Nat) : List (Option (List NPath)) :=
  List.replicate n (encodeDatapoint d H keys)

/-- the memoised check: `checked` is the flag kept in the holder; it is set BEFORE the keys are walked and not reset
    when the walk fails -/
def encodeSeriesMemo (d : List Seg) (H : Seg) (keys : List Str) : Nat → Bool → List (Option (List NPath))
  | 0, _ => []
  | n + 1, checked =>
    (if checked ∨ checkTagKeys keys then some (keys.filterMap (tagsTreeFileOld d H)) else none)
      :: encodeSeriesMemo d H keys n true

/-! ### delete-index -/

/-- <data>/<host>/final/<index>/  (writer.getActiveBaseDirVTable, removed by DeleteVirtualTableSegStore; the segment
    directories removed by DeleteSegmentsForIndex lie below it) -/
def indexDir (d : List Seg) (H : Seg) (v : Str) : NPath :=
  cleanN (dataPath d ++ joinSegs [H, "final".toList, v, []])

/-- the table of index names (vtable file): AddVirtualTable adds only names that pass IsValidIndexName -/
def addIndex (table : List Str) (v : Str) : List Str := if simpleName v then v :: table else table

/-- deleteIndex: directories removed for the candidate names, and the table afterwards -/
def deleteIndex (d : List Seg) (H : Seg) (table cands : List Str) : List NPath × List Str :=
  ((cands.filter (fun c => c ∈ table)).map (indexDir d H), table.filter (fun t => t ∉ cands))

/-- deleteIndex without the membership test (seeded change C19-2: "clean up left-over directories" of names that are
    not in the table) -/
def deleteIndexNoGate (d : List Seg) (H : Seg) (table cands : List Str) : List NPath × List Str :=
  (cands.map (indexDir d H), table.filter (fun t => t ∉ cands))

inductive IndexOp where
  | create (v : Str)
  | delete (cands : List Str)

/-- a history of create / delete requests: all directories removed on the way, and the final table -/
def runIndexOps (d : List Seg) (H : Seg) : List Str → List IndexOp → List NPath × List Str
  | table, [] => ([], table)
  | table, .create v :: r => runIndexOps d H (addIndex table v) r
  | table, .delete c :: r =>
    let (rm, t') := deleteIndex d H table c
    let (rm', t'') := runIndexOps d H t' r
    (rm ++ rm', t'')

end SigModel.Path
