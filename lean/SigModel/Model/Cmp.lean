/-
Model of the TYPED COMPARISON kernel of log search (C02, kernel slice "C02K").  Core Lean only.

Mirrors, as they are (quirks included):
  record side   pkg/segment/writer/rawchecker.go
                  ApplySearchToExpressionFilterSimpleCsg :179   (holder reset, then filterOpOnDataType)
                  filterOpOnDataType :197      dispatch on the LITERAL's dtype (string / bool / number / backfill); for a
                                               string / bool literal a BACK-FILL record (the event lacks the column) is
                                               treated like the empty record of a block without the column: only `!=`
                                               holds (repair c02-1; before: no match at all, kept as `implCmpBackfillOld`)
                  fopOnString :289             = / != on the bytes after the 3-byte header, optional ASCII case folding
                  fopOnBool :324               rec[1] == BoolVal
                  getNumberRecDte :336         TLV tag → signed / unsigned / float view of the stored value
                                               (INT8: `int64(rec[1])` of the BYTE — no sign extension)
                  fopOnNumber :384             literal is FLOAT and record is an integer ⇒ record := float64(record)
                                               (as repaired by /repo ec0bd3f), then compareNumberDte; a STRING record
                                               that reads as a number (utils.FastParseFloat accepts it, value by
                                               strconv.ParseFloat) is compared as that float64 (repair c02-4; before:
                                               "not a number", kept as `fopOnNumberStrOld`)
                  compareNumberDte :420        switch on the RECORD's dtype: float → FloatVal (exact == / != since the
                                               C02 repair; before: dtypeutils.AlmostEquals, kept as `…Old`),
                                               unsigned → UnsignedVal, signed → SignedVal (an unsigned literal above
                                               MaxInt64 — wrapped SignedVal — is greater than every record: C02 repair)
                pkg/common/dtypeutils/dtypeutils.go AlmostEquals :664   math.Abs(left-right) < 0.0001 (`almostEq`, Old only)
  literal side  pkg/segment/utils/numberutils.go GetNumberTypeAndVal :26 (+ getIntTypeAndVal / getUintTypeAndVal /
                  getFloatTypeAndVal: a value equal to 0 is typed SS_UINT8 whatever its spelling)
                pkg/segment/utils/segutils.go enclosureFromJsonNumber :189  (which of SignedVal / UnsignedVal /
                  FloatVal are filled: uint64(negative) wraps, int64(uint ≥ 2^63) wraps, int64(float) truncates)
  range index   pkg/segment/query/metadata/metautils/metacheckers.go checkRangeIndexHelper :59 (re-parses the
                  literal TEXT: ParseUint / ParseInt, float fallback as repaired by ec0bd3f); the three
                  does*PassRangeFilter kernels are the REGENERATED ones (SigModel/Gen/Range.lean, tie T1)
  where stage   pkg/segment/structs/evaluationstructs.go  BoolExpr.evaluateToCValueEnclosure :871-896 →
                  ValueExpr.EvaluateToNumber :1912 (everything goes through float64; integral floats become int64),
                  dtypeutils.ConvertToSameType :673 + Go `==` for = / !=, dtypeutils.CompareValues :707 for < ≤ > ≥

Numbers.  Integers are `Int`/`Nat` with explicit wrap where the Go code casts.  A float64 is the exact rational
it denotes (`f64val bits`); only FINITE doubles are modelled (JSON cannot carry NaN/Inf and strconv.ParseFloat
reports overflow as an error) — the Oracle rejects other bit patterns.  The rounding to binary64
(`strconv.ParseFloat`, `float64(int64)`, `float64(uint64)`, the subtraction inside AlmostEquals and the literal
0.0001) is the PARAMETER `rnd : Rat → Rat` of the model; the Oracle instantiates it with `roundF64`
(round-to-nearest-even) and the correspondence run validates that instance against the Go arithmetic.
ASSUMPTION stated for the theorems: `rnd 0 = 0`, `rnd (rnd x) = rnd x`, `rnd` fixes binary64 values; exactness of
`rnd` on the integers that are converted is part of the guards (it holds for |n| ≤ 2^53).
The definitions named `…Old` mirror the code BEFORE the C02 repairs (tolerance-based float equality, wrapped
literal in the signed branch, ConvertToSameType overwriting a value with a failed conversion, numeric strings that
are never numbers, back-fill records that never satisfy `!=` against a string / bool literal, numbers and booleans
that never satisfy `!=` against a string literal) and exist only for
the recorded counterexample theorems.
Numeric text: `numOfStr?` is the grammar of utils.FastParseFloat, `[+-]?(digits[.digits*]|.digits)([eE][+-]?digits)?`;
the correspondence suite keeps mantissas ≤ 40 digits and |exponent| ≤ 40 (no float64 overflow inside the domain).
`int64(f)` / `uint64(f)` of a float literal outside the target range are implementation-defined in Go; the
model wraps, no comparison reads these two fields of a FLOAT literal.
Regular-expression / wildcard literals (`isRegexSearch`) are outside this model.
-/
import SigModel.Model.Tlv
import SigModel.Gen.Range

namespace SigModel.Cmp
open SigModel.Tlv

/-! ### operators -/

inductive Op where
  | eq | ne | lt | le | gt | ge
deriving DecidableEq, Repr

/-- `sutils.FilterOperator` value (regenerated constants) -/
def Op.code : Op → Int
  | .eq => Gen.FilterOperator_Equals
  | .ne => Gen.FilterOperator_NotEquals
  | .lt => Gen.FilterOperator_LessThan
  | .le => Gen.FilterOperator_LessThanOrEqualTo
  | .gt => Gen.FilterOperator_GreaterThan
  | .ge => Gen.FilterOperator_GreaterThanOrEqualTo

/-- exact comparison of two rationals -/
def cmpQ (op : Op) (a b : Rat) : Bool :=
  match op with
  | .eq => decide (a = b)
  | .ne => !decide (a = b)
  | .lt => decide (a < b)
  | .le => decide (a ≤ b)
  | .gt => decide (b < a)
  | .ge => decide (b ≤ a)

/-- Go comparison of two machine integers of the same type -/
def cmpZ (op : Op) (a b : Int) : Bool :=
  match op with
  | .eq => decide (a = b)
  | .ne => !decide (a = b)
  | .lt => decide (a < b)
  | .le => decide (a ≤ b)
  | .gt => decide (b < a)
  | .ge => decide (b ≤ a)

/-! ### float64 -/

def pow2 (e : Int) : Rat := if e ≥ 0 then ((2 ^ e.toNat : Nat) : Rat) else 1 / ((2 ^ (-e).toNat : Nat) : Rat)

/-- the rational denoted by a FINITE binary64 bit pattern (exponent field ≠ 2047) -/
def f64val (bits : Nat) : Rat :=
  let sign : Nat := bits / 2 ^ 63 % 2
  let e : Nat := bits / 2 ^ 52 % 2048
  let mant : Nat := bits % 2 ^ 52
  let mag : Rat :=
    if e = 0 then ((mant : Nat) : Rat) * pow2 (-1074)
    else (((2 ^ 52 + mant : Nat)) : Rat) * pow2 ((e : Int) - 1075)
  if sign = 1 then -mag else mag

def finiteBits (bits : Nat) : Bool := decide (bits < 2 ^ 64) && decide (bits / 2 ^ 52 % 2048 ≠ 2047)

/-- ⌊log2 a⌋ for a positive rational -/
def floorLog2 (a : Rat) : Int :=
  let e0 : Int := (Nat.log2 a.num.toNat : Int) - (Nat.log2 a.den : Int)
  if pow2 e0 ≤ a then e0 else e0 - 1

/-- round to nearest binary64, ties to even (normal and subnormal range; no overflow): the Oracle's `rnd` -/
def roundF64 (x : Rat) : Rat :=
  if x = 0 then 0 else
  let neg := decide (x < 0)
  let a := if neg then -x else x
  let e := floorLog2 a
  let u : Int := if e - 52 < -1074 then -1074 else e - 52
  let q := a / pow2 u
  let fl := q.floor
  let rem := q - (fl : Rat)
  let r : Int := if rem < 1 / 2 then fl else if rem > 1 / 2 then fl + 1 else if fl % 2 = 0 then fl else fl + 1
  let res := (r : Rat) * pow2 u
  if neg then -res else res

def absR (x : Rat) : Rat := if x < 0 then -x else x

/-- the literal `tolerance := 0.0001` of dtypeutils.AlmostEquals -/
def tolerance : Rat := 1 / 10000

/-- `dtypeutils.AlmostEquals(left, right)`: `math.Abs(left - right) < tolerance` in float64 arithmetic -/
def almostEq (rnd : Rat → Rat) (a b : Rat) : Bool := decide (absR (rnd (a - b)) < rnd tolerance)

/-! ### the literal enclosure -/

/-- `DtypeEnclosure.Dtype` of a query literal -/
inductive LDt where
  | str | bool | signed | unsigned | float | backfill | other
deriving DecidableEq, Repr

/-- `DtypeEnclosure` as far as the comparison reads it -/
structure Lit where
  dtype : LDt
  signed : Int := 0      -- SignedVal (int64)
  unsigned : Nat := 0    -- UnsignedVal (uint64)
  flt : Rat := 0         -- FloatVal
  str : Bytes := []      -- StringVal / StringValBytes
  boolv : Nat := 0       -- BoolVal (uint8)
deriving DecidableEq, Repr

def two63 : Int := 9223372036854775808
def two64 : Int := 18446744073709551616

/-- `int64(x)` of an integer (two's complement wrap) -/
def wrapS64 (x : Int) : Int := (x + two63) % two64 - two63
/-- `uint64(x)` of an integer -/
def wrapU64 (x : Int) : Nat := (x % two64).toNat

/-- truncation toward zero -/
def truncQ (q : Rat) : Int := if q < 0 then -((-q).floor) else q.floor

/-- What strconv makes of the literal's TEXT (`json.Number`): the three parsers the engine applies to it.
`val` is the exact value of the decimal text; `strconv.ParseFloat` returns `rnd val`. -/
structure NumText where
  neg : Bool              -- the first character is '-'
  uintOk : Option Nat     -- strconv.ParseUint(text, 10, 64) succeeded with this value
  intOk : Option Int      -- strconv.ParseInt(text, 10, 64) succeeded with this value
  val : Rat
deriving DecidableEq, Repr

/-- well-formed: the parsers agree with the text's value and with the machine ranges -/
def NumText.wfb (t : NumText) : Bool :=
  (match t.uintOk with
    | some u => decide (t.val = (u : Rat)) && decide ((u : Int) < two64) && !t.neg
    | none => true) &&
  (match t.intOk with
    | some i => decide (t.val = (i : Rat)) && decide (-two63 ≤ i) && decide (i < two63)
    | none => true) &&
  (!t.neg || decide (t.val ≤ 0))

def NumText.wf (t : NumText) : Prop := t.wfb = true

instance (t : NumText) : Decidable t.wf := inferInstanceAs (Decidable (t.wfb = true))

/-- `getFloatTypeAndVal` + the SS_UINT8 / SS_FLOAT64 cases of `enclosureFromJsonNumber`: a float that is 0 is
typed SS_UINT8 (with the still-zero `uintVal`), any other float is a FLOAT literal -/
def floatLit (rnd : Rat → Rat) (t : NumText) : Lit :=
  let f := rnd t.val
  if f = 0 then { dtype := .unsigned, signed := 0, unsigned := 0, flt := 0 }
  else { dtype := .float, signed := wrapS64 (truncQ f), unsigned := wrapU64 (truncQ f), flt := f }

/-- `CreateDtypeEnclosure(json.Number(text))` = `enclosureFromJsonNumber` ∘ `GetNumberTypeAndVal` -/
def mkLit (rnd : Rat → Rat) (t : NumText) : Lit :=
  if t.neg then
    match t.intOk with
    | some i =>
      if i = 0 then { dtype := .unsigned, signed := 0, unsigned := 0, flt := 0 }          -- "-0": SS_UINT8
      else { dtype := .signed, signed := i, unsigned := wrapU64 i, flt := rnd (i : Rat) }  -- uint64(intVal) wraps
    | none => floatLit rnd t
  else
    match t.uintOk with
    | some u => { dtype := .unsigned, unsigned := u, signed := wrapS64 (u : Int), flt := rnd (u : Rat) }
    | none => floatLit rnd t

/-- string literal (`CreateDtypeEnclosure(string)` + `AddStringAsByteSlice`), no wildcard -/
def strLit (s : Bytes) : Lit := { dtype := .str, str := s }
/-- bool literal -/
def boolLit (b : Bool) : Lit := { dtype := .bool, boolv := if b then 1 else 0 }
/-- `CreateDtypeEnclosure(nil)` -/
def nilLit : Lit := { dtype := .backfill }

/-! ### numeric text -/

def isDigit (c : Nat) : Bool := 48 ≤ c && c ≤ 57

def digitsVal (ds : Bytes) : Nat := ds.foldl (fun acc c => 10 * acc + (c - 48)) 0

def pow10Q (e : Int) : Rat := if e ≥ 0 then ((10 ^ e.toNat : Nat) : Rat) else 1 / ((10 ^ (-e).toNat : Nat) : Rat)

/-- the pieces of a text of the shape `[+-]?(digits[.digits*]|.digits)([eE][+-]?digits)?` — exactly the strings
`utils.FastParseFloat` accepts (every one of them is also accepted by `strconv.ParseFloat`) -/
structure NumShape where
  neg : Bool
  ip : Bytes            -- digits before the point
  fp : Bytes            -- digits after the point
  eneg : Bool
  eds : Bytes           -- exponent digits ([] = no exponent part)
deriving DecidableEq, Repr

def numShape? (s : Bytes) : Option NumShape :=
  let (neg, body) := match s with
    | 45 :: r => (true, r)
    | 43 :: r => (false, r)
    | _ => (false, s)
  let ip := body.takeWhile isDigit
  let r1 := body.drop ip.length
  let (fp, r2) : Bytes × Bytes := match r1 with
    | 46 :: r => (r.takeWhile isDigit, r.drop (r.takeWhile isDigit).length)
    | _ => ([], r1)
  if ip.isEmpty && fp.isEmpty then none else
  match r2 with
  | [] => some { neg := neg, ip := ip, fp := fp, eneg := false, eds := [] }
  | e :: r =>
    if e = 101 ∨ e = 69 then
      let (eneg, ds) : Bool × Bytes := match r with
        | 45 :: d => (true, d)
        | 43 :: d => (false, d)
        | _ => (false, r)
      if ds.isEmpty || !ds.all isDigit then none
      else some { neg := neg, ip := ip, fp := fp, eneg := eneg, eds := ds }
    else none

/-- the exact value of the decimal text -/
def NumShape.val (n : NumShape) : Rat :=
  let mant : Rat := (digitsVal n.ip : Rat) + (digitsVal n.fp : Rat) / ((10 ^ n.fp.length : Nat) : Rat)
  let e : Int := if n.eneg then -(digitsVal n.eds : Int) else (digitsVal n.eds : Int)
  let mag := mant * pow10Q e
  if n.neg then -mag else mag

/-- exact value of a text in number syntax (none: the text is not a number) -/
def numOfStr? (s : Bytes) : Option Rat := (numShape? s).map NumShape.val

/-! ### the record side -/

/-- numeric view of a stored record (`recDte` after `getNumberRecDte`) -/
inductive RecNum where
  | signed (i : Int)
  | unsigned (n : Nat)
  | float (q : Rat)
deriving DecidableEq, Repr

/-- `getNumberRecDte`: `ok none` = (false, nil) "not a number"; `ok (some r)` = (true, nil) -/
def getNumberRecDte (rec : Bytes) : Res (Option RecNum) :=
  let rd (w : Nat) (r : Bytes) (k : Nat → RecNum) : Res (Option RecNum) :=
    match rdN w r with
    | some (v, _) => .ok (some (k v))
    | none => .panic
  match rec with
  | [] => .ok none
  | t :: r =>
    if t = tBackfill ∨ t = tBool ∨ t = tStr then .ok none
    else if t = tI8 then rd 1 r (fun b => .signed (b : Int))          -- int64(rec[1]), rec[1] is a byte
    else if t = tI16 then rd 2 r (fun b => .signed (sext 2 b))
    else if t = tI32 then rd 4 r (fun b => .signed (sext 4 b))
    else if t = tI64 then rd 8 r (fun b => .signed (sext 8 b))
    else if t = tU8 then rd 1 r .unsigned
    else if t = tU16 then rd 2 r .unsigned
    else if t = tU32 then rd 4 r .unsigned
    else if t = tU64 then rd 8 r .unsigned
    else if t = tF64 then rd 8 r (fun b => .float (f64val b))
    else if t = tDictArr ∨ t = tRawJson then .ok none
    else .err "invalid-rec-type"

/-- float branch of `compareNumberDte`: exact float64 comparison for all six operators -/
def cmpFloat (op : Op) (a b : Rat) : Bool := cmpQ op a b

/-- float branch BEFORE the repair: `=` / `!=` through `dtypeutils.AlmostEquals` -/
def cmpFloatOld (rnd : Rat → Rat) (op : Op) (a b : Rat) : Bool :=
  match op with
  | .eq => almostEq rnd a b
  | .ne => !almostEq rnd a b
  | _ => cmpQ op a b

/-- `compareNumberDte`: the switch is on the RECORD's dtype; the literal supplies the field of that type.  Signed
record: an UNSIGNED literal whose SignedVal is negative is above MaxInt64 (`int64(uintVal)` wrapped), so the record
is smaller. -/
def compareNumberDte (r : RecNum) (q : Lit) (op : Op) : Bool :=
  match r with
  | .float a => cmpFloat op a q.flt
  | .unsigned n => cmpZ op (n : Int) (q.unsigned : Int)
  | .signed i =>
    if q.dtype = .unsigned ∧ q.signed < 0 then
      (match op with | .ne | .lt | .le => true | _ => false)     -- op == NotEquals || LessThan || LessThanOrEqualTo
    else cmpZ op i q.signed

/-- `compareNumberDte` BEFORE the repairs -/
def compareNumberDteOld (rnd : Rat → Rat) (r : RecNum) (q : Lit) (op : Op) : Bool :=
  match r with
  | .float a => cmpFloatOld rnd op a q.flt
  | .unsigned n => cmpZ op (n : Int) (q.unsigned : Int)
  | .signed i => cmpZ op i q.signed

/-- the conversion step of `fopOnNumber` (code after ec0bd3f) -/
def promote (rnd : Rat → Rat) (q : Lit) (r : RecNum) : RecNum :=
  if q.dtype = .float then
    match r with
    | .signed i => .float (rnd (i : Rat))       -- float64(recDte.SignedVal)
    | .unsigned n => .float (rnd (n : Rat))     -- float64(recDte.UnsignedVal)
    | .float a => .float a
  else r

/-- the string branch of `fopOnNumber` (repair c02-4): `len(rec) > 3 && rec[0] == VALTYPE_ENC_SMALL_STRING`, the
bytes after the 3-byte header pass `utils.FastParseFloat`, `strconv.ParseFloat` gives the value: the record is
that float64 (`recDte.Dtype = SS_DT_FLOAT`) -/
def strRecNum? (rnd : Rat → Rat) (rec : Bytes) : Option RecNum :=
  match rec with
  | t :: _ :: _ :: c :: rest =>
    if t = tStr then (numOfStr? (c :: rest)).map (fun a => RecNum.float (rnd a)) else none
  | _ => none

/-- `fopOnNumber` -/
def fopOnNumber (rnd : Rat → Rat) (rec : Bytes) (q : Lit) (op : Op) : Res Bool :=
  match getNumberRecDte rec with
  | .panic => .panic
  | .err e => .err e
  | .ok none =>
    match strRecNum? rnd rec with
    | some r => .ok (compareNumberDte r q op)     -- a string that reads as a number is compared by value
    | none => .ok (op == .ne)          -- "=, <, >= etc. should not match, but != should match"
  | .ok (some r) => .ok (compareNumberDte (promote rnd q r) q op)

/-- `fopOnNumber` BEFORE repair c02-4: a string record is never a number -/
def fopOnNumberStrOld (rnd : Rat → Rat) (rec : Bytes) (q : Lit) (op : Op) : Res Bool :=
  match getNumberRecDte rec with
  | .panic => .panic
  | .err e => .err e
  | .ok none => .ok (op == .ne)
  | .ok (some r) => .ok (compareNumberDte (promote rnd q r) q op)

/-- `fopOnNumber` BEFORE the repairs (numeric literals only; the rest of the dispatch did not change) -/
def fopOnNumberOld (rnd : Rat → Rat) (rec : Bytes) (q : Lit) (op : Op) : Res Bool :=
  match getNumberRecDte rec with
  | .panic => .panic
  | .err e => .err e
  | .ok none => .ok (op == .ne)
  | .ok (some r) => .ok (compareNumberDteOld rnd (promote rnd q r) q op)

def isAlpha (c : Nat) : Bool := (65 ≤ c && c ≤ 90) || (97 ≤ c && c ≤ 122)

/-- `utils.BytesCaseInsensitiveEqual` -/
def ciEqual : Bytes → Bytes → Bool
  | [], [] => true
  | a :: as, b :: bs =>
    (a == b || (isAlpha a && isAlpha b && (Nat.xor a 32 == b))) && ciEqual as bs
  | _, _ => false

/-- `utils.PerformBytesEqualityCheck` -/
def bytesEq (ci : Bool) (a b : Bytes) : Bool := if ci then ciEqual a b else decide (a = b)

/-- `fopOnString` (no regex): everything after the 3-byte header is the value -/
def fopOnString (ci : Bool) (rec : Bytes) (q : Lit) (op : Op) : Res Bool :=
  if rec.length < 3 then .err "invalid-rec" else
  let v := rec.drop 3
  match op with
  | .eq => if v.length ≠ q.str.length then .ok false else .ok (bytesEq ci v q.str)
  | .ne => .ok (!bytesEq ci v q.str)
  | _ => .err "invalid-operator"

/-- `fopOnBool` -/
def fopOnBool (rec : Bytes) (q : Lit) (op : Op) : Res Bool :=
  -- the operator is looked at first: an order operator is an error before `rec[1]` is touched (a record cut down to
  -- its type byte panics only under = / !=)
  match op with
  | .eq => match rec with | _ :: b :: _ => .ok (decide (b = q.boolv)) | _ => .panic
  | .ne => match rec with | _ :: b :: _ => .ok (!decide (b = q.boolv)) | _ => .panic
  | _ => .err "invalid-operator"

/-- string / bool literal against an event that does not have the column (`len(rec) == 0`, or a back-fill record) -/
def absentCmp (op : Op) : Res Bool :=
  match op with | .eq => .ok false | .ne => .ok true | _ => .err "invalid-operator"

/-- `ApplySearchToExpressionFilterSimpleCsg` = `filterOpOnDataType` with `isRegexSearch = false` -/
def implCmp (rnd : Rat → Rat) (ci : Bool) (rec : Bytes) (op : Op) (q : Lit) : Res Bool :=
  match q.dtype with
  | .str =>
    match rec with
    | [] => absentCmp op
    | t :: _ => if t = tBackfill then absentCmp op          -- repair c02-1
                else if t ≠ tStr then .ok (op == .ne)       -- repair c02-5: a value that is not a string is not equal to the string (was: no match, `!=` included)
                else fopOnString ci rec q op
  | .bool =>
    match rec with
    | [] => absentCmp op
    | t :: _ => if t = tBackfill then absentCmp op          -- repair c02-1
                else if t ≠ tBool then .ok false else fopOnBool rec q op   -- fix 0ee498e: a non-boolean record is no match (was: error "expected-bool")
  | .signed | .unsigned | .float => fopOnNumber rnd rec q op
  | .backfill => .ok false
  | .other => .err "could-not-complete-op"

/-- string literals BEFORE repair c02-5: a record that is not a string (a number, a boolean) matched NOTHING, not even
`!=` — while the same number stored as text (a block column holding numbers and text is stored as text) satisfies
`!=` against every other string -/
def implCmpNonStringOld (rnd : Rat → Rat) (ci : Bool) (rec : Bytes) (op : Op) (q : Lit) : Res Bool :=
  match q.dtype, rec with
  | .str, t :: _ => if t = tBackfill then absentCmp op else if t ≠ tStr then .ok false else fopOnString ci rec q op
  | _, _ => implCmp rnd ci rec op q

/-- string / bool literals BEFORE repair c02-1: a back-fill record is "not a string" / "not a boolean": no match,
`!=` included — while the empty record of a block without the column satisfies `!=` -/
def implCmpBackfillOld (ci : Bool) (rec : Bytes) (op : Op) (q : Lit) : Res Bool :=
  match q.dtype with
  | .str =>
    match rec with
    | [] => absentCmp op
    | t :: _ => if t ≠ tStr then .ok false else fopOnString ci rec q op
  | .bool =>
    match rec with
    | [] => absentCmp op
    | t :: _ => if t ≠ tBool then .ok false else fopOnBool rec q op
  | _ => .err "could-not-complete-op"

/-! ### stored values and the specification -/

/-- A stored column value with its MEANING.  The log writer emits int64 / float64 / string / bool / back-fill
(parseSingleNumber, logpacker.go:214); uint64 records are understood by every reader and are kept here
although no JSON ingest path produces them today. -/
inductive SVal where
  | int (i : Int)          -- VALTYPE_ENC_INT64
  | uint (n : Nat)         -- VALTYPE_ENC_UINT64
  | float (bits : Nat)     -- VALTYPE_ENC_FLOAT64, IEEE bit pattern
  | str (s : Bytes)
  | bool (b : Bool)
  | backfill
deriving DecidableEq, Repr

def SVal.wfb : SVal → Bool
  | .int i => decide (-two63 ≤ i) && decide (i < two63)
  | .uint n => decide ((n : Int) < two64)
  | .float b => finiteBits b
  | .str s => decide (s.length < 65536)
  | _ => true

def SVal.wf (v : SVal) : Prop := v.wfb = true

instance (v : SVal) : Decidable v.wf := inferInstanceAs (Decidable (v.wfb = true))

def SVal.toTlv : SVal → Val
  | .int i => .num .i64 (wrapU64 i)
  | .uint n => .num .u64 n
  | .float b => .num .f64 b
  | .str s => .str s
  | .bool b => .bool b
  | .backfill => .backfill

/-- the record bytes the writer stores for the value -/
def SVal.enc (v : SVal) : Bytes := encTLV v.toTlv

/-- the number a stored value denotes, if any: integers and float64 records their exact values; a STRING in number
syntax (`numOfStr?`) denotes the float64 it reads as (`rnd` of the decimal value) — the same reading as for a
literal that is not an integer -/
def SVal.num? (rnd : Rat → Rat) : SVal → Option Rat
  | .int i => some (i : Rat)
  | .uint n => some (n : Rat)
  | .float b => some (f64val b)
  | .str s => (numOfStr? s).map rnd
  | _ => none

/-- the number a numeric literal denotes: an integer literal its integer, any other literal its float64 -/
def Lit.num? (q : Lit) : Option Rat :=
  match q.dtype with
  | .signed => some (q.signed : Rat)
  | .unsigned => some (q.unsigned : Rat)
  | .float => some q.flt
  | _ => none

/-- the number the literal `mkLit rnd t` denotes, in terms of the text: integer branches of
`GetNumberTypeAndVal` keep the exact integer, every other text denotes the float64 it parses to -/
def litVal (rnd : Rat → Rat) (t : NumText) : Rat :=
  if (t.neg && t.intOk.isSome) || (!t.neg && t.uintOk.isSome) then t.val else rnd t.val

/-- SPECIFICATION of a comparison against a numeric literal: by VALUE, independent of how the stored number or
the literal is typed or spelled; a value that is not a number satisfies only `!=`. -/
def specCmp (rnd : Rat → Rat) (v : SVal) (op : Op) (q : Lit) : Bool :=
  match v.num? rnd, q.num? with
  | some a, some b => cmpQ op a b
  | _, _ => op == .ne

/-! ### the block range index -/

/-- `structs.Numbers`: type + min/max of one column in one block -/
inductive Range where
  | s (mn mx : Int)     -- RNT_SIGNED_INT
  | u (mn mx : Nat)     -- RNT_UNSIGNED_INT
  | f (mn mx : Rat)     -- RNT_FLOAT64
deriving DecidableEq, Repr

/-- `checkRangeIndexHelper` for the six comparison operators (true = the block may hold a match, false = skip).
The literal arrives as TEXT and is re-parsed per range type; an integer range falls back to the float kernel
when the text is not an integer of that type (ec0bd3f). -/
def rangeCheck (rnd : Rat → Rat) (ri : Range) (op : Op) (t : NumText) : Bool :=
  match ri with
  | .u mn mx =>
    match t.uintOk with
    | some u => Gen.doesUintPassRangeFilter op.code (u : Int) (mn : Int) (mx : Int)
    | none => Gen.doesFloatPassRangeFilter op.code (rnd t.val) (rnd (mn : Rat)) (rnd (mx : Rat))
  | .s mn mx =>
    match t.intOk with
    | some i => Gen.doesIntPassRangeFilter op.code i mn mx
    | none => Gen.doesFloatPassRangeFilter op.code (rnd t.val) (rnd (mn : Rat)) (rnd (mx : Rat))
  | .f mn mx => Gen.doesFloatPassRangeFilter op.code (rnd t.val) mn mx

/-- the value was folded into the range by the writer (`addIntToRangeIndex` / `addUintToRangeIndex` /
`addFloatToRangeIndex`: integers enter a float range through `float64(·)`) -/
def Range.contains (rnd : Rat → Rat) (ri : Range) (v : SVal) : Prop :=
  match ri, v with
  | .s mn mx, .int i => mn ≤ i ∧ i ≤ mx
  | .u mn mx, .uint n => mn ≤ n ∧ n ≤ mx
  | .f mn mx, .int i => mn ≤ rnd (i : Rat) ∧ rnd (i : Rat) ≤ mx
  | .f mn mx, .uint n => mn ≤ rnd (n : Rat) ∧ rnd (n : Rat) ≤ mx
  | .f mn mx, .float b => mn ≤ f64val b ∧ f64val b ≤ mx
  | _, _ => False

/-! ### the `where` stage -/

/-- what `ValueExpr.EvaluateToNumber` returns -/
inductive WNum where
  | i64 (i : Int)
  | f64 (q : Rat)
deriving DecidableEq, Repr

/-- `EvaluateToNumber`: `int64Value := int64(f); if f == float64(int64Value) return int64Value; return f` -/
def toNumber (f : Rat) : WNum :=
  if f = (f.floor : Rat) ∧ -two63 ≤ f.floor ∧ f.floor < two63 then .i64 f.floor else .f64 f

/-- the float the `where` stage reads from a numeric field (`getValueAsFloat` → `CValueEnclosure.GetFloatValue`) -/
def fieldFloat (rnd : Rat → Rat) : SVal → Option Rat
  | .int i => some (rnd (i : Rat))
  | .uint n => some (rnd (n : Rat))
  | .float b => some (f64val b)
  | _ => none

/-- `=` of the where stage: `ConvertToSameType` then Go `==` on the interface values.  Same dynamic type: plain
equality.  int64 vs float64: the LEFT value is converted to the right one's type (`unsafe.Sizeof` of two
interface values is always equal) — an int64 through `ParseFloat(Sprint(i))`.  A float64 on the left (a value
that `EvaluateToNumber` did not turn into an int64: non-integral, or beyond int64) fails `ConvertToInt(Sprint(f))`;
since the C02 repair both ORIGINAL values are then compared as strings, and `Sprint` of such a float (it contains
'.' or "e+") never equals the digits of an int64. -/
def whereEq (rnd : Rat → Rat) : WNum → WNum → Bool
  | .i64 a, .i64 b => decide (a = b)
  | .f64 a, .f64 b => decide (a = b)
  | .i64 a, .f64 b => decide (rnd (a : Rat) = b)
  | .f64 _, .i64 _ => false

/-- BEFORE the repair: `ConvertToSameType` had already overwritten the left value with the 0 that the failed
`ConvertToInt` returns, and compared `Sprint(0)` with `Sprint(right)`: equal exactly when the right integer is 0. -/
def whereEqOld (rnd : Rat → Rat) : WNum → WNum → Bool
  | .f64 _, .i64 b => decide (b = 0)
  | l, r => whereEq rnd l r

/-- `CompareValues` operand: `ConvertToFloat(fmt.Sprint(v), 64)` -/
def WNum.toF (rnd : Rat → Rat) : WNum → Rat
  | .i64 a => rnd (a : Rat)
  | .f64 q => q

/-- `<field> <op> <literal>` in a `where` stage on a numeric field (none: the field is not a number), for a given
`=` of two evaluated numbers -/
def whereCmpWith (weq : WNum → WNum → Bool) (rnd : Rat → Rat) (v : SVal) (op : Op) (t : NumText) : Option Bool :=
  match fieldFloat rnd v with
  | none => none
  | some lf =>
    let l := toNumber lf
    let r := toNumber (rnd t.val)
    some (match op with
      | .eq => weq l r
      | .ne => !weq l r
      | .lt => decide (l.toF rnd < r.toF rnd)
      | .le => decide (l.toF rnd ≤ r.toF rnd)
      | .gt => decide (r.toF rnd < l.toF rnd)
      | .ge => decide (r.toF rnd ≤ l.toF rnd))

def whereCmp (rnd : Rat → Rat) (v : SVal) (op : Op) (t : NumText) : Option Bool := whereCmpWith (whereEq rnd) rnd v op t

/-- the where stage BEFORE the repair -/
def whereCmpOld (rnd : Rat → Rat) (v : SVal) (op : Op) (t : NumText) : Option Bool :=
  whereCmpWith (whereEqOld rnd) rnd v op t

end SigModel.Cmp
