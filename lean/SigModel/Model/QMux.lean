/-
Model of the per-query "state multiplexer" (property C17, clause "every query ends in exactly one terminal
state, after which … no goroutine of it remains").  Core Lean only.

Mirrors /repo/pkg/ast/pipesearch/multiplexer/queryStateMultiplexer.go AS IT IS:
  * NewQueryStateMultiplexer  (isComplete of a nil channel starts as true)            → `init`
  * (*QueryStateMultiplexer).Multiplex: the goroutine `for { select {main, timechart} ; handleMessage ;
    if allChannelsAreComplete() {return} ; if closedOutput {return} }` with the deferred
    `if !closedOutput { close(output) }`                                            → `step` / `loopTail`
  * handleMessage (ok == false: nothing if that channel isComplete, else errorAndClose) → `handle`, `Msg.closed`
  * handleData (WAITING; READY / RUNNING / QUERY_RESTART; QUERY_UPDATE; COMPLETE with the three
    flavours CompleteWSResp != nil / only HttpResponse != nil / both nil; CANCELLED / TIMEOUT / ERROR)  → `handle`
  * errorAndClose (ERROR on MainIndex, close(output), closedOutput = true)              → `errorAndClose`
  * allChannelsAreComplete                                                              → `allDone`

RunQueryForNewPipeline (pkg/ast/pipesearch) starts one such goroutine per query.  One `Ev` = one message the
goroutine's `select` receives (`tc` = on the timechart channel); a receive from a nil channel never happens, so an
event on an absent timechart channel is undeliverable (identity).  `ended` = the goroutine has returned: it reads
nothing any more.  The payloads (saved completion, update counters, the error text) are abstracted; an output
envelope is its state name, its ChannelIndex and a flavour: "m" the merged COMPLETE built by the multiplexer,
"h" a forwarded COMPLETE carrying an HttpResponse, "x" the ERROR built by errorAndClose, "" a forwarded message.
-/
namespace SigModel.Model.QMux

inductive Msg where
  | waiting | ready | running | restart | update
  | completeWs    -- COMPLETE, CompleteWSResp != nil
  | completeHttp  -- COMPLETE, CompleteWSResp == nil, HttpResponse != nil
  | completeNone  -- COMPLETE, both nil
  | cancelled | timeout | error
  | closed        -- the input channel was closed (`ok == false`)
  deriving DecidableEq, Repr

structure Ev where
  tc : Bool
  msg : Msg
  deriving DecidableEq, Repr

structure St where
  tcPresent : Bool      -- input[TimechartIndex].channel != nil
  mainDone : Bool       -- input[MainIndex].isComplete
  tcDone : Bool         -- input[TimechartIndex].isComplete
  closedOutput : Bool
  ended : Bool          -- the goroutine returned
  deriving DecidableEq, Repr

inductive Out where
  | env (name : String) (tc : Bool) (flavour : String)
  | close
  deriving DecidableEq, Repr

def Out.isClose : Out → Bool
  | .close => true
  | .env _ _ _ => false

/-- NewQueryStateMultiplexer with a non-nil main channel -/
def init (tcPresent : Bool) : St :=
  { tcPresent := tcPresent, mainDone := false, tcDone := !tcPresent, closedOutput := false, ended := false }

def allDone (s : St) : Bool := s.mainDone && s.tcDone

def isDone (s : St) (tc : Bool) : Bool := if tc then s.tcDone else s.mainDone

def setDone (s : St) (tc : Bool) : St :=
  if tc then { s with tcDone := true } else { s with mainDone := true }

/-- an event the `select` can receive at all: the timechart channel exists -/
def deliverable (s : St) (e : Ev) : Bool := !e.tc || s.tcPresent

def errorAndClose (s : St) : St × List Out :=
  ({ s with closedOutput := true }, [.env "ERROR" false "x", .close])

def forward (s : St) (name : String) (tc : Bool) : St × List Out := (s, [.env name tc ""])

def forwardAndClose (s : St) (name : String) (tc : Bool) : St × List Out :=
  ({ s with closedOutput := true }, [.env name tc "", .close])

/-- the tail of the COMPLETE case: `if q.allChannelsAreComplete() { output <- merged COMPLETE on MainIndex }` -/
def mergedIfAll (s : St) : St × List Out :=
  if allDone s then (s, [.env "COMPLETE" false "m"]) else (s, [])

/-- handleMessage / handleData for a delivered message -/
def handle (s : St) (e : Ev) : St × List Out :=
  match e.msg with
  | .closed => if isDone s e.tc then (s, []) else errorAndClose s
  | .waiting => (s, [])
  | .ready => forward s "READY" e.tc
  | .running => forward s "RUNNING" e.tc
  | .restart => forward s "QUERY_RESTARTED" e.tc
  | .update => forward s "QUERY_UPDATE" e.tc
  | .completeWs => mergedIfAll (setDone s e.tc)
  | .completeHttp =>
    let s' := setDone s e.tc
    if e.tc then mergedIfAll s'
    else if s.tcPresent then errorAndClose s'
    else (s', [.env "COMPLETE" false "h"])
  | .completeNone =>
    let s' := setDone s e.tc
    if e.tc then mergedIfAll s' else errorAndClose s'
  | .cancelled => forwardAndClose s "CANCELLED" e.tc
  | .timeout => forwardAndClose s "TIMEOUT" e.tc
  | .error => forwardAndClose s "ERROR" e.tc

/-- the loop tail of Multiplex: `if allChannelsAreComplete() {return}; if closedOutput {return}` and the deferred
close of an output not closed yet -/
def loopTail (p : St × List Out) : St × List Out :=
  if allDone p.1 || p.1.closedOutput then
    if p.1.closedOutput then ({ p.1 with ended := true }, p.2)
    else ({ p.1 with ended := true, closedOutput := true }, p.2 ++ [.close])
  else p

def step (s : St) (e : Ev) : St × List Out :=
  if s.ended then (s, [])
  else if !deliverable s e then (s, [])
  else loopTail (handle s e)

/-- folds `step` over the events, appending the outputs -/
def runFrom (s : St) (acc : List Out) : List Ev → St × List Out
  | [] => (s, acc)
  | e :: r => runFrom (step s e).1 (acc ++ (step s e).2) r

def run (tcPresent : Bool) (evs : List Ev) : St × List Out := runFrom (init tcPresent) [] evs

/-- number of events the goroutine consumed: those that met a not yet ended goroutine and were deliverable -/
def readFrom (s : St) : List Ev → Nat
  | [] => 0
  | e :: r => (if !s.ended && deliverable s e then 1 else 0) + readFrom (step s e).1 r

end SigModel.Model.QMux
