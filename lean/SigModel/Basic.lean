def hello := "world"
