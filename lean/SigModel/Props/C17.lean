/-
C17 — Every query is answered or rejected, terminates, and frees its resources.
Property theorems only; this file covers the lifecycle clause (running / waiting tables).
The clause "for all byte strings the parsers answer or reject in bounded time" is NOT decided here
(see DESIGN.md §5 C17).

All theorems quantify over EVERY operation sequence from the initial empty tables.
-/
-- AGENT-REPORT:
--   No statement in this file is false as written.  One hypothesis was re-stated when the model grew the
--   operations timeout / restart / complete / error: `pull_never_blocks` used to exclude `cancel` only; it now
--   admits exactly the operations whose sends are READY/RUNNING on a fresh channel (`Op.admissionOnly`), since
--   each of the new operations also sends on an existing channel (see `restart_chain_can_block`).
--   Note (not a correction): in `cancel_effective` the hypothesis `hnr` is redundant for this model.
--   `step _ (.cancel q)` sets `waiting := removeFirstWaiting q s.waiting` in BOTH branches (q running
--   or not), so `huniq` alone yields the conclusion; `hnr` is kept (unused) to leave the statement
--   untouched.  All helper lemmas live in SigModel/Lemmas/C17.lean.
import SigModel.Model.QTable
import SigModel.Lemmas.C17
import SigModel.Lemmas.C17e
import SigModel.Model.OtsdbQuery
import SigModel.Lemmas.C17f
import SigModel.Model.QMux
import SigModel.Lemmas.C17g

namespace SigModel.Props.C17
open SigModel.QTable

def init (m : Nat) : St := { maxRunning := m }

/-- C17.1 admission limits: the waiting queue never exceeds MAX_WAITING_QUERIES -/
theorem waiting_bounded (m : Nat) (ops : List Op) :
    (run (init m) ops).waiting.length ≤ maxWaiting :=
  Lemmas.C17.run_inv (fun s => s.waiting.length ≤ maxWaiting) Lemmas.C17.step_waiting_bounded
    ops (init m) (by simp [init])

/-- C17.1b admission through the puller never exceeds MAX_RUNNING: a pull step never takes the
running table above `maxRunning` unless it already was (only `forceRun` starts bypass the limit). -/
theorem pull_respects_limit (s : St) (h : s.running.length ≤ s.maxRunning) :
    (step s Op.pull).1.running.length ≤ s.maxRunning :=
  Lemmas.C17.step_pull_running_length s h

/-- the running table is a map: at most one entry per qid, in every reachable state -/
theorem running_is_map (m : Nat) (ops : List Op) :
    ((run (init m) ops).running.map Prod.fst).Nodup :=
  Lemmas.C17.run_inv (fun s => (s.running.map Prod.fst).Nodup) Lemmas.C17.step_nodup
    ops (init m) (by simp [init])

/-- C17.3 delete frees the entry -/
theorem delete_frees (m : Nat) (ops : List Op) (q : Nat) :
    lookup q (step (run (init m) ops) (Op.delete q)).1.running = none :=
  Lemmas.C17.step_delete_lookup _ q

/-- C17.4 cancel takes effect at any moment: right after `cancel q`, no object of `q` is waiting for
admission un-cancelled (unless `q` was queued more than once, which unique qids exclude), and a
running object of `q` is marked cancelled. -/
theorem cancel_effective (m : Nat) (ops : List Op) (q : Nat)
    (huniq : ((run (init m) ops).waiting.filter (fun r => r.qid == q)).length ≤ 1)
    (hnr : lookup q (run (init m) ops).running = none ∨
           ((run (init m) ops).waiting.filter (fun r => r.qid == q)).length = 0) :
    let s' := (step (run (init m) ops) (Op.cancel q)).1
    (∀ r ∈ s'.waiting, r.qid ≠ q) ∧ (∀ r, lookup q s'.running = some r → r.cancelled = true) :=
  -- `hnr` is not needed: the model's `cancel` dequeues the first waiting object of `q` in both
  -- branches (running or not), so `huniq` alone suffices (see AGENT-REPORT at the top).
  have _ := hnr
  Lemmas.C17.step_cancel_effective _ q huniq

/-- … and a cancelled object is never (re-)admitted: `runQuery` of a cancelled object changes nothing -/
theorem cancelled_never_runs (s : St) (r : RQ) (h : r.cancelled = true) : runQuery s r = s :=
  Lemmas.C17.runQuery_cancelled s r h

/-- C17.5 no send blocks while a table lock is held, as long as the consumer drains a query's channel
before more than `chanCap - 3` further cancels are issued for it: every object enters the running
table with exactly the two messages READY, RUNNING in a fresh channel. -/
theorem fresh_objects_never_block (s : St) (q : Nat) (force : Bool) (h : s.blocked = false) :
    (step s (Op.start q force)).1.blocked = false :=
  Lemmas.C17.step_start_blocked s q force h

theorem pull_never_blocks (m : Nat) (ops : List Op)
    (hnc : ∀ op ∈ ops, op.admissionOnly = true) :
    (run (init m) ops).blocked = false :=
  (Lemmas.C17.run_inv_of Lemmas.C17.NoBlock Lemmas.C17.NotCancel Lemmas.C17.step_noBlock
    ops (init m) hnc ⟨rfl, by simp [init]⟩).1

/-- non-vacuity: a sequence in which a waiting query is cancelled and a later pull admits the next one -/
example : (run (init 1) [.start 1 true, .start 2 false, .start 3 false, .cancel 2, .delete 1, .pull]).running.map Prod.fst = [3] := by
  decide

/-- … and the restriction is needed: `RestartQuery` hands the OLD channel to the new object and sends
READY/RUNNING on it while `arqMapLock` is held, so a chain of restarts without a draining consumer fills the
channel and a send under the table lock blocks (no `cancel` involved). -/
theorem restart_chain_can_block :
    (run (init 2) [.startc 1 true, .restart 1 2 true, .restart 2 3 true, .restart 3 4 true, .restart 4 5 true, .restart 5 6 true]).blocked = true := by
  decide

/-! ## Lifecycle: admission limit, timeout, terminal state, restart -/

/-- C17.6 admission limit at full strength: in EVERY reachable state the running table holds at most
`MAX_RUNNING_QUERIES` entries plus the number of forced starts issued so far (`canRunQuery` counts every
entry of the table, cancelled-but-not-yet-deleted ones included; a forced `RestartQuery` replaces an entry). -/
theorem running_bounded_with_forced (m : Nat) (ops : List Op) :
    (run (init m) ops).running.length ≤ m + (ops.filter Op.forced).length := by
  have := Lemmas.C17.run_running_bounded ops (init m) 0 (by simp [init])
  simpa [init] using this

/-- … in particular, without forced starts the admission limit is never exceeded -/
theorem running_bounded (m : Nat) (ops : List Op) (h : ∀ op ∈ ops, op.forced = false) :
    (run (init m) ops).running.length ≤ m := by
  have hf : ops.filter Op.forced = [] := by
    rw [List.filter_eq_nil_iff]
    intro op hop
    simp [h op hop]
  have := running_bounded_with_forced m ops
  rw [hf] at this
  simpa using this

/-- C17.7 every admitted query has its timeout armed: each entry of the running table is stored under its own
qid, its `timeoutCancelFunc` is set, and unless it is already cancelled its timer goroutine is still pending
(so the timer can not have been consumed before admission). -/
theorem admitted_query_is_armed (m : Nat) (ops : List Op) (q : Nat) (r : RQ)
    (h : lookup q (run (init m) ops).running = some r) :
    r.qid = q ∧ r.timeoutArmed = true ∧ (r.cancelled = false → r.timerLive = true) := by
  have hinv := Lemmas.C17.run_inv' ops (init m) (Lemmas.C17.inv_init m)
  obtain ⟨h1, h2, h3, _, _⟩ := hinv.1 _ (Lemmas.C17.lookup_mem h)
  refine ⟨h1, h2, ?_⟩
  intro hc
  rcases h3 with h3 | h3
  · exact h3
  · rw [hc] at h3; simp at h3

/-- … and no timer runs for a query that is still waiting for admission; queued objects are never cancelled
(a cancelled one leaves the queue), so a `pull` below the limit always admits the head of the queue. -/
theorem waiting_query_has_no_timer (m : Nat) (ops : List Op) (w : RQ)
    (h : w ∈ (run (init m) ops).waiting) :
    w.timeoutArmed = false ∧ w.timerLive = false ∧ w.cancelled = false := by
  have hinv := Lemmas.C17.run_inv' ops (init m) (Lemmas.C17.inv_init m)
  obtain ⟨h1, h2, h3, _⟩ := hinv.2.1 w h
  exact ⟨h1, h2, h3⟩

/-- C17.8 a timeout stops the query: when the timer of a running, not yet cancelled query fires (and the
consumer has left room for two messages), the object is marked cancelled and TIMEOUT (6) then CANCELLED (5)
have been sent on its channel. -/
theorem timeout_stops (m : Nat) (ops : List Op) (q : Nat) (r : RQ)
    (hl : lookup q (run (init m) ops).running = some r) (hnc : r.cancelled = false)
    (hroom : r.chanLen + 2 ≤ chanCap) :
    ∃ r', lookup q (step (run (init m) ops) (Op.timeout q)).1.running = some r' ∧ r'.obj = r.obj ∧
      r'.cancelled = true ∧ r'.sent = r.sent ++ [6, 5] := by
  have hinv := Lemmas.C17.run_inv' ops (init m) (Lemmas.C17.inv_init m)
  obtain ⟨t1, t2, t3, _, _⟩ := Lemmas.C17.timedOut_spec r hroom
  exact ⟨Lemmas.C17.timedOut r, Lemmas.C17.fireTimeout_stops hinv hl hnc hroom, t3, t1, by rw [t2]; simp⟩

/-- C17.2 exactly one terminal state: the terminal state of a query object (the first of COMPLETE 4,
CANCELLED 5, TIMEOUT 6, ERROR 7 on its channel) never changes once it is set, whatever happens afterwards
(later cancels, a late timer, a late completion, restarts of other queries, …). -/
theorem one_terminal_state (m : Nat) (ops1 ops2 : List Op) (q t : Nat) (r r' : RQ)
    (hl : lookup q (run (init m) ops1).running = some r) (ht : terminalOf r = some t)
    (hl' : lookup q (run (init m) (ops1 ++ ops2)).running = some r') (hobj : r'.obj = r.obj) :
    terminalOf r' = some t := by
  have hinv := Lemmas.C17.run_inv' ops1 (init m) (Lemmas.C17.inv_init m)
  have h0 := Lemmas.C17.termAt_of_inv hinv hl ht
  have h1 := Lemmas.C17.run_termAt ops2 _ h0
  rw [Lemmas.C17.run_append] at hl'
  exact h1.2.2 r' hl' hobj

/-- … and which one it is, is decided by the first terminal event that reaches the channel of a running query
without a terminal state: a cancel makes it CANCELLED, its timer TIMEOUT (followed by the cancellation),
`SendQueryStateComplete` COMPLETE, an error report ERROR. -/
theorem terminal_state_by_first_event (m : Nat) (ops : List Op) (q : Nat) (r : RQ)
    (hl : lookup q (run (init m) ops).running = some r) (hnone : terminalOf r = none)
    (hroom : r.chanLen + 2 ≤ chanCap) :
    (∃ r', lookup q (step (run (init m) ops) (Op.cancel q)).1.running = some r' ∧ r'.obj = r.obj ∧
        r'.cancelled = true ∧ terminalOf r' = some 5) ∧
    (r.cancelled = false →
      ∃ r', lookup q (step (run (init m) ops) (Op.timeout q)).1.running = some r' ∧ r'.obj = r.obj ∧
        r'.cancelled = true ∧ terminalOf r' = some 6) ∧
    (∃ r', lookup q (step (run (init m) ops) (Op.complete q)).1.running = some r' ∧ r'.obj = r.obj ∧
        terminalOf r' = some 4) ∧
    (∃ r', lookup q (step (run (init m) ops) (Op.error q)).1.running = some r' ∧ r'.obj = r.obj ∧
        terminalOf r' = some 7) := by
  have hinv := Lemmas.C17.run_inv' ops (init m) (Lemmas.C17.inv_init m)
  have hlt : r.chanLen < chanCap := by omega
  exact ⟨Lemmas.C17.cancel_terminal hl hnone hlt,
    fun hnc => Lemmas.C17.timeout_terminal hinv hl hnc hnone hroom,
    Lemmas.C17.selfSend_terminal hl hnone hlt rfl,
    Lemmas.C17.selfSend_terminal hl hnone hlt rfl⟩

/-- C17.9 `RestartQuery` keeps the tables well-formed: after restarting a running, un-cancelled coordinator
query `q` under the fresh qid `nq` (what `GetNextQid` hands out), in any reachable state with room in the queue,
the old entry is gone, the new qid is present EXACTLY ONCE — in the running table (armed, its timer pending,
not cancelled) when forced, else at the end of the queue —, the running table is still a map, every
admitted query is still armed, and the queue is still within its limit. -/
theorem restart_preserves_inv (m : Nat) (ops : List Op) (q nq : Nat) (force : Bool) (r : RQ)
    (hl : lookup q (run (init m) ops).running = some r) (hnc : r.cancelled = false) (hco : r.coord = true)
    (hfresh : lookup nq (run (init m) ops).running = none)
    (hfreshW : ∀ w ∈ (run (init m) ops).waiting, w.qid ≠ nq)
    (hroom : (run (init m) ops).waiting.length < maxWaiting) :
    let s' := (step (run (init m) ops) (Op.restart q nq force)).1
    lookup q s'.running = none ∧
    (s'.running.map Prod.fst).count nq + (s'.waiting.map (·.qid)).count nq = 1 ∧
    (if force then ∃ n, lookup nq s'.running = some n ∧ n.cancelled = false ∧ n.coord = true ∧
        n.timeoutArmed = true ∧ n.timerLive = true
     else lookup nq s'.running = none ∧ ∃ n, s'.waiting = (run (init m) ops).waiting ++ [n] ∧ n.qid = nq) ∧
    (s'.running.map Prod.fst).Nodup ∧
    (∀ k x, lookup k s'.running = some x → x.qid = k ∧ x.timeoutArmed = true) ∧
    s'.waiting.length ≤ maxWaiting := by
  intro s'
  have hinv := Lemmas.C17.run_inv' ops (init m) (Lemmas.C17.inv_init m)
  have hinv' : Lemmas.C17.Inv s' := Lemmas.C17.step_inv _ _ hinv
  obtain ⟨_, h2, h3, h4⟩ := Lemmas.C17.restartQuery_spec (force := force) hl hnc hco hfresh hfreshW hroom
  refine ⟨h2, h3, ?_, ?_, ?_, ?_⟩
  · cases force with
    | true =>
      simp only [if_true] at h4 ⊢
      obtain ⟨n, n1, _, n3, n4, n5, n6⟩ := h4
      exact ⟨n, n1, n3, n4, n5, n6⟩
    | false =>
      simp only [Bool.false_eq_true, if_false] at h4 ⊢
      obtain ⟨n0, n, n1, n2, _, _⟩ := h4
      exact ⟨n0, n, n1, n2⟩
  · exact Lemmas.C17.step_nodup _ _ (running_is_map m ops)
  · intro k x hk
    obtain ⟨x1, x2, _⟩ := hinv'.1 _ (Lemmas.C17.lookup_mem hk)
    exact ⟨x1, x2⟩
  · exact Lemmas.C17.step_waiting_bounded _ _ (waiting_bounded m ops)

/-- non-vacuity (admission): cancelled-but-undeleted queries keep their slot — with limit 1 the pull after
the cancel admits nothing; after the delete it does -/
example : ((run (init 1) [.start 1 false, .start 2 false, .pull, .cancel 1, .pull]).running.map Prod.fst = [1]) ∧
    ((run (init 1) [.start 1 false, .start 2 false, .pull, .cancel 1, .pull, .delete 1, .pull]).running.map Prod.fst = [2]) := by
  decide

/-- non-vacuity (timeout): a query that waited, was admitted by a pull and then timed out is cancelled and
has received READY, RUNNING, TIMEOUT, CANCELLED; its terminal state is TIMEOUT and a late completion does not
change it -/
example : (lookup 7 (run (init 1) [.start 7 false, .pull, .timeout 7, .complete 7]).running).map
    (fun r => (r.cancelled, r.sent, terminalOf r)) = some (true, [1, 2, 6, 5, 4], some 6) := by
  decide

/-- non-vacuity (restart): the hypotheses of `restart_preserves_inv` are satisfiable, forced and queued -/
example : (run (init 2) [.startc 1 true, .restart 1 2 true]).running.map Prod.fst = [2] ∧
    ((run (init 2) [.startc 1 true, .restart 1 2 false]).running.map Prod.fst = [] ∧
     (run (init 2) [.startc 1 true, .restart 1 2 false]).waiting.map (·.qid) = [2]) := by
  decide

/-- non-vacuity (forced starts): the bound of `running_bounded_with_forced` is attained -/
example : (run (init 1) [.start 1 true, .start 2 true, .startc 3 true]).running.length = 1 + 2 := by
  decide

/-! ## "… answers with results or an error … and the process keeps running": the small request grammars

The parsers of the OpenTSDB query route (`m=agg:downsample:metric{k=v|w,…}`, `start=…-ago`) as total functions from
byte strings to value / error (Model/OtsdbQuery.lean, the code AS REPAIRED by build/patches/c17-1 and c17-2), tied to
the real functions by the suite `alive` (lines `om` / `ot`).  `Outcome.panic` / `Ago.panic` stand for a Go panic on the
request goroutine, which ends the server process: the repaired parsers never produce it, the former ones
(`parseMetricTagOld`, `agoOld`) do, exactly on the texts described. -/
namespace Otsdb
open SigModel.OtsdbQuery SigModel.Lemmas.C17f

/-- for EVERY byte string the tag-list parser answers with a value or an error -/
theorem metric_tag_total (m : Bytes) : parseMetricTag m ≠ .panic := parseMetricTag_never_panics m

/-- for EVERY byte string the aggregator / downsampler parser answers with a value or an error -/
theorem aggregator_total (m : Bytes) : parseAggDs m ≠ .panic := parseAggDs_never_panics m

/-- for EVERY byte string the relative-time parser answers with a value or an error -/
theorem relative_time_total (s : Bytes) : ago s ≠ .panic := ago_never_panics s

/-- the accepted language of the tag list: the first '{' stands in front of the first '}' and every comma-separated
item between the two holds exactly one '=' (`indexOf_some_iff`: `indexOf c m = some i` says that position `i` is the
FIRST occurrence of `c`) -/
theorem metric_tag_accepts_iff (m : Bytes) :
    (parseMetricTag m).isOk = true ↔
      ∃ ts te, indexOf 123 m = some ts ∧ indexOf 125 m = some te ∧ ts < te ∧
        ∀ item ∈ splitOn 44 (inner m ts te), item.count 61 = 1 :=
  parseMetricTag_isOk_iff m

/-- the metric name of an accepted text holds no ':' (it starts behind the last ':' in front of the tags) -/
theorem metric_name_has_no_colon (m : Bytes) (metric : Bytes) (fs : List TagFilter)
    (h : parseMetricTag m = .ok (metric, fs)) : 58 ∉ metric := by
  unfold parseMetricTag at h
  split at h
  · split at h
    · cases h
    · split at h
      · injection h with h
        injection h with h1 _
        rw [← h1]
        exact metricOf_no_colon _
      · cases h
  · cases h

/-- BEFORE the repair the parser panicked exactly when a ':' stands at or behind the first '{', or the first '}' in
front of the first '{' -/
theorem metric_tag_old_panics_iff (m : Bytes) :
    parseMetricTagOld m = .panic ↔
      (∃ i ts, lastIndexOf 58 m = some i ∧ indexOf 123 m = some ts ∧ ts ≤ i) ∨
      (∃ ts te, indexOf 123 m = some ts ∧ indexOf 125 m = some te ∧ te < ts) :=
  parseMetricTagOld_panic_iff m

/-- the statement "answers with a value or an error" is FALSE for the parser before the repair:
`m=avg:m{a:b=c}` (a ':' inside the tags) and `m=avg:m}{` -/
theorem metric_tag_total_old_counterexample : ¬ (∀ m : Bytes, parseMetricTagOld m ≠ .panic) := by
  intro h
  exact h [97, 118, 103, 58, 109, 123, 97, 58, 98, 61, 99, 125] (by decide)

theorem metric_tag_old_brace_order_counterexample :
    parseMetricTagOld [97, 118, 103, 58, 109, 125, 123] = .panic := by decide

/-- the repair changes nothing else: wherever the former parser returned, the repaired one returns the same -/
theorem metric_tag_repair_conservative (m : Bytes) (h : parseMetricTagOld m ≠ .panic) :
    parseMetricTagOld m = parseMetricTag m :=
  parseMetricTagOld_eq_of_ne_panic m h

/-- the accepted language of relative times: `[+-]digits` (an int64), one of the units s m h d w n y, "-ago" -/
theorem relative_time_accepts_iff (s : Bytes) :
    ago s = .relOk ↔ ∃ n u, s = n ++ u :: agoSuffix ∧ u ∈ timeUnits ∧ atoiOk n = true :=
  ago_relOk_iff s

/-- BEFORE the repair `start=-ago` (no duration at all) panicked, and nothing else did -/
theorem relative_time_old_panics_iff (s : Bytes) : agoOld s = .panic ↔ s = agoSuffix := agoOld_panic_iff s

theorem relative_time_repair_conservative (s : Bytes) (h : agoOld s ≠ .panic) : agoOld s = ago s :=
  agoOld_eq_ago_of_ne_panic s h

/-- non-vacuity: `sum:1m-avg:cpu{host=h1|h2,job="c17"}` is accepted with the expected parts (metric cpu; host = h1 or
h2; job = c17, unquoted; the operator stays `or` after the first item with two values) -/
example : parseMetricTag [115, 117, 109, 58, 49, 109, 45, 97, 118, 103, 58, 99, 112, 117, 123, 104, 111, 115, 116, 61, 104, 49, 124, 104, 50, 44, 106, 111, 98, 61, 34, 99, 49, 55, 34, 125] =
    .ok ([99, 112, 117], [⟨[104, 111, 115, 116], [104, 49], .or⟩, ⟨[104, 111, 115, 116], [104, 50], .or⟩, ⟨[106, 111, 98], [99, 49, 55], .or⟩]) := by decide

example : parseAggDs [115, 117, 109, 58, 49, 109, 45, 97, 118, 103, 58, 99, 112, 117, 123, 104, 111, 115, 116, 61, 104, 49, 124, 104, 50, 44, 106, 111, 98, 61, 34, 99, 49, 55, 34, 125] = .ok (.sum, ⟨1, [109], .avg, false⟩) := by decide

example : ago [49, 53, 109, 45, 97, 103, 111] = .relOk ∧ ago [45, 97, 103, 111] = .relErr ∧ ago [49, 55, 48, 48, 48, 48, 48, 48, 48, 48] = .abs := by decide
end Otsdb

/-! ## "… exactly one terminal state, after which … no goroutine of it remains": the state multiplexer

`RunQueryForNewPipeline` starts ONE multiplexer goroutine per query (pkg/ast/pipesearch/multiplexer,
Model/QMux.lean, tied to the real goroutine by the suite `qmux`).  `ended` = the goroutine has returned;
`Out.close` = `close(output)`, which the reader of the query's answer waits for. -/
namespace Mux
open SigModel.Model SigModel.Lemmas.C17g

/-- the multiplexer goroutine ends with the first terminal message: for EVERY event sequence (with or without a
timechart channel) that holds a CANCELLED, TIMEOUT or ERROR message on a channel that exists, the goroutine has
returned at the end of the sequence, it has closed its output EXACTLY once, and the close is its LAST output — nothing
is sent after it (whatever follows the terminal message, e.g. the CANCELLED that follows a TIMEOUT, is not read). -/
theorem multiplexer_terminates_after_terminal_state (tcPresent : Bool) (evs : List QMux.Ev)
    (h : ∃ e ∈ evs, (e.msg = .cancelled ∨ e.msg = .timeout ∨ e.msg = .error) ∧ (e.tc = true → tcPresent = true)) :
    (QMux.run tcPresent evs).1.ended = true ∧
    ((QMux.run tcPresent evs).2.filter QMux.Out.isClose).length = 1 ∧
    (QMux.run tcPresent evs).2.getLast? = some QMux.Out.close := by
  have hg := good_runFrom evs (QMux.init tcPresent) [] (good_init tcPresent)
  have he : (QMux.run tcPresent evs).1.ended = true := by
    apply runFrom_abort
    obtain ⟨e, hm, ha, hd⟩ := h
    refine ⟨e, hm, ?_, ?_⟩
    · rcases ha with ha | ha | ha <;> rw [ha] <;> rfl
    · cases htc : e.tc
      · simp [QMux.deliverable, htc]
      · simp [QMux.deliverable, htc, QMux.init, hd htc]
  refine ⟨he, ?_, hg.last he⟩
  have := hg.count
  rw [show (QMux.runFrom (QMux.init tcPresent) [] evs) = QMux.run tcPresent evs from rfl, he] at this
  simpa [closes] using this

/-- … the same holds when an input channel is closed before its COMPLETE (one step, any running goroutine) … -/
theorem multiplexer_ends_on_unexpected_close (s : QMux.St) (tc : Bool) (hd : tc = true → s.tcPresent = true)
    (hi : QMux.isDone s tc = false) : (QMux.step s ⟨tc, .closed⟩).1.ended = true := by
  apply step_closed_incomplete _ _ _ rfl hi
  cases tc
  · simp [QMux.deliverable]
  · simp [QMux.deliverable, hd rfl]

/-- … and when every channel has delivered its COMPLETE: in EVERY reachable state, all channels complete implies
that the goroutine has returned. -/
theorem multiplexer_ends_when_all_complete (tcPresent : Bool) (evs : List QMux.Ev)
    (h : (QMux.run tcPresent evs).1.mainDone = true ∧ (QMux.run tcPresent evs).1.tcDone = true) :
    (QMux.run tcPresent evs).1.ended = true := by
  have hg := good_runFrom evs (QMux.init tcPresent) [] (good_init tcPresent)
  apply hg.done
  simp only [QMux.allDone, QMux.run, Bool.and_eq_true] at h ⊢
  exact h

/-- for EVERY event sequence the output is closed at most once (a second `close` would panic), exactly once iff the
goroutine has returned, then as the last output; and the goroutine has returned iff `closedOutput` is set. -/
theorem multiplexer_closes_at_most_once (tcPresent : Bool) (evs : List QMux.Ev) :
    ((QMux.run tcPresent evs).2.filter QMux.Out.isClose).length ≤ 1 ∧
    (((QMux.run tcPresent evs).2.filter QMux.Out.isClose).length = 1 ↔ (QMux.run tcPresent evs).1.ended = true) ∧
    ((QMux.run tcPresent evs).1.ended = true → (QMux.run tcPresent evs).2.getLast? = some QMux.Out.close) ∧
    (QMux.run tcPresent evs).1.ended = (QMux.run tcPresent evs).1.closedOutput := by
  have hg := good_runFrom evs (QMux.init tcPresent) [] (good_init tcPresent)
  have hc := hg.count
  rw [show (QMux.runFrom (QMux.init tcPresent) [] evs) = QMux.run tcPresent evs from rfl] at hc hg
  simp only [closes] at hc
  refine ⟨?_, ?_, hg.last, hg.sync⟩
  · rw [hc]; split <;> simp
  · rw [hc]; cases (QMux.run tcPresent evs).1.ended <;> simp

/-- non-vacuity: a synchronous query that times out — TIMEOUT is forwarded, the output closed, the goroutine gone;
the CANCELLED that `CancelQuery` sends next is not read (1 of 2 events consumed) -/
example : QMux.run false [⟨false, .ready⟩, ⟨false, .timeout⟩, ⟨false, .cancelled⟩] =
      ({ tcPresent := false, mainDone := false, tcDone := true, closedOutput := true, ended := true },
       [.env "READY" false "", .env "TIMEOUT" false "", .close]) ∧
    QMux.readFrom (QMux.init false) [⟨false, .ready⟩, ⟨false, .timeout⟩, ⟨false, .cancelled⟩] = 2 := by
  constructor <;> rfl

/-- non-vacuity: with a timechart channel the two COMPLETEs are merged into one, then the output is closed by the
deferred function; a non-websocket COMPLETE with a timechart channel is answered with an ERROR -/
example : (QMux.run true [⟨false, .completeWs⟩, ⟨true, .update⟩, ⟨true, .completeWs⟩]).2 =
      [.env "QUERY_UPDATE" true "", .env "COMPLETE" false "m", .close] ∧
    (QMux.run true [⟨false, .completeHttp⟩]).2 = [.env "ERROR" false "x", .close] ∧
    (QMux.run false [⟨false, .completeHttp⟩]).2 = [.env "COMPLETE" false "h", .close] := by
  refine ⟨?_, ?_, ?_⟩ <;> rfl

/-- the statement is not a tautology of the model's shape: in the variant in which TIMEOUT is forwarded WITHOUT closing
the output (waiting for the CANCELLED that follows; `stepNoCloseOnTimeout`, Lemmas/C17g.lean) the goroutine of a query
whose last message is TIMEOUT never ends and its output is never closed -/
theorem no_close_on_timeout_variant_violates :
    (runFromNoCloseOnTimeout (QMux.init false) [] [⟨false, .ready⟩, ⟨false, .timeout⟩]).1.ended = false ∧
    ((runFromNoCloseOnTimeout (QMux.init false) [] [⟨false, .ready⟩, ⟨false, .timeout⟩]).2.filter QMux.Out.isClose).length = 0 := by
  constructor <;> rfl
end Mux

end SigModel.Props.C17
