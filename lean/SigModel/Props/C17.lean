/-
C17 — Every query is answered or rejected, terminates, and frees its resources.
Property theorems only; this file covers the lifecycle clause (running / waiting tables).
The clause "for all byte strings the parsers answer or reject in bounded time" is NOT decided here
(see DESIGN.md §5 C17).

All theorems quantify over EVERY operation sequence from the initial empty tables.
-/
-- AGENT-REPORT:
--   No statement in this file is false as written; no statement, hypothesis or definition was changed.
--   Note (not a correction): in `cancel_effective` the hypothesis `hnr` is redundant for this model.
--   `step _ (.cancel q)` sets `waiting := removeFirstWaiting q s.waiting` in BOTH branches (q running
--   or not), so `huniq` alone yields the conclusion; `hnr` is kept (unused) to leave the statement
--   untouched.  All helper lemmas live in SigModel/Lemmas/C17.lean.
import SigModel.Model.QTable
import SigModel.Lemmas.C17

namespace SigModel.Props.C17
open SigModel.QTable

def init (m : Nat) : St := { maxRunning := m }

/-- C17.1 admission limits: the waiting queue never exceeds MAX_WAITING_QUERIES -/
theorem waiting_bounded (m : Nat) (ops : List Op) :
    (run (init m) ops).waiting.length ≤ maxWaiting :=
  Lemmas.C17.run_inv (fun s => s.waiting.length ≤ maxWaiting) Lemmas.C17.step_waiting_bounded
    ops (init m) (by simp [init])

/-- C17.1b admission through the puller never exceeds MAX_RUNNING: a pull step never takes the
running table above `maxRunning` unless it already was (only `forceRun` starts bypass the limit). -/
theorem pull_respects_limit (s : St) (h : s.running.length ≤ s.maxRunning) :
    (step s Op.pull).1.running.length ≤ s.maxRunning :=
  Lemmas.C17.step_pull_running_length s h

/-- the running table is a map: at most one entry per qid, in every reachable state -/
theorem running_is_map (m : Nat) (ops : List Op) :
    ((run (init m) ops).running.map Prod.fst).Nodup :=
  Lemmas.C17.run_inv (fun s => (s.running.map Prod.fst).Nodup) Lemmas.C17.step_nodup
    ops (init m) (by simp [init])

/-- C17.3 delete frees the entry -/
theorem delete_frees (m : Nat) (ops : List Op) (q : Nat) :
    lookup q (step (run (init m) ops) (Op.delete q)).1.running = none :=
  Lemmas.C17.step_delete_lookup _ q

/-- C17.4 cancel takes effect at any moment: right after `cancel q`, no object of `q` is waiting for
admission un-cancelled (unless `q` was queued more than once, which unique qids exclude), and a
running object of `q` is marked cancelled. -/
theorem cancel_effective (m : Nat) (ops : List Op) (q : Nat)
    (huniq : ((run (init m) ops).waiting.filter (fun r => r.qid == q)).length ≤ 1)
    (hnr : lookup q (run (init m) ops).running = none ∨
           ((run (init m) ops).waiting.filter (fun r => r.qid == q)).length = 0) :
    let s' := (step (run (init m) ops) (Op.cancel q)).1
    (∀ r ∈ s'.waiting, r.qid ≠ q) ∧ (∀ r, lookup q s'.running = some r → r.cancelled = true) :=
  -- `hnr` is not needed: the model's `cancel` dequeues the first waiting object of `q` in both
  -- branches (running or not), so `huniq` alone suffices (see AGENT-REPORT at the top).
  have _ := hnr
  Lemmas.C17.step_cancel_effective _ q huniq

/-- … and a cancelled object is never (re-)admitted: `runQuery` of a cancelled object changes nothing -/
theorem cancelled_never_runs (s : St) (r : RQ) (h : r.cancelled = true) : runQuery s r = s :=
  Lemmas.C17.runQuery_cancelled s r h

/-- C17.5 no send blocks while a table lock is held, as long as the consumer drains a query's channel
before more than `chanCap - 3` further cancels are issued for it: every object enters the running
table with exactly the two messages READY, RUNNING in a fresh channel. -/
theorem fresh_objects_never_block (s : St) (q : Nat) (force : Bool) (h : s.blocked = false) :
    (step s (Op.start q force)).1.blocked = false :=
  Lemmas.C17.step_start_blocked s q force h

theorem pull_never_blocks (m : Nat) (ops : List Op)
    (hnc : ∀ op ∈ ops, ∀ q, op ≠ Op.cancel q) :
    (run (init m) ops).blocked = false :=
  (Lemmas.C17.run_inv_of Lemmas.C17.NoBlock Lemmas.C17.NotCancel Lemmas.C17.step_noBlock
    ops (init m) hnc ⟨rfl, by simp [init]⟩).1

/-- non-vacuity: a sequence in which a waiting query is cancelled and a later pull admits the next one -/
example : (run (init 1) [.start 1 true, .start 2 false, .start 3 false, .cancel 2, .delete 1, .pull]).running.map Prod.fst = [3] := by
  decide

end SigModel.Props.C17
