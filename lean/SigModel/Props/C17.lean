/-
C17 — Every query is answered or rejected, terminates, and frees its resources.
Property theorems only; this file covers the lifecycle clause (running / waiting tables).
The clause "for all byte strings the parsers answer or reject in bounded time" is NOT decided here
(see DESIGN.md §5 C17).

All theorems quantify over EVERY operation sequence from the initial empty tables.
-/
import SigModel.Model.QTable
import SigModel.Lemmas.C17

namespace SigModel.Props.C17
open SigModel.QTable

def init (m : Nat) : St := { maxRunning := m }

/-- C17.1 admission limits: the waiting queue never exceeds MAX_WAITING_QUERIES -/
theorem waiting_bounded (m : Nat) (ops : List Op) :
    (run (init m) ops).waiting.length ≤ maxWaiting := by
  sorry

/-- C17.1b admission through the puller never exceeds MAX_RUNNING: a pull step never takes the
running table above `maxRunning` unless it already was (only `forceRun` starts bypass the limit). -/
theorem pull_respects_limit (s : St) (h : s.running.length ≤ s.maxRunning) :
    (step s Op.pull).1.running.length ≤ s.maxRunning := by
  sorry

/-- the running table is a map: at most one entry per qid, in every reachable state -/
theorem running_is_map (m : Nat) (ops : List Op) :
    ((run (init m) ops).running.map Prod.fst).Nodup := by
  sorry

/-- C17.3 delete frees the entry -/
theorem delete_frees (m : Nat) (ops : List Op) (q : Nat) :
    lookup q (step (run (init m) ops) (Op.delete q)).1.running = none := by
  sorry

/-- C17.4 cancel takes effect at any moment: right after `cancel q`, no object of `q` is waiting for
admission un-cancelled (unless `q` was queued more than once, which unique qids exclude), and a
running object of `q` is marked cancelled. -/
theorem cancel_effective (m : Nat) (ops : List Op) (q : Nat)
    (huniq : ((run (init m) ops).waiting.filter (fun r => r.qid == q)).length ≤ 1)
    (hnr : lookup q (run (init m) ops).running = none ∨
           ((run (init m) ops).waiting.filter (fun r => r.qid == q)).length = 0) :
    let s' := (step (run (init m) ops) (Op.cancel q)).1
    (∀ r ∈ s'.waiting, r.qid ≠ q) ∧ (∀ r, lookup q s'.running = some r → r.cancelled = true) := by
  sorry

/-- … and a cancelled object is never (re-)admitted: `runQuery` of a cancelled object changes nothing -/
theorem cancelled_never_runs (s : St) (r : RQ) (h : r.cancelled = true) : runQuery s r = s := by
  sorry

/-- C17.5 no send blocks while a table lock is held, as long as the consumer drains a query's channel
before more than `chanCap - 3` further cancels are issued for it: every object enters the running
table with exactly the two messages READY, RUNNING in a fresh channel. -/
theorem fresh_objects_never_block (s : St) (q : Nat) (force : Bool) (h : s.blocked = false) :
    (step s (Op.start q force)).1.blocked = false := by
  sorry

theorem pull_never_blocks (m : Nat) (ops : List Op)
    (hnc : ∀ op ∈ ops, ∀ q, op ≠ Op.cancel q) :
    (run (init m) ops).blocked = false := by
  sorry

/-- non-vacuity: a sequence in which a waiting query is cancelled and a later pull admits the next one -/
example : (run (init 1) [.start 1 true, .start 2 false, .start 3 false, .cancel 2, .delete 1, .pull]).running.map Prod.fst = [3] := by
  sorry

end SigModel.Props.C17
