/-
C20 — Alert state and saved objects follow their definitions exactly.  ALERT STATE MACHINE part
(the keyed-store / CRUD part of C20 is not covered by this file).  Property theorems only.

The model (SigModel/Model/Alert.lean) mirrors `handleAlertCondition`, `shouldUpdateAlertStateToFiring`,
`NotifyAlertHandlerRequest`, `shouldSendNotification`, `isCooldownOver`, `isSilenceMinutesOver` and the
sqlite updates as they are; N = EvalWindow / EvalInterval (integer division) is `cfg.n`.

For EVERY operation sequence (evaluations with any outcome and any transport result, any amount of
time passing between them, configuration changes at any position):
  1. after each evaluation the state is the window function of the last N outcomes — Firing iff
     N ≥ 1, at least N evaluations happened and the condition held in all of the last N; Pending iff it
     held in the latest but not (all N); Normal iff it did not hold in the latest — provided the
     history rows of the window are evaluation rows only (a configuration change also writes a row);
  2. two delivered notifications are never closer than the cool-down (nor the silence period);
  3. a Normal notification is delivered only directly after a Firing one (hence at most once per
     Firing episode), and the first notification ever is a Firing one;
  4. a Firing evaluation is notified exactly when the transport works and cool-down and silence are
     over (or nothing was sent yet); in particular the first time the alert fires;
  5. a configuration-change row restarts the window: afterwards the state is the window function of
     the outcomes SINCE the change, whatever the history before it was.
-/
import SigModel.Model.Alert
import SigModel.Lemmas.C20

namespace SigModel.Props.C20
open SigModel.Alert

/-- outcomes (condition matched?) of the evaluations in an operation list, NEWEST FIRST -/
abbrev outcomes (ops : List Op) : List Bool := Lemmas.C20.outcomes ops

/-- hypothesis "history rows are evaluation rows only": no configuration change among the operations -/
def EvalRowsOnly (ops : List Op) : Prop := ∀ op ∈ ops, op ≠ Op.cfgChange

instance (ops : List Op) : Decidable (EvalRowsOnly ops) := by unfold EvalRowsOnly; infer_instance

/-- the condition held in all of the last `n` evaluations (`w` = outcomes, newest first), `n ≥ 1` -/
def WindowFull (n : Nat) (w : List Bool) : Prop := 1 ≤ n ∧ n ≤ w.length ∧ (w.take n).all id = true

instance (n : Nat) (w : List Bool) : Decidable (WindowFull n w) := by unfold WindowFull; infer_instance

/-- delivered notifications of a run, in chronological order -/
abbrev sends (outs : List Out) : List Out := outs.filter (fun o => o.notified)

/-- C20.1 the state after the latest evaluation is the window function of the last N outcomes
(history rows = evaluation rows only; any times, any transport results) -/
theorem state_is_window_fn (cfg : Cfg) (t0 : Nat) (ops : List Op)
    (hrows : EvalRowsOnly ops) (hne : outcomes ops ≠ []) :
    ((runOps cfg (init t0) ops).1.st.state = .firing ↔ WindowFull cfg.n (outcomes ops)) ∧
    ((runOps cfg (init t0) ops).1.st.state = .pending ↔
        (outcomes ops).head? = some true ∧ ¬ WindowFull cfg.n (outcomes ops)) ∧
    ((runOps cfg (init t0) ops).1.st.state = .normal ↔ (outcomes ops).head? = some false) := by
  rw [Lemmas.C20.state_after_run cfg (init t0) ops Lemmas.C20.barrier_nil hrows hne]
  exact Lemmas.C20.windowState_spec cfg.n (outcomes ops) hne

example : -- non-vacuous: N = 3 (window 7, interval 2), third matched evaluation in a row fires, the fourth (unmatched) is Normal
    let cfg : Cfg := { window := 7, interval := 2, cooldown := 5, silence := 0 }
    cfg.n = 3 ∧
    (runOps cfg (init 0) [.eval true true, .tick 2, .eval true false, .eval true true]).1.st.state = .firing ∧
    (runOps cfg (init 0) [.eval false true, .eval true true, .eval true true]).1.st.state = .pending ∧
    (runOps cfg (init 0) [.eval true true, .eval true true, .eval true true, .eval false true]).1.st.state = .normal ∧
    EvalRowsOnly [.eval true true, .tick 2, .eval true false, .eval true true] := by decide

/-- the same statement WITHOUT the "evaluation rows only" hypothesis (kept visible) -/
def StateIsWindowFnOfAllRows : Prop :=
  ∀ (cfg : Cfg) (t0 : Nat) (ops : List Op), outcomes ops ≠ [] →
    ((runOps cfg (init t0) ops).1.st.state = .firing ↔ WindowFull cfg.n (outcomes ops))

/-- C20.1' it is false once a configuration change lies inside the window: with N = 2 the sequence
matched, config change, matched ends Pending although the last two outcomes are both matched -/
theorem state_is_window_fn_counterexample : ¬ StateIsWindowFnOfAllRows := by
  intro h
  have := h { window := 2, interval := 1, cooldown := 0, silence := 0 } 0
    [.eval true true, .cfgChange, .eval true true] (by decide)
  revert this
  decide

/-- C20.5 what a configuration-change row does, exactly: it leaves state and notification bookkeeping
alone and puts an Inactive row on top of the history … -/
theorem config_change_row (st : St) :
    configChange st = { st with hist := .inactive :: st.hist } ∧
    (configChange st).state = st.state ∧
    (configChange st).lastSentState = st.lastSentState ∧
    (configChange st).lastSentTime = st.lastSentTime := ⟨rfl, rfl, rfl, rfl⟩

/-- C20.5 … and that row restarts the window: from ANY prior situation `s` (any history, any state),
after a configuration change followed by evaluation rows only, the state is the window function of
the outcomes since the change — exactly as for a freshly created alert -/
theorem config_change_restarts_window (cfg : Cfg) (s : Sys) (ops : List Op)
    (hrows : EvalRowsOnly ops) (hne : outcomes ops ≠ []) :
    let s0 : Sys := { s with st := configChange s.st }
    ((runOps cfg s0 ops).1.st.state = .firing ↔ WindowFull cfg.n (outcomes ops)) ∧
    ((runOps cfg s0 ops).1.st.state = .pending ↔
        (outcomes ops).head? = some true ∧ ¬ WindowFull cfg.n (outcomes ops)) ∧
    ((runOps cfg s0 ops).1.st.state = .normal ↔ (outcomes ops).head? = some false) := by
  intro s0
  rw [Lemmas.C20.state_after_run cfg s0 ops (Lemmas.C20.barrier_inactive s.st.hist) hrows hne]
  exact Lemmas.C20.windowState_spec cfg.n (outcomes ops) hne

example : -- non-vacuous: N = 2; without the change the 2nd matched evaluation fires, with it only the 3rd does
    let cfg : Cfg := { window := 2, interval := 1, cooldown := 0, silence := 0 }
    (runOps cfg (init 0) [.eval true true, .eval true true]).1.st.state = .firing ∧
    (runOps cfg (init 0) [.eval true true, .cfgChange, .eval true true]).1.st.state = .pending ∧
    (runOps cfg (init 0) [.eval true true, .cfgChange, .eval true true, .eval true true]).1.st.state = .firing := by
  decide

/-- C20.2 no two delivered notifications are closer than the cool-down, nor closer than the silence
period — over every run (time only moves forward: `tick k` adds `k ≥ 0` minutes) -/
theorem no_two_sends_within_cooldown (cfg : Cfg) (t0 : Nat) (ops : List Op) :
    (sends (runOps cfg (init t0) ops).2).Pairwise
      (fun a b => a.time + cfg.cooldown ≤ b.time ∧ a.time + cfg.silence ≤ b.time) := by
  have h := (Lemmas.C20.spaced_run cfg ops (init t0) (by intro t ht; cases ht)).2
  have h2 := h.filter (fun o => o.notified)
  refine List.Pairwise.imp_of_mem ?_ h2
  intro a b ha hb hab
  have ha' := (List.mem_filter.1 ha).2
  have hb' := (List.mem_filter.1 hb).2
  exact hab ha' hb'

example : -- non-vacuous: cool-down 5; Firing at minute 0 is sent, at minute 4 suppressed, at minute 5 sent again
    let cfg : Cfg := { window := 1, interval := 1, cooldown := 5, silence := 0 }
    ((runOps cfg (init 0) [.eval true true, .tick 4, .eval true true, .tick 1, .eval true true]).2.map
      (fun o => (o.time, o.notified))) = [(0, true), (4, false), (5, true)] := by decide

/-- C20.3 every delivered notification is a Firing or a Normal one; the first one ever is Firing; and a
Normal notification directly follows a Firing notification (so between two Normal notifications there
is always a Firing one: at most one Normal notification per Firing episode) -/
theorem normal_sent_only_after_firing (cfg : Cfg) (t0 : Nat) (ops : List Op) :
    (∀ o ∈ sends (runOps cfg (init t0) ops).2, o.state = .firing ∨ o.state = .normal) ∧
    (∀ o rest, sends (runOps cfg (init t0) ops).2 = o :: rest → o.state = .firing) ∧
    (∀ pre a b post, sends (runOps cfg (init t0) ops).2 = pre ++ a :: b :: post →
        b.state = .normal → a.state = .firing) := by
  have h := Lemmas.C20.chain_run cfg ops (init t0) (by show AState.inactive ≠ AState.pending; decide)
  refine ⟨Lemmas.C20.chain_all h, ?_, ?_⟩
  · intro o rest he
    have h' : Lemmas.C20.chainOk (init t0).st.lastSentState (o :: rest) := by
      rw [← he]; exact h
    rcases Lemmas.C20.chain_head h' with h1 | h1
    · exact h1
    · exact absurd h1.2 (by show AState.inactive ≠ AState.firing; decide)
  · intro pre a b post he hb
    have h' : Lemmas.C20.chainOk (init t0).st.lastSentState (pre ++ a :: b :: post) := by
      rw [← he]; exact h
    rcases Lemmas.C20.chain_adjacent pre a b post h' with h1 | h1
    · rw [hb] at h1; cases h1
    · exact h1.2

example : -- non-vacuous: Firing is sent, the return to Normal is sent once, further Normal evaluations are silent
    let cfg : Cfg := { window := 1, interval := 1, cooldown := 0, silence := 0 }
    ((runOps cfg (init 0) [.eval false true, .eval true true, .eval false true, .eval false true]).2.map
      (fun o => (o.state, o.notified))) =
      [(.normal, false), (.firing, true), (.normal, true), (.normal, false)] := by decide

/-- C20.4 a Firing evaluation delivers its notification exactly when the transport works and either
nothing has been sent yet or both the cool-down and the silence period since the last delivery are over -/
theorem firing_notified_when_allowed (cfg : Cfg) (st : St) (now : Nat) (sendOk : Bool)
    (hf : (evalStep cfg st now true sendOk).2.state = .firing) :
    (evalStep cfg st now true sendOk).2.notified = true ↔
      sendOk = true ∧ (st.lastSentTime = none ∨
        ∃ t, st.lastSentTime = some t ∧ t + cfg.cooldown ≤ now ∧ t + cfg.silence ≤ now) := by
  have hs : shouldFire cfg.n st.hist = true := by
    cases h : shouldFire cfg.n st.hist
    · simp [evalStep, h] at hf
    · rfl
  cases hl : st.lastSentTime with
  | none => simp [evalStep, hs, notify, shouldSend, minutesOver, hl]
  | some t =>
    simp only [evalStep, hs, notify, shouldSend, minutesOver, hl, if_true]
    by_cases h1 : t + cfg.cooldown ≤ now <;> by_cases h2 : t + cfg.silence ≤ now <;> simp [h1, h2]

/-- C20.4' entering Firing: as long as nothing has been delivered since the alert was created, the
evaluation that makes the alert Firing delivers its notification whenever the transport works -/
theorem first_firing_notified (cfg : Cfg) (t0 : Nat) (ops : List Op)
    (hq : sends (runOps cfg (init t0) ops).2 = [])
    (hf : (runOps cfg (init t0) (ops ++ [.eval true true])).1.st.state = .firing) :
    ∃ o, (runOps cfg (init t0) (ops ++ [.eval true true])).2 = (runOps cfg (init t0) ops).2 ++ [o] ∧
      o.state = .firing ∧ o.notified = true := by
  have hquiet : ∀ o ∈ (runOps cfg (init t0) ops).2, o.notified = false := by
    intro o ho
    cases hn : o.notified
    · rfl
    · have : o ∈ sends (runOps cfg (init t0) ops).2 := List.mem_filter.2 ⟨ho, hn⟩
      rw [hq] at this; cases this
  have hlt := (Lemmas.C20.quiet_run cfg ops (init t0) hquiet).1
  have happ := Lemmas.C20.runOps_append cfg (init t0) ops [.eval true true]
  rw [happ] at hf ⊢
  let s1 := (runOps cfg (init t0) ops).1
  refine ⟨(evalStep cfg s1.st s1.now true true).2, by simp [runOps, stepOp, s1], ?_, ?_⟩
  · simpa [runOps, stepOp, evalStep, s1] using hf
  · have hf' : (evalStep cfg s1.st s1.now true true).2.state = .firing := by
      simpa [runOps, stepOp, evalStep, s1] using hf
    exact (firing_notified_when_allowed cfg s1.st s1.now true hf').2 ⟨rfl, Or.inl hlt⟩

example : -- non-vacuous: N = 2, second matched evaluation fires and is delivered; hypotheses of C20.4' hold
    let cfg : Cfg := { window := 2, interval := 1, cooldown := 10, silence := 3 }
    sends (runOps cfg (init 7) [.eval true true]).2 = [] ∧
    (runOps cfg (init 7) ([.eval true true] ++ [.eval true true])).1.st.state = .firing ∧
    (runOps cfg (init 7) ([.eval true true] ++ [.eval true true])).2.map (fun o => o.notified) = [false, true] := by
  decide

end SigModel.Props.C20
