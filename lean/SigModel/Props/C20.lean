/-
C20 — Alert state and saved objects follow their definitions exactly.  ALERT STATE MACHINE part
(the keyed-store / CRUD part of C20 is not covered by this file).  Property theorems only.

The model (SigModel/Model/Alert.lean) mirrors `handleAlertCondition`, `shouldUpdateAlertStateToFiring`,
`NotifyAlertHandlerRequest`, `shouldSendNotification`, `isCooldownOver`, `isSilenceMinutesOver` and the
sqlite updates as they are; N = EvalWindow / EvalInterval (integer division) is `cfg.n`.

For EVERY operation sequence (evaluations with any outcome and any transport result, any amount of
time passing between them, configuration changes at any position):
  1. after each evaluation the state is the window function of the last N outcomes — Firing iff
     N ≥ 1, at least N evaluations happened and the condition held in all of the last N; Pending iff it
     held in the latest but not (all N); Normal iff it did not hold in the latest — provided the
     history rows of the window are evaluation rows only (a configuration change also writes a row);
  2. two delivered notifications are never closer than the cool-down (nor the silence period);
  3. a Normal notification is delivered only directly after a Firing one (hence at most once per
     Firing episode), and the first notification ever is a Firing one;
  4. a Firing evaluation is notified exactly when the transport works and cool-down and silence are
     over (or nothing was sent yet); in particular the first time the alert fires;
  5. a configuration-change row restarts the window: afterwards the state is the window function of
     the outcomes SINCE the change, whatever the history before it was.
-/
import SigModel.Model.Alert
import SigModel.Lemmas.C20
import SigModel.Model.AlertJob
import SigModel.Lemmas.C20J
import SigModel.Model.AlertSet
import SigModel.Lemmas.C20S
import SigModel.Model.KV
import SigModel.Lemmas.C20Kb
import SigModel.Lemmas.C20Kc

namespace SigModel.Props.C20
open SigModel.Alert

/-- outcomes (condition matched?) of the evaluations in an operation list, NEWEST FIRST -/
abbrev outcomes (ops : List Op) : List Bool := Lemmas.C20.outcomes ops

/-- hypothesis "history rows are evaluation rows only": no configuration change among the operations -/
def EvalRowsOnly (ops : List Op) : Prop := ∀ op ∈ ops, op ≠ Op.cfgChange

instance (ops : List Op) : Decidable (EvalRowsOnly ops) := by unfold EvalRowsOnly; infer_instance

/-- the condition held in all of the last `n` evaluations (`w` = outcomes, newest first), `n ≥ 1` -/
def WindowFull (n : Nat) (w : List Bool) : Prop := 1 ≤ n ∧ n ≤ w.length ∧ (w.take n).all id = true

instance (n : Nat) (w : List Bool) : Decidable (WindowFull n w) := by unfold WindowFull; infer_instance

/-- delivered notifications of a run, in chronological order -/
abbrev sends (outs : List Out) : List Out := outs.filter (fun o => o.notified)

/-- C20.1 the state after the latest evaluation is the window function of the last N outcomes
(history rows = evaluation rows only; any times, any transport results) -/
theorem state_is_window_fn (cfg : Cfg) (t0 : Nat) (ops : List Op)
    (hrows : EvalRowsOnly ops) (hne : outcomes ops ≠ []) :
    ((runOps cfg (init t0) ops).1.st.state = .firing ↔ WindowFull cfg.n (outcomes ops)) ∧
    ((runOps cfg (init t0) ops).1.st.state = .pending ↔
        (outcomes ops).head? = some true ∧ ¬ WindowFull cfg.n (outcomes ops)) ∧
    ((runOps cfg (init t0) ops).1.st.state = .normal ↔ (outcomes ops).head? = some false) := by
  rw [Lemmas.C20.state_after_run cfg (init t0) ops Lemmas.C20.barrier_nil hrows hne]
  exact Lemmas.C20.windowState_spec cfg.n (outcomes ops) hne

example : -- non-vacuous: N = 3 (window 7, interval 2), third matched evaluation in a row fires, the fourth (unmatched) is Normal
    let cfg : Cfg := { window := 7, interval := 2, cooldown := 5, silence := 0 }
    cfg.n = 3 ∧
    (runOps cfg (init 0) [.eval true true, .tick 2, .eval true false, .eval true true]).1.st.state = .firing ∧
    (runOps cfg (init 0) [.eval false true, .eval true true, .eval true true]).1.st.state = .pending ∧
    (runOps cfg (init 0) [.eval true true, .eval true true, .eval true true, .eval false true]).1.st.state = .normal ∧
    EvalRowsOnly [.eval true true, .tick 2, .eval true false, .eval true true] := by decide

/-- the same statement WITHOUT the "evaluation rows only" hypothesis (kept visible) -/
def StateIsWindowFnOfAllRows : Prop :=
  ∀ (cfg : Cfg) (t0 : Nat) (ops : List Op), outcomes ops ≠ [] →
    ((runOps cfg (init t0) ops).1.st.state = .firing ↔ WindowFull cfg.n (outcomes ops))

/-- C20.1' it is false once a configuration change lies inside the window: with N = 2 the sequence
matched, config change, matched ends Pending although the last two outcomes are both matched -/
theorem state_is_window_fn_counterexample : ¬ StateIsWindowFnOfAllRows := by
  intro h
  have := h { window := 2, interval := 1, cooldown := 0, silence := 0 } 0
    [.eval true true, .cfgChange, .eval true true] (by decide)
  revert this
  decide

/-- C20.5 what a configuration-change row does, exactly: it leaves state and notification bookkeeping
alone and puts an Inactive row on top of the history … -/
theorem config_change_row (st : St) :
    configChange st = { st with hist := .inactive :: st.hist } ∧
    (configChange st).state = st.state ∧
    (configChange st).lastSentState = st.lastSentState ∧
    (configChange st).lastSentTime = st.lastSentTime := ⟨rfl, rfl, rfl, rfl⟩

/-- C20.5 … and that row restarts the window: from ANY prior situation `s` (any history, any state),
after a configuration change followed by evaluation rows only, the state is the window function of
the outcomes since the change — exactly as for a freshly created alert -/
theorem config_change_restarts_window (cfg : Cfg) (s : Sys) (ops : List Op)
    (hrows : EvalRowsOnly ops) (hne : outcomes ops ≠ []) :
    let s0 : Sys := { s with st := configChange s.st }
    ((runOps cfg s0 ops).1.st.state = .firing ↔ WindowFull cfg.n (outcomes ops)) ∧
    ((runOps cfg s0 ops).1.st.state = .pending ↔
        (outcomes ops).head? = some true ∧ ¬ WindowFull cfg.n (outcomes ops)) ∧
    ((runOps cfg s0 ops).1.st.state = .normal ↔ (outcomes ops).head? = some false) := by
  intro s0
  rw [Lemmas.C20.state_after_run cfg s0 ops (Lemmas.C20.barrier_inactive s.st.hist) hrows hne]
  exact Lemmas.C20.windowState_spec cfg.n (outcomes ops) hne

example : -- non-vacuous: N = 2; without the change the 2nd matched evaluation fires, with it only the 3rd does
    let cfg : Cfg := { window := 2, interval := 1, cooldown := 0, silence := 0 }
    (runOps cfg (init 0) [.eval true true, .eval true true]).1.st.state = .firing ∧
    (runOps cfg (init 0) [.eval true true, .cfgChange, .eval true true]).1.st.state = .pending ∧
    (runOps cfg (init 0) [.eval true true, .cfgChange, .eval true true, .eval true true]).1.st.state = .firing := by
  decide

/-- C20.2 no two delivered notifications are closer than the cool-down, nor closer than the silence
period — over every run (time only moves forward: `tick k` adds `k ≥ 0` minutes) -/
theorem no_two_sends_within_cooldown (cfg : Cfg) (t0 : Nat) (ops : List Op) :
    (sends (runOps cfg (init t0) ops).2).Pairwise
      (fun a b => a.time + cfg.cooldown ≤ b.time ∧ a.time + cfg.silence ≤ b.time) := by
  have h := (Lemmas.C20.spaced_run cfg ops (init t0) (by intro t ht; cases ht)).2
  have h2 := h.filter (fun o => o.notified)
  refine List.Pairwise.imp_of_mem ?_ h2
  intro a b ha hb hab
  have ha' := (List.mem_filter.1 ha).2
  have hb' := (List.mem_filter.1 hb).2
  exact hab ha' hb'

example : -- non-vacuous: cool-down 5; Firing at minute 0 is sent, at minute 4 suppressed, at minute 5 sent again
    let cfg : Cfg := { window := 1, interval := 1, cooldown := 5, silence := 0 }
    ((runOps cfg (init 0) [.eval true true, .tick 4, .eval true true, .tick 1, .eval true true]).2.map
      (fun o => (o.time, o.notified))) = [(0, true), (4, false), (5, true)] := by decide

/-- C20.3 every delivered notification is a Firing or a Normal one; the first one ever is Firing; and a
Normal notification directly follows a Firing notification (so between two Normal notifications there
is always a Firing one: at most one Normal notification per Firing episode) -/
theorem normal_sent_only_after_firing (cfg : Cfg) (t0 : Nat) (ops : List Op) :
    (∀ o ∈ sends (runOps cfg (init t0) ops).2, o.state = .firing ∨ o.state = .normal) ∧
    (∀ o rest, sends (runOps cfg (init t0) ops).2 = o :: rest → o.state = .firing) ∧
    (∀ pre a b post, sends (runOps cfg (init t0) ops).2 = pre ++ a :: b :: post →
        b.state = .normal → a.state = .firing) := by
  have h := Lemmas.C20.chain_run cfg ops (init t0) (by show AState.inactive ≠ AState.pending; decide)
  refine ⟨Lemmas.C20.chain_all h, ?_, ?_⟩
  · intro o rest he
    have h' : Lemmas.C20.chainOk (init t0).st.lastSentState (o :: rest) := by
      rw [← he]; exact h
    rcases Lemmas.C20.chain_head h' with h1 | h1
    · exact h1
    · exact absurd h1.2 (by show AState.inactive ≠ AState.firing; decide)
  · intro pre a b post he hb
    have h' : Lemmas.C20.chainOk (init t0).st.lastSentState (pre ++ a :: b :: post) := by
      rw [← he]; exact h
    rcases Lemmas.C20.chain_adjacent pre a b post h' with h1 | h1
    · rw [hb] at h1; cases h1
    · exact h1.2

example : -- non-vacuous: Firing is sent, the return to Normal is sent once, further Normal evaluations are silent
    let cfg : Cfg := { window := 1, interval := 1, cooldown := 0, silence := 0 }
    ((runOps cfg (init 0) [.eval false true, .eval true true, .eval false true, .eval false true]).2.map
      (fun o => (o.state, o.notified))) =
      [(.normal, false), (.firing, true), (.normal, true), (.normal, false)] := by decide

/-- C20.4 a Firing evaluation delivers its notification exactly when the transport works and either
nothing has been sent yet or both the cool-down and the silence period since the last delivery are over -/
theorem firing_notified_when_allowed (cfg : Cfg) (st : St) (now : Nat) (sendOk : Bool)
    (hf : (evalStep cfg st now true sendOk).2.state = .firing) :
    (evalStep cfg st now true sendOk).2.notified = true ↔
      sendOk = true ∧ (st.lastSentTime = none ∨
        ∃ t, st.lastSentTime = some t ∧ t + cfg.cooldown ≤ now ∧ t + cfg.silence ≤ now) := by
  have hs : shouldFire cfg.n st.hist = true := by
    cases h : shouldFire cfg.n st.hist
    · simp [evalStep, h] at hf
    · rfl
  cases hl : st.lastSentTime with
  | none => simp [evalStep, hs, notify, shouldSend, minutesOver, hl]
  | some t =>
    simp only [evalStep, hs, notify, shouldSend, minutesOver, hl, if_true]
    by_cases h1 : t + cfg.cooldown ≤ now <;> by_cases h2 : t + cfg.silence ≤ now <;> simp [h1, h2]

/-- C20.4' entering Firing: as long as nothing has been delivered since the alert was created, the
evaluation that makes the alert Firing delivers its notification whenever the transport works -/
theorem first_firing_notified (cfg : Cfg) (t0 : Nat) (ops : List Op)
    (hq : sends (runOps cfg (init t0) ops).2 = [])
    (hf : (runOps cfg (init t0) (ops ++ [.eval true true])).1.st.state = .firing) :
    ∃ o, (runOps cfg (init t0) (ops ++ [.eval true true])).2 = (runOps cfg (init t0) ops).2 ++ [o] ∧
      o.state = .firing ∧ o.notified = true := by
  have hquiet : ∀ o ∈ (runOps cfg (init t0) ops).2, o.notified = false := by
    intro o ho
    cases hn : o.notified
    · rfl
    · have : o ∈ sends (runOps cfg (init t0) ops).2 := List.mem_filter.2 ⟨ho, hn⟩
      rw [hq] at this; cases this
  have hlt := (Lemmas.C20.quiet_run cfg ops (init t0) hquiet).1
  have happ := Lemmas.C20.runOps_append cfg (init t0) ops [.eval true true]
  rw [happ] at hf ⊢
  let s1 := (runOps cfg (init t0) ops).1
  refine ⟨(evalStep cfg s1.st s1.now true true).2, by simp [runOps, stepOp, s1], ?_, ?_⟩
  · simpa [runOps, stepOp, evalStep, s1] using hf
  · have hf' : (evalStep cfg s1.st s1.now true true).2.state = .firing := by
      simpa [runOps, stepOp, evalStep, s1] using hf
    exact (firing_notified_when_allowed cfg s1.st s1.now true hf').2 ⟨rfl, Or.inl hlt⟩

example : -- non-vacuous: N = 2, second matched evaluation fires and is delivered; hypotheses of C20.4' hold
    let cfg : Cfg := { window := 2, interval := 1, cooldown := 10, silence := 3 }
    sends (runOps cfg (init 7) [.eval true true]).2 = [] ∧
    (runOps cfg (init 7) ([.eval true true] ++ [.eval true true])).1.st.state = .firing ∧
    (runOps cfg (init 7) ([.eval true true] ++ [.eval true true])).2.map (fun o => o.notified) = [false, true] := by
  decide

end SigModel.Props.C20


/-!
# C20, alert state machine ACROSS JOB LIFETIMES (model: SigModel/Model/AlertJob.lean; suite "alertjob",
harness/cmd/corr/c20_alertjob.go)

An alert exists three times at run time: the object the cron job captured when it was created (create,
restart = InitAlertingService, edit = ProcessUpdateAlertRequest), the all_alerts row, and the history /
notification tables.  The model mirrors which copy each decision reads.  For EVERY operation sequence
(evaluations, time, restarts, edits of window / interval, silence / unsilence requests, transport failures):
  J1. the answers and the database never depend on WHEN jobs were re-created: restarts may be inserted or
      removed at any position, and the fields of the captured object that are not its definition (State,
      SilenceMinutes — stale copies) are read by nothing;
  J2. C20.1 restated over sequences with restarts and silence changes: the state after an evaluation is the
      window function of the last N outcomes, N = window / interval of the DEFINITION;
  J3. an edit restarts the window with the NEW N, from any prior situation (whatever job object existed);
  J4. C20.2 / C20.3 / C20.4 restated over such sequences (cool-down spacing, Normal only directly after Firing,
      a Firing evaluation is notified exactly when transport, cool-down and the silence stored in the ROW allow).
-/
namespace SigModel.Props.C20.Job
open SigModel.Alert hiding Op
open SigModel.AlertJob

/-- outcomes (condition matched?) of the evaluations in an operation list, NEWEST FIRST -/
abbrev outcomes (ops : List Op) : List Bool := Lemmas.C20J.outcomes ops

/-- the operation list without its restarts -/
abbrev eraseRestarts (ops : List Op) : List Op := Lemmas.C20J.eraseRestarts ops

/-- no edit of the definition among the operations -/
def NoEdit (ops : List Op) : Prop := ∀ op ∈ ops, Lemmas.C20J.isEdit op = false

instance (ops : List Op) : Decidable (NoEdit ops) := by unfold NoEdit; infer_instance

/-- C20.J1 the state of an alert is a function of its DEFINITION and of the evaluation history only, not
of when its job object was (re-)created: two operation sequences on a freshly created alert that differ
only in their restarts (any number, at any positions — while Inactive, Pending, Firing or Normal) give the
same answer to every evaluation (state, notification) and leave the same database behind -/
theorem state_independent_of_job_recreation (window interval cooldown t0 : Nat) (ops ops' : List Op)
    (h : eraseRestarts ops = eraseRestarts ops') :
    let w := create window interval cooldown t0
    (run w ops).2 = (run w ops').2 ∧
    (run w ops).1.st = (run w ops').1.st ∧
    (run w ops).1.window = (run w ops').1.window ∧ (run w ops).1.interval = (run w ops').1.interval ∧
    (run w ops).1.silence = (run w ops').1.silence := by
  intro w
  have hs : Lemmas.C20J.Sync w := ⟨rfl, rfl⟩
  obtain ⟨a1, a2⟩ := Lemmas.C20J.run_erase ops w hs
  obtain ⟨b1, b2⟩ := Lemmas.C20J.run_erase ops' w hs
  have e : Lemmas.C20J.eraseRestarts ops = Lemmas.C20J.eraseRestarts ops' := h
  rw [e] at a1 a2
  have d := Lemmas.C20J.dbEq_trans a2 (Lemmas.C20J.dbEq_symm b2)
  exact ⟨a1.trans b1.symm, d.1, d.2.1, d.2.2.1, d.2.2.2.1⟩

/-- C20.J1' … and nothing reads the stale fields of the captured object: replace, in ANY world, the State
and SilenceMinutes the job object carries by arbitrary values — every later answer and the database are
the same (in particular "the captured State is Firing" can never be a reason to fire) -/
theorem job_stale_fields_unread (w : World) (staleState : AState) (staleSilence : Nat) (ops : List Op) :
    let w' : World := { w with job := { w.job with state := staleState, silence := staleSilence } }
    (run w ops).2 = (run w' ops).2 ∧ (run w ops).1.st = (run w' ops).1.st := by
  intro w'
  have d : Lemmas.C20J.DbEq w w' := ⟨rfl, rfl, rfl, rfl, rfl, rfl, rfl, rfl⟩
  obtain ⟨h1, h2⟩ := Lemmas.C20J.dbEq_run ops d
  exact ⟨h1, h2.1⟩

example : -- non-vacuous: N = 3, restart while Firing, then not-matched, matched: Pending and NOT notified,
          -- exactly as without the restart; the job captured at the restart did carry State = Firing
    let w := create 3 1 0 0
    let ops : List Op := [.eval true true, .eval true true, .eval true true, .restart, .eval false true, .eval true true]
    (run w (ops.take 4)).1.job.state = .firing ∧
    (run w ops).2.map (fun o => (o.state, o.notified)) =
      [(.pending, false), (.pending, false), (.firing, true), (.normal, true), (.pending, false)] ∧
    (run w (eraseRestarts ops)).2 = (run w ops).2 := by decide

/-- C20.J2 (C20.1 over sequences with restarts): on a freshly created alert, after any sequence of
evaluations, time steps, RESTARTS and silence / unsilence requests, the state is the window function of
the last N outcomes, N = window / interval — Firing iff the condition held in all of the last N
evaluations, Pending iff it held in the latest but not in all N, Normal iff it did not hold in the latest -/
theorem state_is_window_fn_across_restarts (window interval cooldown t0 : Nat) (ops : List Op)
    (hno : NoEdit ops) (hne : outcomes ops ≠ []) :
    let s := (run (create window interval cooldown t0) ops).1.st.state
    (s = .firing ↔ WindowFull (window / interval) (outcomes ops)) ∧
    (s = .pending ↔ (outcomes ops).head? = some true ∧ ¬ WindowFull (window / interval) (outcomes ops)) ∧
    (s = .normal ↔ (outcomes ops).head? = some false) := by
  intro s
  have h := Lemmas.C20J.state_after_run (create window interval cooldown t0) ops ⟨rfl, rfl⟩
    Lemmas.C20.barrier_nil hno hne
  have hs : s = Lemmas.C20.windowState (window / interval) (outcomes ops) := h
  rw [hs]
  exact Lemmas.C20.windowState_spec (window / interval) (outcomes ops) hne

/-- C20.J3 an accepted edit restarts the window with the NEW definition: from ANY world (any history, any
state, any job object), after the edit and then evaluations, time steps, restarts and silence changes, the
state is the window function — for N = new window / new interval — of the outcomes since the edit -/
theorem edit_restarts_window (w : World) (window interval : Nat) (ops : List Op)
    (hacc : editAccepted window interval = true) (hno : NoEdit ops) (hne : outcomes ops ≠ []) :
    let s := (run (step w (.edit window interval)).1 ops).1.st.state
    (s = .firing ↔ WindowFull (window / interval) (outcomes ops)) ∧
    (s = .pending ↔ (outcomes ops).head? = some true ∧ ¬ WindowFull (window / interval) (outcomes ops)) ∧
    (s = .normal ↔ (outcomes ops).head? = some false) := by
  intro s
  have e1 : (step w (.edit window interval)).1.window = window := by simp [step, hacc]
  have e2 : (step w (.edit window interval)).1.interval = interval := by simp [step, hacc]
  have e3 : Lemmas.C20J.Sync (step w (.edit window interval)).1 := by
    simp [Lemmas.C20J.Sync, step, hacc, capture]
  have e4 : Lemmas.C20.Barrier (step w (.edit window interval)).1.st.hist := by
    have : (step w (.edit window interval)).1.st.hist = .inactive :: w.st.hist := by
      simp [step, hacc, configChange]
    rw [this]; exact Lemmas.C20.barrier_inactive w.st.hist
  have h := Lemmas.C20J.state_after_run (step w (.edit window interval)).1 ops e3 e4 hno hne
  rw [e1, e2] at h
  have hs : s = Lemmas.C20.windowState (window / interval) (outcomes ops) := h
  rw [hs]
  exact Lemmas.C20.windowState_spec (window / interval) (outcomes ops) hne

example : -- non-vacuous: edit N 2 → 3 while Firing (the new job captures State = Firing): three matched evaluations are needed again
    let w := (run (create 2 1 0 0) [.eval true true, .eval true true]).1
    w.st.state = .firing ∧ (step w (.edit 3 1)).1.job.state = .firing ∧ editAccepted 3 1 = true ∧
    (run (step w (.edit 3 1)).1 [.eval true true, .restart, .eval true true]).1.st.state = .pending ∧
    (run (step w (.edit 3 1)).1 [.eval true true, .restart, .eval true true, .silence 5, .eval true true]).1.st.state = .firing ∧
    NoEdit [.eval true true, .restart, .eval true true, .silence 5, .eval true true] := by decide

/-- C20.J4a (C20.2 over such sequences): no two delivered notifications are closer than the cool-down,
whatever restarts, edits and silence requests lie between them -/
theorem no_two_sends_within_cooldown_across_restarts (window interval cooldown t0 : Nat) (ops : List Op) :
    (sends (run (create window interval cooldown t0) ops).2).Pairwise
      (fun a b => a.time + cooldown ≤ b.time) := by
  have h := (Lemmas.C20J.spaced_run ops (create window interval cooldown t0) (by intro t ht; cases ht)).2
  have h2 := h.filter (fun o => o.notified)
  refine List.Pairwise.imp_of_mem ?_ h2
  intro a b ha hb hab
  exact hab (List.mem_filter.1 ha).2 (List.mem_filter.1 hb).2

/-- C20.J4b (C20.3 over such sequences): every delivered notification is a Firing or a Normal one, the first
one ever is Firing, and a Normal notification directly follows a Firing one — one notification per
transition, also when the job was re-created in between -/
theorem normal_sent_only_after_firing_across_restarts (window interval cooldown t0 : Nat) (ops : List Op) :
    let ss := sends (run (create window interval cooldown t0) ops).2
    (∀ o ∈ ss, o.state = .firing ∨ o.state = .normal) ∧
    (∀ o rest, ss = o :: rest → o.state = .firing) ∧
    (∀ pre a b post, ss = pre ++ a :: b :: post → b.state = .normal → a.state = .firing) := by
  intro ss
  have h : Lemmas.C20.chainOk AState.inactive ss :=
    Lemmas.C20J.chain_run ops (create window interval cooldown t0) (by show AState.inactive ≠ AState.pending; decide)
  refine ⟨Lemmas.C20.chain_all h, ?_, ?_⟩
  · intro o rest he
    rw [he] at h
    rcases Lemmas.C20.chain_head h with h1 | h1
    · exact h1
    · exact absurd h1.2 (by decide)
  · intro pre a b post he hb
    rw [he] at h
    rcases Lemmas.C20.chain_adjacent pre a b post h with h1 | h1
    · rw [hb] at h1; cases h1
    · exact h1.2

/-- C20.J4c (C20.4 over such sequences): in ANY world an evaluation that ends Firing delivers its
notification exactly when the transport works and either nothing was delivered yet or both the cool-down
and the silence period CURRENTLY STORED IN THE ROW have passed since the last delivery -/
theorem firing_notified_when_allowed_job (w : World) (sendOk : Bool) (o : Out)
    (ho : (step w (.eval true sendOk)).2 = some o) (hf : o.state = .firing) :
    o.notified = true ↔
      sendOk = true ∧ (w.st.lastSentTime = none ∨
        ∃ t, w.st.lastSentTime = some t ∧ t + w.cooldown ≤ w.now ∧ t + w.silence ≤ w.now) := by
  have ho' : o = (evalStep (jobCfg w) w.st w.now true sendOk).2 := by
    simp [step] at ho; exact ho.symm
  subst ho'
  exact SigModel.Props.C20.firing_notified_when_allowed (jobCfg w) w.st w.now sendOk hf

example : -- non-vacuous: silence requested AFTER the job was created is honoured (it is read from the row);
          -- the Normal notification held back by it is delivered once it is over, also across a restart; a failed
          -- delivery leaves nothing to recover from
    (run (create 1 1 0 0) [.eval true true, .silence 10, .tick 3, .eval false true, .restart, .tick 7, .eval false true,
        .eval false true]).2.map (fun o => (o.state, o.notified)) =
      [(.firing, true), (.normal, false), (.normal, true), (.normal, false)] ∧
    (run (create 1 1 0 0) [.eval true false, .restart, .eval false true]).2.map (fun o => (o.state, o.notified)) =
      [(.firing, false), (.normal, false)] := by decide

end SigModel.Props.C20.Job


/-!
# C20, the SET of alerts and their cron jobs (model: SigModel/Model/AlertSet.lean; op lines `ajs` of suite "alertjob")

Mirrors the create / update / delete handlers and `InitAlertingService` WITH patches c20-10 (EvalInterval = 0 is
refused before anything is written), c20-11 (`InitAlertingService` skips an alert it cannot schedule instead of
returning) and c20-12 (an unknown alert type is refused before anything is written).  For EVERY operation sequence:
  S1. a refused request changes nothing: neither the stored alerts nor the jobs (in particular a refused create
      stores nothing);
  S2. after a restart — at any position, whatever rows the database holds, also rows no request can produce any more
      — every stored alert that can be scheduled has exactly one job and nothing else has one: one unschedulable row
      cannot take the job of another alert away;
  S3. alerts stored through the requests alone can always be scheduled, so after a restart EVERY stored alert has
      exactly one job.
The behaviour before the patches (`stepOld`) is refuted for S1 and S2 by counterexample theorems.
-/
namespace SigModel.Props.C20.JobSet
open SigModel.AlertSet

/-- no row is rewritten behind the API -/
def RequestsOnly (ops : List Op) : Prop := ∀ op ∈ ops, Lemmas.C20S.isLegacy op = false

instance (ops : List Op) : Decidable (RequestsOnly ops) := by unfold RequestsOnly; infer_instance

/-- C20.S1 a refused request changes nothing — in ANY state: the stored alerts and the jobs are the same after it
(a refused create stores nothing, a refused update keeps definition and job, a refused delete deletes nothing) -/
theorem refused_request_changes_nothing (s : St) (op : Op) (h : (step s op).2 = .refused) :
    (step s op).1.rows = s.rows ∧ (step s op).1.jobs = s.jobs := by
  cases op with
  | create w i =>
    by_cases ha : accepted w i 1 = true
    · simp [step, createRow, ha] at h
    · simp [step, createRow, ha]
  | createMetrics w i =>
    by_cases ha : accepted w i 2 = true
    · simp [step, createRow, ha] at h
    · simp [step, createRow, ha]
  | createTyped t =>
    by_cases ha : accepted 1 1 t = true
    · simp [step, createRow, ha] at h
    · simp [step, createRow, ha]
  | edit k w i =>
    by_cases hc : (hasRow s k && accepted w i 1) = true
    · simp [step, hc] at h
    · simp [step, hc]
  | delete k =>
    by_cases hc : hasRow s k = true
    · simp [step, hc] at h
    · simp [step, hc]
  | legacyInterval k => simp [step] at h
  | legacyType k => simp [step] at h
  | restart => simp [step] at h

/-- C20.S1' … spelled out for the creation of a Logs alert: the request is refused exactly when the interval is 0,
the window is shorter than the interval, or (patch c20-17) the interval does not fit the scheduler's time.Duration —
and then nothing is stored -/
theorem refused_create_stores_nothing (s : St) (window interval : Nat) :
    ((step s (.create window interval)).2 = .refused ↔ (interval = 0 ∨ window < interval ∨ maxInterval < interval)) ∧
    ((step s (.create window interval)).2 = .refused →
      (step s (.create window interval)).1.rows = s.rows ∧ (step s (.create window interval)).1.jobs = s.jobs) := by
  refine ⟨?_, refused_request_changes_nothing s (.create window interval)⟩
  by_cases ha : accepted window interval 1 = true
  · have ha' := ha
    simp only [accepted, Bool.and_eq_true, bne_iff_ne, ne_eq, Bool.not_eq_true', decide_eq_false_iff_not,
      decide_eq_true_eq] at ha'
    simp only [step, createRow, ha, if_true]
    constructor
    · intro h; cases h
    · rintro (h | h | h)
      · exact absurd h ha'.1.1.1
      · exact absurd h ha'.1.1.2
      · exact absurd ha'.2 (Nat.not_le.2 h)
  · simp only [step, createRow, ha]
    have : ¬ (interval ≠ 0 ∧ ¬ window < interval ∧ interval ≤ maxInterval) := by
      intro hc; apply ha; simp [accepted, hc.1, hc.2.1, hc.2.2]
    constructor
    · intro _
      by_cases h0 : interval = 0
      · exact Or.inl h0
      · by_cases h1 : window < interval
        · exact Or.inr (Or.inl h1)
        · exact Or.inr (Or.inr (Nat.lt_of_not_le fun hle => this ⟨h0, h1, hle⟩))
    · intro _; rfl

/-- C20.S2 a restart re-arms every alert: after ANY operation sequence (requests, restarts, rows rewritten behind
the API) a restart leaves exactly one job for every stored alert that can be scheduled and no other job — an
alert that cannot be scheduled costs no other alert its job -/
theorem restart_rearms_every_alert (ops : List Op) :
    let s := (run init ops).1
    (step s .restart).1.jobs.Nodup ∧
    ∀ k, k ∈ (step s .restart).1.jobs ↔ ∃ r ∈ s.rows, r.idx = k ∧ schedulable r = true := by
  intro s
  exact ⟨Lemmas.C20S.restart_jobs_nodup s (Lemmas.C20S.inv_run ops init Lemmas.C20S.inv_init),
    Lemmas.C20S.mem_restart_jobs s⟩

/-- C20.S3 after any sequence of REQUESTS and restarts every stored alert can be scheduled; hence after a restart
every stored alert has exactly one job -/
theorem restart_rearms_every_stored_alert (ops : List Op) (hr : RequestsOnly ops) :
    let s := (run init ops).1
    (∀ r ∈ s.rows, schedulable r = true) ∧
    (step s .restart).1.jobs.Nodup ∧
    ∀ k, k ∈ (step s .restart).1.jobs ↔ ∃ r ∈ s.rows, r.idx = k := by
  intro s
  have hall : ∀ r ∈ s.rows, schedulable r = true :=
    Lemmas.C20S.allSched_run ops init hr (by intro r h; cases h)
  refine ⟨hall, (restart_rearms_every_alert ops).1, ?_⟩
  intro k
  rw [(restart_rearms_every_alert ops).2 k]
  constructor
  · rintro ⟨r, hr, hk, _⟩; exact ⟨r, hr, hk⟩
  · rintro ⟨r, hr, hk⟩; exact ⟨r, hr, hk, hall r hr⟩

/-- C20.S4 (patch c20-17) the cron job of an accepted alert runs at the interval of its DEFINITION: for every
accepted window / interval / type the seconds `AddCronJob` computes — `int(EvalInterval*60)`, a uint64 product
converted to a 64-bit int — are EvalInterval·60, unwrapped, and that many seconds fit a time.Duration -/
theorem accepted_interval_is_job_interval (window interval type : Nat) (h : accepted window interval type = true) :
    cronSeconds interval = Int.ofNat (interval * 60) ∧ interval * 60 * 10 ^ 9 < 2 ^ 63 := by
  simp only [accepted, Bool.and_eq_true, decide_eq_true_eq] at h
  have hb : interval ≤ 153722867 := h.2
  have h1 : interval * 60 < 2 ^ 63 := by omega
  have h2 : (interval * 60) % 2 ^ 64 = interval * 60 := Nat.mod_eq_of_lt (by omega)
  refine ⟨?_, by omega⟩
  unfold cronSeconds
  simp only [h2, h1, if_true]

/-- OLD behaviour (before patch c20-17) REFUTED: an alert with eval_interval = eval_for = 307445734561825861 minutes
passed every test and its cron job ran every 44 SECONDS (the product wraps around 2^64); with 153722867280912931
minutes the product is negative as an int, gocron refused it, and the request was answered with an error AFTER the
alert had been stored -/
theorem job_interval_wraps_old_counterexample :
    acceptedOld 307445734561825861 307445734561825861 1 = true ∧ cronSeconds 307445734561825861 = 44 ∧
    (stepOld init (.create 307445734561825861 307445734561825861)).2 = .ok ∧
    (stepOld init (.create 153722867280912931 153722867280912931)).2 = .refused ∧
    (stepOld init (.create 153722867280912931 153722867280912931)).1.rows ≠ init.rows ∧
    (step init (.create 307445734561825861 307445734561825861)) = ({ init with next := 2 }, .refused) ∧
    (step init (.create 153722867280912931 153722867280912931)) = ({ init with next := 2 }, .refused) := by decide

example : -- Metrics alerts are stored and scheduled like Logs alerts; the longest interval that fits is accepted
    (run init [.createMetrics 2 1, .createMetrics 0 0, .create 153722867 153722867, .create 153722868 153722868,
      .restart]).1 =
      { next := 5, rows := [⟨1, 2, 1, 2⟩, ⟨3, 153722867, 153722867, 1⟩], jobs := [1, 3] } := by decide

example : -- non-vacuous: refused creates (interval 0, window < interval, type 0) store nothing; a row rewritten to
          -- interval 0 loses its own job at the restart, the alerts stored after it keep theirs
    (run init [.create 1 1, .create 0 0, .create 1 2, .createTyped 0, .create 4 2, .restart]).1 =
      { next := 6, rows := [⟨1, 1, 1, 1⟩, ⟨5, 4, 2, 1⟩], jobs := [1, 5] } ∧
    (run init [.create 1 1, .create 2 1, .create 3 1, .legacyInterval 2, .restart]).1.jobs = [1, 3] ∧
    (run init [.create 1 1, .create 2 1, .create 3 1, .legacyType 1, .restart, .edit 1 5 5, .edit 2 0 0, .delete 3,
        .delete 3]) =
      ({ next := 4, rows := [⟨1, 5, 5, 1⟩, ⟨2, 2, 1, 1⟩], jobs := [2, 1] }, [.ok, .ok, .ok, .none, .none, .ok, .refused, .ok, .refused]) ∧
    RequestsOnly [.create 1 1, .create 0 0, .create 1 2, .createTyped 0, .create 4 2, .restart] := by decide

/-- OLD behaviour (before patches c20-10 / c20-12) REFUTED for S1: a create request with window 0 and interval 0
— or with an unknown alert type — was answered with an error and the alert was stored nevertheless -/
theorem refused_create_stores_nothing_old_counterexample :
    ¬ (∀ (s : St) (op : Op), (stepOld s op).2 = .refused → (stepOld s op).1.rows = s.rows) := by
  intro h
  have h1 := h init (.create 0 0) (by decide)
  revert h1
  decide

theorem refused_create_unknown_type_old_counterexample :
    (stepOld init (.createTyped 0)).2 = .refused ∧ (stepOld init (.createTyped 0)).1.rows ≠ init.rows := by decide

/-- OLD behaviour (before patch c20-11) REFUTED for S2: `InitAlertingService` returned at the first alert it could
not schedule — after create, refused create (0/0, stored), create, a restart left the third alert without a job -/
theorem restart_rearms_every_alert_old_counterexample :
    ¬ (∀ ops : List Op, let s := (runOld init ops).1
        ∀ k, (∃ r ∈ s.rows, r.idx = k ∧ schedulable r = true) → k ∈ (stepOld s .restart).1.jobs) := by
  intro h
  have h1 := h [.create 1 1, .create 0 0, .create 1 1] 3 (by decide)
  revert h1
  decide

end SigModel.Props.C20.JobSet


/-!
# C20, keyed-store half (model: SigModel/Model/KV.lean; suite "kv", harness/cmd/corr/c20_kv.go)

Specification: `Spec T K V := T → K → Option V`, (tenant, key) ↦ last written value.  Per store an
implementation-shaped model (`step`, `abs`) mirroring the Go code as it is.  For each modelled store:
  (1) `kv_refines_spec_<store>`   for EVERY operation sequence every answer is the documented one for
      the abstract state and `abs` commutes with every step;
  (2) `reload_persist_id_<store>` a restart (new process, state re-read from the files) is the identity
      on what reads return, in every reachable state;
  (3) `tenant_frame_<store>`      an operation of tenant t leaves every other tenant's state unchanged.
Where the code violates a statement: `…_counterexample` (concrete witness, replayed on the real code by
corpus/kv.ops), `…_partial` under an explicit decidable guard, and an `example` that the guard is
satisfiable.
-/
namespace SigModel.Props.C20.KV
open SigModel.KV

/-! ## saved queries (pkg/usersavedqueries) — all three statements hold at full strength -/
section Usq
open SigModel.KV.Usq
variable {V : Type}

/-- C20.K1 (saved queries): for EVERY sequence of save / delete / search / list / restart operations on
any tenants, and for EVERY outcome `b` of the mtime-vs-last-read clock race at each operation, every
answer is the documented one for the abstract keyed store (save = upsert, rejected for the empty name;
delete = not-found exactly when absent; search = the entries whose name contains the text; list = all
entries of the tenant), and `abs` commutes with every step. -/
theorem kv_refines_spec_usq (ops : List (Op V × Bool)) : Refines (Spec.empty) (init : St V) ops := by
  have h := Lemmas.C20K.Usq.refines_of_inv ops (init : St V) Lemmas.C20K.Usq.inv_init
  rwa [Lemmas.C20K.Usq.abs_init] at h

/-- C20.K2 (saved queries): in every reachable state the memory image of every tenant that was loaded
equals its file image, so what a read sees (`view`) is exactly the file content … -/
theorem mem_image_eq_file_image_usq (ops : List (Op V × Bool)) (t : Nat) :
    view (run (init : St V) ops).1 t = (run (init : St V) ops).1.file t :=
  Lemmas.C20K.Usq.view_eq_file (Lemmas.C20K.Usq.inv_run ops _ Lemmas.C20K.Usq.inv_init) t

/-- … and therefore a restart at ANY position is the identity on what reads return. -/
theorem reload_persist_id_usq (ops : List (Op V × Bool)) (b : Bool) :
    abs (step (run (init : St V) ops).1 .restart b).1 = abs (run (init : St V) ops).1 :=
  (Lemmas.C20K.Usq.step_ok (Lemmas.C20K.Usq.inv_run ops _ Lemmas.C20K.Usq.inv_init) .restart b).2.1

/-- C20.K3 (saved queries): an operation of tenant `t` leaves what every other tenant reads unchanged,
in every reachable state. -/
theorem tenant_frame_usq (ops : List (Op V × Bool)) (op : Op V) (b : Bool) (t : Nat)
    (ht : op.tenant = some t) (t' : Nat) (hne : t' ≠ t) (k : Key) :
    abs (step (run (init : St V) ops).1 op b).1 t' k = abs (run (init : St V) ops).1 t' k := by
  have h := (Lemmas.C20K.Usq.step_ok (Lemmas.C20K.Usq.inv_run ops _ Lemmas.C20K.Usq.inv_init) op b).2.1
  rw [h]
  cases op with
  | put t0 k0 v =>
    simp only [Op.tenant, Option.some.injEq] at ht; subst ht
    simp only [specStep]; split
    · rfl
    · simp [Spec.put, Spec.set, hne]
  | del t0 k0 =>
    simp only [Op.tenant, Option.some.injEq] at ht; subst ht
    simp only [specStep, Spec.delete]; split <;> simp [Spec.set, hne]
  | search t0 q => rfl
  | list t0 => rfl
  | restart => rfl

example : -- non-vacuous: two tenants, a restart in the middle, a clock race at every step
    (run (init : St Nat) [(.put 1 [97] 5, false), (.put 0 [97, 98] 6, true), (.restart, true), (.search 0 [98], false),
      (.del 1 [97], true), (.list 1, false), (.put 1 [] 7, false), (.del 0 [99], false)]).2 =
    [.res .ok, .res .ok, .restarted, .entries [([97, 98], 6)], .res .ok, .entries [], .res .invalid, .res .notFound] := by
  decide
end Usq

/-! ## index aliases (pkg/virtualtable) — with patches c20-1 (the alias files of org 0 are read at restart),
c20-2 (an emptied inner map is dropped) and c20-9 (the shutdown flush adds what an index' alias file lacks
instead of writing the inverted relation) all three statements hold at full strength, graceful restarts
included; the behaviour before the patches (`stepOld`, `stepOldFlush`) is refuted by the counterexample
theorems -/
section Alias
open SigModel.KV.Alias

/-- C20.K1 (aliases): for EVERY sequence of add / remove / get / list / resolve / restart / graceful restart on any tenants,
every answer — including list and resolve, which are read from the in-memory inverse map
`aliasToIndexNames` — is the documented one for the abstract keyed store (org, index) ↦ alias set, and
`abs` commutes with every step. -/
theorem kv_refines_spec_alias (ops : List Op) : Refines Spec.empty init ops := by
  have h := Lemmas.C20K.Alias.refines_of_memOk ops init Lemmas.C20K.Alias.memOk_init
  rwa [Lemmas.C20K.Alias.abs_init] at h

/-- OLD behaviour (before patch c20-2) REFUTED: after the only index of an alias was removed,
`GetAllAliasesAsMapArray` still listed the alias (with no index) — `RemoveAliases` deleted the index from
the alias' inner map but kept the inner map. -/
theorem kv_refines_spec_alias_old_counterexample_removal :
    ¬ (∀ ops, RefinesOld Spec.empty init ops) := by
  intro h
  have h1 := h [.add 1 [105] [97], .remove 1 [105] [97], .list 1]
  simp only [RefinesOld, RefinesWith] at h1
  obtain ⟨_, _, _, _, h2, _⟩ := h1
  have h3 : (stepOld (stepOld (stepOld init (.add 1 [105] [97])).1 (.remove 1 [105] [97])).1 (.list 1)).2 = .amap [([97], [])] := by decide
  rw [h3] at h2
  exact (h2.2.1 [97] [] (by simp)).1 rfl

/-- OLD behaviour (before patch c20-1) REFUTED: after a restart the aliases of org 0 no longer resolved —
`initializeAliasToIndexMap` walked only the DIRECTORIES of the alias directory, and the alias files of
org 0 lie at its top level. -/
theorem kv_refines_spec_alias_old_counterexample_restart :
    ¬ (∀ ops, RefinesOld Spec.empty init ops) := by
  intro h
  have h1 := h [.add 0 [105] [97], .restart, .resolve 0 [97]]
  simp only [RefinesOld, RefinesWith] at h1
  obtain ⟨_, _, _, _, h2, _⟩ := h1
  have h3 : (stepOld (stepOld (stepOld init (.add 0 [105] [97])).1 .restart).1 (.resolve 0 [97])).2 = .target [] := by decide
  rw [h3] at h2
  have h4 := (h2 [105]).2 ⟨by simp, by
    simp only [specStep, Spec.has]
    decide⟩
  cases h4

/-- C20.K2 (aliases): a restart at ANY position — a plain one (`restart`) or one after a graceful shutdown
(`graceful`: `FlushAliasMapToFile`, then a new process) — is the identity on the alias files (`abs`) and on
the memory view (what list / resolve answer from). -/
theorem reload_persist_id_alias (ops : List Op) (op : Op) (hop : op = .restart ∨ op = .graceful) :
    abs (step (run init ops).1 op).1 = abs (run init ops).1 ∧
    ∀ t a i, memView (step (run init ops).1 op).1 t a i ↔ memView (run init ops).1 t a i := by
  have hm := Lemmas.C20K.Alias.memOk_run ops init Lemmas.C20K.Alias.memOk_init
  have hm2 := Lemmas.C20K.Alias.step_memOk hm op
  have habs := Lemmas.C20K.Alias.abs_step hm op
  refine ⟨?_, fun t a i => ?_⟩
  · rw [habs]; rcases hop with rfl | rfl <;> rfl
  · have e1 := hm2.inverse t a i
    have e2 := hm.inverse t a i
    have hfv : Lemmas.C20K.Alias.fv (step (run init ops).1 op).1.files t i a ↔
        Lemmas.C20K.Alias.fv (run init ops).1.files t i a := by
      have := congrFun (congrFun habs t) i
      rcases hop with rfl | rfl
      · exact Iff.rfl
      · simp only [specStep, abs] at this
        unfold Lemmas.C20K.Alias.fv; rw [this]
    exact e1.trans ((and_congr Iff.rfl hfv).trans e2.symm)

/-- OLD behaviour (before patch c20-9) REFUTED: at graceful shutdown `FlushAliasMapToFile` wrote, for every
alias, a file NAMED like the alias holding the INDEX names (`writeAliasFile(&alias, indexNames, org)`); the
next start read it as the alias file of an index: the index name came back as an alias of an "index" named
like the alias (and an index that really had that name lost its own aliases). -/
theorem reload_persist_id_alias_old_counterexample_shutdown_flush :
    ¬ (∀ ops t a i, memView (stepOldFlush (run init ops).1 .graceful).1 t a i ↔ memView (run init ops).1 t a i) := by
  intro h
  have h1 := (h [.add 0 [105] [97]] 0 [105] [97]).1 (by unfold memView; decide)
  revert h1; unfold memView; decide

/-- … and the refinement statement for that behaviour is refuted as well: after `add index i alias a`
and a graceful restart, `i` resolved as an alias (of "index" `a`). -/
theorem kv_refines_spec_alias_old_counterexample_shutdown_flush :
    ¬ (∀ ops, RefinesOldFlush Spec.empty init ops) := by
  intro h
  have h1 := h [.add 0 [105] [97], .graceful, .resolve 0 [105]]
  simp only [RefinesOldFlush, RefinesWith] at h1
  obtain ⟨_, _, _, _, h2, _⟩ := h1
  have h3 : (stepOldFlush (stepOldFlush (stepOldFlush init (.add 0 [105] [97])).1 .graceful).1 (.resolve 0 [105])).2
      = .target [[97]] := by decide
  rw [h3] at h2
  have h4 := (h2 [97]).1 (by simp)
  revert h4
  simp only [specStep, Spec.has]
  decide

/-- OLD behaviour (before patch c20-1) REFUTED: the aliases of org 0 were gone from the memory view after
a restart. -/
theorem reload_persist_id_alias_old_counterexample :
    ¬ (∀ ops t a i, memView (stepOld (runOld init ops).1 .restart).1 t a i ↔ memView (runOld init ops).1 t a i) := by
  intro h
  have h1 := (h [.add 0 [105] [97]] 0 [97] [105]).2 (by unfold memView; decide)
  revert h1; unfold memView; decide

/-- The ES `_aliases` request (patches c20-20 / c20-21): whatever the actions, the state after a request
is the state after a sequence of add / remove operations — the flattened actions up to and including the
first refused one.  So every state reachable through requests is reachable through operations, and all
theorems about operation sequences (refinement, restart identity, tenant frame) cover it. -/
theorem alias_request_is_run (ops : List Op) (t : Nat) (acts : List Act) :
    ∃ ops', (post (run init ops).1 t acts).1 = (run init ops').1 :=
  ⟨ops ++ executed (run init ops).1 (acts.flatMap (actOps t)), by
    rw [Lemmas.C20K.Alias.run_append]; exact Lemmas.C20K.Alias.post_is_run _ _⟩

/-- acknowledged ⇒ stored: an acknowledged request held no unreadable action and EVERY operation of EVERY
action (each index of an `indices` list included) was executed and answered ok. -/
theorem alias_request_acknowledged_all_applied (st : St) (t : Nat) (acts : List Act)
    (h : (post st t acts).2 = true) :
    Act.refuse ∉ acts ∧
    executed st (acts.flatMap (actOps t)) = (acts.flatMap (actOps t)).filterMap id ∧
    (post st t acts).1 = (run st ((acts.flatMap (actOps t)).filterMap id)).1 := by
  obtain ⟨h1, h2⟩ := Lemmas.C20K.Alias.post_ack _ st h
  refine ⟨?_, h2, ?_⟩
  · intro hm
    apply h1
    simp only [List.mem_flatMap]
    exact ⟨.refuse, hm, by simp [actOps]⟩
  · rw [← h2]; exact Lemmas.C20K.Alias.post_is_run _ _

/-- a refused action is never acknowledged. -/
theorem alias_request_refused_not_acknowledged (st : St) (t : Nat) (acts : List Act) (h : Act.refuse ∈ acts) :
    (post st t acts).2 = false := by
  cases hk : (post st t acts).2 with
  | false => rfl
  | true => exact absurd h (alias_request_acknowledged_all_applied st t acts hk).1

/-- OLD behaviour (before patch c20-20) REFUTED: an add action in the `indices` form was acknowledged and
stored nothing. -/
theorem alias_request_old_counterexample_indices :
    ¬ (∀ (st : St) (t : Nat) (acts : List Act), (postOld st t acts).2 = true →
        (postOld st t acts).1 = (run st ((acts.flatMap (actOps t)).filterMap id)).1) := by
  intro h
  have h1 := congrArg (fun s => abs s 0 [105]) (h init 0 [.addMany [[105], [106]] [97]] rfl)
  revert h1; decide

/-- OLD behaviour (before patch c20-21) REFUTED: a request with an action the handler could not read (or
refused) was answered `acknowledged`. -/
theorem alias_request_old_counterexample_refused :
    ¬ (∀ (st : St) (t : Nat) (acts : List Act), Act.refuse ∈ acts → (postOld st t acts).2 = false) := by
  intro h
  have h1 := h init 0 [.refuse] (by simp)
  revert h1; decide

example : -- non-vacuous: index and indices forms, an invalid name stops the request after the first index of the list
    ((post init 0 [.add [105] [97], .addMany [[105], [106]] [98]]).2,
     (step (post init 0 [.add [105] [97], .addMany [[105], [106]] [98]]).1 (.list 0)).2,
     (post init 0 [.addMany [[105], [46], [106]] [97], .add [107] [97]]).2,
     (step (post init 0 [.addMany [[105], [46], [106]] [97], .add [107] [97]]).1 (.list 0)).2,
     (post init 0 [.add [105] [97], .refuse, .add [106] [97]]).2,
     (post init 0 [.remove [105] [97]]).2) =
    (true, .amap [([97], [[105]]), ([98], [[105], [106]])], false, .amap [([97], [[105]])], false, false) := by decide

/-- C20.K3 (aliases): an operation of tenant `t` changes neither the alias files nor the memory view of
any other tenant — in ANY state (the maps are keyed by org; nothing is shared). -/
theorem tenant_frame_alias (st : St) (op : Op) (t : Nat) (ht : op.tenant = some t) (t' : Nat) (hne : t' ≠ t) :
    (∀ i, abs (step st op).1 t' i = abs st t' i) ∧
    (∀ a i, memView (step st op).1 t' a i ↔ memView st t' a i) :=
  Lemmas.C20K.Alias.frame st op t ht t' hne

/-- C20.K4 (aliases), WITH patch c20-14 (AddAliases refuses an alias that is not a valid index name): after EVERY
operation sequence every stored alias name is a valid name … -/
theorem alias_names_valid (ops : List Op) (t : Nat) (i a : Key)
    (hf : a ∈ ((run init ops).1.files.get (t, i)).getD []) : validIndex a = true :=
  (Lemmas.C20K.Alias.memOk_run ops init Lemmas.C20K.Alias.memOk_init).aliasValid t i a hf

/-- … and the two views of the store — the index' alias file (`GetAliases`) and the in-memory alias→index map
(list / resolve) — agree on EVERY pair, with no exception for the empty alias name any more. -/
theorem alias_views_agree (ops : List Op) (t : Nat) (a i : Key) :
    memView (run init ops).1 t a i ↔ a ∈ ((run init ops).1.files.get (t, i)).getD [] := by
  have h := Lemmas.C20K.Alias.memOk_run ops init Lemmas.C20K.Alias.memOk_init
  constructor
  · intro hm; exact ((h.inverse t a i).1 hm).2
  · intro hf
    exact (h.inverse t a i).2 ⟨Lemmas.C20K.Alias.validIndex_ne_nil (h.aliasValid t i a hf), hf⟩

/-- OLD behaviour (before patch c20-14) REFUTED: the EMPTY alias was acknowledged and written into the index' file
(returned by `GetAliases`) but never entered the in-memory map (`putAliasToIndexInMem` refuses it): the two
views disagreed for ever. -/
theorem alias_views_agree_old_counterexample :
    ¬ (∀ (ops : List Op) (t : Nat) (a i : Key),
        memView (runOldAnyAlias init ops).1 t a i ↔ a ∈ ((runOldAnyAlias init ops).1.files.get (t, i)).getD []) := by
  intro h
  have h1 := (h [.add 0 [105] []] 0 [] [105]).2 (by decide)
  revert h1; unfold memView; decide

example : -- the add request is refused for an empty alias, "..", and a name with a path separator; nothing is stored
    (run init [.add 0 [105] [], .add 0 [105] [46, 46], .add 0 [105] [97, 47, 98], .get 0 [105], .list 0]).2 =
    [.res .invalid, .res .invalid, .res .invalid, .names [], .amap []] := by decide

example : -- non-vacuous run of the alias model: removal of the last index, restart and graceful restart, orgs 0 and 1
    (run init [.add 0 [105] [97], .add 0 [106] [97], .resolve 0 [97], .remove 0 [105] [97], .remove 0 [106] [97],
      .list 0, .add 0 [105] [98], .add 1 [105] [98], .restart, .resolve 0 [98], .graceful, .resolve 1 [98],
      .resolve 0 [105], .get 0 [105], .get 0 [98]]).2 =
    [.res .ok, .res .ok, .target [[105], [106]], .res .ok, .res .ok, .amap [], .res .ok, .res .ok, .restarted,
      .target [[105]], .gracefulRestarted, .target [[105]], .target [], .names [[98]], .names []] := by decide
end Alias

/-! ## lookup files (pkg/lookups) — one directory per org (WITH patch c13-1, PENDING: org 0 keeps `<data>/lookups/`, every
other org has the sub-directory named after it; before the patch the handlers took no org id and all orgs shared one
directory), no in-memory state; statements (1), (2) and (3) hold at full strength -/
section Lookup
open SigModel.KV.Lookup

/-- C20.K1 (lookup files): for EVERY sequence of upload (with / without overwrite, plain or gzip) / get /
delete / list / restart by any orgs, every answer is the documented one (upload stores under the normalised name —
".csv" / ".csv.gz" appended unless already there, case-insensitively —, without overwrite it is a
`create` = 409 when the org has a file of that name, with overwrite an upsert; get / delete = not-found exactly when
the ORG has no such file; list = exactly the names the org stored) and `abs` commutes with every step. -/
theorem kv_refines_spec_lookup (ops : List Op) : Refines Spec.empty init ops := by
  have h := Lemmas.C20K.Lookup.refines_of_inv ops init Lemmas.C20K.Lookup.inv_init
  rwa [Lemmas.C20K.Lookup.abs_init] at h

/-- C20.K2 (lookup files): a restart is the identity on the whole state (nothing is held in memory). -/
theorem reload_persist_id_lookup (st : St) : (step st .restart).1 = st := rfl

/-- C20.K3 / C13 (lookup files): an operation of org `t` changes no file of any other org — in ANY state (every request
works inside the directory of its own org). -/
theorem tenant_frame_lookup (st : St) (op : Op) (t : Nat) (ht : op.tenant = some t) (t' : Nat) (hne : t' ≠ t) :
    ∀ k, abs (step st op).1 t' k = abs st t' k := by
  intro k
  show ((step st op).1.files t').get k = (st.files t').get k
  rw [Lemmas.C20K.Lookup.frame st op t ht t' hne]

/-- … and what an org reads (download, listing) is determined by its own files alone: two states that agree on the
files of org `t` give the same answers to every read of org `t`. -/
theorem lookup_reads_own_files (st st' : St) (t : Nat) (h : st.files t = st'.files t) (name : Key) :
    (step st (.get t name)).2 = (step st' (.get t name)).2 ∧ (step st (.list t)).2 = (step st' (.list t)).2 := by
  refine ⟨?_, by simp only [step, h]⟩
  simp only [step, h]
  split
  · rfl
  · split <;> rfl

/-- OLD behaviour (before patch c13-1) REFUTED: the handlers knew no org — a file uploaded for org 1 was returned to
org 7, listed for it, and org 7 could delete it. -/
theorem tenant_frame_lookup_old_counterexample :
    ¬ (∀ (st : St) (op : Op) (t : Nat), op.tenant = some t → ∀ t' : Nat, t' ≠ t →
        ∀ k, abs (stepOld st op).1 t' k = abs st t' k) := by
  intro h
  have := h { files := fun t => if t = 0 then [([97, 46, 99, 115, 118], "01")] else [] } (.delete 7 [97, 46, 99, 115, 118]) 7 rfl 0 (by decide)
    [97, 46, 99, 115, 118]
  revert this; decide

example : -- the old handlers: an upload by org 1 is what org 7 downloads
    (runOld init [.upload 1 [97] "01" false false, .get 7 [97, 46, 99, 115, 118], .list 7, .delete 7 [97, 46, 99, 115, 118], .get 1 [97, 46, 99, 115, 118]]).2 =
    [.stored [97, 46, 99, 115, 118], .content "01", .names [[97, 46, 99, 115, 118]], .res .ok, .res .notFound] := by decide

example : -- non-vacuous: suffix rule, conflict without overwrite, case variants are different files, orgs apart
    (run init [.upload 0 [97] "01" false false, .upload 0 [97, 46, 99, 115, 118] "02" false false, .upload 0 [97] "03" true false,
      .get 0 [97], .get 0 [97, 46, 99, 115, 118], .upload 0 [65, 46, 67, 83, 86] "04" false true, .list 0, .delete 0 [97, 46, 99, 115, 118],
      .restart, .list 0, .upload 0 [46, 46] "05" true false,
      .upload 7 [97] "06" false false, .get 0 [97, 46, 99, 115, 118], .get 7 [97, 46, 99, 115, 118], .list 1, .delete 1 [97, 46, 99, 115, 118], .list 7, .get 0 [55]]).2 =
    [.stored [97, 46, 99, 115, 118], .res .exists_, .stored [97, 46, 99, 115, 118], .res .notFound, .content "03",
      .stored [65, 46, 67, 83, 86], .names [[97, 46, 99, 115, 118], [65, 46, 67, 83, 86]], .res .ok, .restarted,
      .names [[65, 46, 67, 83, 86]], .res .invalid,
      .stored [97, 46, 99, 115, 118], .res .notFound, .content "06", .names [], .res .notFound, .names [[97, 46, 99, 115, 118]], .res .notFound] := by decide
end Lookup

/-! ## contact points (pkg/alerts/alertsHandler + alertsqlite) — with patches c20-6 / c20-7 / c20-8 (sqlite
methods), c20-15 (an update keeps the org of the stored row) and c20-18 (update / delete requests answer a contact
of another org like one that does not exist) the table behind the request handlers refines the keyed store (with
names unique over all orgs) for EVERY operation sequence, and no org's requests touch what another org reads;
the behaviours before the patches are refuted by counterexample theorems -/
section Contact
open SigModel.KV.Contact

/-- C20.K1 (contact points) at full strength: for EVERY sequence of create / update / delete / list requests of
any orgs and restarts, every answer is the documented one (create = stored under a fresh id, or already-exists
when ANY org holds the name; update = not-found — also for a contact of ANOTHER org — / already-exists / ok with
the request's name, pager and Slack list replacing the stored ones, a refused update changing nothing;
delete = not-found exactly when the caller's org holds no such contact; list = exactly the org's contacts as
last written) and `abs` commutes with every step. -/
theorem kv_refines_spec_contact (ops : List Op) : Refines Spec.empty init ops := by
  have h := Lemmas.C20K.Contact.refines_of_inv ops init Lemmas.C20K.Contact.inv_init
  rwa [Lemmas.C20K.Contact.abs_init] at h

example : -- non-vacuous: two orgs, duplicate names, empty and non-empty Slack lists, foreign update / delete refused
    (run init [.create 0 [97] "p" ["c1"], .create 1 [97] "" [], .create 1 [98] "" ["c9"], .update 1 2 [99] "q" [],
      .update 0 2 [100] "r" [], .delete 0 2, .update 1 1 [101] "x" [], .list 0, .restart, .delete 1 2, .delete 1 2,
      .list 1]).2 =
    [.created 1, .res .exists_, .created 2, .res .ok, .res .notFound, .res .notFound, .res .notFound,
      .rows [(1, { name := [97], org := 0, pager := "p", slack := ["c1"] })], .restarted, .res .ok, .res .notFound,
      .rows []] := by decide

/-- OLD behaviour (before patch c20-18, client putting its own org into the body) REFUTED: org 1 updating the id
of org 0's contact was answered ok where the keyed store of org 1 holds no such key. -/
theorem kv_refines_spec_contact_old_counterexample_foreign_update : ¬ (∀ ops, RefinesBodyOrg Spec.empty init ops) := by
  intro h
  have h1 := h [.create 0 [97] "p" [], .update 1 1 [98] "q" []]
  simp only [RefinesBodyOrg, RefinesWith] at h1
  obtain ⟨_, h0, h2, _⟩ := h1
  have h3 : (stepBodyOrg id (stepBodyOrg id init (.create 0 [97] "p" [])).1 (.update 1 1 [98] "q" [])).2 = .res .ok := by decide
  have h4 : (stepBodyOrg id init (.create 0 [97] "p" [])).2 = .created 1 := by decide
  rw [h3, h4] at h2
  have hs : specNext Spec.empty (.create 0 [97] "p" []) (.created 1) 1 1 = none := by
    simp [specNext, Spec.set, Spec.empty]
  rcases h2 with ⟨_, e⟩ | ⟨hne, _⟩ | ⟨_, _, e⟩
  · cases e
  · exact hne hs
  · cases e

/-- OLD behaviour (before patch c20-15) REFUTED: the saved row carried the org the request BODY named; a body
without `org_id` (org 0) moved the contact of org 1 out of what org 1 reads — by org 1's OWN update. -/
theorem contact_update_moves_org_old_counterexample :
    ¬ (∀ (st : St) (t id : Nat) (name : Key) (pager : String) (slack : List String),
        (stepBodyOrg (fun _ => 0) st (.update t id name pager slack)).2 = .res .ok →
        abs (stepBodyOrg (fun _ => 0) st (.update t id name pager slack)).1 t id = some (name, pager, slack)) := by
  intro h
  have h1 := h (step init (.create 1 [97] "p" [])).1 1 1 [97] "q" [] (by decide)
  revert h1; decide

/-- OLD behaviour (before patch c20-8) REFUTED: a create whose name exists — in whatever org — was
acknowledged and stored nothing (`CreateContact` returned nil when `First` found the name). -/
theorem kv_refines_spec_contact_old_counterexample_create : ¬ (∀ ops, RefinesOld Spec.empty init ops) := by
  intro h
  have h1 := h [.create 0 [97] "p" [], .create 1 [97] "q" []]
  simp only [RefinesOld, RefinesWith] at h1
  obtain ⟨_, _, h2, _⟩ := h1
  have h3 : (stepOld (stepOld init (.create 0 [97] "p" [])).1 (.create 1 [97] "q" [])).2 = .notCreated := by decide
  rw [h3] at h2
  rcases h2 with ⟨_, e⟩ | ⟨_, e⟩ <;> cases e

/-- OLD behaviour (before patch c20-6) REFUTED: an update with an EMPTY Slack list left the old channels
attached (the association was cleared only `if len(contact.Slack) != 0`). -/
theorem kv_refines_spec_contact_old_counterexample_update_keeps : ¬ (∀ ops, RefinesOld Spec.empty init ops) := by
  intro h
  have h1 := h [.create 0 [97] "p" ["c1"], .update 0 1 [97] "p" []]
  simp only [RefinesOld, RefinesWith] at h1
  obtain ⟨_, _, _, h2, _⟩ := h1
  have h3 := congrFun (congrFun h2 0) 1
  have h4 : (stepOld (stepOld init (.create 0 [97] "p" ["c1"])).1 (.update 0 1 [97] "p" [])).2 = .res .ok := by decide
  rw [h4] at h3
  have h5 : abs (stepOld (stepOld init (.create 0 [97] "p" ["c1"])).1 (.update 0 1 [97] "p" [])).1 0 1 = some ([97], "p", ["c1"]) := by decide
  rw [h5] at h3
  simp [specNext, Spec.set] at h3

/-- OLD behaviour (before patch c20-7) REFUTED: a refused update (the new name belongs to another contact)
still cleared the Slack channels (the clear ran before, and outside the transaction of, the failing Save). -/
theorem kv_refines_spec_contact_old_counterexample_failed_update : ¬ (∀ ops, RefinesOld Spec.empty init ops) := by
  intro h
  have h1 := h [.create 0 [97] "p" ["c1"], .create 0 [98] "q" ["c2"], .update 0 2 [97] "r" ["c3"]]
  simp only [RefinesOld, RefinesWith] at h1
  obtain ⟨_, _, _, _, h2, _⟩ := h1
  have h3 : (stepOld (stepOld (stepOld init (.create 0 [97] "p" ["c1"])).1 (.create 0 [98] "q" ["c2"])).1
      (.update 0 2 [97] "r" ["c3"])).2 = .saveFailed := by decide
  rw [h3] at h2
  rcases h2 with ⟨_, e⟩ | ⟨_, _, e⟩ | ⟨_, _, e⟩ <;> cases e

/-- OLD behaviour (before patch c20-18) REFUTED for C20.K3: an update by org 1 of org 0's contact was accepted and
changed what org 0 reads (no org check; the saved row carried the org of the body). -/
theorem tenant_frame_contact_old_counterexample :
    ¬ (∀ (st : St) (t cid : Nat) (name : Key) (pager : String) (slack : List String) (t' id' : Nat),
        t' ≠ t → abs (stepBodyOrg id st (.update t cid name pager slack)).1 t' id' = abs st t' id') := by
  intro h
  have h1 := h (step init (.create 0 [97] "p" [])).1 1 1 [98] "q" [] 0 1 (by decide)
  revert h1; decide

/-- C20.K3 (contact points) at full strength: after EVERY operation sequence a request of org `t` leaves what
every other org reads unchanged. -/
theorem tenant_frame_contact (ops : List Op) (op : Op)
    (t : Nat) (ht : op.tenant = some t) (t' : Nat) (hne : t' ≠ t) (id : Nat) :
    abs (step (run init ops).1 op).1 t' id = abs (run init ops).1 t' id := by
  have hi := Lemmas.C20K.Contact.inv_run ops init Lemmas.C20K.Contact.inv_init
  have h2 := (Lemmas.C20K.Contact.step_ok hi op).2.1
  rw [h2]
  cases op with
  | create t0 name pager slack =>
    simp only [Op.tenant, Option.some.injEq] at ht; subst ht
    generalize (step (run init ops).1 (.create t0 name pager slack)).2 = o
    cases o <;> simp [specNext, Spec.set, hne]
  | update t0 id0 name pager slack =>
    simp only [Op.tenant, Option.some.injEq] at ht; subst ht
    generalize (step (run init ops).1 (.update t0 id0 name pager slack)).2 = o
    cases o with
    | res r => cases r <;> simp [specNext, Spec.set, hne]
    | _ => simp [specNext]
  | delete t0 id0 =>
    simp only [Op.tenant, Option.some.injEq] at ht; subst ht
    generalize (step (run init ops).1 (.delete t0 id0)).2 = o
    cases o with
    | res r => cases r <;> simp [specNext, Spec.set, hne]
    | _ => simp [specNext]
  | list t0 => simp [specNext]
  | restart => simp [specNext]

/-- C20.K2 (contact points): reopening the database is the identity on the whole (persistent) state. -/
theorem reload_persist_id_contact (st : St) : (step st .restart).1 = st := rfl
end Contact

/-! ## dashboards and folders (pkg/dashboards) — modelled for the correspondence; with patches c20-3 / c20-4 /
c20-5 proved here: restart identity and the tenant frame (folder structures AND details files) at full
strength; counterexample theorems for the behaviour before the patches.  The refinement of the tree
operations is NOT proved. -/
section Dash
open SigModel.KV.Dash

/-- C20.K2 (dashboards): nothing is held in memory — a restart is the identity on the whole state. -/
theorem reload_persist_id_dash (st : St) : (step st .restart).1 = st := rfl

/-- C20.K3 (dashboards), the folder structures: an operation of tenant `t` leaves the folder structure
(items and order) of every other tenant untouched, in ANY state. -/
theorem tenant_frame_dash_structure (st : St) (op : Op) (t : Nat) (ht : op.tenant = some t) (t' : Nat) (hne : t' ≠ t) :
    (step st op).1.fs t' = st.fs t' :=
  Lemmas.C20K.Dash.fs_frame false st op t ht t' hne

/-- C20.K3 (dashboards) at full strength: after EVERY operation sequence, an operation of tenant `t` leaves
untouched everything another tenant `t'` reads from — its folder structure and the details file of every
object of its structure (the root folder, id 0, has no details file).  Rests on: ids come from one generator,
so no id is in two tenants' structures, and every write to a details file is now preceded by a lookup of the
id in the CALLER's structure. -/
theorem tenant_frame_dash (ops : List Op) (op : Op) (t : Nat) (ht : op.tenant = some t) (t' : Nat) (hne : t' ≠ t) :
    (step (run init ops).1 op).1.fs t' = (run init ops).1.fs t' ∧
    ∀ id, id ≠ 0 → ((run init ops).1.fs t').items.get id ≠ none →
      (step (run init ops).1 op).1.det.get id = (run init ops).1.det.get id :=
  ⟨Lemmas.C20K.Dash.fs_frame false _ op t ht t' hne,
   fun id hid hown => Lemmas.C20K.Dash.det_frame (Lemmas.C20K.Dash.inv_run ops init Lemmas.C20K.Dash.inv_init)
     op t ht t' hne id hid hown⟩

/-- OLD behaviour (before patch c20-5) REFUTED: the details files are addressed by id alone — tenant 0
toggling the favourite flag of tenant 1's dashboard changed what tenant 1 read. -/
theorem tenant_frame_dash_old_counterexample :
    ¬ (∀ (st : St) (op : Op) (t : Nat), op.tenant = some t → ∀ t', t' ≠ t → ∀ id,
        (stepOld (stepOld st op).1 (.getDash t' id)).2 = (stepOld st (.getDash t' id)).2) := by
  intro h
  have h1 := h (stepOld init (.createDash 1 [97] "p" 0)).1 (.favorite 0 1) 0 rfl 1 (by decide) 1
  revert h1; decide

/-- OLD behaviour (before patch c20-3) REFUTED: `updateDashboard` checked neither the type of the id nor
cycles — two accepted API calls left a parent cycle in the folder structure (on which `buildFolderPath` /
`generateBreadcrumbs` never returned). -/
theorem dash_update_creates_cycle_old_counterexample :
    ¬ (∀ ops t, hasCycle ((runOld init ops).1.fs t) = false) := by
  intro h
  have h1 := h [.createFolder 1 [97] 0, .updateDash 1 1 [97] "p" (some 1)] 1
  revert h1; decide

/-- C20.K5 (folders, patch c20-13), in ANY state: an ACCEPTED updateFolder that moves the folder or changes its name
leaves no OTHER child of the folder's (new) parent with the folder's (new) name — the test `createFolder` and a rename
always made is now made for a move as well. -/
theorem update_folder_ok_name_free (st : St) (t id : Nat) (name : Option Key) (newParent : Option Nat) (it : Item)
    (hit : (st.fs t).items.get id = some it)
    (hchg : (∃ np, newParent = some np ∧ some np ≠ it.parent) ∨ (∃ n, name = some n ∧ n ≠ it.name))
    (hok : (step st (.updateFolder t id name newParent)).2 = .res .ok) :
    ∃ it', ((step st (.updateFolder t id name newParent)).1.fs t).items.get id = some it' ∧
      ∀ p, it'.parent = some p →
        nameTaken ((step st (.updateFolder t id name newParent)).1.fs t) p it'.name none (some id) = false := by
  by_cases h0 : id = 0
  · simp [step, stepG, h0] at hok
  by_cases hty : ¬ it.ty = .folder
  · simp [step, stepG, hit, h0, hty] at hok
  have hty : it.ty = .folder := Classical.not_not.mp hty
  cases newParent with
  | none =>
    have hs : step st (.updateFolder t id name none) = Lemmas.C20K.Dash.tailOf st t id name (st.fs t) it.parent it false := by
      simp [step, stepG, hit, h0, hty, Lemmas.C20K.Dash.tailOf, Lemmas.C20K.Dash.renOf, Lemmas.C20K.Dash.takenOf, Lemmas.C20K.Dash.newNameOf, Lemmas.C20K.Dash.it2Of] <;> rfl
    rw [hs] at hok ⊢
    refine Lemmas.C20K.Dash.rename_tail st t id name (st.fs t) it.parent it false rfl ?_ hok
    rcases hchg with ⟨np, h1, _⟩ | ⟨n, h1, h2⟩
    · cases h1
    · simp [Lemmas.C20K.Dash.renOf, h1, h2]
  | some np =>
    by_cases hm : some np = it.parent
    · have hs : step st (.updateFolder t id name (some np)) = Lemmas.C20K.Dash.tailOf st t id name (st.fs t) (some np) it false := by
        simp [step, stepG, hit, h0, hty, hm, Lemmas.C20K.Dash.tailOf, Lemmas.C20K.Dash.renOf, Lemmas.C20K.Dash.takenOf, Lemmas.C20K.Dash.newNameOf, Lemmas.C20K.Dash.it2Of] <;> rfl
      rw [hs] at hok ⊢
      refine Lemmas.C20K.Dash.rename_tail st t id name (st.fs t) (some np) it false hm ?_ hok
      rcases hchg with ⟨np', h1, h2⟩ | ⟨n, h1, h2⟩
      · cases h1; exact absurd hm h2
      · simp [Lemmas.C20K.Dash.renOf, h1, h2]
    · cases hp : (st.fs t).items.get np with
      | none => simp [step, stepG, hit, h0, hty, hm, hp] at hok
      | some p =>
        by_cases hpt : ¬ p.ty = .folder
        · simp [step, stepG, hit, h0, hty, hm, hp, hpt] at hok
        have hpt : p.ty = .folder := Classical.not_not.mp hpt
        by_cases hr : reaches (st.fs t) id (fuel (st.fs t)) (some np) = true
        · simp [step, stepG, hit, h0, hty, hm, hp, hpt, hr] at hok
        have hs : step st (.updateFolder t id name (some np)) =
            Lemmas.C20K.Dash.tailOf st t id name (Lemmas.C20K.Dash.movedFS (st.fs t) id it np) (some np) { it with parent := some np } true := by
          simp [step, stepG, hit, h0, hty, hm, hp, hpt, hr, Lemmas.C20K.Dash.tailOf, Lemmas.C20K.Dash.renOf, Lemmas.C20K.Dash.takenOf, Lemmas.C20K.Dash.newNameOf, Lemmas.C20K.Dash.it2Of, Lemmas.C20K.Dash.movedFS] <;> rfl
        rw [hs] at hok ⊢
        exact Lemmas.C20K.Dash.rename_tail st t id name _ (some np) { it with parent := some np } true rfl (by simp) hok

/-- OLD behaviour (before patch c20-13) REFUTED: `createFolder` and a folder rename refuse a name that a sibling
carries ("already exists in this location"), but `updateFolder` ran that test only when the request RENAMED the
folder: a folder that was only moved landed next to a folder of its own name — two folders of one name (and one
full path) in one parent. -/
theorem folder_names_distinct_old_counterexample :
    ¬ (∀ ops t p, (folderNames ((runOld init ops).1.fs t) p).Nodup) := by
  intro h
  have h1 := h [.createFolder 0 [97] 0, .createFolder 0 [98] 0, .createFolder 0 [97] 2, .updateFolder 0 3 none (some 0)] 0 0
  revert h1; decide

example : -- WITH patch c20-13 the same requests end in "already exists": moved without a name, moved under its own name,
    -- the OTHER folder moved next to it; a move under a free name, and a move after the namesake is gone, are accepted
    (run init [.createFolder 0 [97] 0, .createFolder 0 [98] 0, .createFolder 0 [97] 2, .updateFolder 0 3 none (some 0),
      .updateFolder 0 3 (some [97]) (some 0), .updateFolder 0 1 none (some 2), .updateFolder 0 3 (some [99]) (some 0),
      .updateFolder 0 3 (some [97]) none, .deleteFolder 0 1, .updateFolder 0 3 (some [97]) none]).2 =
    [.created 1, .created 2, .created 3, .res .exists_, .res .exists_, .res .exists_, .res .ok, .res .exists_, .res .ok,
      .res .ok] ∧
    (folderNames ((run init [.createFolder 0 [97] 0, .createFolder 0 [98] 0, .createFolder 0 [97] 2,
      .updateFolder 0 3 none (some 0)]).1.fs 0) 0).Nodup := by decide

example : -- non-vacuous run: folder rename refreshes the stored folder path on the next read; recursive delete;
    -- the dashboard API refuses a folder id, the folder API a dashboard id, another tenant reads nothing
    (run init [.createFolder 0 [97] 0, .createDash 0 [100] "p" 1, .updateFolder 0 1 (some [122]) none, .getDash 0 2,
      .updateDash 0 1 [98] "q" (some 1), .updateFolder 0 2 (some [98]) none, .getDash 1 2, .favorite 1 2,
      .deleteFolder 0 1, .getDash 0 2, .list 0]).2 =
    [.created 1, .created 2, .res .ok,
      .dash { name := [100], payload := "p", fid := 1, fname := [122], path := [122], crumbs := [0, 1], fav := false },
      .res .wrongType, .res .wrongType, .res .notFound, .res .notFound,
      .res .ok, .res .notFound, .rows []] := by decide
end Dash

/-! ## alert definitions (pkg/alerts/alertsqlite, CreateAlert / UpdateAlert / DeleteAlert / GetAlert /
GetAllAlerts behind the request handlers of pkg/alerts/alertsHandler) — modelled for the correspondence; proved here:
restart identity, name uniqueness for every operation sequence and, WITH patches c20-16 / c20-18, the tenant frame
at full strength (counterexamples for the behaviour before them).  No refinement theorem. -/
section AlertDB
open SigModel.KV.AlertDB

/-- C20.K2 (alert definitions): reopening the database is the identity on the whole (persistent) state. -/
theorem reload_persist_id_adb (st : St) : (step st .restart).1 = st := rfl

/-- after EVERY operation sequence no two stored alerts carry the same name: although `isNewAlertName`
answers "new" on both of its branches, every path that writes a name (CreateAlert, UpdateAlert) ends in an
insert / save that the UNIQUE index refuses, and a refused write changes nothing. -/
theorem alert_names_unique (ops : List Op) (id id' : Nat) (r r' : Row)
    (h : (run init ops).1.alerts.get id = some r) (h' : (run init ops).1.alerts.get id' = some r')
    (hn : r.name = r'.name) : id = id' :=
  Lemmas.C20K.AlertDB.unique_run ops init Lemmas.C20K.AlertDB.unique_init id id' r r' h h' hn

/-- OLD behaviour (before patch c20-18) REFUTED for C20.K3: org 1 deleting the alert of org 0 by its id was
accepted (GetAlert / UpdateAlert / DeleteAlert and their handlers carried no org id) and changed what org 0 lists. -/
theorem tenant_frame_adb_old_counterexample :
    ¬ (∀ (st : St) (op : Op) (t : Nat), (match op with
          | .update t' _ _ _ _ => t' = t | .delete t' _ => t' = t | _ => False) →
        ∀ t', t' ≠ t → (stepNoOrg (stepNoOrg st op).1 (.list t')).2 = (stepNoOrg st (.list t')).2) := by
  intro h
  have h1 := h (run init [.contact 0 [99], .create 0 [97] "m" 1]).1 (.delete 1 1) 1 rfl 0 (by decide)
  revert h1; decide

/-- C20.K3 (alert definitions) at full strength, WITH patches c20-16 / c20-18: after EVERY operation sequence a
request of org `t` (create, update, delete, get, list, the auxiliary contact create) leaves every alert of every
other org exactly as it is and creates no alert for another org: the alerts whose org is not `t` are the same
before and after. -/
theorem tenant_frame_adb (ops : List Op) (op : Op) (t : Nat) (ht : op.tenant = some t) (id : Nat) (r : Row)
    (hne : r.org ≠ t) :
    (step (run init ops).1 op).1.alerts.get id = some r ↔ (run init ops).1.alerts.get id = some r :=
  Lemmas.C20K.AlertDB.frame_step (Lemmas.C20K.AlertDB.fresh_run ops init Lemmas.C20K.AlertDB.fresh_init) op t ht id r hne

/-- … and a get request answers only with an alert of the org it was made for — in ANY state. -/
theorem get_alert_own_org (st : St) (t id id' : Nat) (r : Row) (h : (step st (.get t id)).2 = .alert id' r) :
    r.org = t := by
  simp only [step] at h
  split at h
  · cases h
  · rename_i r0 _
    by_cases ho : r0.org = t
    · simp only [ne_eq, ho, not_true_eq_false, if_false] at h
      cases h; exact ho
    · simp only [ne_eq, ho, not_false_eq_true, if_true] at h
      cases h

/-- OLD behaviour (before patch c20-18) REFUTED: a get request of org 1 was answered with the alert of org 0. -/
theorem get_alert_own_org_old_counterexample :
    ¬ (∀ (st : St) (t id id' : Nat) (r : Row), (stepNoOrg st (.get t id)).2 = .alert id' r → r.org = t) := by
  intro h
  have h1 := h (run init [.contact 0 [99], .create 0 [97] "m" 1]).1 1 1 1
    { name := [97], org := 0, msg := "m", cid := 1, cname := [99] } (by decide)
  revert h1; decide

/-- WITH patch c20-22: a get or an update request that names an id no alert has is refused "does not exist", whatever
org asks — in ANY state; nothing is changed. -/
theorem unknown_alert_id_refused (st : St) (t id : Nat) (h : st.alerts.get id = none) :
    step st (.get t id) = (st, .res .notFound) ∧
    ∀ name msg cid, step st (.update t id name msg cid) = (st, .res .notFound) := by
  simp [step, h]

/-- OLD behaviour (before patch c20-22) REFUTED: org 0 asking for an id that no alert has was answered with an EMPTY
alert (status 200), and its update request with "alert id not valid". -/
theorem unknown_alert_id_refused_old_counterexample :
    ¬ (∀ (st : St) (t id : Nat), st.alerts.get id = none → (stepUnknownIdOld st (.get t id)).2 = .res .notFound) ∧
    ¬ (∀ (st : St) (t id : Nat), st.alerts.get id = none →
        (stepUnknownIdOld st (.update t id [120] "m" none)).2 = .res .notFound) := by
  constructor
  · intro h
    have h1 := h init 0 9 rfl
    revert h1; decide
  · intro h
    have h1 := h init 0 9 rfl
    revert h1; decide

/-- OLD behaviour (before patch c20-16) REFUTED: the create request stored the alert for the org its BODY named —
a request of org 1 naming org 2 produced an alert that org 2 lists. -/
theorem create_alert_body_org_old_counterexample :
    ¬ (∀ (st : St) (bodyOrg t : Nat) (name : Key) (msg : String) (cid id : Nat) (r : Row), r.org ≠ t →
        (createBodyOrg st bodyOrg name msg cid).1.alerts.get id = some r → st.alerts.get id = some r) := by
  intro h
  have h1 := h (run init [.contact 1 [99]]).1 2 1 [97] "m" 1 1
    { name := [97], org := 2, msg := "m", cid := 1, cname := [99] } (by decide) (by decide)
  revert h1; decide

example : -- non-vacuous run: duplicate name, missing contact, invalid names, unknown id, contact change, restart
    (run init [.contact 0 [99], .contact 1 [100], .create 0 [97] "m1" 1, .create 1 [97] "m2" 1, .create 0 [98] "m3" 5,
      .create 0 [] "m" 1, .create 0 [42] "m" 1, .get 0 9, .update 0 9 [120] "m" none, .get 1 9, .get 1 1, .update 1 1 [121] "x" none,
      .delete 1 1, .update 0 1 [120] "m4" (some 2), .restart, .list 0, .delete 0 1, .delete 0 1]).2 =
    [.created 1, .created 2, .created 1, .res .exists_, .res .parentNotFound, .res .invalid, .res .invalid, .res .notFound,
      .res .notFound, .res .notFound, .res .notFound, .res .notFound, .res .notFound, .res .ok, .restarted,
      .rows [(1, { name := [120], org := 0, msg := "m4", cid := 2, cname := [100] })], .res .ok, .res .notFound] := by
  decide
end AlertDB

end SigModel.Props.C20.KV
