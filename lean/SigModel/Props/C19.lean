/-
C19 — User-supplied names cannot reach files outside the data directory.  Property theorems only.

Model: SigModel/Model/Path.lean (lexical filepath.Clean / Join exactly as Go on Unix, and one function per path
builder of /repo = validation AS CODED, concatenation AS CODED, Clean).  `dataDir d` is the configured data
directory (absolute, cleaned, segments `d`), `H` the host id (one plain segment).

Part 1: `clean` for EVERY string: idempotent; its result has no ".", no empty segment, and ".." only as a leading block
        of a relative path.
Part 2: Join against an absolute cleaned base, for EVERY name: the result is inside the base iff the name's segment
        walk never climbs above its start (`depthOK`).
Part 3: per builder, for EVERY client value that passes the builder's validation as coded: the built path is inside the
        data dir — `confined_<builder>`, at full strength, for all twelve builders and for the READER of the tags tree
        (`confined_tagsTreeRead`: tag key of a tag filter of a metrics query; unchecked before repair c19-2:
        `tagsTreeReadOld_counterexample`).
        Seven of them (lookupUpload, inputlookup, aliasFile, baseSegDir, baseVTableDir, suffixFile, tagsTreeFile) applied
        no validation to a value taken from a request body / form / query text before the `fix:` commits listed in
        known_findings.txt; their former definitions are kept as `…Old`, each with the theorem `…Old_counterexample`
        (the full statement was FALSE, minimal witness) and `…Old_partial` (true for values without a path separator),
        which is what the new theorems rest on: the validator now coded (`simpleName`) implies that guard.

Part 4: the COMPOSITION (Model/PathFlow.lean): a handler is a pipeline "pre-process, validate, post-process, join".  For
        EVERY pipeline: if the join is confined for every validated value after the post-processing, the pipeline is
        confined — whatever happens BEFORE validation; in particular when nothing happens between validation and use
        (`pipe_confined_id`).  The handlers of /repo are such pipelines (`…_is_pipe`, tied to the source by the call-order
        facts `C19.<function>.flow`).  Percent-decoding put between check and use breaks it (`decode_after_validate_counterexample`),
        the same decoding before the check does not (`decode_before_validate_confined`).
Part 5: metrics tag keys: the check is stateless, so EVERY datapoint of EVERY series (any number of samples sent with one
        TagsHolder) is either rejected or names only files inside the data dir (`confined_series`); the memoised check
        with the flag set before the walk is refuted (`memo_series_counterexample`).
Part 6: delete-index: for EVERY history of create / delete requests (any strings, any expansion of the request value into
        candidate names) every directory removed is inside the data dir (`confined_index_history`); without the
        membership test it is not (`deleteIndexNoGate_counterexample`).

Part 7: COLUMN names (JSON keys of events, sort-columns requests, sort columns of queries): the sort index file of EVERY
        column name is inside the data dir (`confined_sortindex`; before the repair it was not: `sortIndexFileOld_counterexample`);
        every other per-column file carries a hash of the name (`confined_hashedColumnFile`, for every hash function).

NOT proved: that this list of builders is complete (a listing aid, not a theorem; narrowed by the end-to-end suite `confine`,
which drives every name-carrying route of a real server inside a sandbox); symlinks (the model is lexical).
-/
import SigModel.Model.Path
import SigModel.Model.PathFlow
import SigModel.Lemmas.C19
import SigModel.Lemmas.C19b

namespace SigModel.Props.C19
open SigModel.Path
open SigModel.Lemmas.C19 (AbsBase)

/-! ## Part 1 — Clean -/

/-- C19.1a  Clean(Clean(s)) = Clean(s) for every byte string. -/
theorem clean_idempotent (s : Str) : clean (clean s) = clean s :=
  Lemmas.C19.clean_idempotent' s

/-- C19.1b  Shape of every cleaned path: `k` times ".." followed only by plain segments (non-empty, not ".", not "..",
    no '/'); `k = 0` when the path is rooted.  So ".." never occurs after a real segment, and never in an absolute path. -/
theorem clean_no_dotdot_after_prefix (s : Str) :
    ∃ rest k, (cleanN s).segs = List.replicate k dd ++ rest ∧ ((cleanN s).rooted = true → k = 0) ∧ ∀ x ∈ rest, Plain x :=
  Lemmas.C19.cleanN_normal s

/-- C19.1c  A cleaned ABSOLUTE path contains no ".." segment at all. -/
theorem clean_abs_no_dotdot (s : Str) (h : (cleanN s).rooted = true) : dd ∉ (cleanN s).segs := by
  obtain ⟨rest, k, hs, hk, hp⟩ := Lemmas.C19.cleanN_normal s
  have : k = 0 := hk h
  subst this
  intro hm
  rw [hs] at hm
  simp at hm
  exact (hp dd hm).2.2.1 rfl

/-- C19.1d  The printed form is a faithful representation: parsing `clean s` gives the normal form back. -/
theorem clean_roundtrip (s : Str) : cleanN (clean s) = cleanN s :=
  Lemmas.C19.cleanN_render (Lemmas.C19.cleanN_normal s)

example : clean "a/../../b/./c//".toList = "../b/c".toList := by decide
example : clean "/../a/b/../..".toList = "/".toList := by decide
example : clean [] = ".".toList := by decide

/-! ## Part 2 — Join -/

/-- C19.2a  For every absolute cleaned base and EVERY name (relative, absolute, empty, with any metacharacters):
    if the name's segment walk never climbs above its start, filepath.Join(base, name) is inside base. -/
theorem join_within_of_depthOK (b : NPath) (hb : AbsBase b) (name : Str) (h : depthOK name) :
    within b (cleanN (join (render b) name)) :=
  Lemmas.C19.join_within_of_depthOK' hb name h

/-- C19.2b  The characterisation.  `hfresh` (no segment of the name equals a segment of the base) excludes names that leave
    the base and re-enter it by spelling out its own directory names ("../lookups/x" joined to "/d/lookups" IS inside);
    `hne` excludes the root, which nothing can leave. -/
theorem join_within_iff (b : NPath) (hb : AbsBase b) (hne : b.segs ≠ []) (name : Str)
    (hfresh : ∀ s ∈ splitSlash name, s ∉ b.segs) :
    within b (cleanN (join (render b) name)) ↔ depthOK name := by
  constructor
  · intro hw
    apply Classical.byContradiction
    intro hnd
    exact Lemmas.C19.join_not_within_of_not_depthOK' hb hne name hfresh hnd hw
  · exact Lemmas.C19.join_within_of_depthOK' hb name

/-- C19.2c  For absolute cleaned paths `within` is the usual string test (what the Go harness checks with filepath.Rel):
    the printed path equals the printed base, or starts with base ++ "/". -/
theorem within_string_form (b p : NPath) (hb : AbsBase b) (hne : b.segs ≠ []) (hp : AbsBase p) :
    within b p ↔ (render p = render b ∨ (render b ++ ['/']) <+: render p) :=
  Lemmas.C19.within_string_form' hb hne hp

/-- C19.2d  The lookup builders' `lookupJoin` IS filepath.Join(config.GetLookupPath(), name) for a non-empty name. -/
theorem lookupJoin_is_filepath_join (d : List Seg) (name : Str) (hn : name ≠ []) :
    lookupJoin d name = cleanN (join (dataPath d ++ "lookups/".toList) name) := by
  have ha : dataPath d ++ "lookups/".toList ≠ [] := by simp [dataPath]
  unfold join
  rw [if_neg ha, if_neg hn]
  unfold clean
  rw [Lemmas.C19.cleanN_render (Lemmas.C19.cleanN_normal _)]
  unfold lookupJoin
  congr 1
  simp [joinSegs]

/-- why `hfresh` is needed: this name climbs above its start and comes back -/
example : within ⟨true, [['d'], ['l']]⟩ (cleanN (join "/d/l".toList "../l/x".toList)) ∧ ¬ depthOK "../l/x".toList := by decide

/-- an absolute name does NOT replace the base in filepath.Join -/
example : clean (join "/d/l".toList "/etc/passwd".toList) = "/d/l/etc/passwd".toList := by decide

/-! ## Part 3 — the builders -/

/-- the configured data directory and host id are ordinary names -/
def Setup (d : List Seg) (H : Seg) : Prop := (∀ s ∈ d, Plain s) ∧ Plain H

/-- the guard of the `_partial` theorems: the client value contains no path separator -/
abbrev Guard (v : Str) : Prop := noSlash v

example : ∃ v : Str, v ≠ [] ∧ Guard v := ⟨['a'], by decide⟩

/-- the hypotheses on the configuration are satisfiable -/
theorem setup_example : Setup [['d']] ['H'] := ⟨by decide, by decide⟩

/-! ### builders whose validation (as coded) suffices -/

/-- C19.3 lookupGet: GET /api/lookup-files/{lookupFilename} — every value the router hands to the handler stays inside the data dir. -/
theorem confined_lookupGet (d : List Seg) (H : Seg) (hs : Setup d H) (v : Str) (p : NPath)
    (h : lookupGet d v = some p) : within (dataDir d) p := by
  unfold lookupGet at h
  by_cases he : hasLookupExt v = true
  case neg => simp [he] at h
  simp only [he, if_true] at h
  unfold lookupGetOld at h
  split at h
  · rename_i hr
    simp at h; subst h
    exact Lemmas.C19.confined_core d hs.1 ["lookups".toList, []] [] v (Lemmas.C19.routeParamOK_noSlash hr)
      (by decide) (by simp) 0 (by decide)
  · simp at h

/-- C19.3 lookupDelete: DELETE /api/lookup-files/{lookupFilename}. -/
theorem confined_lookupDelete (d : List Seg) (H : Seg) (hs : Setup d H) (v : Str) (p : NPath)
    (h : lookupDelete d v = some p) : within (dataDir d) p :=
  confined_lookupGet d H hs v p h

/-- C19.3 mappingFile: PUT /elastic/{indexName} → mappings/<index>.json. -/
theorem confined_mappingFile (d : List Seg) (H : Seg) (hs : Setup d H) (v : Str) (p : NPath)
    (h : mappingFile d H v = some p) : within (dataDir d) p := by
  unfold mappingFile at h
  split at h
  · rename_i hr0
    have hr := hr0.1
    simp at h; subst h
    have hH := hs.2
    exact Lemmas.C19.confined_core d hs.1 ["ingestnodes".toList, H, "vtabledata".toList, "mappings".toList] [] (v ++ ".json".toList)
      (Lemmas.C19.noSlash_append (Lemmas.C19.routeParamOK_noSlash hr) (by decide))
      (by intro s hm; simp at hm; rcases hm with hm | hm | hm | hm <;> subst hm <;> first | exact hH.2.2.2 | decide)
      (by simp) 3
      (by rw [Lemmas.C19.walk_plain (by decide), Lemmas.C19.walk_plain hH, Lemmas.C19.walk_plain (by decide), Lemmas.C19.walk_plain (by decide)]; rfl)
  · simp at h

/-- C19.3 dashboardDetails: /api/dashboards/{dashboard-id} (get, favorite, delete) → details/<id>.json. -/
theorem confined_dashboardDetails (d : List Seg) (H : Seg) (hs : Setup d H) (v : Str) (p : NPath)
    (h : dashboardDetails d H v = some p) : within (dataDir d) p := by
  unfold dashboardDetails at h
  split at h
  · rename_i hr
    simp at h; subst h
    have hH := hs.2
    exact Lemmas.C19.confined_core d hs.1 ["querynodes".toList, H, "dashboards".toList, "details".toList] [] (v ++ ".json".toList)
      (Lemmas.C19.noSlash_append (Lemmas.C19.routeParamOK_noSlash hr) (by decide))
      (by intro s hm; simp at hm; rcases hm with hm | hm | hm | hm <;> subst hm <;> first | exact hH.2.2.2 | decide)
      (by simp) 3
      (by rw [Lemmas.C19.walk_plain (by decide), Lemmas.C19.walk_plain hH, Lemmas.C19.walk_plain (by decide), Lemmas.C19.walk_plain (by decide)]; rfl)
  · simp at h

/-- C19.3 scrollResults: whatever scroll_id the client sends, the file name is built from an id of the server-side table or a
    fresh UUID; as long as those contain no '/', the path is inside the data dir. -/
theorem confined_scrollResults (d : List Seg) (H : Seg) (hs : Setup d H) (known : List Str) (fresh : Str)
    (hknown : ∀ k ∈ known, noSlash k) (hfresh : noSlash fresh) (v : Str) (p : NPath)
    (h : scrollResults d H known fresh v = some p) : within (dataDir d) p := by
  unfold scrollResults at h
  simp at h; subst h
  have hH := hs.2
  have hid : '/' ∉ scrollId known fresh v := by
    unfold scrollId
    split
    · rename_i hm; exact hknown v hm
    · exact hfresh
  exact Lemmas.C19.confined_core d hs.1 [H, "scroll".toList] [] (scrollId known fresh v ++ ".csv".toList)
    (Lemmas.C19.noSlash_append hid (by decide))
    (by intro s hm; simp at hm; rcases hm with hm | hm <;> subst hm <;> first | exact hH.2.2.2 | decide)
    (by simp) 1
    (by rw [Lemmas.C19.walk_plain hH, Lemmas.C19.walk_plain (by decide)]; rfl)

example : lookupGet [['d']] "a.csv".toList = some ⟨true, [['d'], "lookups".toList, "a.csv".toList]⟩ := by decide
example : lookupGet [['d']] "../a.csv".toList = none := by decide
example : lookupGet [['d']] "..".toList = none ∧ lookupGetOld [['d']] "..".toList = some ⟨true, [['d']]⟩ := by decide
example : lookupGet [['d']] "7".toList = none ∧ lookupGet [['d']] "A.CSV.gz".toList = some ⟨true, [['d'], "lookups".toList, "A.CSV.gz".toList]⟩ := by decide

/-! ### builders repaired by the fix: commits — the old definitions -/

/-- the full statement for a builder that takes only the data dir -/
def ConfinedD (build : List Seg → Str → Option NPath) : Prop :=
  ∀ (d : List Seg) (H : Seg) (v : Str) (p : NPath), Setup d H → build d v = some p → within (dataDir d) p

/-- the full statement for a builder that also takes the host id -/
def ConfinedDH (build : List Seg → Seg → Str → Option NPath) : Prop :=
  ∀ (d : List Seg) (H : Seg) (v : Str) (p : NPath), Setup d H → build d H v = some p → within (dataDir d) p

/-- what the validator now coded (utils.IsSimpleFileName) gives -/
theorem simpleName_guard {v : Str} (h : simpleName v = true) : Guard v := by
  unfold simpleName at h
  simp at h
  exact h.2.2.2.1

/-- lookupUpload BEFORE the fix (form value `name` joined unchecked): the full statement was FALSE; `../../x.csv` landed beside the data dir. -/
theorem lookupUploadOld_counterexample : ¬ ConfinedD lookupUploadOld := by
  intro h
  exact absurd (h [['d']] ['H'] "../../x.csv".toList ⟨true, ["x.csv".toList]⟩ setup_example (by decide)) (by decide)

theorem lookupUploadOld_partial (d : List Seg) (H : Seg) (hs : Setup d H) (v : Str) (hg : Guard v) (p : NPath)
    (h : lookupUploadOld d v = some p) : within (dataDir d) p := by
  unfold lookupUploadOld at h
  split at h
  · simp at h
  · simp at h; subst h
    exact Lemmas.C19.confined_core d hs.1 ["lookups".toList, []] [] (uploadName v) (Lemmas.C19.uploadName_noSlash hg)
      (by decide) (by simp) 0 (by decide)

/-- inputlookup BEFORE the fix (extension check only): the full statement was FALSE. -/
theorem inputlookupOld_counterexample : ¬ ConfinedD inputlookupOld := by
  intro h
  exact absurd (h [['d']] ['H'] "../../x.csv".toList ⟨true, ["x.csv".toList]⟩ setup_example (by decide)) (by decide)

theorem inputlookupOld_partial (d : List Seg) (H : Seg) (hs : Setup d H) (v : Str) (hg : Guard v) (p : NPath)
    (h : inputlookupOld d v = some p) : within (dataDir d) p := by
  unfold inputlookupOld at h
  split at h
  · simp at h; subst h
    exact Lemmas.C19.confined_core d hs.1 ["lookups".toList, []] [] v hg (by decide) (by simp) 0 (by decide)
  · simp at h

/-- aliasFile BEFORE the fix (POST /_aliases `index`, only checked for non-emptiness): the full statement was FALSE. -/
theorem aliasFileOld_counterexample : ¬ ConfinedDH aliasFileOld := by
  intro h
  exact absurd (h [['d']] ['H'] "../../../../../x".toList ⟨true, ["x.json".toList]⟩ setup_example (by decide)) (by decide)

theorem aliasFileOld_partial (d : List Seg) (H : Seg) (hs : Setup d H) (v : Str) (hg : Guard v) (p : NPath)
    (h : aliasFileOld d H v = some p) : within (dataDir d) p := by
  unfold aliasFileOld at h
  split at h
  · simp at h
  · simp at h; subst h
    have hH := hs.2
    exact Lemmas.C19.confined_core d hs.1 ["ingestnodes".toList, H, "vtabledata".toList, "aliases".toList] [] (v ++ ".json".toList)
      (Lemmas.C19.noSlash_append hg (by decide))
      (by intro s hm; simp at hm; rcases hm with hm | hm | hm | hm <;> subst hm <;> first | exact hH.2.2.2 | decide)
      (by simp) 3
      (by rw [Lemmas.C19.walk_plain (by decide), Lemmas.C19.walk_plain hH, Lemmas.C19.walk_plain (by decide), Lemmas.C19.walk_plain (by decide)]; rfl)

/-- baseSegDir BEFORE the fix (index name = `_index` of a bulk action, unchecked): the full statement was FALSE. -/
theorem baseSegDirOld_counterexample : ¬ ConfinedDH baseSegDirOld := by
  intro h
  exact absurd (h [['d']] ['H'] "../../../x".toList ⟨true, [['x'], SID, ['0']]⟩ setup_example (by decide)) (by decide)

theorem baseSegDirOld_partial (d : List Seg) (H : Seg) (hs : Setup d H) (v : Str) (hg : Guard v) (p : NPath)
    (h : baseSegDirOld d H v = some p) : within (dataDir d) p := by
  unfold baseSegDirOld at h
  simp at h; subst h
  have hH := hs.2
  exact Lemmas.C19.confined_core d hs.1 [H, "final".toList] [SID, ['0'], []] v hg
    (by intro s hm; simp at hm; rcases hm with hm | hm <;> subst hm <;> first | exact hH.2.2.2 | decide)
    (by decide) 1
    (by rw [Lemmas.C19.walk_plain hH, Lemmas.C19.walk_plain (by decide)]; rfl)

/-- baseVTableDir BEFORE the fix: the full statement was FALSE. -/
theorem baseVTableDirOld_counterexample : ¬ ConfinedDH baseVTableDirOld := by
  intro h
  exact absurd (h [['d']] ['H'] "../../../x".toList ⟨true, [['x'], SID]⟩ setup_example (by decide)) (by decide)

theorem baseVTableDirOld_partial (d : List Seg) (H : Seg) (hs : Setup d H) (v : Str) (hg : Guard v) (p : NPath)
    (h : baseVTableDirOld d H v = some p) : within (dataDir d) p := by
  unfold baseVTableDirOld at h
  simp at h; subst h
  have hH := hs.2
  exact Lemmas.C19.confined_core d hs.1 [[], H, "final".toList] [SID] v hg
    (by intro s hm; simp at hm; rcases hm with hm | hm | hm <;> subst hm <;> first | exact hH.2.2.2 | decide)
    (by decide) 1
    (by rw [Lemmas.C19.walk_skip (Or.inl rfl), Lemmas.C19.walk_plain hH, Lemmas.C19.walk_plain (by decide)]; rfl)

/-- suffixFile BEFORE the fix: the full statement was FALSE. -/
theorem suffixFileOld_counterexample : ¬ ConfinedDH suffixFileOld := by
  intro h
  exact absurd (h [['d']] ['H'] "../../../x".toList ⟨true, [['x'], "0-0-7.suffix".toList]⟩ setup_example (by decide)) (by decide)

theorem suffixFileOld_partial (d : List Seg) (H : Seg) (hs : Setup d H) (v : Str) (hg : Guard v) (p : NPath)
    (h : suffixFileOld d H v = some p) : within (dataDir d) p := by
  unfold suffixFileOld at h
  simp at h; subst h
  have hH := hs.2
  exact Lemmas.C19.confined_core d hs.1 [H, "suffix".toList] [SID ++ ".suffix".toList] v hg
    (by intro s hm; simp at hm; rcases hm with hm | hm <;> subst hm <;> first | exact hH.2.2.2 | decide)
    (by decide) 1
    (by rw [Lemmas.C19.walk_plain hH, Lemmas.C19.walk_plain (by decide)]; rfl)

/-- tagsTreeFile BEFORE the fix (tag key of an ingested datapoint, unchecked): the full statement was FALSE. -/
theorem tagsTreeFileOld_counterexample : ¬ ConfinedDH tagsTreeFileOld := by
  intro h
  exact absurd (h [['d']] ['H'] "../../../../../../x".toList ⟨true, [['x']]⟩ setup_example (by decide)) (by decide)

theorem tagsTreeFileOld_partial (d : List Seg) (H : Seg) (hs : Setup d H) (v : Str) (hg : Guard v) (p : NPath)
    (h : tagsTreeFileOld d H v = some p) : within (dataDir d) p := by
  unfold tagsTreeFileOld at h
  simp at h; subst h
  have hH := hs.2
  exact Lemmas.C19.confined_core d hs.1 [H, "final".toList, "tth".toList, MID, ['0']] [] v hg
    (by intro s hm; simp at hm; rcases hm with hm | hm | hm | hm | hm <;> subst hm <;> first | exact hH.2.2.2 | decide)
    (by simp) 4
    (by rw [Lemmas.C19.walk_plain hH, Lemmas.C19.walk_plain (by decide), Lemmas.C19.walk_plain (by decide),
          Lemmas.C19.walk_plain (by decide), Lemmas.C19.walk_plain (by decide)]; rfl)

/-! ### the repaired builders, full strength -/

/-- C19.3 lookupUpload (POST /api/lookup-upload, form value `name`): every name the handler accepts is stored inside the data dir. -/
theorem confined_lookupUpload : ConfinedD lookupUpload := by
  intro d H v p hs h
  unfold lookupUpload at h
  split at h
  · rename_i hv; exact lookupUploadOld_partial d H hs v (simpleName_guard hv) p h
  · simp at h

/-- C19.3 inputlookup (`| inputlookup "<file>"`): every file name the command accepts is read from inside the data dir. -/
theorem confined_inputlookup : ConfinedD inputlookup := by
  intro d H v p hs h
  unfold inputlookup at h
  split at h
  · rename_i hv; exact inputlookupOld_partial d H hs v (simpleName_guard hv) p h
  · simp at h

/-- C19.3 aliasFile (POST /_aliases and the alias routes): every index name accepted reads/writes/deletes inside the data dir. -/
theorem confined_aliasFile : ConfinedDH aliasFile := by
  intro d H v p hs h
  unfold aliasFile at h
  split at h
  · rename_i hv; exact aliasFileOld_partial d H hs v (simpleName_guard hv) p h
  · simp at h

/-- C19.3 baseSegDir: every index name accepted at ingest gets its segment directories inside the data dir. -/
theorem confined_baseSegDir : ConfinedDH baseSegDir := by
  intro d H v p hs h
  unfold baseSegDir at h
  split at h
  · rename_i hv; exact baseSegDirOld_partial d H hs v (simpleName_guard hv) p h
  · simp at h

/-- C19.3 baseVTableDir. -/
theorem confined_baseVTableDir : ConfinedDH baseVTableDir := by
  intro d H v p hs h
  unfold baseVTableDir at h
  split at h
  · rename_i hv; exact baseVTableDirOld_partial d H hs v (simpleName_guard hv) p h
  · simp at h

/-- C19.3 suffixFile. -/
theorem confined_suffixFile : ConfinedDH suffixFile := by
  intro d H v p hs h
  unfold suffixFile at h
  split at h
  · rename_i hv; exact suffixFileOld_partial d H hs v (simpleName_guard hv) p h
  · simp at h

/-- C19.3 tagsTreeFile: every tag key of an accepted datapoint names a file inside the data dir. -/
theorem confined_tagsTreeFile : ConfinedDH tagsTreeFile := by
  intro d H v p hs h
  unfold tagsTreeFile at h
  split at h
  · rename_i hv; exact tagsTreeFileOld_partial d H hs v (simpleName_guard hv) p h
  · simp at h

/-- tagsTreeRead BEFORE the repair (tag key of a tag filter of a metrics QUERY, appended to the tags tree directory of a
    rotated segment unchecked and stat'ed / opened / read): the full statement was FALSE — `GET /otsdb/api/query?…&m=avg:m{../../../../../../x=v}`
    made the server open and read x beside the data dir (known_findings: confine/oqK/read-outside). -/
theorem tagsTreeReadOld_counterexample : ¬ ConfinedDH tagsTreeReadOld := by
  intro h
  exact absurd (h [['d']] ['H'] "../../../../../../x".toList ⟨true, [['x']]⟩ setup_example (by decide)) (by decide)

/-- …and the empty key named the tags tree DIRECTORY itself (stat succeeds, the open directory is never closed) -/
example : tagsTreeReadOld [['d']] ['H'] [] = some ⟨true, [['d'], ['H'], "final".toList, "tth".toList, MID, ['0']]⟩ := by decide

theorem tagsTreeReadOld_partial (d : List Seg) (H : Seg) (hs : Setup d H) (v : Str) (hg : Guard v) (p : NPath)
    (h : tagsTreeReadOld d H v = some p) : within (dataDir d) p :=
  tagsTreeFileOld_partial d H hs v hg p h

/-- C19.3 confined_tagsTreeRead: for EVERY tag key of EVERY tag filter of a metrics query (any protocol: the reader is the
    only place where the key becomes a file name) the file the reader stats, opens and reads is inside the data dir — or the
    key is answered like a key no series has. -/
theorem confined_tagsTreeRead : ConfinedDH tagsTreeRead := by
  intro d H v p hs h
  unfold tagsTreeRead at h
  split at h
  · rename_i hv; exact tagsTreeReadOld_partial d H hs v (simpleName_guard hv) p h
  · simp at h

/-- reader and writer agree on every key: a key the writer can have stored is a key the reader opens, under the same name -/
theorem tagsTreeRead_eq_write (d : List Seg) (H : Seg) (v : Str) : tagsTreeRead d H v = tagsTreeFile d H v := rfl

theorem tagsTreeRead_is_pipe (d : List Seg) (H : Seg) (v : Str) : tagsTreeRead d H v = (tagKeyPipe d H).run v := by
  unfold tagsTreeRead tagsTreeReadOld tagsTreeFileOld Pipe.run tagKeyPipe
  by_cases hv : simpleName v = true <;> simp [hv]

example : tagsTreeRead [['d']] ['H'] "host.name".toList = some ⟨true, [['d'], ['H'], "final".toList, "tth".toList, MID, ['0'], "host.name".toList]⟩ ∧
    tagsTreeRead [['d']] ['H'] "../../../../../../x".toList = none ∧ tagsTreeRead [['d']] ['H'] [] = none ∧ tagsTreeRead [['d']] ['H'] "..".toList = none := by decide

/-- names that are valid today keep working: letters, digits, '-', '_', inner dots, unicode -/
example : (lookupUpload [['d']] "my-lookup_v1.2.csv".toList).isSome ∧ (baseSegDir [['d']] ['H'] "logs.2024-06".toList).isSome ∧
    (tagsTreeFile [['d']] ['H'] "host.name".toList).isSome ∧ (aliasFile [['d']] ['H'] "évts".toList).isSome := by decide

/-- and these are refused -/
example : lookupUpload [['d']] "../../x.csv".toList = none ∧ inputlookup [['d']] "a\\..\\x.csv".toList = none ∧
    aliasFile [['d']] ['H'] "..".toList = none ∧ baseSegDir [['d']] ['H'] "a/b".toList = none ∧ tagsTreeFile [['d']] ['H'] [] = none := by decide

/-! ## Part 4 — validate-then-use pipelines -/

/-- the full statement for a pipeline: whatever value arrives, the path it is turned into is inside `base` -/
def ConfinedPipe (base : NPath) (p : Pipe) : Prop := ∀ v q, p.run v = some q → within base q

/-- C19.4a  For EVERY pipeline: if the join of the post-processed value is confined for every value the validator accepts,
    the pipeline is confined — no matter what is done to the value BEFORE it is validated. -/
theorem pipe_confined (base : NPath) (p : Pipe)
    (hb : ∀ w, p.validate w = true → within base (p.build (p.post w))) : ConfinedPipe base p := by
  intro v q h
  unfold Pipe.run at h
  simp only at h
  split at h
  · rename_i hv
    simp at h; subst h
    exact hb _ hv
  · simp at h

/-- C19.4b  …in particular when the transformation between validation and use is the identity: the validator's guarantee
    about the string it saw IS the guarantee about the string that is joined. -/
theorem pipe_confined_id (base : NPath) (p : Pipe) (hid : p.post = id)
    (hb : ∀ w, p.validate w = true → within base (p.build w)) : ConfinedPipe base p :=
  pipe_confined base p (by intro w hw; rw [hid]; exact hb w hw)

/-- the handlers ARE these pipelines (same function, for every value) -/
theorem lookupUpload_is_pipe (d : List Seg) (v : Str) : lookupUpload d v = (uploadPipe d).run v := by
  unfold lookupUpload lookupUploadOld Pipe.run uploadPipe
  by_cases hv : simpleName v = true
  · have hne : v ≠ [] := by
      intro h; subst h; simp [simpleName] at hv
    simp [hv, hne]
  · simp [hv]

theorem inputlookup_is_pipe (d : List Seg) (v : Str) : inputlookup d v = (inputlookupPipe d).run v := by
  unfold inputlookup inputlookupOld Pipe.run inputlookupPipe isCsvName
  by_cases hv : simpleName v = true <;> by_cases he : (endsWith v csvExt = true ∨ endsWith v csvGzExt = true) <;> simp [hv, he]

theorem aliasFile_is_pipe (d : List Seg) (H : Seg) (v : Str) : aliasFile d H v = (aliasPipe d H).run v := by
  unfold aliasFile aliasFileOld Pipe.run aliasPipe
  by_cases hv : simpleName v = true
  · have hne : v ≠ [] := by
      intro h; subst h; simp [simpleName] at hv
    simp [hv, hne]
  · simp [hv]

theorem baseSegDir_is_pipe (d : List Seg) (H : Seg) (v : Str) : baseSegDir d H v = (segDirPipe d H).run v := by
  unfold baseSegDir baseSegDirOld Pipe.run segDirPipe
  by_cases hv : simpleName v = true <;> simp [hv]

theorem tagsTreeFile_is_pipe (d : List Seg) (H : Seg) (v : Str) : tagsTreeFile d H v = (tagKeyPipe d H).run v := by
  unfold tagsTreeFile tagsTreeFileOld Pipe.run tagKeyPipe
  by_cases hv : simpleName v = true <;> simp [hv]

/-- C19.4c  the lookup upload as coded (check, then only the extension append, then join) is confined -/
theorem confined_uploadPipe (d : List Seg) (H : Seg) (hs : Setup d H) : ConfinedPipe (dataDir d) (uploadPipe d) :=
  pipe_confined _ _ (by
    intro w hw
    exact Lemmas.C19.confined_core d hs.1 ["lookups".toList, []] [] (uploadName w)
      (Lemmas.C19.uploadName_noSlash (simpleName_guard hw)) (by decide) (by simp) 0 (by decide))

/-- what url.PathUnescape makes of a name the validator accepts -/
example : simpleName "..%2F..%2Fx.csv".toList = true ∧ pctDecode "..%2F..%2Fx.csv".toList = some "../../x.csv".toList := by decide
example : pctDecode "%zz".toList = none ∧ pctDecode "a%2".toList = none ∧ pctDecode "a+b%41".toList = some "a+bA".toList := by decide

/-- C19.4d  percent-decoding BETWEEN the check and the join (seeded change C19-1): the full statement is FALSE — the name
    `..%2F..%2Fx.csv` passes the check and lands beside the data dir. -/
theorem decode_after_validate_counterexample : ¬ ConfinedPipe (dataDir [['d']]) (uploadPipeDecodeAfter [['d']]) := by
  intro h
  exact absurd (h "..%2F..%2Fx.csv".toList ⟨true, ["x.csv".toList]⟩ (by decide)) (by decide)

/-- C19.4e  the same decoding done BEFORE the check is harmless: the validator then sees the string that is joined. -/
theorem decode_before_validate_confined (d : List Seg) (H : Seg) (hs : Setup d H) :
    ConfinedPipe (dataDir d) (uploadPipeDecodeBefore d) :=
  pipe_confined _ _ (by
    intro w hw
    exact Lemmas.C19.confined_core d hs.1 ["lookups".toList, []] [] (uploadName w)
      (Lemmas.C19.uploadName_noSlash (simpleName_guard hw)) (by decide) (by simp) 0 (by decide))

example : (uploadPipeDecodeBefore [['d']]).run "..%2F..%2Fx.csv".toList = none ∧
    (uploadPipeDecodeBefore [['d']]).run "my%20hosts.csv".toList = some ⟨true, [['d'], "lookups".toList, "my hosts.csv".toList]⟩ := by decide

/-! ## Part 5 — metrics: every datapoint of every series -/

/-- C19.5a  EVERY datapoint of EVERY series: with any tag keys and any number `n` of samples sent with one TagsHolder, each
    sample is either rejected or every tags-tree file it names is inside the data dir. -/
theorem confined_series (d : List Seg) (H : Seg) (hs : Setup d H) (keys : List Str) (n : Nat) :
    ∀ r ∈ encodeSeries d H keys n, ∀ ps, r = some ps → ∀ p ∈ ps, within (dataDir d) p := by
  intro r hr ps hps p hp
  unfold encodeSeries at hr
  have hr' := (List.mem_replicate.mp hr).2
  subst hr'
  unfold encodeDatapoint at hps
  split at hps
  · rename_i hk
    simp at hps; subst hps
    simp only [List.mem_filterMap] at hp
    obtain ⟨k, hkm, hkp⟩ := hp
    have hsk : simpleName k = true := by
      unfold checkTagKeys at hk
      exact List.all_eq_true.mp hk k hkm
    exact tagsTreeFileOld_partial d H hs k (simpleName_guard hsk) p hkp
  · simp at hps

/-- C19.5b  the verdict does not depend on the position of the sample in the series (the check keeps no state). -/
theorem series_uniform (d : List Seg) (H : Seg) (keys : List Str) (n : Nat) :
    ∀ r ∈ encodeSeries d H keys n, r = encodeDatapoint d H keys := by
  intro r hr
  exact (List.mem_replicate.mp hr).2

/-- the statement of C19.5a for the memoised check -/
def ConfinedMemo : Prop := ∀ (d : List Seg) (H : Seg) (keys : List Str) (n : Nat), Setup d H →
    ∀ r ∈ encodeSeriesMemo d H keys n false, ∀ ps, r = some ps → ∀ p ∈ ps, within (dataDir d) p

/-- C19.5c  remembering "keys already checked" in the holder, with the flag set before the walk (seeded change C19-3): FALSE —
    the second sample of a series with the key `../../../../../../x` is accepted and names a file beside the data dir. -/
theorem memo_series_counterexample : ¬ ConfinedMemo := by
  intro h
  exact absurd (h [['d']] ['H'] ["../../../../../../x".toList] 2 setup_example
    (some [⟨true, [['x']]⟩]) (by decide) [⟨true, [['x']]⟩] rfl ⟨true, [['x']]⟩ (by decide)) (by decide)

example : encodeSeries [['d']] ['H'] ["host".toList, "../x".toList] 3 = [none, none, none] := by decide
example : (encodeSeries [['d']] ['H'] ["host".toList] 2).all Option.isSome = true := by decide

/-! ## Part 6 — delete-index -/

/-- the table invariant: every stored index name passed the validator -/
def TableOK (table : List Str) : Prop := ∀ t ∈ table, simpleName t = true

theorem addIndex_ok (table : List Str) (v : Str) (h : TableOK table) : TableOK (addIndex table v) := by
  unfold addIndex
  split
  · rename_i hv
    intro t ht
    simp at ht
    rcases ht with ht | ht
    · exact ht ▸ hv
    · exact h t ht
  · exact h

theorem deleteIndex_ok (d : List Seg) (H : Seg) (table cands : List Str) (h : TableOK table) :
    TableOK (deleteIndex d H table cands).2 := by
  intro t ht
  unfold deleteIndex at ht
  simp at ht
  exact h t ht.1

/-- C19.6a  one delete request: for EVERY list of candidate names the request value is expanded to, every directory removed is
    inside the data dir, provided the table holds validated names only. -/
theorem confined_deleteIndex (d : List Seg) (H : Seg) (hs : Setup d H) (table cands : List Str) (h : TableOK table) :
    ∀ p ∈ (deleteIndex d H table cands).1, within (dataDir d) p := by
  intro p hp
  unfold deleteIndex at hp
  simp only [List.mem_map, List.mem_filter] at hp
  obtain ⟨c, ⟨_, hct⟩, hcp⟩ := hp
  have hc : simpleName c = true := h c (by simpa using hct)
  subst hcp
  have hH := hs.2
  exact Lemmas.C19.confined_core d hs.1 [H, "final".toList] [[]] c (simpleName_guard hc)
    (by intro s hm; simp at hm; rcases hm with hm | hm <;> subst hm <;> first | exact hH.2.2.2 | decide)
    (by simp) 1
    (by rw [Lemmas.C19.walk_plain hH, Lemmas.C19.walk_plain (by decide)]; rfl)

/-- C19.6b  EVERY history of create and delete requests, starting from any table of validated names: every directory removed
    on the way is inside the data dir, and the table still holds validated names only. -/
theorem confined_index_history (d : List Seg) (H : Seg) (hs : Setup d H) :
    ∀ (ops : List IndexOp) (table : List Str), TableOK table →
      (∀ p ∈ (runIndexOps d H table ops).1, within (dataDir d) p) ∧ TableOK (runIndexOps d H table ops).2 := by
  intro ops
  induction ops with
  | nil => intro table h; exact ⟨by simp [runIndexOps], by simpa [runIndexOps] using h⟩
  | cons op r ih =>
    intro table h
    cases op with
    | create v =>
      simp only [runIndexOps]
      exact ih _ (addIndex_ok table v h)
    | delete c =>
      simp only [runIndexOps]
      have h1 := confined_deleteIndex d H hs table c h
      have h2 := ih _ (deleteIndex_ok d H table c h)
      constructor
      · intro p hp
        simp only [List.mem_append] at hp
        rcases hp with hp | hp
        · exact h1 p hp
        · exact h2.1 p hp
      · exact h2.2

/-- the statement of C19.6a for delete-index without the membership test -/
def ConfinedNoGate : Prop := ∀ (d : List Seg) (H : Seg) (table cands : List Str), Setup d H → TableOK table →
    ∀ p ∈ (deleteIndexNoGate d H table cands).1, within (dataDir d) p

/-- C19.6c  removing the directories of names that are NOT in the table (seeded change C19-2): FALSE — the request value
    `../../../victim` names a directory beside the data dir. -/
theorem deleteIndexNoGate_counterexample : ¬ ConfinedNoGate := by
  intro h
  exact absurd (h [['d']] ['H'] [] ["../../../victim".toList] setup_example (by intro t ht; simp at ht)
    ⟨true, ["victim".toList]⟩ (by decide)) (by decide)

example : (runIndexOps [['d']] ['H'] [] [.create "logs".toList, .create "../x".toList, .delete ["logs".toList, "../../../victim".toList]]) =
    ([⟨true, [['d'], ['H'], "final".toList, "logs".toList]⟩], []) := by decide

/-! ## Part 7 — column names -/

def autoSrt : Str := "_auto.srt".toList

/-- C19.7a  the sort index file BEFORE the repair (column name joined to the segment directory unchecked): the full statement
    was FALSE — the column `../../../../../../../x` put x_auto.srt beside the data dir. -/
theorem sortIndexFileOld_counterexample : ¬ ConfinedDH (fun d H v => sortIndexFileOld d H autoSrt v) := by
  intro h
  exact absurd (h [['d']] ['H'] "../../../../../../../x".toList ⟨true, ["x_auto.srt".toList]⟩ setup_example (by decide)) (by decide)

theorem sortIndexFileOld_partial (d : List Seg) (H : Seg) (hs : Setup d H) (suf : Str) (hsuf : noSlash suf) (v : Str) (hg : Guard v)
    (p : NPath) (h : sortIndexFileOld d H suf v = some p) : within (dataDir d) p := by
  unfold sortIndexFileOld at h
  simp at h; subst h
  have hH := hs.2
  exact Lemmas.C19.confined_core d hs.1 [H, "final".toList, IDX, SID, ['0'], ['0']] [] (v ++ suf)
    (Lemmas.C19.noSlash_append hg hsuf)
    (by intro s hm; simp at hm; rcases hm with hm | hm | hm | hm | hm <;> subst hm <;> first | exact hH.2.2.2 | decide)
    (by simp) 5
    (by rw [Lemmas.C19.walk_plain hH, Lemmas.C19.walk_plain (by decide), Lemmas.C19.walk_plain (by decide),
          Lemmas.C19.walk_plain (by decide), Lemmas.C19.walk_plain (by decide), Lemmas.C19.walk_plain (by decide)]; rfl)

/-- C19.7b  confined_sortindex: for EVERY column name (event key, sort-columns request, sort column of a query) and every
    suffix without a separator, the sort index file that is written, stat'ed or opened is inside the data dir. -/
theorem confined_sortindex (suf : Str) (hsuf : noSlash suf) : ConfinedDH (fun d H v => sortIndexFile d H suf v) := by
  intro d H v p hs h
  simp only [sortIndexFile] at h
  split at h
  · rename_i hv; exact sortIndexFileOld_partial d H hs suf hsuf v (simpleName_guard hv) p h
  · simp at h

theorem sortIndexFile_is_pipe (d : List Seg) (H : Seg) (suf v : Str) : sortIndexFile d H suf v = (sortIndexPipe d H suf).run v := by
  unfold sortIndexFile sortIndexFileOld Pipe.run sortIndexPipe
  by_cases hv : simpleName v = true <;> simp [hv]

/-- C19.7c  every other per-column file is named by the decimal print of a hash of the column name: whatever the column is
    called and whatever the hash function, the file is inside the data dir. -/
theorem confined_hashedColumnFile (d : List Seg) (H : Seg) (hs : Setup d H) (hash : Str → Nat) (ext : Str) (hext : noSlash ext)
    (v : Str) : within (dataDir d) (hashedColumnFile d H hash ext v) := by
  unfold hashedColumnFile
  have hH := hs.2
  have hdig : '/' ∉ Nat.toDigits 10 (hash v) := by
    intro hm
    have := Nat.isDigit_of_mem_toDigits (b := 10) (by decide) (by decide) hm
    simp [Char.isDigit] at this
  exact Lemmas.C19.confined_core d hs.1 [H, "final".toList, IDX, SID, ['0']] [] (['0', '_'] ++ (Nat.toDigits 10 (hash v)) ++ ext)
    (Lemmas.C19.noSlash_append (Lemmas.C19.noSlash_append (by decide) hdig) hext)
    (by intro s hm; simp at hm; rcases hm with hm | hm | hm | hm | hm <;> subst hm <;> first | exact hH.2.2.2 | decide)
    (by simp) 4
    (by rw [Lemmas.C19.walk_plain hH, Lemmas.C19.walk_plain (by decide), Lemmas.C19.walk_plain (by decide),
          Lemmas.C19.walk_plain (by decide), Lemmas.C19.walk_plain (by decide)]; rfl)

example : sortIndexFile [['d']] ['H'] autoSrt "latency".toList =
    some ⟨true, [['d'], ['H'], "final".toList, IDX, SID, ['0'], ['0'], "latency_auto.srt".toList]⟩ := by decide
example : sortIndexFile [['d']] ['H'] autoSrt "../x".toList = none ∧ sortIndexFile [['d']] ['H'] autoSrt "a/b".toList = none := by decide

end SigModel.Props.C19
