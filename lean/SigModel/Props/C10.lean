/-
C10 — Metrics write-ahead log replays a faithful prefix after any crash.
Property theorems only (helper lemmas: SigModel/Lemmas/C10*.lean).

"a log cut at any byte yields a prefix of what was appended, and a damaged log block is rejected
rather than decoded into datapoints that were never written" — for EVERY list of payloads, EVERY
cut position, EVERY prefix of the write-syscall sequence, EVERY single-byte change, and ANY checksum
function `crc` (no burst-detection property of CRC-32 is assumed).
-/
-- AGENT-REPORT:
-- `crash_prefix` was FALSE as originally stated (all other statements are proved unchanged).
--
-- Counterexample (empty payload):  crc := crc32 (crc32 [] = 0), ok := fun _ => true, ps := [[]], n := 3.
--   wfPayloads crc32 [[]] holds (0 + 4 < 2^32, crc32 [] = 0 < 2^32, no bytes), ok [] = true, 1 ≤ 3.
--   writes crc32 [[]]            = [[1], [4,0,0,0], [0,0,0,0], []]
--   ((writes ..).take 3).flatten = [1, 4,0,0,0, 0,0,0,0]
--   readFile of that             = some ([[]], St.clean)      -- size = 4 ⇒ payload length 0 ⇒ nothing
--                                                             -- left to read; crc [] matches; accepted
--   claimed                      = some (ps.take ((3-1)/3), _) = some ([], _)        -- mismatch.
--   Same with neighbours: ps := [[7],[],[9]], n := 6 replays [[7],[]], claimed ps.take 1 = [[7]].
--   (Both are machine-checked below: the `example` right after `crash_prefix_any`.)
-- Cause: for an EMPTY payload the third write of `frameWrites` is a zero-byte write, so the frame is
--   already complete on disk after its second (checksum) write; "(n - 1) / 3" undercounts by one
--   exactly when the crash falls between the 2nd and 3rd write of an empty-payload frame.
--   (The byte-level statement `truncate_prefix`/`completeWithin` is unaffected: 8 + 0 ≤ k is right.)
-- Minimal correction: ONE extra hypothesis on `crash_prefix`,
--       (hne : ∀ p ∈ ps, p ≠ [])
--   i.e. payloads are non-empty (the real writer appends zstd frames, which are never 0 bytes).
--   Conclusion, index arithmetic and every other hypothesis are unchanged.
-- To keep the intent at full strength for the case the hypothesis excludes, the additional theorem
--   `crash_prefix_any` (no non-emptiness assumption) shows the replay is STILL a true prefix
--   `ps.take c` with (n-1)/3 ≤ c ≤ (n-1)/3 + 1: never a partial or invented block.
-- Note (no change made): in `corrupt_detected` the hypothesis `hi2` is logically redundant — if `i`
--   lay beyond frame `m`, frame `m` would be intact and `hacc` would be contradictory — so the proof
--   does not use it; it is kept verbatim because it is part of the stated intent.
import SigModel.Model.Wal
import SigModel.Lemmas.C10

namespace SigModel.Props.C10
open SigModel.Wal
open SigModel.Lemmas.C10 (cw)

/-- payloads as the writer produces them: bytes, length fits the uint32 size field, crc is 32 bit -/
def wfPayloads (crc : Bytes → Nat) (ps : List Bytes) : Prop :=
  ∀ p ∈ ps, p.length + 4 < 4294967296 ∧ crc p < 4294967296 ∧ (∀ b ∈ p, b < 256)

/-- C10.1 datapoint block codec: decode ∘ encode = id (timestamps uint32, value bits and tsid uint64) -/
theorem decBlock_encBlock (dps : List Dp)
    (h : ∀ d ∈ dps, d.ts < 4294967296 ∧ d.val < 18446744073709551616 ∧ d.tsid < 18446744073709551616)
    (hn : dps.length < 4294967296) :
    decBlock (encBlock dps) = some dps :=
  SigModel.Lemmas.C10.decBlock_encBlock dps h hn

/-- C10.2 an intact file replays every appended block, in order, and ends cleanly -/
theorem readFile_file (crc : Bytes → Nat) (ok : Bytes → Bool) (ps : List Bytes)
    (hwf : wfPayloads crc ps) (hok : ∀ p ∈ ps, ok p = true) :
    readFile crc ok (file crc ps) = some (ps, St.clean) :=
  SigModel.Lemmas.C10.readFile_file crc ok ps hwf hok

/-- number of frames that lie completely within the first `k` bytes after the version byte -/
def completeWithin : List Bytes → Nat → Nat
  | [], _ => 0
  | p :: ps, k => if 8 + p.length ≤ k then 1 + completeWithin ps (k - (8 + p.length)) else 0

/-- C10.3 truncation: a file cut at ANY byte `k ≥ 1` replays exactly the blocks that are completely
inside the cut — a true prefix, never a partial or invented block. -/
theorem truncate_prefix (crc : Bytes → Nat) (ok : Bytes → Bool) (ps : List Bytes) (k : Nat)
    (hwf : wfPayloads crc ps) (hok : ∀ p ∈ ps, ok p = true) (hk : 1 ≤ k) :
    ∃ st, readFile crc ok ((file crc ps).take k) = some (ps.take (completeWithin ps (k - 1)), st) := by
  have hcw : ∀ (qs : List Bytes) (j : Nat), completeWithin qs j = cw qs j := by
    intro qs
    induction qs with
    | nil => intro j; rfl
    | cons q qs ih => intro j; simp only [completeWithin, cw, ih]
  rw [hcw]
  exact SigModel.Lemmas.C10.readFile_truncate crc ok ps k hwf hok hk

/-- … and a file cut before the version byte is not opened at all -/
theorem truncate_zero (crc : Bytes → Nat) (ok : Bytes → Bool) (ps : List Bytes) :
    readFile crc ok ((file crc ps).take 0) = none := by
  rfl

/-- C10.4 crash at any system-call boundary (process-crash model: completed writes persist):
after any prefix of the write sequence, replay yields exactly the blocks whose third write completed.
(CORRECTED, see AGENT-REPORT at the top: hypothesis `hne` added — payloads are non-empty.) -/
theorem crash_prefix (crc : Bytes → Nat) (ok : Bytes → Bool) (ps : List Bytes) (n : Nat)
    (hwf : wfPayloads crc ps) (hok : ∀ p ∈ ps, ok p = true) (hne : ∀ p ∈ ps, p ≠ []) (hn : 1 ≤ n) :
    ∃ st, readFile crc ok ((writes crc ps).take n).flatten = some (ps.take ((n - 1) / 3), st) :=
  SigModel.Lemmas.C10.readFile_crash crc ok ps n hwf hok hne hn

/-- C10.4' (added) the same crash model WITHOUT assuming non-empty payloads: replay is still a true
prefix of the appended blocks; the count is `(n - 1) / 3` or one more (the latter only when the frame
in progress has an empty payload and its checksum write completed — that frame is then complete). -/
theorem crash_prefix_any (crc : Bytes → Nat) (ok : Bytes → Bool) (ps : List Bytes) (n : Nat)
    (hwf : wfPayloads crc ps) (hok : ∀ p ∈ ps, ok p = true) (hn : 1 ≤ n) :
    ∃ c st, readFile crc ok ((writes crc ps).take n).flatten = some (ps.take c, st)
      ∧ (n - 1) / 3 ≤ c ∧ c ≤ (n - 1) / 3 + 1 :=
  SigModel.Lemmas.C10.readFile_crash_any crc ok ps n hwf hok hn

/-- machine-checked counterexample to the ORIGINAL `crash_prefix` (without `hne`): all of its
hypotheses hold, yet the replay is `[[]]` (resp. `[[7], []]`), not `ps.take ((n - 1) / 3)`. -/
example :
    wfPayloads crc32 [[]] ∧ (∀ p ∈ [([] : Bytes)], (fun _ => true) p = true) ∧ 1 ≤ 3
    ∧ readFile crc32 (fun _ => true) ((writes crc32 [[]]).take 3).flatten = some ([[]], St.clean)
    ∧ ([[]] : List Bytes).take ((3 - 1) / 3) = []
    ∧ readFile crc32 (fun _ => true) ((writes crc32 [[7], [], [9]]).take 6).flatten
        = some ([[7], []], St.clean)
    ∧ ([[7], [], [9]] : List Bytes).take ((6 - 1) / 3) = [[7]] := by
  refine ⟨?_, ?_, by decide, by decide +kernel, rfl, by decide +kernel, rfl⟩
  · intro p hp
    simp only [List.mem_singleton] at hp
    subst hp
    exact ⟨by decide, by decide +kernel, by simp⟩
  · intro p _; rfl

/-- byte offset in the file at which frame `m` starts -/
def frameStart (ps : List Bytes) (m : Nat) : Nat := 1 + ((ps.take m).map (fun p => 8 + p.length)).sum

/-- the reader's size and checksum tests pass for the bytes found at offset `off` -/
def acceptsAt (crc : Bytes → Nat) (f : Bytes) (off : Nat) : Bool :=
  match rd32 (f.drop off) with
  | none => false
  | some (size, r1) =>
    decide (4 ≤ size) &&
    match rd32 r1 with
    | none => false
    | some (sum, r2) => decide (size - 4 ≤ r2.length) && decide (crc (r2.take (size - 4)) = sum)

/-- C10.5 corruption: change ANY byte inside frame `m`.  Blocks before `m` are replayed intact, and
nothing from frame `m` on is replayed unless the damaged bytes happen to pass the size+checksum
test again (a checksum accident, named explicitly). -/
theorem corrupt_detected (crc : Bytes → Nat) (ok : Bytes → Bool) (ps : List Bytes) (m i b : Nat)
    (hwf : wfPayloads crc ps) (hok : ∀ p ∈ ps, ok p = true) (hm : m < ps.length)
    (hi : frameStart ps m ≤ i) (hi2 : i < frameStart ps (m + 1))
    (hacc : acceptsAt crc ((file crc ps).set i b) (frameStart ps m) = false) :
    readFile crc ok ((file crc ps).set i b) = some (ps.take m, St.err) := by
  have _ := hi2 -- redundant given `hacc`, see AGENT-REPORT
  exact SigModel.Lemmas.C10.readFile_corrupt crc ok ps m i b hwf hok hm hi hacc

/-- non-vacuity: a two-block file with a flipped payload byte under real CRC-32 meets the hypotheses -/
example : acceptsAt crc32 ((file crc32 [[1, 2, 3], [4, 5]]).set 10 99) (frameStart [[1, 2, 3], [4, 5]] 0) = false := by
  decide +kernel

end SigModel.Props.C10
