/-
C10 — Metrics write-ahead log replays a faithful prefix after any crash.
Property theorems only (helper lemmas: SigModel/Lemmas/C10*.lean).

"a log cut at any byte yields a prefix of what was appended, and a damaged log block is rejected
rather than decoded into datapoints that were never written" — for EVERY list of payloads, EVERY
cut position, EVERY prefix of the write-syscall sequence, EVERY single-byte change, and ANY checksum
function `crc` (no burst-detection property of CRC-32 is assumed).
-/
-- AGENT-REPORT:
-- `crash_prefix` was FALSE as originally stated (all other statements are proved unchanged).
--
-- Counterexample (empty payload):  crc := crc32 (crc32 [] = 0), ok := fun _ => true, ps := [[]], n := 3.
--   wfPayloads crc32 [[]] holds (0 + 4 < 2^32, crc32 [] = 0 < 2^32, no bytes), ok [] = true, 1 ≤ 3.
--   writes crc32 [[]]            = [[1], [4,0,0,0], [0,0,0,0], []]
--   ((writes ..).take 3).flatten = [1, 4,0,0,0, 0,0,0,0]
--   readFile of that             = some ([[]], St.clean)      -- size = 4 ⇒ payload length 0 ⇒ nothing
--                                                             -- left to read; crc [] matches; accepted
--   claimed                      = some (ps.take ((3-1)/3), _) = some ([], _)        -- mismatch.
--   Same with neighbours: ps := [[7],[],[9]], n := 6 replays [[7],[]], claimed ps.take 1 = [[7]].
--   (Both are machine-checked below: the `example` right after `crash_prefix_any`.)
-- Cause: for an EMPTY payload the third write of `frameWrites` is a zero-byte write, so the frame is
--   already complete on disk after its second (checksum) write; "(n - 1) / 3" undercounts by one
--   exactly when the crash falls between the 2nd and 3rd write of an empty-payload frame.
--   (The byte-level statement `truncate_prefix`/`completeWithin` is unaffected: 8 + 0 ≤ k is right.)
-- Minimal correction: ONE extra hypothesis on `crash_prefix`,
--       (hne : ∀ p ∈ ps, p ≠ [])
--   i.e. payloads are non-empty (the real writer appends zstd frames, which are never 0 bytes).
--   Conclusion, index arithmetic and every other hypothesis are unchanged.
-- To keep the intent at full strength for the case the hypothesis excludes, the additional theorem
--   `crash_prefix_any` (no non-emptiness assumption) shows the replay is STILL a true prefix
--   `ps.take c` with (n-1)/3 ≤ c ≤ (n-1)/3 + 1: never a partial or invented block.
-- Note (no change made): in `corrupt_detected` the hypothesis `hi2` is logically redundant — if `i`
--   lay beyond frame `m`, frame `m` would be intact and `hacc` would be contradictory — so the proof
--   does not use it; it is kept verbatim because it is part of the stated intent.
import SigModel.Model.Wal
import SigModel.Lemmas.C10
import SigModel.Model.WalRecover
import SigModel.Lemmas.C10R
import SigModel.Lemmas.C10Rb
import SigModel.Lemmas.C10Rc
import SigModel.Lemmas.C10Rd
import SigModel.Lemmas.C10Re

namespace SigModel.Props.C10
open SigModel.Wal
open SigModel.Lemmas.C10 (cw)

/-- payloads as the writer produces them: bytes, length fits the uint32 size field, crc is 32 bit -/
def wfPayloads (crc : Bytes → Nat) (ps : List Bytes) : Prop :=
  ∀ p ∈ ps, p.length + 4 < 4294967296 ∧ crc p < 4294967296 ∧ (∀ b ∈ p, b < 256)

/-- C10.1 datapoint block codec: decode ∘ encode = id (timestamps uint32, value bits and tsid uint64) -/
theorem decBlock_encBlock (dps : List Dp)
    (h : ∀ d ∈ dps, d.ts < 4294967296 ∧ d.val < 18446744073709551616 ∧ d.tsid < 18446744073709551616)
    (hn : dps.length < 4294967296) :
    decBlock (encBlock dps) = some dps :=
  SigModel.Lemmas.C10.decBlock_encBlock dps h hn

/-- C10.2 an intact file replays every appended block, in order, and ends cleanly -/
theorem readFile_file (crc : Bytes → Nat) (ok : Bytes → Bool) (ps : List Bytes)
    (hwf : wfPayloads crc ps) (hok : ∀ p ∈ ps, ok p = true) :
    readFile crc ok (file crc ps) = some (ps, St.clean) :=
  SigModel.Lemmas.C10.readFile_file crc ok ps hwf hok

/-- number of frames that lie completely within the first `k` bytes after the version byte -/
def completeWithin : List Bytes → Nat → Nat
  | [], _ => 0
  | p :: ps, k => if 8 + p.length ≤ k then 1 + completeWithin ps (k - (8 + p.length)) else 0

/-- C10.3 truncation: a file cut at ANY byte `k ≥ 1` replays exactly the blocks that are completely
inside the cut — a true prefix, never a partial or invented block. -/
theorem truncate_prefix (crc : Bytes → Nat) (ok : Bytes → Bool) (ps : List Bytes) (k : Nat)
    (hwf : wfPayloads crc ps) (hok : ∀ p ∈ ps, ok p = true) (hk : 1 ≤ k) :
    ∃ st, readFile crc ok ((file crc ps).take k) = some (ps.take (completeWithin ps (k - 1)), st) := by
  have hcw : ∀ (qs : List Bytes) (j : Nat), completeWithin qs j = cw qs j := by
    intro qs
    induction qs with
    | nil => intro j; rfl
    | cons q qs ih => intro j; simp only [completeWithin, cw, ih]
  rw [hcw]
  exact SigModel.Lemmas.C10.readFile_truncate crc ok ps k hwf hok hk

/-- … and a file cut before the version byte is not opened at all -/
theorem truncate_zero (crc : Bytes → Nat) (ok : Bytes → Bool) (ps : List Bytes) :
    readFile crc ok ((file crc ps).take 0) = none := by
  rfl

/-- C10.4 crash at any system-call boundary (process-crash model: completed writes persist):
after any prefix of the write sequence, replay yields exactly the blocks whose third write completed.
(CORRECTED, see AGENT-REPORT at the top: hypothesis `hne` added — payloads are non-empty.) -/
theorem crash_prefix (crc : Bytes → Nat) (ok : Bytes → Bool) (ps : List Bytes) (n : Nat)
    (hwf : wfPayloads crc ps) (hok : ∀ p ∈ ps, ok p = true) (hne : ∀ p ∈ ps, p ≠ []) (hn : 1 ≤ n) :
    ∃ st, readFile crc ok ((writes crc ps).take n).flatten = some (ps.take ((n - 1) / 3), st) :=
  SigModel.Lemmas.C10.readFile_crash crc ok ps n hwf hok hne hn

/-- C10.4' (added) the same crash model WITHOUT assuming non-empty payloads: replay is still a true
prefix of the appended blocks; the count is `(n - 1) / 3` or one more (the latter only when the frame
in progress has an empty payload and its checksum write completed — that frame is then complete). -/
theorem crash_prefix_any (crc : Bytes → Nat) (ok : Bytes → Bool) (ps : List Bytes) (n : Nat)
    (hwf : wfPayloads crc ps) (hok : ∀ p ∈ ps, ok p = true) (hn : 1 ≤ n) :
    ∃ c st, readFile crc ok ((writes crc ps).take n).flatten = some (ps.take c, st)
      ∧ (n - 1) / 3 ≤ c ∧ c ≤ (n - 1) / 3 + 1 :=
  SigModel.Lemmas.C10.readFile_crash_any crc ok ps n hwf hok hn

/-- machine-checked counterexample to the ORIGINAL `crash_prefix` (without `hne`): all of its
hypotheses hold, yet the replay is `[[]]` (resp. `[[7], []]`), not `ps.take ((n - 1) / 3)`. -/
example :
    wfPayloads crc32 [[]] ∧ (∀ p ∈ [([] : Bytes)], (fun _ => true) p = true) ∧ 1 ≤ 3
    ∧ readFile crc32 (fun _ => true) ((writes crc32 [[]]).take 3).flatten = some ([[]], St.clean)
    ∧ ([[]] : List Bytes).take ((3 - 1) / 3) = []
    ∧ readFile crc32 (fun _ => true) ((writes crc32 [[7], [], [9]]).take 6).flatten
        = some ([[7], []], St.clean)
    ∧ ([[7], [], [9]] : List Bytes).take ((6 - 1) / 3) = [[7]] := by
  refine ⟨?_, ?_, by decide, by decide +kernel, rfl, by decide +kernel, rfl⟩
  · intro p hp
    simp only [List.mem_singleton] at hp
    subst hp
    exact ⟨by decide, by decide +kernel, by simp⟩
  · intro p _; rfl

/-- byte offset in the file at which frame `m` starts -/
def frameStart (ps : List Bytes) (m : Nat) : Nat := 1 + ((ps.take m).map (fun p => 8 + p.length)).sum

/-- the reader's size and checksum tests pass for the bytes found at offset `off` -/
def acceptsAt (crc : Bytes → Nat) (f : Bytes) (off : Nat) : Bool :=
  match rd32 (f.drop off) with
  | none => false
  | some (size, r1) =>
    decide (4 ≤ size) &&
    match rd32 r1 with
    | none => false
    | some (sum, r2) => decide (size - 4 ≤ r2.length) && decide (crc (r2.take (size - 4)) = sum)

/-- C10.5 corruption: change ANY byte inside frame `m`.  Blocks before `m` are replayed intact, and
nothing from frame `m` on is replayed unless the damaged bytes happen to pass the size+checksum
test again (a checksum accident, named explicitly). -/
theorem corrupt_detected (crc : Bytes → Nat) (ok : Bytes → Bool) (ps : List Bytes) (m i b : Nat)
    (hwf : wfPayloads crc ps) (hok : ∀ p ∈ ps, ok p = true) (hm : m < ps.length)
    (hi : frameStart ps m ≤ i) (hi2 : i < frameStart ps (m + 1))
    (hacc : acceptsAt crc ((file crc ps).set i b) (frameStart ps m) = false) :
    readFile crc ok ((file crc ps).set i b) = some (ps.take m, St.err) := by
  have _ := hi2 -- redundant given `hacc`, see AGENT-REPORT
  exact SigModel.Lemmas.C10.readFile_corrupt crc ok ps m i b hwf hok hm hi hacc

/-- non-vacuity: a two-block file with a flipped payload byte under real CRC-32 meets the hypotheses -/
example : acceptsAt crc32 ((file crc32 [[1, 2, 3], [4, 5]]).set 10 99) (frameStart [[1, 2, 3], [4, 5]] 0) = false := by
  decide +kernel

end SigModel.Props.C10

/-! ## C10, RECOVERY layer above the framing (Model/WalRecover.lean; lemmas Lemmas/C10R*.lean)

"after a crash at any instant, restart replays from the metrics WALs exactly the datapoints … whose log append
had completed, in order, and nothing else".  The framing theorems above deliver, per WAL file, the list of its
completely appended blocks; here a WAL directory is a list of (file name, completed blocks).  `run cap shard h`
is the writer of one shard after history `h` (ingest / WAL flush with or without roll-over / block rotation /
segment rotation, the size test against MAX_WAL_FILE_SIZE_BYTES being an input of each append), a crash is the end
of the history, `recover` is RecoverWALData as coded AFTER the repairs c10-1, c10-2, c10-3 (directory scan, grouping
by the key string, the files of a group sorted by their WAL index, a group whose first WAL file is gone only deleted,
ONE block and ONE flush per group, WAL files deleted after the flush), `specBlock` is the specification: the
datapoints of a block whose append or block rotation had completed, in ingest order — no files, names or buffers.
The behaviour BEFORE the repairs is kept as `groupsOld`, `recoverOld`, `recoverActionsOld`, … with the counterexample
theorems that made the repairs necessary (`…_old_counterexample`) and the partial theorems that held for it.
uint64 bounds on segment / block numbers and WAL indices are hypotheses (strconv.ParseUint). -/
namespace SigModel.Props.C10
open SigModel.Wal (Dp)
open SigModel.WalRecover

/-! ### crash BETWEEN two operations -/

/-- the full-strength statement of the recovery property for one shard: for EVERY writer history ended by a crash,
after RecoverWALData every block (segment, block number) on disk holds exactly the datapoints whose WAL append or
block rotation had completed, in ingest order (blocks that never had a completed datapoint are absent). -/
def RecoverExact : Prop :=
  ∀ (cap shard : Nat) (h : List Op), 1 ≤ cap →
    (run cap shard h).seg < 18446744073709551616 → (run cap shard h).blkNum < 18446744073709551616 →
    (run cap shard h).walIdx < 18446744073709551616 →
    ∀ k : Key, lookup k (diskAfterRecovery cap shard h) = specBlock cap shard h k

/-- C10.R1 `recover_exact`, FULL strength (any number of WAL files per block).  This covers: nothing of a rotated
block is touched, nothing buffered-but-not-appended comes back, the first WAL of a new segment/block carries the new
ids, several files of one block are concatenated into ONE block in the order in which they were written. -/
theorem recover_exact : RecoverExact := by
  intro cap shard h _ hs hb hi k
  exact SigModel.Lemmas.C10R.recover_exact_full cap shard h hs hb hi k

/-- non-vacuity + the former counterexample history (13 WAL files) now comes back in order -/
example : (lookup (dec 0, 0, 0) (diskAfterRecovery 100 0 SigModel.Lemmas.C10R.h11)).map (·.ts)
    = [100, 101, 102, 103, 104, 105, 106, 107, 108, 109, 110, 111] := SigModel.Lemmas.C10R.h11_recovered_fixed

/-- the same statement for RecoverWALData BEFORE the repair c10-1 (files of a group in directory order) -/
def RecoverExactOld : Prop :=
  ∀ (cap shard : Nat) (h : List Op), 1 ≤ cap →
    (run cap shard h).seg < 18446744073709551616 → (run cap shard h).blkNum < 18446744073709551616 →
    ∀ k : Key, lookup k (diskAfterRecoveryOld cap shard h) = specBlock cap shard h k

/-- C10.R1-old FALSE before the repair: `…_10.wal` was replayed before `…_2.wal`.  Witness `h11`: 12 appends, each
followed by a roll-over; the block came back as 100,101,110,111,102,… (repaired by c10-1; the suite's detector
sig=walrecover/replay-order stays). -/
theorem recover_exact_old_counterexample : ¬ RecoverExactOld := by
  intro hall
  have h := hall 100 0 SigModel.Lemmas.C10R.h11 (by decide) (by decide +kernel) (by decide +kernel) (dec 0, 0, 0)
  have hc := SigModel.Lemmas.C10R.h11_recovered
  rw [h] at hc
  have := hc.1.symm.trans hc.2
  revert this
  decide

/-- guard of the old partial theorems: at the crash the open block has at most 10 WAL files (indices 0..9) -/
def fewWalFiles (cap shard : Nat) (h : List Op) : Prop := (run cap shard h).walIdx < 10
instance (cap shard : Nat) (h : List Op) : Decidable (fewWalFiles cap shard h) := by unfold fewWalFiles; infer_instance

/-- what held before the repair: exactness under the guard, and a permutation without it -/
theorem recover_exact_old_partial (cap shard : Nat) (h : List Op) (hg : fewWalFiles cap shard h)
    (hs : (run cap shard h).seg < 18446744073709551616) (hb : (run cap shard h).blkNum < 18446744073709551616) (k : Key) :
    lookup k (diskAfterRecoveryOld cap shard h) = specBlock cap shard h k :=
  SigModel.Lemmas.C10R.recover_exact cap shard h hg hs hb k

theorem recover_perm_old (cap shard : Nat) (h : List Op)
    (hs : (run cap shard h).seg < 18446744073709551616) (hb : (run cap shard h).blkNum < 18446744073709551616) (k : Key) :
    (lookup k (diskAfterRecoveryOld cap shard h)).Perm (specBlock cap shard h k) :=
  SigModel.Lemmas.C10R.recover_perm cap shard h hs hb k

/-- C10.R2 `replay_in_order`, FULL strength: the WAL files found after the crash form one group and are replayed in
the order in which the writer created them, however many there are -/
theorem replay_in_order (cap shard : Nat) (h : List Op)
    (hs : (run cap shard h).seg < 18446744073709551616) (hb : (run cap shard h).blkNum < 18446744073709551616)
    (hi : (run cap shard h).walIdx < 18446744073709551616) :
    (groups (dirAfter cap shard h)).map (·.files) = [dirAfter cap shard h] :=
  SigModel.Lemmas.C10R.replay_in_order_full cap shard h hs hb hi

def ReplayInOrderOld : Prop :=
  ∀ (cap shard : Nat) (h : List Op),
    (run cap shard h).seg < 18446744073709551616 → (run cap shard h).blkNum < 18446744073709551616 →
    (groupsOld (dirAfter cap shard h)).map (·.files) = [dirAfter cap shard h]

/-- C10.R2-old FALSE before the repair with more than 10 files of one block -/
theorem replay_in_order_old_counterexample : ¬ ReplayInOrderOld := by
  intro hall
  have h := hall 100 0 SigModel.Lemmas.C10R.h11 (by decide +kernel) (by decide +kernel)
  have hc := SigModel.Lemmas.C10R.h11_replay_order
  have h2 : (groupsOld (dirAfter 100 0 SigModel.Lemmas.C10R.h11)).map (fun g => g.files.map (fun f => String.ofList f.1))
      = ((groupsOld (dirAfter 100 0 SigModel.Lemmas.C10R.h11)).map (·.files)).map (fun fs => fs.map (fun f => String.ofList f.1)) := by
    simp only [List.map_map, Function.comp_def]
  rw [h2, h] at hc
  revert hc
  decide +kernel

theorem replay_in_order_old_partial (cap shard : Nat) (h : List Op) (hg : fewWalFiles cap shard h)
    (hs : (run cap shard h).seg < 18446744073709551616) (hb : (run cap shard h).blkNum < 18446744073709551616) :
    (groupsOld (dirAfter cap shard h)).map (·.files) = [dirAfter cap shard h] :=
  SigModel.Lemmas.C10R.replay_order_of_few cap shard h hg hs hb

/-- C10.R3 `recover_flushes_once_per_block` (the structural fact whose violation is "one flush per WAL FILE"):
for EVERY directory content — any file names, parsable or not — the groups have pairwise different keys, and
recovery performs at most one flushBlock per group.  (`recover` flushes per GROUP by definition; that the code
does so is tied by the correspondence run and by the call-order fact C10R.RecoverWALData.order.) -/
theorem recover_flushes_once_per_block (d : RawDir) :
    ((groups d).map (fun g => g.info.key)).Nodup ∧ (recover d).length ≤ (groups d).length :=
  ⟨SigModel.Lemmas.C10R.groups_keys_nodup_full d, SigModel.Lemmas.C10R.recover_length_le_full d⟩

/-- C10.R3' after a crash of the writer, recovery performs at most ONE flush, and only into the block that was
open at the crash: a block rotated before the crash is never rewritten. -/
theorem recover_only_open_block (cap shard : Nat) (h : List Op)
    (hs : (run cap shard h).seg < 18446744073709551616) (hb : (run cap shard h).blkNum < 18446744073709551616)
    (hi : (run cap shard h).walIdx < 18446744073709551616) :
    (recover (dirAfter cap shard h)).length ≤ 1 ∧
      ∀ kv ∈ recover (dirAfter cap shard h), kv.1 = (dec shard, (run cap shard h).seg, (run cap shard h).blkNum) :=
  SigModel.Lemmas.C10R.recover_only_open_block_full cap shard h hs hb hi

/-- C10.R4 `new_segment_wal_has_new_id`: after EVERY history — in particular right after a segment rotation — the
WAL files that exist are exactly index 0..currentWALIndex of the OPEN (segment, block) of this shard: the first WAL
of a new segment carries the new segment id (dpWalState.segID is set before the new WAL is created). -/
theorem new_segment_wal_has_new_id (cap shard : Nat) (h : List Op) :
    (run cap shard h).files.map (·.1) =
      (List.range ((run cap shard h).walIdx + 1)).map
        (fun i => ({ shard := shard, seg := (run cap shard h).seg, blk := (run cap shard h).blkNum, idx := i } : WalName)) :=
  SigModel.Lemmas.C10R.files_of_open_block cap shard h

/-- non-vacuity of R4: right after a segment rotation the only WAL is (segment 1, block 0, index 0) -/
example : (run 2 0 [.ingest 0 ⟨1, 1, 1⟩ false, .walFlush true, .segRotate]).files.map (·.1)
    = [{ shard := 0, seg := 1, blk := 0, idx := 0 }] := by decide

/-- C10.R5 the file names the writer produces are parsed back by extractWALFileInfo's parser to their shard,
segment and block, the key being `<shard>_<seg>_<blk>`, and by walFileIndex to their WAL index. -/
theorem parseName_render (f : WalName) (hs : f.seg < 18446744073709551616) (hb : f.blk < 18446744073709551616) :
    parseName (render f) = some { mId := dec f.shard, seg := f.seg, blk := f.blk,
                                  key := dec f.shard ++ '_' :: (dec f.seg ++ '_' :: dec f.blk) } :=
  SigModel.Lemmas.C10R.parseName_render f hs hb

theorem walIndexOf_render (f : WalName) (h : f.idx < 18446744073709551616) : walIndexOf (render f) = f.idx :=
  SigModel.Lemmas.C10R.walIndexOf_render f h

/-! ### crash points INSIDE an operation (quantifier of the property: "every instruction boundary of the WAL
append/rotate/recover code").  The steps of an operation are the ones whose completion is visible on disk. -/

/-- block files after: the writer dies inside a block-rotation pass right after `m` completed steps of rotateBlock
(flushBlock ; DeleteWAL of every WAL file of the block, oldest first ; initNewDpWal), restart recovers completely -/
def diskAfterRotateCrash (cap shard : Nat) (h : List Op) (m : Nat) : Disk :=
  let st := blockRotateCrash m (run cap shard h)
  applyFlushes st.durable (recover (rawOf st.files))

/-- … with RecoverWALData as it was before the repair c10-3 -/
def diskAfterRotateCrashOld (cap shard : Nat) (h : List Op) (m : Nat) : Disk :=
  let st := blockRotateCrash m (run cap shard h)
  applyFlushes st.durable (recoverOld (rawOf st.files))

/-- C10.R7 `block_rotation_crash_safe`, FULL strength: wherever rotateBlock is interrupted, every completed datapoint
is still in its block afterwards, in order (the datapoints that were only buffered may or may not be there: the
completed ones are a PREFIX of the block).  Leftover WAL files of a block that is complete on disk form a group
without its first WAL file, which recovery only deletes. -/
theorem block_rotation_crash_safe (cap shard : Nat) (h : List Op) (m : Nat)
    (hs : (run cap shard h).seg < 18446744073709551616) (hb : (run cap shard h).blkNum < 18446744073709551616)
    (hi : (run cap shard h).walIdx < 18446744073709551616) (k : Key) :
    specBlock cap shard h k <+: lookup k (diskAfterRotateCrash cap shard h m) :=
  SigModel.Lemmas.C10R.block_rotation_crash_safe cap shard h m hs hb hi k

def BlockRotationCrashSafeOld : Prop :=
  ∀ (cap shard : Nat) (h : List Op) (m : Nat) (k : Key), specBlock cap shard h k <+: lookup k (diskAfterRotateCrashOld cap shard h m)

/-- C10.R7-old FALSE before the repair: killed after flushBlock and ONE of two DeleteWALs, the complete block file was
rebuilt by recovery from the leftover WAL file alone (repaired by c10-3; detector
sig=walrecover/crash-in-block-rotation/completed-append-lost stays). -/
theorem block_rotation_crash_safe_old_counterexample : ¬ BlockRotationCrashSafeOld := by
  intro hall
  have h := hall 1000 0 SigModel.Lemmas.C10R.hx 2 (dec 0, 0, 0)
  have hc := SigModel.Lemmas.C10R.hx_rotate_crash
  have e : diskAfterRotateCrashOld 1000 0 SigModel.Lemmas.C10R.hx 2 = SigModel.Lemmas.C10R.diskAfterRotateCrashOld 1000 0 SigModel.Lemmas.C10R.hx 2 := rfl
  rw [e, hc.1, hc.2] at h
  revert h
  decide

/-- guard of the old partial theorem: only flushBlock completed (m = 1), or every WAL file of the block is deleted -/
def rotateCrashGuard (cap shard : Nat) (h : List Op) (m : Nat) : Prop := m = 1 ∨ (run cap shard h).files.length < m

theorem rotate_crash_old_partial (cap shard : Nat) (h : List Op) (m : Nat) (hm : rotateCrashGuard cap shard h m)
    (hg : fewWalFiles cap shard h)
    (hs : (run cap shard h).seg < 18446744073709551616) (hb : (run cap shard h).blkNum < 18446744073709551616) (k : Key) :
    specBlock cap shard h k <+: lookup k (diskAfterRotateCrashOld cap shard h m) :=
  SigModel.Lemmas.C10R.rotate_crash_partial cap shard h m hm hg hs hb k

/-- C10.R8 `recovery_crash_safe`, FULL strength: wherever the FIRST restart's RecoverWALData is interrupted (after `m`
completed steps: flushBlock of the group, then deleteWalFile of each file, oldest first), a second restart ends with
exactly the completed datapoints on disk -/
theorem recovery_crash_safe (cap shard : Nat) (h : List Op) (m : Nat)
    (hs : (run cap shard h).seg < 18446744073709551616) (hb : (run cap shard h).blkNum < 18446744073709551616)
    (hi : (run cap shard h).walIdx < 18446744073709551616) (k : Key) :
    lookup k (diskAfterCrashedRecovery m (dirAfter cap shard h) (durableBlocks cap shard h)) = specBlock cap shard h k :=
  SigModel.Lemmas.C10R.recovery_crash_safe cap shard h m hs hb hi k

def RecoveryCrashSafeOld : Prop :=
  ∀ (cap shard : Nat) (h : List Op) (m : Nat) (k : Key), fewWalFiles cap shard h →
    lookup k (diskAfterCrashedRecoveryOld m (dirAfter cap shard h) (durableBlocks cap shard h)) = specBlock cap shard h k

/-- C10.R8-old FALSE before the repair: RecoverWALData deleted each WAL file before the rebuilt block was flushed
(repaired by c10-2; detector sig=walrecover/crash-in-recovery/completed-append-lost stays). -/
theorem recovery_crash_safe_old_counterexample : ¬ RecoveryCrashSafeOld := by
  intro hall
  have h := hall 1000 0 SigModel.Lemmas.C10R.hx 2 (dec 0, 0, 0) (by unfold fewWalFiles; decide +kernel)
  have hc := SigModel.Lemmas.C10R.hx_recover_crash
  have hs := SigModel.Lemmas.C10R.hx_rotate_crash
  rw [hc.2, hs.1] at h
  revert h
  decide

/-- guard of the old partial theorem: the restart died before its first step or after its last one -/
def recoverCrashGuard (cap shard : Nat) (h : List Op) (m : Nat) : Prop :=
  m = 0 ∨ (recoverActionsOld (dirAfter cap shard h)).length ≤ m

theorem recover_crash_old_partial (cap shard : Nat) (h : List Op) (m : Nat) (hm : recoverCrashGuard cap shard h m)
    (hg : fewWalFiles cap shard h)
    (hs : (run cap shard h).seg < 18446744073709551616) (hb : (run cap shard h).blkNum < 18446744073709551616) (k : Key) :
    lookup k (diskAfterCrashedRecoveryOld m (dirAfter cap shard h) (durableBlocks cap shard h)) = specBlock cap shard h k :=
  SigModel.Lemmas.C10R.recover_crash_partial cap shard h m hm hg hs hb k

/-- C10.R9 `recovery_flush_crash_safe`: the first restart dies BETWEEN THE SYSTEM CALLS of the flushBlock inside
RecoverWALData — after `m` of FlushSummary, OpenFile(.tso, O_TRUNC), OpenFile(.tsg, O_TRUNC), Write(.tso), Write(.tsg);
in between the block files are empty or half written (the block holds nothing readable).  The WAL files are deleted
only after flushBlock returned, so the second restart replays them again: it ends with exactly the completed datapoints
on disk, for every `m`.  (A second .mbsu entry for the same block number is harmless: the reader collects block numbers
into a set — pkg/segment/metadata/tsmeta.go.) -/
theorem recovery_flush_crash_safe (cap shard : Nat) (h : List Op) (m : Nat)
    (hs : (run cap shard h).seg < 18446744073709551616) (hb : (run cap shard h).blkNum < 18446744073709551616)
    (hi : (run cap shard h).walIdx < 18446744073709551616) (k : Key) :
    lookup k (diskAfterFlushCrashedRecovery m (dirAfter cap shard h) (durableBlocks cap shard h)) = specBlock cap shard h k :=
  SigModel.Lemmas.C10R.recovery_flush_crash_safe cap shard h m hs hb hi k

/-- … for ANY WAL directory and any block files: the disk after the interrupted flush and a second restart is the disk
of an uninterrupted recovery -/
theorem flush_crashed_recovery (m : Nat) (d : RawDir) (disk : Disk) :
    diskAfterFlushCrashedRecovery m d disk = applyFlushes disk (recover d) :=
  SigModel.Lemmas.C10R.flush_crashed_recovery m d disk

/-- non-vacuity: the flush is really interrupted (m = 3: both block files truncated) and the block comes back -/
example : recoverFlushCrashed 3 (dirAfter 2 0 [.ingest 0 ⟨1, 1, 1⟩ false, .walFlush false]) [] = [((dec 0, 0, 0), [])]
    ∧ diskAfterFlushCrashedRecovery 3 (dirAfter 2 0 [.ingest 0 ⟨1, 1, 1⟩ false, .walFlush false]) [] = [((dec 0, 0, 0), [⟨1, 1, 1⟩])] := by
  decide +kernel

/-! ### metric names (RecoverMNameWALData, repair c10-5) -/

/-- C10.R10 `name_recovery_complete`: RecoverMNameWALData run to its end leaves in the .mnm file of the segment exactly
the names whose name-WAL append had completed and the names the file already held (repair c10-8: a file is there when a
segment rotation died after its FlushMetricNames) — whether or not a block of that segment is on disk (FlushMetricNames
creates the directory) —, leaves the other .mnm files alone and removes the WAL -/
theorem name_recovery_complete (seg : Nat) (ns : List Nat) (mnm : List (Nat × List Nat)) (hne : ns ≠ []) :
    (recoverNames seg { wal := some ns, mnm := mnm }).wal = none ∧
    (∃ out, SigModel.Lemmas.C10R.mnmLookup seg (recoverNames seg { wal := some ns, mnm := mnm }).mnm = some out ∧
      ∀ n, n ∈ out ↔ n ∈ ns ∨ n ∈ (SigModel.Lemmas.C10R.mnmLookup seg mnm).getD []) ∧
    ∀ seg', seg' ≠ seg →
      SigModel.Lemmas.C10R.mnmLookup seg' (recoverNames seg { wal := some ns, mnm := mnm }).mnm = SigModel.Lemmas.C10R.mnmLookup seg' mnm := by
  have h := SigModel.Lemmas.C10R.recoverNames_spec seg ns mnm
  have he : ns.isEmpty = false := by cases ns with | nil => exact absurd rfl hne | cons _ _ => rfl
  rw [he] at h
  refine ⟨h.1, ⟨_, by rw [h.2]; exact SigModel.Lemmas.C10R.mnmLookup_writeMnm seg _ mnm, ?_⟩, ?_⟩
  · intro n
    rw [SigModel.Lemmas.C10R.mem_mergeNames, SigModel.Lemmas.C10R.mnmNamesOf_eq_lookup]
    exact Or.comm
  · intro seg' hs; rw [h.2]; exact SigModel.Lemmas.C10R.mnmLookup_writeMnm_other seg seg' _ mnm hs

/-- C10.R10b `rotation_crash_keeps_names`, FULL strength (repair c10-8): a segment rotation that died between its
FlushMetricNames and the deletion of the name WAL leaves the complete names file (`allNames`) next to a WAL that holds
the names whose append had completed — any sub-collection of them.  Recovery ends with exactly the names of the file:
none lost, none added, for every such pair of lists. -/
theorem rotation_crash_keeps_names (seg : Nat) (walNames allNames : List Nat) (mnm : List (Nat × List Nat))
    (hsub : ∀ n ∈ walNames, n ∈ allNames) :
    SigModel.Lemmas.C10R.mnmLookup seg (recoverNames seg { wal := some walNames, mnm := writeMnm seg allNames mnm }).mnm = some allNames :=
  SigModel.Lemmas.C10R.recoverNames_after_rotation_flush seg walNames allNames mnm hsub

def RotationCrashKeepsNamesNoMerge : Prop :=
  ∀ (seg : Nat) (walNames allNames : List Nat) (mnm : List (Nat × List Nat)), (∀ n ∈ walNames, n ∈ allNames) →
    SigModel.Lemmas.C10R.mnmLookup seg (recoverNamesNoMerge seg { wal := some walNames, mnm := writeMnm seg allNames mnm }).mnm = some allNames

/-- C10.R10b-old FALSE before the repair c10-8: only the WAL names were written over the file.  Names 1 and 2 flushed by
the interrupted rotation, name 1 in the WAL: the file ends with name 1 only (in the real file the bytes of the old,
longer content stayed behind the new one: the reader took them for names or ran out of bounds — detector
sig=walrecover/crash-in-segment-rotation/metric-name-lost and …/names-file-unreadable). -/
theorem rotation_crash_keeps_names_old_counterexample : ¬ RotationCrashKeepsNamesNoMerge := by
  intro hall
  have h := hall 0 [1] [1, 2] [] (by decide)
  revert h
  decide

/-- C10.R11 `name_recovery_crash_safe`, FULL strength: wherever the first restart's RecoverMNameWALData is interrupted
(after `m` completed steps: FlushMetricNames, then deleteWalFile), a second restart ends exactly as an uninterrupted
recovery: no completed metric name is lost -/
theorem name_recovery_crash_safe (m seg : Nat) (nd : NameDisk) :
    namesAfterCrashedRecovery m seg nd = recoverNames seg nd :=
  SigModel.Lemmas.C10R.name_recovery_crash_safe m seg nd

def NameRecoveryCrashSafeOld : Prop :=
  ∀ (m seg : Nat) (nd : NameDisk), namesAfterCrashedRecoveryOld m seg nd = recoverNames seg nd

/-- C10.R11-old FALSE before the repair c10-5: the name WAL was deleted BEFORE FlushMetricNames; a restart that died
in between lost every name of the open segment (detector sig=walrecover/crash-in-name-recovery/metric-name-lost stays) -/
theorem name_recovery_crash_safe_old_counterexample : ¬ NameRecoveryCrashSafeOld := by
  intro hall
  have h := hall 1 0 { wal := some [7], mnm := [] }
  have hc := SigModel.Lemmas.C10R.name_recovery_old_loses
  rw [hc.1, hc.2] at h
  revert h
  decide

/-! ### segment metadata (RecoverMEntryWALData, repair c10-6) -/

/-- C10.R12 `meta_rotation_entry_final`: a segment that has an entry in metricmeta.json when the restart begins — it
was rotated before the crash — keeps exactly that entry as the one the reader sees; an older snapshot of it in the meta
WAL is not replayed behind it -/
theorem meta_rotation_entry_final (s : Sys) (shard seg : Nat)
    (hrot : (s.metaFile.filter (fun x => x.shard == shard && x.seg == seg)) ≠ []) :
    metaEntryOf (sysMetaAfterRecovery s) shard seg = metaEntryOf s.metaFile shard seg :=
  SigModel.Lemmas.C10R.meta_rotation_entry_final s shard seg hrot

/-- C10.R12' a segment without an entry in the file (it was open at the crash) gets the entry of the meta WAL -/
theorem meta_wal_entry_recovered (s : Sys) (shard seg : Nat)
    (hrot : (s.metaFile.filter (fun x => x.shard == shard && x.seg == seg)) = []) :
    metaEntryOf (sysMetaAfterRecovery s) shard seg = metaEntryOf s.metaWal shard seg :=
  SigModel.Lemmas.C10R.meta_wal_entry_recovered s shard seg hrot

def MetaRotationEntryFinalOld : Prop :=
  ∀ (s : Sys) (shard seg : Nat), (s.metaFile.filter (fun x => x.shard == shard && x.seg == seg)) ≠ [] →
    metaEntryOf (sysMetaAfterRecoveryOld s) shard seg = metaEntryOf s.metaFile shard seg

/-- C10.R12-old FALSE before the repair c10-6: ingest, meta-WAL write, more ingest, segment rotation, crash — the older
WAL snapshot (0 blocks, 1 datapoint, the older time range) was appended behind the rotation entry (1 block, 2
datapoints) and won (detector sig=walrecover/meta-entry-older-than-rotation stays) -/
theorem meta_rotation_entry_final_old_counterexample : ¬ MetaRotationEntryFinalOld := by
  intro hall
  have hc := SigModel.Lemmas.C10R.hMeta_old_stale
  have h := hall (sysRun 1000 1 SigModel.Lemmas.C10R.hMeta) 0 0 (by decide +kernel)
  rw [hc.1, hc.2.1] at h
  revert h
  decide

/-- C10.R6 the Oracle's shortcut for generated bulk loads (`ingestMany`) is the step-by-step model -/
theorem ingestMany_eq_foldl (cap name : Nat) (roll : Bool) (ds : List Dp) (st : WState)
    (hne : ds ≠ []) (hroom : st.buf.length + ds.length ≤ cap) :
    (ds.map (fun d => Op.ingest name d roll)).foldl (step cap) st = ingestMany name ds st :=
  SigModel.Lemmas.C10R.ingestMany_eq_foldl cap name roll ds st hne hroom

end SigModel.Props.C10
