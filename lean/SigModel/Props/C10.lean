/-
C10 — Metrics write-ahead log replays a faithful prefix after any crash.
Property theorems only (helper lemmas: SigModel/Lemmas/C10*.lean).

"a log cut at any byte yields a prefix of what was appended, and a damaged log block is rejected
rather than decoded into datapoints that were never written" — for EVERY list of payloads, EVERY
cut position, EVERY prefix of the write-syscall sequence, EVERY single-byte change, and ANY checksum
function `crc` (no burst-detection property of CRC-32 is assumed).
-/
import SigModel.Model.Wal
import SigModel.Lemmas.C10

namespace SigModel.Props.C10
open SigModel.Wal

/-- payloads as the writer produces them: bytes, length fits the uint32 size field, crc is 32 bit -/
def wfPayloads (crc : Bytes → Nat) (ps : List Bytes) : Prop :=
  ∀ p ∈ ps, p.length + 4 < 4294967296 ∧ crc p < 4294967296 ∧ (∀ b ∈ p, b < 256)

/-- C10.1 datapoint block codec: decode ∘ encode = id (timestamps uint32, value bits and tsid uint64) -/
theorem decBlock_encBlock (dps : List Dp)
    (h : ∀ d ∈ dps, d.ts < 4294967296 ∧ d.val < 18446744073709551616 ∧ d.tsid < 18446744073709551616)
    (hn : dps.length < 4294967296) :
    decBlock (encBlock dps) = some dps := by
  sorry

/-- C10.2 an intact file replays every appended block, in order, and ends cleanly -/
theorem readFile_file (crc : Bytes → Nat) (ok : Bytes → Bool) (ps : List Bytes)
    (hwf : wfPayloads crc ps) (hok : ∀ p ∈ ps, ok p = true) :
    readFile crc ok (file crc ps) = some (ps, St.clean) := by
  sorry

/-- number of frames that lie completely within the first `k` bytes after the version byte -/
def completeWithin : List Bytes → Nat → Nat
  | [], _ => 0
  | p :: ps, k => if 8 + p.length ≤ k then 1 + completeWithin ps (k - (8 + p.length)) else 0

/-- C10.3 truncation: a file cut at ANY byte `k ≥ 1` replays exactly the blocks that are completely
inside the cut — a true prefix, never a partial or invented block. -/
theorem truncate_prefix (crc : Bytes → Nat) (ok : Bytes → Bool) (ps : List Bytes) (k : Nat)
    (hwf : wfPayloads crc ps) (hok : ∀ p ∈ ps, ok p = true) (hk : 1 ≤ k) :
    ∃ st, readFile crc ok ((file crc ps).take k) = some (ps.take (completeWithin ps (k - 1)), st) := by
  sorry

/-- … and a file cut before the version byte is not opened at all -/
theorem truncate_zero (crc : Bytes → Nat) (ok : Bytes → Bool) (ps : List Bytes) :
    readFile crc ok ((file crc ps).take 0) = none := by
  sorry

/-- C10.4 crash at any system-call boundary (process-crash model: completed writes persist):
after any prefix of the write sequence, replay yields exactly the blocks whose third write completed. -/
theorem crash_prefix (crc : Bytes → Nat) (ok : Bytes → Bool) (ps : List Bytes) (n : Nat)
    (hwf : wfPayloads crc ps) (hok : ∀ p ∈ ps, ok p = true) (hn : 1 ≤ n) :
    ∃ st, readFile crc ok ((writes crc ps).take n).flatten = some (ps.take ((n - 1) / 3), st) := by
  sorry

/-- byte offset in the file at which frame `m` starts -/
def frameStart (ps : List Bytes) (m : Nat) : Nat := 1 + ((ps.take m).map (fun p => 8 + p.length)).sum

/-- the reader's size and checksum tests pass for the bytes found at offset `off` -/
def acceptsAt (crc : Bytes → Nat) (f : Bytes) (off : Nat) : Bool :=
  match rd32 (f.drop off) with
  | none => false
  | some (size, r1) =>
    decide (4 ≤ size) &&
    match rd32 r1 with
    | none => false
    | some (sum, r2) => decide (size - 4 ≤ r2.length) && decide (crc (r2.take (size - 4)) = sum)

/-- C10.5 corruption: change ANY byte inside frame `m`.  Blocks before `m` are replayed intact, and
nothing from frame `m` on is replayed unless the damaged bytes happen to pass the size+checksum
test again (a checksum accident, named explicitly). -/
theorem corrupt_detected (crc : Bytes → Nat) (ok : Bytes → Bool) (ps : List Bytes) (m i b : Nat)
    (hwf : wfPayloads crc ps) (hok : ∀ p ∈ ps, ok p = true) (hm : m < ps.length)
    (hi : frameStart ps m ≤ i) (hi2 : i < frameStart ps (m + 1))
    (hacc : acceptsAt crc ((file crc ps).set i b) (frameStart ps m) = false) :
    readFile crc ok ((file crc ps).set i b) = some (ps.take m, St.err) := by
  sorry

/-- non-vacuity: a two-block file with a flipped payload byte under real CRC-32 meets the hypotheses -/
example : acceptsAt crc32 ((file crc32 [[1, 2, 3], [4, 5]]).set 10 99) (frameStart [[1, 2, 3], [4, 5]] 0) = false := by
  sorry

end SigModel.Props.C10
